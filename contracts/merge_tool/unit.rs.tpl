//@unit merge_tool
//@serves C15
//@backend verus
// bigwigmerge (CLI), bigtools/src/utils/cli/bigwigmerge.rs: the TOOL around the k-way merge.
//   C15: "The merge tool applies clip, adjust and threshold to that per-base sum, covers every base of every
//         chromosome from position 0, accepts the output names it documents, and its bedGraph and bigWig
//         outputs agree."
// Carved out of the file by whole-text //@presub (see NOTES.md):
//   (1) bigwigmerge:      the `let output_type = match (args.output_type, &output) { .. };` statement
//   (2) get_merged_vals:  the chromosome table loop nest; the fd budget; the two per-file closures (one query
//                         [0, size) per file); the per-chromosome closure (few files / chunked re-merge)
//   (3) <ChromGroupReadImpl as BBIDataSource>::process_to_bbi: the feeding protocol (twin of unit feed)
//   (4) bigwigmerge:      the bedGraph writer loop
//   (5) bigwigmerge:      the input opening loops
// The k-way merge itself: units value_iter / merge_into; the clip/adjust/threshold closures: unit mv_adjust;
// what a query [0, size) returns: units query_glue, bw_values, bw_dec.
use vstd::prelude::*;
// `eprintln!` (diagnostics on stderr): where the message matters (1, 5) a //@sub routes it to `elog!(env, ..)`;
// everywhere else the shadowing macro drops it (stderr is not part of C15).
#[allow(unused_macros)]
macro_rules! eprintln {
    ($f:literal $(, $a:expr)* $(,)?) => { stderr_dropped() };
}
#[allow(unused_macros)]
macro_rules! elog {
    ($e:expr, $f:literal $(, $a:expr)* $(,)?) => { $e.eprint($f, ($(&$a,)*)) };
}
// `format_args!` is kept verbatim: rustc splits the arguments, the text is an uninterpreted function of the
// literal and of the argument tuple (same device as unit avg_rows)
#[allow(unused_macros)]
macro_rules! format_args {
    ($f:literal $(, $a:expr)* $(,)?) => { fmt_args($f, ($(&$a,)*)) };
}
verus! {

// =====================================================================================================
// shared shims (each one is a listed assumption, see NOTES.md)
// =====================================================================================================
/// `String` / `&str` values of the tool (output name, --output-type, chromosome names, file names): opaque,
/// observed through the sequence of its chars
#[verifier::external_body]
pub struct Str { _s: String }
/// `String::to_lowercase`: uninterpreted in general (Unicode tables, context dependent sigma) ...
pub uninterp spec fn lower(s: Seq<char>) -> Seq<char>;
/// ... but an ASCII tail is lower-cased char by char whatever precedes it
pub open spec fn lc(c: char) -> char {
    if 'A' <= c && c <= 'Z' { ((c as int) + 32) as char } else { c }
}
pub open spec fn is_ascii(t: Seq<char>) -> bool { forall|i: int| 0 <= i < t.len() ==> (#[trigger] t[i] as int) < 128 }
pub open spec fn ascii_lower(t: Seq<char>) -> Seq<char> { Seq::new(t.len(), |i: int| lc(t[i])) }
pub open spec fn ends(s: Seq<char>, suffix: Seq<char>) -> bool {
    suffix.len() <= s.len() && s.subrange(s.len() - suffix.len(), s.len() as int) == suffix
}
/// ASSUMED about std: lower-casing leaves nothing but the lower-cased ASCII tail at the end
#[verifier::external_body]
pub proof fn axiom_lower_ascii_tail(p: Seq<char>, t: Seq<char>)
    requires is_ascii(t),
    ensures ends(lower(p + t), ascii_lower(t)),
{}
impl Str {
    pub uninterp spec fn view(&self) -> Seq<char>;
    #[verifier::external_body]
    pub fn to_lowercase(&self) -> (r: Str) ensures r@ == lower(self@) { unimplemented!() }
    /// `str::ends_with(&str)`
    #[verifier::external_body]
    pub fn ends_with(&self, lit: &str) -> (r: bool) ensures r == ends(self@, lit@) { unimplemented!() }
    /// `String == &str` (see the //@sub that routes `X == "lit"` here)
    #[verifier::external_body]
    pub fn eq_lit(&self, lit: &str) -> (r: bool) ensures r == (self@ == lit@) { unimplemented!() }
    #[verifier::external_body]
    pub fn clone(&self) -> (r: Str) ensures r@ == self@ { unimplemented!() }
    #[verifier::external_body]
    pub fn to_owned(&self) -> (r: Str) ensures r@ == self@ { unimplemented!() }
    #[verifier::external_body]
    pub fn to_string(&self) -> (r: Str) ensures r@ == self@ { unimplemented!() }
    #[verifier::external_body]
    pub fn as_str(&self) -> (r: &Str) ensures r@ == self@ { unimplemented!() }
    // what a plausible edit might call: NO postcondition (judged, not rejected)
    #[verifier::external_body] pub fn to_uppercase(&self) -> Str { unimplemented!() }
    #[verifier::external_body] pub fn to_ascii_lowercase(&self) -> Str { unimplemented!() }
    #[verifier::external_body] pub fn to_ascii_uppercase(&self) -> Str { unimplemented!() }
    #[verifier::external_body] pub fn starts_with(&self, lit: &str) -> bool { unimplemented!() }
    #[verifier::external_body] pub fn contains(&self, lit: &str) -> bool { unimplemented!() }
    #[verifier::external_body] pub fn eq_ignore_ascii_case(&self, lit: &str) -> bool { unimplemented!() }
    #[verifier::external_body] pub fn trim(&self) -> &Str { unimplemented!() }
    #[verifier::external_body] pub fn is_empty(&self) -> bool { unimplemented!() }
    #[verifier::external_body] pub fn len(&self) -> usize { unimplemented!() }
}
/// `==` between two names (`String == String`, `String == &str` of a variable): equality of the chars
#[verifier::external_body]
pub fn str_eq(a: &Str, b: &Str) -> (r: bool) ensures r == (a@ == b@) { unimplemented!() }
/// the shadowing `eprintln!` where no environment is threaded through: message dropped
#[verifier::external_body]
pub fn stderr_dropped() { }
/// std::io::Error
#[verifier::external_body] #[derive(Debug)]
pub struct IoErr { _p: u8 }
/// BBIReadError (which one: never inspected here)
#[verifier::external_body] #[derive(Debug)]
pub struct BBIReadError { _p: u8 }
/// `Box<dyn Error>` of `bigwigmerge`
#[verifier::external_body] #[derive(Debug)]
pub struct AnyErr { _p: u8 }

//@extract struct bigtools/src/bbi.rs Value
//@rule R8
//@end
// thiserror attributes dropped; the wrapped foreign errors are opaque
//@extract enum bigtools/src/utils/cli/bigwigmerge.rs MergingValuesError
//@rule R8
//@sub /[ \t]*#\[error\([^\n]*\)\]\n/ => "" min=4
//@sub /#\[from\] BBIReadError/ => BBIReadError min=1
//@sub /#\[from\] io::Error/ => IoErr min=1
//@sub /\(String\)/ => (Str) min=2
//@end

/// the tool's stderr, as far as the contract reads it: one entry per `eprintln!` (format literal; arguments dropped)
#[verifier::external_body]
pub struct Term { _p: u8 }
impl Term {
    pub uninterp spec fn said(&self) -> Seq<Seq<char>>;
    #[verifier::external_body]
    pub fn eprint<T>(&mut self, fmt: &'static str, args: T)
        ensures final(self).said() == old(self).said().push(fmt@)
    { unimplemented!() }
}

// =====================================================================================================
// (1) output format choice
// =====================================================================================================
// the enum is declared inside `bigwigmerge`
//@extract enum bigtools/src/utils/cli/bigwigmerge.rs OutputType
//@rule R8
//@end

/// what the help text of `BigWigMergeArgs` documents (`output`: "the path of the merged output bigwig (if .bw
/// or .bigWig) or bedGraph (if .bedGraph)"; `--output-type`: "Can be `bigwig` or `bedgraph`
/// (case-insensitive). If not specified, will be inferred from the output file ending.")
pub open spec fn documented_bigwig_name(output: Seq<char>) -> bool { ends(output, ".bw"@) || ends(output, ".bigWig"@) }
pub open spec fn documented_bedgraph_name(output: Seq<char>) -> bool { ends(output, ".bedGraph"@) }
/// the endings in any letter case (what the code accepts on top of the documented spellings)
pub open spec fn bigwig_ending(output: Seq<char>) -> bool { ends(lower(output), ".bw"@) || ends(lower(output), ".bigwig"@) }
pub open spec fn bedgraph_ending(output: Seq<char>) -> bool { ends(lower(output), ".bedgraph"@) }
/// the decision, from the documentation: an explicit --output-type decides (any letter case; anything else
/// is refused, whatever the file name); without it the ending of the output name decides
spec fn chosen(output_type: Option<Str>, output: Seq<char>) -> Option<OutputType> {
    match output_type {
        Some(t) => if lower(t@) == "bigwig"@ { Some(OutputType::BigWig) } else if lower(t@) == "bedgraph"@ { Some(OutputType::BedGraph) } else { None },
        None => if bigwig_ending(output) { Some(OutputType::BigWig) } else if bedgraph_ending(output) { Some(OutputType::BedGraph) } else { None },
    }
}
/// the documented spellings are endings in the sense of `bigwig_ending` / `bedgraph_ending`
pub proof fn lemma_documented_names(output: Seq<char>)
    ensures
        documented_bigwig_name(output) ==> bigwig_ending(output),
        documented_bedgraph_name(output) ==> bedgraph_ending(output),
{
    reveal_strlit(".bw"); reveal_strlit(".bigWig"); reveal_strlit(".bedGraph");
    reveal_strlit(".bigwig"); reveal_strlit(".bedgraph");
    if ends(output, ".bw"@) {
        let t = ".bw"@; let p = output.subrange(0, output.len() - t.len());
        assert(p + t =~= output);
        axiom_lower_ascii_tail(p, t);
        assert(ascii_lower(t) =~= ".bw"@);
    }
    if ends(output, ".bigWig"@) {
        let t = ".bigWig"@; let p = output.subrange(0, output.len() - t.len());
        assert(p + t =~= output);
        axiom_lower_ascii_tail(p, t);
        assert(ascii_lower(t) =~= ".bigwig"@);
    }
    if ends(output, ".bedGraph"@) {
        let t = ".bedGraph"@; let p = output.subrange(0, output.len() - t.len());
        assert(p + t =~= output);
        axiom_lower_ascii_tail(p, t);
        assert(ascii_lower(t) =~= ".bedgraph"@);
    }
}
/// the two decisions exclude each other: no name has both endings, the two type words differ
pub proof fn lemma_exclusive(x: Seq<char>)
    ensures
        !((ends(x, ".bw"@) || ends(x, ".bigwig"@)) && ends(x, ".bedgraph"@)),
        "bigwig"@ != "bedgraph"@,
{
    reveal_strlit(".bw"); reveal_strlit(".bigwig"); reveal_strlit(".bedgraph"); reveal_strlit("bigwig"); reveal_strlit("bedgraph");
    assert("bigwig"@.len() == 6 && "bedgraph"@.len() == 8);
    if ends(x, ".bedgraph"@) {
        assert(x[x.len() - 1] == x.subrange(x.len() - 9, x.len() as int)[8]);
        if ends(x, ".bw"@) { assert(x[x.len() - 1] == x.subrange(x.len() - 3, x.len() as int)[2]); }
        if ends(x, ".bigwig"@) { assert(x[x.len() - 1] == x.subrange(x.len() - 7, x.len() as int)[6]); }
    }
}
/// a type given in any letter case of `bigwig` / `bedgraph` lower-cases to that word (ASCII only)
pub proof fn lemma_type_words(t: Seq<char>)
    ensures
        is_ascii(t) && ascii_lower(t) == "bigwig"@ ==> lower(t) == "bigwig"@,
        is_ascii(t) && ascii_lower(t) == "bedgraph"@ ==> lower(t) == "bedgraph"@,
{
    if is_ascii(t) {
        assert(Seq::<char>::empty() + t =~= t);
        axiom_lower_ascii_tail(Seq::<char>::empty(), t);
        // `ends` only pins the tail; the length of lower(t) for an all-ASCII t is part of the assumption below
        axiom_lower_ascii_whole(t);
    }
}
/// ASSUMED about std: an all-ASCII string is lower-cased char by char (nothing is added)
#[verifier::external_body]
pub proof fn axiom_lower_ascii_whole(t: Seq<char>)
    requires is_ascii(t),
    ensures lower(t) == ascii_lower(t),
{}

// The statement is carved out whole; the frame around it (signature, `Ok(Some(output_type))`) is the template's.
// `return Ok(());` of the refusing arm (the tool ends successfully without creating a file) becomes `return Ok(None);`.
//@extract fn bigtools/src/utils/cli/bigwigmerge.rs bigwigmerge
//@presub /\A.*?\n([ \t]*let output_type = match \(args\.output_type, &output\) \{.*?\n    \};)\n.*\Z/ => fn choose_output_type(args: OutArgs, output: Str, env: &mut Term) -> Result<Option<OutputType>, AnyErr> {\n\1\n    Ok(Some(output_type))\n} min=1 count=1
//@sub /return Ok\(\(\)\);/ => return Ok(None); min=0
//@sub /eprintln!\(/ => elog!(env,  min=0
//@sub /([\w\.]+(?:\(\))?) == ("[^"\n]*")/ => \1.eq_lit(\2) min=0
//@sub /([\w\.]+(?:\(\))?) != ("[^"\n]*")/ => !\1.eq_lit(\2) min=0
//@ret r
//@sig
    ensures
        [[L: documented_output_names_accepted]]
        args.output_type is None && documented_bigwig_name(output@) ==> r == Ok::<Option<OutputType>, AnyErr>(Some(OutputType::BigWig)),
        args.output_type is None && documented_bedgraph_name(output@) ==> r == Ok::<Option<OutputType>, AnyErr>(Some(OutputType::BedGraph)),
        [[L: output_type_option_accepted_in_any_letter_case]]
        (args.output_type matches Some(t) && lower(t@) == "bigwig"@) ==> r == Ok::<Option<OutputType>, AnyErr>(Some(OutputType::BigWig)),
        (args.output_type matches Some(t) && lower(t@) == "bedgraph"@) ==> r == Ok::<Option<OutputType>, AnyErr>(Some(OutputType::BedGraph)),
        [[L: decision_is_the_documented_one_nothing_else_accepted]]
        r == Ok::<Option<OutputType>, AnyErr>(chosen(args.output_type, output@)),
        [[L: refusal_prints_the_message_acceptance_prints_nothing]]
        r matches Ok(c) ==> (c is Some ==> final(env).said() == old(env).said())
            && (c is None ==> final(env).said().len() == old(env).said().len() + 1),
//@open
    proof {
        lemma_documented_names(output@);
        lemma_exclusive(lower(output@));
    }
//@end
/// the two arguments the statement reads (`args.output_type`; `args.output` was moved to `output` before)
pub struct OutArgs { pub output_type: Option<Str> }

// =====================================================================================================
// (2) get_merged_vals
// =====================================================================================================
/// `BBIFileInfo` of one input (header + cached chromosome table), cloned per chromosome: opaque token
pub struct Info { pub id: u64 }
impl Clone for Info { fn clone(&self) -> (r: Self) ensures r == *self { Info { id: self.id } } }
impl Copy for Info {}
/// `PathBuf` of one input: opaque token
pub struct Path { pub id: u64 }
impl Clone for Path { fn clone(&self) -> (r: Self) ensures r == *self { Path { id: self.id } } }
impl Copy for Path {}
/// std::fs::File
#[verifier::external_body]
pub struct File { _p: u8 }
impl File {
    pub uninterp spec fn path(&self) -> Path;
    /// `File::open(&path)?` inside the per-file closures: the io::Error -> BBIReadError -> MergingValuesError
    /// conversions of the two `?` are folded into the shim (which error: lost either way)
    #[verifier::external_body]
    pub fn open(p: &Path) -> (r: Result<File, MergingValuesError>)
        ensures r matches Ok(f) ==> f.path() == *p
    { unimplemented!() }
}
//@extract struct bigtools/src/utils/file/reopen.rs ReopenableFile
//@rule R8
//@sub /PathBuf/ => Path min=1
//@end
//@extract struct bigtools/src/bbi/bigwigread.rs BigWigRead
//@rule R8
//@sub /BigWigRead<R>/ => BigWigRead min=1
//@sub /info: BBIFileInfo/ => info: Info min=1
//@sub /read: R,/ => read: ReopenableFile, min=1
//@end

/// one whole-file query: which input (cached info + path, as stored per chromosome), which chromosome NAME, which range
pub ghost struct Query { pub info: Info, pub path: Path, pub chrom: Seq<char>, pub start: u32, pub end: u32 }
/// where a value stream comes from
pub ghost enum Src {
    /// `get_interval_move(chrom, start, end)` on one input
    File(Query),
    /// every value of the merge described, drained completely and replayed in the same order
    Replay(MVDesc),
}
/// one `MergingValues::new(iters, threshold, adjust, clip)`
pub ghost struct MVDesc { pub parts: Seq<Src>, pub threshold: f32, pub adjust: Option<f32>, pub clip: Option<f32> }
/// BigWigIntervalIter<ReopenableFile, BigWigRead<ReopenableFile>>
#[verifier::external_body]
pub struct BigWigIntervalIter { _p: u8 }
impl BigWigIntervalIter { pub uninterp spec fn q(&self) -> Query; }
/// `Box<dyn Iterator<Item = Result<Value, MergingValuesError>> + Send>` / the `impl Iterator` the closures return
#[verifier::external_body]
pub struct Stream { _p: u8 }
impl Stream { pub uninterp spec fn src(&self) -> Src; }
pub open spec fn srcs(v: Seq<Stream>) -> Seq<Src> { Seq::new(v.len(), |i: int| v[i].src()) }
/// `.map(|i| i.map(|r| r.map_err(|e| MergingValuesError::BBIReadError(e))))` on the query result: the same
/// values with the error type wrapped (a //@sub routes the adaptor chain here; the BBIReadError ->
/// MergingValuesError conversion of the following `?` is folded in)
#[verifier::external_body]
pub fn wrap_errs(r: Result<BigWigIntervalIter, BBIReadError>) -> (w: Result<Stream, MergingValuesError>)
    ensures
        r matches Ok(it) ==> (w matches Ok(s) && s.src() == Src::File(it.q())),
        r is Err ==> w is Err,
{ unimplemented!() }
impl BigWigRead {
//@extract method bigtools/src/bbi/bigwigread.rs with_info "^impl<R> BigWigRead<R> where R: BBIFileRead"
//@sub /info: BBIFileInfo/ => info: Info min=1
//@sub /read: R\)/ => read: ReopenableFile) min=1
//@ret r
//@sig
        ensures
            [[L: with_info/pairs_the_cached_info_with_the_reopened_file]]
            r.info == info && r.read == read,
//@end
    /// ASSUMED (proved in unit query_glue, labels bw_get_move/..): the iterator runs on the chromosome with the
    /// requested NAME over exactly the requested range of this reader
    #[verifier::external_body]
    pub fn get_interval_move(self, chrom_name: &Str, start: u32, end: u32) -> (r: Result<BigWigIntervalIter, BBIReadError>)
        ensures r matches Ok(it) ==> it.q() == (Query { info: self.info, path: self.read.path, chrom: chrom_name@, start, end })
    { unimplemented!() }
}

/// the item sequence of the merged stream a description stands for (ASSUMED deterministic: the inputs are files
/// that do not change while the tool runs); what the values are: units value_iter, merge_into, mv_adjust
pub uninterp spec fn mv_out(d: MVDesc) -> Seq<Result<Value, MergingValuesError>>;
/// `Peekable<Box<dyn Iterator<Item = Result<Value, MergingValuesError>> + Send>>`
#[verifier::external_body]
pub struct VIter { _p: u8 }
impl VIter {
    pub uninterp spec fn desc(&self) -> MVDesc;
    pub uninterp spec fn rest(&self) -> Seq<Result<Value, MergingValuesError>>;
    #[verifier::external_body]
    pub fn next(&mut self) -> (r: Option<Result<Value, MergingValuesError>>)
        ensures
            final(self).desc() == old(self).desc(),
            old(self).rest().len() == 0 ==> r is None && final(self).rest() == old(self).rest(),
            old(self).rest().len() > 0 ==> r == Some(old(self).rest()[0]) && final(self).rest() == old(self).rest().drop_first(),
    { unimplemented!() }
    #[verifier::external_body]
    pub fn peek(&mut self) -> (r: Option<&Result<Value, MergingValuesError>>)
        ensures
            final(self).desc() == old(self).desc(), final(self).rest() == old(self).rest(),
            old(self).rest().len() == 0 ==> r is None,
            old(self).rest().len() > 0 ==> (r matches Some(x) && *x == old(self).rest()[0]),
    { unimplemented!() }
}
//@extract struct bigtools/src/utils/cli/bigwigmerge.rs MergingValues
//@rule R8
//@sub /iter: std::iter::Peekable<Box<dyn Iterator<Item = Result<Value, MergingValuesError>> \+ Send>>,/ => pub iter: VIter, min=1
//@end
impl MergingValues {
// signature cut from /repo (parameter order!), body skipped: the closures inside are unit mv_adjust, the merge
// is units value_iter / merge_into.  ASSUMED: the result stands for exactly this call.
//@extract method bigtools/src/utils/cli/bigwigmerge.rs new "impl MergingValues"
//@skipbody
//@sub /new<I: 'static>/ => new min=1
//@sub /iters: Vec<I>/ => iters: Vec<Stream> min=1
//@sub /where\s+I: Iterator<Item = Result<Value, MergingValuesError>> \+ Send,/ => "" min=1
//@ret r
//@sig
        ensures
            r.iter.desc() == (MVDesc { parts: srcs(iters@), threshold, adjust, clip }),
            r.iter.rest() == mv_out(r.iter.desc()),
//@end
}

// ---- crossbeam_channel::unbounded (chunked branch: a partial merge is drained into a channel) ----
#[verifier::external_body] #[derive(Debug)]
pub struct SendErr { _p: u8 }
#[verifier::external_body] #[verifier::reject_recursive_types(T)]
pub struct Sender<T> { _p: core::marker::PhantomData<T> }
#[verifier::external_body] #[verifier::reject_recursive_types(T)]
pub struct Receiver<T> { _p: core::marker::PhantomData<T> }
impl<T> Sender<T> {
    pub uninterp spec fn chan(&self) -> int;
    pub uninterp spec fn sent(&self) -> Seq<T>;
    /// never fails while the receiver is alive (it is: same scope)
    #[verifier::external_body]
    pub fn send(&mut self, v: T) -> (r: Result<(), SendErr>)
        ensures r is Ok, final(self).chan() == old(self).chan(), final(self).sent() == old(self).sent().push(v),
    { unimplemented!() }
}
impl<T> Receiver<T> { pub uninterp spec fn chan(&self) -> int; }
#[verifier::external_body]
pub fn unbounded<T>() -> (r: (Sender<T>, Receiver<T>))
    ensures r.0.chan() == r.1.chan(), r.0.sent() == Seq::<T>::empty(),
{ unimplemented!() }
/// the Ok values of an item sequence, in order
pub open spec fn oks(s: Seq<Result<Value, MergingValuesError>>) -> Seq<Value> { Seq::new(s.len(), |i: int| s[i]->Ok_0) }
pub open spec fn all_ok(s: Seq<Result<Value, MergingValuesError>>) -> bool { forall|i: int| 0 <= i < s.len() ==> (#[trigger] s[i]) is Ok }
/// `Box::new(receiver.into_iter().map(Result::Ok))` at the end of the scope of `sender`: once the sender is
/// dropped the receiver's iterator yields exactly what was sent, each value wrapped in Ok.  The ghost argument
/// names the merge whose complete, error-free output that is (a precondition, so this is no assumption).
#[verifier::external_body]
pub fn replay(sender: Sender<Value>, receiver: Receiver<Value>, Ghost(d): Ghost<MVDesc>) -> (s: Stream)
    requires sender.chan() == receiver.chan(), all_ok(mv_out(d)), sender.sent() == oks(mv_out(d)),
    ensures s.src() == Src::Replay(d),
{ unimplemented!() }
/// `merges.into_iter().peekable()` over the streams of one level
#[verifier::external_body]
pub struct PeekStreams { _p: u8 }
impl PeekStreams {
    pub uninterp spec fn rest(&self) -> Seq<Src>;
    #[verifier::external_body]
    pub fn of(v: Vec<Stream>) -> (r: PeekStreams) ensures r.rest() == srcs(v@) { unimplemented!() }
    #[verifier::external_body]
    pub fn peek(&self) -> (r: Option<&Stream>)
        ensures r is Some <==> self.rest().len() > 0, r matches Some(s) ==> s.src() == self.rest()[0],
    { unimplemented!() }
    /// `vals.by_ref().take(n).collect::<Vec<_>>()`: the next min(n, remaining) streams, in order
    #[verifier::external_body]
    pub fn take_n(&mut self, n: usize) -> (r: Vec<Stream>)
        ensures
            r@.len() == (if n as int <= old(self).rest().len() { n as int } else { old(self).rest().len() as int }),
            srcs(r@) == old(self).rest().subrange(0, r@.len() as int),
            final(self).rest() == old(self).rest().subrange(r@.len() as int, old(self).rest().len() as int),
    { unimplemented!() }
}

// ---- the queries a chromosome must be built from (C15: "covers every base of every chromosome from position 0") ----
/// one query per file that has the chromosome, in file order, over [start, end) of that chromosome
pub open spec fn queries(bws: Seq<(Info, Path)>, chrom: Seq<char>, start: u32, end: u32) -> Seq<Query> {
    Seq::new(bws.len(), |i: int| Query { info: bws[i].0, path: bws[i].1, chrom, start, end })
}
pub open spec fn file_srcs(qs: Seq<Query>) -> Seq<Src> { Seq::new(qs.len(), |i: int| Src::File(qs[i])) }
pub open spec fn cat(ss: Seq<Seq<Query>>) -> Seq<Query>
    decreases ss.len()
{
    if ss.len() == 0 { Seq::empty() } else { cat(ss.drop_last()) + ss.last() }
}
/// the file queries a stream is ultimately made of, left to right
pub open spec fn leaves(s: Src) -> Seq<Query>
    decreases s
{
    match s {
        Src::File(q) => seq![q],
        Src::Replay(d) => cat(Seq::new(d.parts.len(), |i: int| if 0 <= i < d.parts.len() { leaves(d.parts[i]) } else { Seq::empty() })),
    }
}
pub open spec fn flat(ps: Seq<Src>) -> Seq<Query> { cat(Seq::new(ps.len(), |i: int| leaves(ps[i]))) }
/// a partial merge must be a plain per-base sum: no clip, no adjustment (and a threshold that drops nothing)
pub uninterp spec fn keeps_everything(threshold: f32) -> bool;
pub open spec fn plain(s: Src) -> bool
    decreases s
{
    match s {
        Src::File(q) => true,
        Src::Replay(d) => d.adjust is None && d.clip is None && keeps_everything(d.threshold)
            && forall|i: int| 0 <= i < d.parts.len() ==> plain(#[trigger] d.parts[i]),
    }
}
pub open spec fn all_plain(ps: Seq<Src>) -> bool { forall|i: int| 0 <= i < ps.len() ==> plain(#[trigger] ps[i]) }
pub proof fn lemma_flat_push(ps: Seq<Src>, s: Src)
    ensures flat(ps.push(s)) == flat(ps) + leaves(s)
{
    let a = Seq::new(ps.push(s).len(), |i: int| leaves(ps.push(s)[i]));
    assert(a.drop_last() =~= Seq::new(ps.len(), |i: int| leaves(ps[i])));
    assert(a.last() == leaves(s));
}
pub proof fn lemma_flat_concat(a: Seq<Src>, b: Seq<Src>)
    ensures flat(a + b) == flat(a) + flat(b)
    decreases b.len()
{
    if b.len() == 0 {
        assert(a + b =~= a);
        assert(flat(b) =~= Seq::<Query>::empty());
        assert(flat(a) + flat(b) =~= flat(a));
    } else {
        lemma_flat_concat(a, b.drop_last());
        assert((a + b.drop_last()).push(b.last()) =~= a + b);
        lemma_flat_push(a + b.drop_last(), b.last());
        assert(b.drop_last().push(b.last()) =~= b);
        lemma_flat_push(b.drop_last(), b.last());
        assert((flat(a) + flat(b.drop_last())) + leaves(b.last()) =~= flat(a) + (flat(b.drop_last()) + leaves(b.last())));
    }
}
pub proof fn lemma_flat_files(qs: Seq<Query>)
    ensures flat(file_srcs(qs)) == qs
    decreases qs.len()
{
    if qs.len() == 0 {
        assert(flat(file_srcs(qs)) =~= qs);
    } else {
        lemma_flat_files(qs.drop_last());
        assert(file_srcs(qs.drop_last()).push(Src::File(qs.last())) =~= file_srcs(qs));
        lemma_flat_push(file_srcs(qs.drop_last()), Src::File(qs.last()));
        assert(qs.drop_last() + seq![qs.last()] =~= qs);
    }
}
pub proof fn lemma_leaves_replay(d: MVDesc)
    ensures leaves(Src::Replay(d)) == flat(d.parts)
{
    let a = Seq::new(d.parts.len(), |i: int| if 0 <= i < d.parts.len() { leaves(d.parts[i]) } else { Seq::empty() });
    let b = Seq::new(d.parts.len(), |i: int| leaves(d.parts[i]));
    assert(a =~= b);
    assert(leaves(Src::Replay(d)) == cat(a));
    assert(flat(d.parts) == cat(b));
}

// (2b-i) the two per-file closures `|b| { .. }` (chunked branch first, few-files branch second), carved into
// ONE function: `many` selects the body.  Frame (signature, `if many { .. } else { .. }`) is the template's.
//@extract fn bigtools/src/utils/cli/bigwigmerge.rs get_merged_vals
//@presub /\A.*?\.map\(\|b\| \{(.*?)\n[ \t]*\}\)\s*\.collect::<Result<Vec<_>, BBIReadError>>\(\)\?;.*?\.map\(\|b\| \{(.*?)\n[ \t]*\}\)\s*\.collect::<Result<Vec<_>, _>>\(\)\?;.*\Z/ => fn open_stream(b: (Info, Path), chrom: &Str, size: u32, many: bool) -> Result<Stream, MergingValuesError> {\n    if many {\1\n    } else {\2\n    }\n} min=1 count=1
//@sub /(\w+\.get_interval_move\([^()]*\))\.map\(\|i\| i\.map\(\|r\| r\.map_err\(\|e\| MergingValuesError::BBIReadError\(e\)\)\)\)/ => wrap_errs(\1) min=0
//@sub /Box::new\((\w+)\) as Box<_>/ => \1 min=0
//@ret r
//@sig
    ensures
        [[L: queries_start_at_base_0]]
        r matches Ok(s) ==> s.src() is File && s.src()->File_0.start == 0,
        [[L: each_file_is_queried_on_this_chromosome_up_to_its_size]]
        r matches Ok(s) ==> s.src() == Src::File(Query { info: b.0, path: b.1, chrom: chrom@, start: s.src()->File_0.start, end: size }),
//@end

/// `bws.into_iter().map(|b| BODY).collect::<Result<Vec<_>, _>>()?` with BODY = `open_stream(b, .., many)`:
/// the closure is applied to the files in order, the first Err ends the collection and is the result
pub fn collect_streams(bws: &Vec<(Info, Path)>, chrom: &Str, size: u32, many: bool) -> (r: Result<Vec<Stream>, MergingValuesError>)
    ensures
        r matches Ok(v) ==> v@.len() == bws@.len() && forall|i: int| 0 <= i < v@.len() ==>
            (#[trigger] v@[i]).src() == Src::File(Query { info: bws@[i].0, path: bws@[i].1, chrom: chrom@, start: 0, end: size }),
{
    let mut out: Vec<Stream> = Vec::new();
    let mut k: usize = 0;
    while k < bws.len()
        invariant
            k <= bws.len(), out@.len() == k,
            forall|i: int| 0 <= i < k ==> (#[trigger] out@[i]).src() == Src::File(Query { info: bws@[i].0, path: bws@[i].1, chrom: chrom@, start: 0, end: size }),
        decreases bws.len() - k,
    {
        match open_stream(bws[k], chrom, size, many) {
            Ok(s) => { out.push(s); }
            Err(e) => { return Err(e); }
        }
        k = k + 1;
    }
    Ok(out)
}

} // verus!
fn main() {}
