#!/bin/bash
# confirm a C20 seed: suite passes with patch; demo (appended to pybigtools/src/lib.rs) fails with, passes without
SEED=$1; NAME=$2; WT=/tmp/seedconf20
[ -d $WT ] || git -C /repo worktree add --detach $WT HEAD >/dev/null 2>&1
cd $WT && git checkout -q -- . 
export CARGO_NET_OFFLINE=true
git apply --check $SEED/patch.diff || { echo "$NAME: PATCH-DOES-NOT-APPLY"; exit 3; }
git apply $SEED/patch.diff
timeout 1500 cargo test --workspace --no-fail-fast --offline > /tmp/c20-suite.txt 2>&1; SRC=$?
SF=$(grep -c "^test result: FAILED\|^error" /tmp/c20-suite.txt)
cat $SEED/demo_test.rs >> pybigtools/src/lib.rs
timeout 900 cargo test --offline -p pybigtools demo > /tmp/c20-with.txt 2>&1; W=$?
git checkout -q -- .
cat $SEED/demo_test.rs >> pybigtools/src/lib.rs
timeout 900 cargo test --offline -p pybigtools demo > /tmp/c20-without.txt 2>&1; WO=$?
git checkout -q -- .
echo "$NAME: suite_rc=$SRC fail_lines=$SF demo_with=$W demo_without=$WO"
if [ $SRC = 0 ] && [ $SF = 0 ] && [ $W != 0 ] && [ $WO = 0 ]; then
  mkdir -p /verif/seeded/$NAME; cp $SEED/patch.diff $SEED/demo_test.rs /verif/seeded/$NAME/
  python3 - "$SEED" "$NAME" <<'PY'
import json,sys,subprocess
seed,name=sys.argv[1],sys.argv[2]
m=json.load(open(seed+'/meta.json'))
out={"property":m.get("property"),"what":m.get("what"),"needs":m.get("needs"),"files":m.get("files"),"author_ran":m.get("ran"),
 "confirmed":{"repo_head":subprocess.check_output(['git','-C','/repo','rev-parse','--short','HEAD']).decode().strip(),
  "ran":["git apply patch.diff in a scratch worktree of /repo HEAD; cargo test --workspace --no-fail-fast --offline -> exit 0, no FAILED",
         "cat demo_test.rs >> pybigtools/src/lib.rs; cargo test --offline -p pybigtools demo -> non-zero with the change, exit 0 without it"],
  "demo_with_patch_tail":open('/tmp/c20-with.txt').read()[-1200:]}}
json.dump(out,open('/verif/seeded/%s/meta.json'%name,'w'),indent=1)
PY
  echo "$NAME: CONFIRMED"
else echo "$NAME: NOT-CONFIRMED"; fi
