"""Closed table of mechanical rewrites applied to text cut from /repo (DESIGN §3.2).

Every rule is a function text -> (text, hits).  Rules work on the cut text only
and use the masked view (comments/strings blanked) to find their targets, so a
token inside a string or comment is never rewritten.  What each rule drops or
assumes is stated in RULE_DOC and copied into the evidence of every run.
"""
import re
from rustlex import mask, match_close

RULE_DOC = {
    'R1': 'async fn -> fn; `.await` removed (task suspension points dropped; body treated as running to completion)',
    'R2': 'spawn+send hand-off `let handle = runtime.spawn(ENC(args)); CH.send(handle).await.expect(..);` -> `CH.emit_ENC(args);` (tokio task + mpsc channel replaced by an external_body sink that appends args to a ghost log)',
    'R3': 'byteorder/io writer calls write_uN::<NativeEndian>/write_all/tell/seek -> put_uN/put_bytes/pos/seek_* on prelude type Sink (assumes NativeEndian == LittleEndian)',
    'R4': 'uN::from_{le,be}_bytes([..]) -> uN_from_{le,be}([..]); X[a..b].try_into().unwrap() -> arrN(&X, a) (prelude helpers with arithmetic decode contracts)',
    'R5': '`P op= E;` -> `P = P op (E);` for + - * (identical semantics on primitive numerics)',
    'R6': 'debug_assert!/assert!/assert_eq!/assert_ne! -> assert(..) proof obligations; panic!/unreachable!/unimplemented! -> vpanic() which requires false (messages dropped)',
    'R7': 'iterator sugar: `for (i, x) in V.iter().enumerate()`, `for x in V.iter()`, `for x in V` -> index loop with `let x = &V[i];`; a trailing `.skip(K)`, `.take(K)`, `.skip(K).take(N)` or `.rev()` on those headers changes the index range accordingly (so that an edit adding one is judged by the loop invariants)',
    'R8': 'pub(crate)/pub(super) -> pub; non-Verus attributes (#[inline], #[allow], #[cfg_attr], serde derives) and doc comments stripped',
    'R9': 'outline: body of loop k of f becomes its own fn (the enclosing iteration is dropped)',
    'R10': 'closure lift: `let NAME = move |typed params| { BODY };` -> fn NAME(typed params) { BODY } (closure captures nothing)',
    'R11': 'unit-specific type/identifier substitution listed in the unit template (real type replaced by a prelude shim whose contract is assumed)',
    'R12': 'std::cmp::{min,max}(a,b) -> min_T/max_T verified helpers; std::mem::take -> take_vec; float a.min(b)/a.max(b) -> fmin/fmax (uninterpreted)',
    'R12c': 'f64::{MAX,MIN,MIN_POSITIVE,NAN,INFINITY,NEG_INFINITY,EPSILON} -> fconst_f64_*() getters with distinct uninterpreted spec constants (_shared/floats.rs)',
    'R13': 'lock-and-wait idiom on (Mutex, Condvar) -> single call on prelude Closed cell (blocking not modelled)',
    'R14': 'identifier hygiene for Verus keywords',
    'R16': 'destructuring assignment `(a, _, b) = EXPR;` (statement, not `let`) -> `let tmp__N = EXPR; a = tmp__N.0; b = tmp__N.2;` (Verus has no destructuring assignment; identical semantics: EXPR is evaluated once, components are assigned left to right, `_` components are dropped)',
    'R15': 'closure combinators on Option: `X.map_or(D, |v| E)` -> `(match X { Some(v) => E, None => D })`; `X.map(|v| E).unwrap_or(D)` likewise; `X.is_some_and(|v| E)` -> `(match X { Some(v) => E, None => false })` (identical semantics; D is evaluated lazily instead of eagerly - D must be side-effect free, which holds for the literals/variables it is applied to: anything else is left alone)',
}


def _split_top_commas(text, masked):
    parts, d, last = [], 0, 0
    for i, ch in enumerate(masked):
        if ch in '([{':
            d += 1
        elif ch in ')]}':
            d -= 1
        elif ch == ',' and d == 0:
            parts.append(text[last:i])
            last = i + 1
    parts.append(text[last:])
    return parts


def r1_async(text):
    m = mask(text)
    hits = 0
    out = []
    last = 0
    for mt in re.finditer(r'\basync\s+fn\b|\s*\.await\b', m):
        out.append(text[last:mt.start()])
        if mt.group(0).lstrip().startswith('.await'):
            out.append('')
        else:
            out.append('fn')
        last = mt.end()
        hits += 1
    out.append(text[last:])
    return ''.join(out), hits


_R2 = re.compile(
    r'let\s+handle(?:\s*:[^=;]*?)?\s*=\s*runtime\s*\.\s*spawn\(\s*(\w+)\(', re.S)


def r2_handoff(text):
    hits = 0
    while True:
        m = mask(text)
        mt = _R2.search(m)
        if not mt:
            break
        enc = mt.group(1)
        inner_open = mt.end() - 1
        inner_close = match_close(m, inner_open)
        args = text[inner_open + 1:inner_close]
        # expect `));` then CH.send(handle).await.expect("..");
        tail = re.compile(r'\s*\)\s*;\s*([A-Za-z_][\w\.]*)\s*\.send\(handle\)\s*\.await\s*\.expect\(\s*"[^"]*"\s*\)\s*;', re.S)
        t = tail.match(text, inner_close + 1)
        if not t:
            break
        ch = t.group(1)
        text = text[:mt.start()] + '%s.emit_%s(%s);' % (ch, enc, ' '.join(args.split())) + text[t.end():]
        hits += 1
    return text, hits


def r3_writer(text):
    hits = 0
    m = mask(text)
    subs = [
        (r'\.write_(u8|u16|u32|u64|f32|f64)::<NativeEndian>\(', r'.put_\1('),
        (r'\.write_u8\(', '.put_u8('),
        (r'\.write_all\(', '.put_bytes('),
        (r'\.tell\(\)', '.pos()'),
        (r'\.seek\((?:io::)?SeekFrom::Start\(', '.seek_start(('),
        (r'\.seek\((?:io::)?SeekFrom::End\(', '.seek_end(('),
        (r'\.seek\((?:io::)?SeekFrom::Current\(', '.seek_cur(('),
    ]
    for pat, rep in subs:
        new_parts, last = [], 0
        for mt in re.finditer(pat, m):
            new_parts.append(text[last:mt.start()])
            new_parts.append(mt.expand(rep))
            last = mt.end()
            hits += 1
        new_parts.append(text[last:])
        text = ''.join(new_parts)
        m = mask(text)
    return text, hits


def r5_compound(text):
    """`LHS op= RHS;` -> `LHS = LHS op (RHS);`"""
    hits = 0
    while True:
        m = mask(text)
        mt = re.search(r'(?<![<>=!+\-*/%&|^])(\+|-|\*)=(?!=)', m)
        if not mt:
            break
        # LHS: back to start of statement
        s = mt.start()
        k = s - 1
        d = 0
        while k >= 0:
            ch = m[k]
            if ch in ')]':
                d += 1
            elif ch in '([':
                if d == 0:
                    break
                d -= 1
            elif ch in ';{}' and d == 0:
                break
            k -= 1
        lhs_start = k + 1
        lhs = text[lhs_start:s].strip()
        # RHS: forward to ';' at depth 0
        e = mt.end()
        d = 0
        while e < len(m):
            ch = m[e]
            if ch in '([{':
                d += 1
            elif ch in ')]}':
                d -= 1
            elif ch == ';' and d == 0:
                break
            e += 1
        rhs = text[mt.end():e].strip()
        lead = text[lhs_start:s]
        ws = lead[:len(lead) - len(lead.lstrip())]
        text = text[:lhs_start] + ws + '%s = %s %s (%s)' % (lhs, lhs, mt.group(1), rhs) + text[e:]
        hits += 1
    return text, hits


_ASSERT_MACROS = ['debug_assert_ne', 'debug_assert_eq', 'debug_assert', 'assert_ne', 'assert_eq', 'assert']
_PANIC_MACROS = ['panic', 'unreachable', 'unimplemented', 'todo']


def r6_asserts(text):
    hits = 0
    while True:
        m = mask(text)
        mt = re.search(r'\b(' + '|'.join(_ASSERT_MACROS + _PANIC_MACROS) + r')!\s*\(', m)
        if not mt:
            break
        name = mt.group(1)
        ob = mt.end() - 1
        cb = match_close(m, ob)
        inner, inner_m = text[ob + 1:cb], m[ob + 1:cb]
        if name in _PANIC_MACROS:
            rep = 'vpanic()'
        else:
            parts = [p.strip() for p in _split_top_commas(inner, inner_m)]
            if name.endswith('_ne'):
                rep = 'assert((%s) != (%s))' % (parts[0], parts[1])
            elif name.endswith('_eq'):
                rep = 'assert((%s) == (%s))' % (parts[0], parts[1])
            else:
                rep = 'assert(%s)' % parts[0]
        text = text[:mt.start()] + rep + text[cb + 1:]
        hits += 1
    return text, hits


def r7_iter(text):
    hits = 0
    cnt = [0]

    def fresh():
        cnt[0] += 1
        return 'i__%d' % cnt[0]
    while True:
        m = mask(text)
        mt = re.search(r'\bfor\s+\(\s*(\w+)\s*,\s*(\w+)\s*\)\s+in\s+([\w\.]+)\.iter\(\)\.enumerate\(\)\s*\{', m)
        if mt:
            i, x, v = mt.group(1), mt.group(2), mt.group(3)
            text = text[:mt.start()] + 'for %s in 0..%s.len() { let %s = &%s[%s];' % (i, v, x, v, i) + text[mt.end():]
            hits += 1
            continue
        # the same two forms with a trailing `.skip(K)`, `.take(K)`, `.skip(K).take(N)` or `.rev()` (an edit may add
        # one to a loop header): the index range changes accordingly, so the loop's invariants judge the edit
        mt = re.search(r'\bfor\s+(?:\(\s*(\w+)\s*,\s*(\w+)\s*\)|(\w+))\s+in\s+([\w\.]+)\.iter\(\)(\.enumerate\(\))?((?:\.(?:skip|take)\(\s*[\w\.]+\s*\)|\.rev\(\)){1,2})\s*\{', m)
        if mt and ((mt.group(1) is not None) == (mt.group(5) is not None)):
            v = mt.group(4)
            ad = re.findall(r'\.(skip|take|rev)\(\s*([\w\.]*)\s*\)', text[mt.start(6):mt.end(6)])
            shape = [a for a, _ in ad]
            ln = '%s.len()' % v
            clamp = lambda e: '(if (%s) as usize <= %s { (%s) as usize } else { %s })' % (e, ln, e, ln)
            lo, hi, rev = '0', ln, False
            ok = True
            if shape == ['skip']:
                lo = clamp(ad[0][1])
            elif shape == ['take']:
                hi = clamp(ad[0][1])
            elif shape == ['skip', 'take']:
                lo = clamp(ad[0][1])
                hi = '(if (%s) as usize <= %s - %s { %s + (%s) as usize } else { %s })' % (ad[1][1], ln, lo, lo, ad[1][1], ln)
            elif shape == ['rev']:
                rev = True
            else:
                ok = False
            if ok:
                if mt.group(1) is not None:
                    i, x = mt.group(1), mt.group(2)
                else:
                    i, x = fresh(), mt.group(3)
                elem = '&%s[%s]' % (v, i) if not rev else '&%s[%s - 1 - %s]' % (v, ln, i)
                text = text[:mt.start()] + 'for %s in %s..%s { let %s = %s;' % (i, lo, hi, x, elem) + text[mt.end():]
                hits += 1
                continue
        mt = re.search(r'\bfor\s+(\w+)\s+in\s+([\w\.]+)\.iter\(\)\s*\{', m)
        if mt:
            x, v = mt.group(1), mt.group(2)
            i = fresh()
            text = text[:mt.start()] + 'for %s in 0..%s.len() { let %s = &%s[%s];' % (i, v, x, v, i) + text[mt.end():]
            hits += 1
            continue
        mt = re.search(r'\bfor\s+(\w+)\s+in\s+&?([A-Za-z_][\w\.]*)\s*\{', m)
        if mt and not re.match(r'\d', mt.group(2)):
            x, v = mt.group(1), mt.group(2)
            i = fresh()
            text = text[:mt.start()] + 'for %s in 0..%s.len() { let %s = &%s[%s];' % (i, v, x, v, i) + text[mt.end():]
            hits += 1
            continue
        break
    return text, hits


_KEEP_DERIVES = {'Copy', 'Clone', 'Debug', 'PartialEq', 'Eq'}


def r8_vis_attrs(text):
    hits = 0
    lines = []
    for line in text.split('\n'):
        s = line.strip()
        if s.startswith('///') or s.startswith('//!'):
            hits += 1
            continue
        md = re.match(r'#\[derive\((.*)\)\]\s*$', s)
        if md:
            keep = [d.strip() for d in md.group(1).split(',') if d.strip() in _KEEP_DERIVES]
            # Debug/PartialEq derive are dropped too: Verus only needs Copy/Clone
            keep = [d for d in keep if d in ('Copy', 'Clone')]
            hits += 1
            if keep:
                lines.append(line[:len(line) - len(line.lstrip())] + '#[derive(%s)]' % ', '.join(keep))
            continue
        if re.match(r'#\[(inline|allow|cfg_attr|must_use|doc|serde)\b.*\]\s*$', s):
            hits += 1
            continue
        lines.append(line)
    text = '\n'.join(lines)
    m = mask(text)
    out, last = [], 0
    for mt in re.finditer(r'\bpub\s*\(\s*(crate|super)\s*\)', m):
        out.append(text[last:mt.start()])
        out.append('pub')
        last = mt.end()
        hits += 1
    out.append(text[last:])
    return ''.join(out), hits


def r12_minmax(text, ty='u32'):
    hits = 0
    m = mask(text)
    subs = [
        (r'\bstd::cmp::min\(', 'min_%s(' % ty),
        (r'\bstd::cmp::max\(', 'max_%s(' % ty),
        (r'\bstd::mem::take\(', 'take_vec('),
    ]
    for pat, rep in subs:
        parts, last = [], 0
        for mt in re.finditer(pat, m):
            parts.append(text[last:mt.start()])
            parts.append(rep)
            last = mt.end()
            hits += 1
        parts.append(text[last:])
        text = ''.join(parts)
        m = mask(text)
    return text, hits


def r12f_float_minmax(text):
    """`A.min(B)` / `A.max(B)` -> fmin(A, B) / fmax(A, B) where A is a field path / identifier."""
    hits = 0
    while True:
        m = mask(text)
        mt = re.search(r'([A-Za-z_][\w\.]*)\.(min|max)\(', m)
        if not mt:
            break
        ob = mt.end() - 1
        cb = match_close(m, ob)
        text = text[:mt.start()] + 'f%s(%s, %s)' % (mt.group(2), mt.group(1), text[ob + 1:cb]) + text[cb + 1:]
        hits += 1
    return text, hits


def r4_bytes(text):
    hits = 0
    m = mask(text)
    parts, last = [], 0
    for mt in re.finditer(r'\b(u16|u32|u64|f32|f64)::from_(le|be)_bytes\(', m):
        parts.append(text[last:mt.start()])
        parts.append('%s_from_%s(' % (mt.group(1), mt.group(2)))
        last = mt.end()
        hits += 1
    parts.append(text[last:])
    text = ''.join(parts)
    return text, hits


def r12c_float_consts(text):
    hits = 0
    m = mask(text)
    parts, last = [], 0
    for mt in re.finditer(r'\b(?:std::|core::)?f64::(MAX|MIN_POSITIVE|MIN|NAN|INFINITY|NEG_INFINITY|EPSILON)\b', m):
        parts.append(text[last:mt.start()])
        parts.append('fconst_f64_%s()' % mt.group(1).lower())
        last = mt.end()
        hits += 1
    parts.append(text[last:])
    return ''.join(parts), hits


def r14_hygiene(text):
    hits = 0
    for kw in ('real', 'spec', 'proof', 'tracked', 'ghost', 'exec', 'open', 'closed'):
        m = mask(text)
        parts, last = [], 0
        for mt in re.finditer(r'(?<![\w\.])' + kw + r'\b(?!\s*(?:!|::|\())', m):
            parts.append(text[last:mt.start()])
            parts.append(kw + '_')
            last = mt.end()
            hits += 1
        parts.append(text[last:])
        text = ''.join(parts)
    return text, hits


def r15_option_closures(text):
    """X.map_or(D, |v| E) / X.map(|v| E).unwrap_or(D) / X.is_some_and(|v| E) -> match.  X is a path/field/call chain
    without closures; D must be a literal, identifier or field path (side-effect free); E is any expression (the
    closure body up to the closing parenthesis).  Anything that does not fit is left untouched."""
    hits = 0
    simple = re.compile(r"^\s*(?:-?[\w\.:']+(?:\(\))?|\"[^\"]*\")\s*$")
    for _ in range(50):
        m = mask(text)
        mt = None
        for cand in re.finditer(r'\.(map_or|is_some_and|map)\(', m):
            name = cand.group(1)
            ob = cand.end() - 1
            try:
                cb = match_close(m, ob)
            except Exception:
                continue
            inner_m, inner = m[ob + 1:cb], text[ob + 1:cb]
            args = _split_top_commas(inner, inner_m)
            d = None
            if name == 'map_or':
                if len(args) != 2:
                    continue
                d, clo = args[0], args[1]
                end = cb + 1
            elif name == 'is_some_and':
                if len(args) != 1:
                    continue
                d, clo = 'false', args[0]
                end = cb + 1
            else:
                if len(args) != 1:
                    continue
                clo = args[0]
                tail = re.match(r'\s*\.unwrap_or\(', m[cb + 1:])
                if not tail:
                    continue
                ob2 = cb + 1 + tail.end() - 1
                try:
                    cb2 = match_close(m, ob2)
                except Exception:
                    continue
                d = text[ob2 + 1:cb2]
                end = cb2 + 1
            cm = re.match(r'\s*(?:move\s+)?\|\s*(&?\s*(?:mut\s+)?\w+|_|\([\w\s,&]*\))\s*\|\s*(.*)$', clo, re.S)
            if not cm or not simple.match(d):
                continue
            # receiver: walk back over a chain of idents, `.`, `::`, `()`/`(...)`/`[...]` groups and `?`
            k = cand.start()
            while k > 0:
                ch = m[k - 1]
                if ch.isalnum() or ch in '_.:?':
                    k -= 1
                elif ch in ')]':
                    depth, j = 0, k - 1
                    while j >= 0:
                        if m[j] in ')]':
                            depth += 1
                        elif m[j] in '([':
                            depth -= 1
                            if depth == 0:
                                break
                        j -= 1
                    if j < 0 or '|' in m[j:k]:
                        break
                    k = j
                else:
                    break
            recv = text[k:cand.start()]
            if not recv.strip() or recv.strip()[0] in '.?:':
                continue
            body = cm.group(2).strip()
            if body.startswith('{') and body.endswith('}'):
                body = body
            pat = cm.group(1).strip()
            rep = '(match %s { Some(%s) => %s, None => %s })' % (recv.strip(), pat, body, d.strip())
            mt = (k, end, rep)
            break
        if not mt:
            break
        text = text[:mt[0]] + mt[2] + text[mt[1]:]
        hits += 1
    return text, hits


def r16_destructuring_assignment(text):
    """`(a, _, b) = EXPR;` at statement level (not `let (..) = ..`) -> temp + field assignments."""
    hits = 0
    for n in range(50):
        m = mask(text)
        mt = None
        for cand in re.finditer(r'(?m)^([ \t]*)\(([^()=;{}]*,[^()=;{}]*)\)\s*=(?![=>])', m):
            indent = cand.group(1)
            names = [x.strip() for x in text[cand.start(2):cand.end(2)].split(',')]
            if names and names[-1] == '':
                names = names[:-1]
            if not all(re.match(r'^(_|[A-Za-z_][\w\.]*|\*\w+)$', x) for x in names):
                continue
            # find the terminating `;` at depth 0
            d, j = 0, cand.end()
            while j < len(m):
                ch = m[j]
                if ch in '([{':
                    d += 1
                elif ch in ')]}':
                    d -= 1
                elif ch == ';' and d == 0:
                    break
                j += 1
            if j >= len(m):
                continue
            expr = text[cand.end():j].strip()
            tmp = 'tmp__%d' % (hits + 1)
            parts = ['%slet %s = %s;' % (indent, tmp, expr)]
            for i, nm in enumerate(names):
                if nm != '_':
                    parts.append('%s%s = %s.%d;' % (indent, nm, tmp, i))
            mt = (cand.start(), j + 1, '\n'.join(parts))
            break
        if not mt:
            break
        text = text[:mt[0]] + mt[2] + text[mt[1]:]
        hits += 1
    return text, hits


RULES = {
    'R1': r1_async,
    'R2': r2_handoff,
    'R3': r3_writer,
    'R4': r4_bytes,
    'R5': r5_compound,
    'R6': r6_asserts,
    'R7': r7_iter,
    'R8': r8_vis_attrs,
    'R12': r12_minmax,
    'R12u64': lambda t: r12_minmax(t, 'u64'),
    'R12usize': lambda t: r12_minmax(t, 'usize'),
    'R12f': r12f_float_minmax,
    'R12c': r12c_float_consts,
    'R14': r14_hygiene,
    'R15': r15_option_closures,
    'R16': r16_destructuring_assignment,
}
# order in which enabled rules are applied (R2 needs `.await` still present)
ORDER = ['R8', 'R2', 'R1', 'R6', 'R16', 'R15', 'R12', 'R12u64', 'R12usize', 'R12f', 'R12c', 'R4', 'R3', 'R7', 'R5', 'R14']
