//@unit bedparse
//@serves C01 C02 C13
//@backend verus
// bed::bedparser: the text front end of bedgraphtobigwig / bedtobigbed.
//   parse_bed / parse_bedgraph       one text line -> (chrom, BedEntry | Value) or an error value
//   BedFileStream::next              one line of the file -> one item of the stream that unit `feed` consumes
//   BedIteratorStream::next, BedInfallibleIteratorStream::next   the same stream interface over in-memory items
//   C13: "a malformed line ... is refused with an error value wherever in the stream it occurs": a line with a
//        missing / non-numeric start, end (or bedGraph value) yields `Some(Err(InvalidInput(kind)))` with the kind of
//        the FIRST bad field; a line is NEVER the end of the stream (`None` only at end of file); an I/O error is
//        passed on; no line is skipped; `next` consumes exactly one line per call (termination measure).
//   C01/C02: every line yields exactly one item carrying the fields of THAT line: chrom = column 1, start/end = the
//        numbers of columns 2/3, value = the number of column 4 (bedGraph) / rest = everything behind the third
//        tab, verbatim (BED).
use vstd::prelude::*;
verus! {

// ---------------- shims (each one is a listed assumption, see NOTES.md) ----------------
/// `io::Error`
#[verifier::external_body]
pub struct IoErr { _p: u8 }
/// `<u32 as FromStr>::Err` / `<f32 as FromStr>::Err`
#[verifier::external_body]
pub struct ParseErr { _p: u8 }

/// `char::is_whitespace` (Unicode White_Space): some fixed set of characters
pub uninterp spec fn is_ws(c: char) -> bool;
/// `str::parse::<u32>()` / `str::parse::<f32>()`: deterministic partial functions of the text, nothing else assumed
pub uninterp spec fn u32_of(t: Seq<char>) -> Option<u32>;
pub uninterp spec fn f32_of(t: Seq<char>) -> Option<f32>;

/// `str::trim_end`: the longest prefix that does not end in whitespace (DEFINED, not axiomatised)
pub open spec fn trim_end_spec(s: Seq<char>) -> Seq<char>
    decreases s.len()
{
    if s.len() > 0 && is_ws(s.last()) { trim_end_spec(s.drop_last()) } else { s }
}
/// index of the first `sep` in s, or |s|
pub open spec fn first_sep(s: Seq<char>, sep: char) -> int
    decreases s.len()
{
    if s.len() == 0 { 0 } else if s[0] == sep { 0 } else { 1 + first_sep(s.drop_first(), sep) }
}
/// `str::splitn(n, sep)` as a list: at most n pieces, cut at the first n-1 separators, the last piece is the
/// unsplit remainder; n = 0 yields nothing (DEFINED; opaque so that a false goal fails instead of unfolding)
#[verifier::opaque]
pub open spec fn splitn_spec(s: Seq<char>, n: nat, sep: char) -> Seq<Seq<char>>
    decreases n
{
    if n == 0 { Seq::<Seq<char>>::empty() }
    else if n == 1 || first_sep(s, sep) >= s.len() { seq![s] }
    else { seq![s.subrange(0, first_sep(s, sep))] + splitn_spec(s.subrange(first_sep(s, sep) + 1, s.len() as int), (n - 1) as nat, sep) }
}
proof fn lemma_first_sep(s: Seq<char>, sep: char)
    ensures 0 <= first_sep(s, sep) <= s.len(),
        first_sep(s, sep) < s.len() ==> s[first_sep(s, sep)] == sep,
        forall|k: int| 0 <= k < first_sep(s, sep) ==> s[k] != sep,
    decreases s.len()
{
    if s.len() > 0 && s[0] != sep {
        lemma_first_sep(s.drop_first(), sep);
        assert forall|k: int| 0 <= k < first_sep(s, sep) implies s[k] != sep by {
            if k > 0 { assert(s.drop_first()[k - 1] == s[k]); }
        }
    }
}
/// `splitn` yields at least one piece (even for the empty string) and at most n
proof fn lemma_splitn_len(s: Seq<char>, n: nat, sep: char)
    ensures n >= 1 ==> 1 <= splitn_spec(s, n, sep).len() <= n, n == 0 ==> splitn_spec(s, n, sep).len() == 0,
    decreases n
{
    reveal(splitn_spec);
    if n >= 2 && first_sep(s, sep) < s.len() {
        lemma_first_sep(s, sep);
        lemma_splitn_len(s.subrange(first_sep(s, sep) + 1, s.len() as int), (n - 1) as nat, sep);
    }
}
/// a text without the separator is ONE piece (itself) -- the empty text included
proof fn lemma_splitn_no_sep(s: Seq<char>, n: nat, sep: char)
    requires n >= 1, !has_sep(s, sep),
    ensures splitn_spec(s, n, sep) == seq![s],
{
    reveal(splitn_spec);
    lemma_first_sep(s, sep);
}
/// a text that starts with the separator has an EMPTY first piece
proof fn lemma_splitn_leading_sep(s: Seq<char>, n: nat, sep: char)
    requires n >= 2, s.len() > 0, s[0] == sep,
    ensures splitn_spec(s, n, sep).len() >= 1, splitn_spec(s, n, sep)[0].len() == 0,
{
    reveal(splitn_spec);
}
/// the pieces put together again with the separator between them
pub open spec fn join(p: Seq<Seq<char>>, sep: char) -> Seq<char>
    decreases p.len()
{
    if p.len() == 0 { Seq::<char>::empty() } else if p.len() == 1 { p[0] } else { p[0] + seq![sep] + join(p.drop_first(), sep) }
}
pub open spec fn has_sep(t: Seq<char>, sep: char) -> bool { exists|k: int| 0 <= k < t.len() && t[k] == sep }
/// sanity of the definition of splitn_spec: the split loses no character (joining the pieces gives the text
/// back) and only the n-th piece can contain the separator
proof fn lemma_splitn_lossless(s: Seq<char>, n: nat, sep: char)
    requires n >= 1,
    ensures
        join(splitn_spec(s, n, sep), sep) == s,
        forall|i: int| 0 <= i < splitn_spec(s, n, sep).len() && i < n - 1 ==> !has_sep(#[trigger] splitn_spec(s, n, sep)[i], sep),
    decreases n
{
    reveal(splitn_spec);
    lemma_first_sep(s, sep);
    let i = first_sep(s, sep);
    if n == 1 || i >= s.len() {
        assert(splitn_spec(s, n, sep) =~= seq![s]);
    } else {
        let tail = s.subrange(i + 1, s.len() as int);
        let head = s.subrange(0, i);
        lemma_splitn_lossless(tail, (n - 1) as nat, sep);
        lemma_splitn_len(tail, (n - 1) as nat, sep);
        let p = splitn_spec(s, n, sep);
        let q = splitn_spec(tail, (n - 1) as nat, sep);
        assert(p == seq![head] + q);
        assert(p.drop_first() =~= q);
        assert(p[0] == head);
        assert(head + seq![sep] + tail =~= s);
        assert forall|k: int| 0 <= k < p.len() && k < n - 1 implies !has_sep(#[trigger] p[k], sep) by {
            if k > 0 { assert(p[k] == q[k - 1]); }
        }
    }
}
proof fn lemma_trim_idempotent(s: Seq<char>)
    ensures trim_end_spec(trim_end_spec(s)) == trim_end_spec(s),
    decreases s.len()
{
    if s.len() > 0 && is_ws(s.last()) { lemma_trim_idempotent(s.drop_last()); }
}

/// `str` / `&str` / `String`: an opaque text with a character content.
#[verifier::external_body]
pub struct Str { _p: u8 }
impl Str {
    pub uninterp spec fn view(&self) -> Seq<char>;
    /// `""`
    #[verifier::external_body]
    pub fn empty() -> (r: &'static Str)
        ensures r@ == Seq::<char>::empty(),
    { unimplemented!() }
    /// `String::new()`
    #[verifier::external_body]
    pub fn new() -> (r: Str)
        ensures r@ == Seq::<char>::empty(),
    { unimplemented!() }
    /// `String::clear`
    #[verifier::external_body]
    pub fn clear(&mut self)
        ensures final(self)@ == Seq::<char>::empty(),
    { unimplemented!() }
    /// any other string literal used as a `&str`
    #[verifier::external_body]
    pub fn lit(s: &'static str) -> (r: &'static Str)
        ensures r@ == s@,
    { unimplemented!() }
    /// `str::trim_end` (ASSUMED std contract: trim_end_spec)
    #[verifier::external_body]
    pub fn trim_end<'a>(&'a self) -> (r: &'a Str)
        ensures r@ == trim_end_spec(self@),
    { unimplemented!() }
    /// other trims an edit may switch to (`trim_end_matches(pat)`, `trim()`, `trim_start()`): present so that the edit is
    /// judged; nothing is promised about what they strip
    #[verifier::external_body]
    pub fn trim_end_matches_any<'a>(&'a self) -> (r: &'a Str) { unimplemented!() }
    /// `str::splitn(n, sep)` (ASSUMED std contract: splitn_spec)
    #[verifier::external_body]
    pub fn splitn<'a>(&'a self, n: usize, sep: char) -> (r: VSplit<'a>)
        ensures r.rest() == splitn_spec(self@, n as nat, sep),
    { unimplemented!() }
    /// `str::is_empty`
    #[verifier::external_body]
    pub fn is_empty(&self) -> (r: bool)
        ensures r == (self@.len() == 0),
    { unimplemented!() }
    /// `str::parse::<u32>()`
    #[verifier::external_body]
    pub fn parse_u32(&self) -> (r: Result<u32, ParseErr>)
        ensures
            u32_of(self@) is Some ==> r == Ok::<u32, ParseErr>(u32_of(self@)->Some_0),
            u32_of(self@) is None ==> r is Err,
    { unimplemented!() }
    /// `str::parse::<f32>()`
    #[verifier::external_body]
    pub fn parse_f32(&self) -> (r: Result<f32, ParseErr>)
        ensures
            f32_of(self@) is Some ==> r == Ok::<f32, ParseErr>(f32_of(self@)->Some_0),
            f32_of(self@) is None ==> r is Err,
    { unimplemented!() }
    /// `str::to_string` / `String::from` / `Into<String>`: same characters
    #[verifier::external_body]
    pub fn to_string(&self) -> (r: Str)
        ensures r@ == self@,
    { unimplemented!() }
    /// `<String as Deref>::deref` / `String::as_str`: the same text
    #[verifier::external_body]
    pub fn deref<'a>(&'a self) -> (r: &'a Str)
        ensures r@ == self@,
    { unimplemented!() }
    #[verifier::external_body]
    pub fn as_str<'a>(&'a self) -> (r: &'a Str)
        ensures r@ == self@,
    { unimplemented!() }
    /// `String::pop` (REAL std contract): removes the last character and returns it; `None` (and no change) on the
    /// empty string.  It does NOT look at what that character is -- an edit that strips the line terminator with
    /// `pop()` is judged against "line without trailing whitespace" for a last line that has no terminator.
    #[verifier::external_body]
    pub fn pop(&mut self) -> (r: Option<char>)
        ensures
            old(self)@.len() == 0 ==> r is None && final(self)@ == old(self)@,
            old(self)@.len() > 0 ==> r == Some(old(self)@.last()) && final(self)@ == old(self)@.drop_last(),
    { unimplemented!() }
    // ---- calls a plausible edit might start using: NO postcondition, so the edit is judged by the contracts ----
    #[verifier::external_body]
    pub fn trim<'a>(&'a self) -> (r: &'a Str) { unimplemented!() }
    #[verifier::external_body]
    pub fn trim_start<'a>(&'a self) -> (r: &'a Str) { unimplemented!() }
    #[verifier::external_body]
    pub fn split<'a>(&'a self, sep: char) -> (r: VSplit<'a>) { unimplemented!() }
    #[verifier::external_body]
    pub fn split_whitespace<'a>(&'a self) -> (r: VSplit<'a>) { unimplemented!() }
    #[verifier::external_body]
    pub fn starts_with(&self, p: &str) -> (r: bool) { unimplemented!() }
    #[verifier::external_body]
    pub fn len(&self) -> (r: usize) { unimplemented!() }
}

/// the iterator returned by `splitn`: the pieces not handed out yet
#[verifier::external_body]
pub struct VSplit<'a> { _p: &'a Str }
impl<'a> VSplit<'a> {
    pub uninterp spec fn rest(&self) -> Seq<Seq<char>>;
    /// `Iterator::next`: pops the front piece; `None` when there is none left (and it stays that way)
    #[verifier::external_body]
    pub fn next(&mut self) -> (r: Option<&'a Str>)
        ensures
            old(self).rest().len() == 0 ==> r is None && final(self).rest() == old(self).rest(),
            old(self).rest().len() > 0 ==> r is Some && r->Some_0@ == old(self).rest()[0]
                && final(self).rest() == old(self).rest().drop_first(),
    { unimplemented!() }
    /// `Iterator::nth` / `last` / `count`: no postcondition (foreign calls)
    #[verifier::external_body]
    pub fn nth(&mut self, n: usize) -> (r: Option<&'a Str>) { unimplemented!() }
    #[verifier::external_body]
    pub fn last(self) -> (r: Option<&'a Str>) { unimplemented!() }
}

/// the text produced by one `format!("<Kind words>: {:}", arg)`: opaque; remembers the first two words of the
/// format literal (cut out by regex: "Missing start", "Invalid end", ...) and the text of the argument
#[verifier::external_body]
pub struct Msg { _p: u8 }
impl Msg {
    pub uninterp spec fn kind(&self) -> Seq<char>;
    pub uninterp spec fn arg(&self) -> Seq<char>;
}
#[verifier::external_body]
pub fn fmt_msg(kind: &'static str, arg: &Str) -> (r: Msg)
    ensures r.kind() == kind@, r.arg() == arg@,
{ unimplemented!() }

/// `Result::unwrap_or` (std; not in vstd) -- only reachable through an edit
pub assume_specification<T, E>[Result::<T, E>::unwrap_or](r: Result<T, E>, d: T) -> (o: T)
    ensures o == (match r { Ok(v) => v, Err(_) => d });

// ---------------- repository types ----------------
//@extract struct bigtools/src/bbi.rs Value
//@rule R8
//@end
//@extract struct bigtools/src/bbi.rs BedEntry
//@rule R8
//@sub /#\[derive\(Clone\)\]\n/ => "" min=0
//@sub /rest: String/ => rest: Str min=1
//@end
// thiserror attributes dropped; io::Error -> IoErr; the message String -> Msg
//@extract enum bigtools/src/bed/bedparser.rs BedValueError
//@rule R8
//@sub /#\[derive\(Error, Debug\)\]\n/ => "" min=0
//@sub /[ \t]*#\[error\([^\n]*\)\]\n/ => "" min=2
//@sub /#\[from\] io::Error/ => IoErr
//@sub /InvalidInput\(String\)/ => InvalidInput(Msg) min=1
//@end
impl BedValueError {
    /// `impl<T> From<T> for T` behind `e.into()` where e already is a BedValueError
    pub fn into(self) -> (r: BedValueError)
        ensures r == self,
    { self }
}
impl IoErr {
    /// `#[from] io::Error` behind `e.into()`
    pub fn into(self) -> (r: BedValueError)
        ensures r == BedValueError::IoError(self),
    { BedValueError::IoError(self) }
}

// ---------------- specification vocabulary (from the property and the BED / bedGraph formats) ----------------
pub open spec fn k_missing_start() -> Seq<char> { "Missing start"@ }
pub open spec fn k_invalid_start() -> Seq<char> { "Invalid start"@ }
pub open spec fn k_missing_end() -> Seq<char> { "Missing end"@ }
pub open spec fn k_invalid_end() -> Seq<char> { "Invalid end"@ }
pub open spec fn k_missing_value() -> Seq<char> { "Missing value"@ }
pub open spec fn k_invalid_value() -> Seq<char> { "Invalid value"@ }

/// the columns of a BED line: trailing whitespace dropped, cut at the first three tabs; everything behind the
/// third tab stays in ONE piece (the `rest` of the entry, further columns unsplit)
pub open spec fn bed_cols(line: Seq<char>) -> Seq<Seq<char>> { splitn_spec(trim_end_spec(line), 4, '\t') }
/// the columns of a bedGraph line: cut at the first FOUR tabs, so that column 4 (the value) ends at the fourth
/// tab; whatever follows (piece 4) is ignored
pub open spec fn bg_cols(line: Seq<char>) -> Seq<Seq<char>> { splitn_spec(trim_end_spec(line), 5, '\t') }

/// what is wrong with the start/end columns of `c` (c[0] = chrom), first problem in column order; None = fine
pub open spec fn bad_start_end(c: Seq<Seq<char>>) -> Option<Seq<char>> {
    if c.len() < 2 { Some(k_missing_start()) }
    else if u32_of(c[1]) is None { Some(k_invalid_start()) }
    else if c.len() < 3 { Some(k_missing_end()) }
    else if u32_of(c[2]) is None { Some(k_invalid_end()) }
    else { None }
}
/// ... of a BED line
pub open spec fn bed_bad(line: Seq<char>) -> Option<Seq<char>> { bad_start_end(bed_cols(line)) }
/// ... of a bedGraph line: the value column is checked after start and end
pub open spec fn bg_bad(line: Seq<char>) -> Option<Seq<char>> {
    let c = bg_cols(line);
    if bad_start_end(c) is Some { bad_start_end(c) }
    else if c.len() < 4 { Some(k_missing_value()) }
    else if f32_of(c[3]) is None { Some(k_invalid_value()) }
    else { None }
}
/// the `rest` of a BED line
pub open spec fn bed_rest(line: Seq<char>) -> Seq<char> {
    if bed_cols(line).len() >= 4 { bed_cols(line)[3] } else { Seq::<char>::empty() }
}

/// what the column vocabulary means (consequences of the definitions, no code involved): the columns of a
/// line, put together with tabs, ARE the line without its trailing whitespace -- nothing is lost, in particular
/// `rest` is everything behind the third tab; chrom, start, end (and the bedGraph value) contain no tab
proof fn lemma_line_is_its_columns(line: Seq<char>)
    ensures
        [[L: lemma/bed_columns_joined_by_tabs_are_the_trimmed_line]]
        join(bed_cols(line), '\t') == trim_end_spec(line),
        forall|i: int| 0 <= i < bed_cols(line).len() && i < 3 ==> !has_sep(#[trigger] bed_cols(line)[i], '\t'),
        [[L: lemma/bedgraph_columns_joined_by_tabs_are_the_trimmed_line]]
        join(bg_cols(line), '\t') == trim_end_spec(line),
        forall|i: int| 0 <= i < bg_cols(line).len() && i < 4 ==> !has_sep(#[trigger] bg_cols(line)[i], '\t'),
        [[L: lemma/a_line_always_has_a_first_column]]
        1 <= bed_cols(line).len() <= 4, 1 <= bg_cols(line).len() <= 5,
{
    lemma_splitn_lossless(trim_end_spec(line), 4, '\t');
    lemma_splitn_lossless(trim_end_spec(line), 5, '\t');
    lemma_splitn_len(trim_end_spec(line), 4, '\t');
    lemma_splitn_len(trim_end_spec(line), 5, '\t');
}

/// WHAT HAPPENS TO LINES THAT ARE NOT RECORDS.  An empty line, a whitespace-only line, and any line without a tab
/// (`#comment`, `track type=bedGraph ...`, `browser position ...` as usually written, or a space-separated BED
/// line) is ONE column: it is refused as "Missing start" -- it is not skipped and it does not end the input.
proof fn lemma_line_without_a_tab_is_refused(line: Seq<char>)
    requires !has_sep(trim_end_spec(line), '\t'),
    ensures
        [[L: lemma/a_line_without_a_tab_is_refused_as_missing_start]]
        bed_bad(line) == Some(k_missing_start()), bg_bad(line) == Some(k_missing_start()),
        bed_line_item(line) == ItemView::<EntryView>::Refused(k_missing_start()),
        bg_line_item(line) == ItemView::<Value>::Refused(k_missing_start()),
{
    lemma_splitn_no_sep(trim_end_spec(line), 4, '\t');
    lemma_splitn_no_sep(trim_end_spec(line), 5, '\t');
}
/// a line that starts with a tab has an empty chromosome name; it is still a line (parsed, not the end of input)
proof fn lemma_tab_leading_line_has_empty_chrom(line: Seq<char>)
    requires trim_end_spec(line).len() > 0, trim_end_spec(line)[0] == '\t',
    ensures
        [[L: lemma/a_tab_leading_line_has_an_empty_first_column]]
        bed_cols(line)[0].len() == 0, bg_cols(line)[0].len() == 0,
{
    lemma_splitn_leading_sep(trim_end_spec(line), 4, '\t');
    lemma_splitn_leading_sep(trim_end_spec(line), 5, '\t');
}

// ================= (1) parse_bed / parse_bedgraph =================
// The immediately-invoked closure `let res = (|| { BODY })();` is cut out as its own function (extract kind
// `closure`, rule R10): `fn parse_bed_fields(split: &mut VSplit, s: &Str) -> Result<..> { BODY }` -- BODY verbatim,
// `?` in the closure = `?`/`return Err` in the helper; the captured `split` (by unique borrow) and `s` become the
// parameters.  In the enclosing fn the closure call is replaced by the call of the helper.
// Inside BODY (all R11, syntax only, see NOTES.md):
//   X.ok_or_else(|| E)?   ->  (match X { Some(v__) => v__, None => return Err(E) })      [definition of ok_or_else + ?]
//   X.map_err(|_| E)?     ->  (match X { Ok(v__) => v__, Err(_) => return Err(E) })      [definition of map_err + ?]
//   .parse::<u32>()       ->  .parse_u32()          format!("Missing start: {:}", s) -> fmt_msg("Missing start", s)
//   unwrap_or("")         ->  unwrap_or(Str::empty())
//@extract closure bigtools/src/bed/bedparser.rs parse_bed res
//@rule R16
//@header fn parse_bed_fields(split: &mut VSplit, s: &Str) -> Result<(u32, u32, Str), BedValueError>
//@sub /((?:\w+)(?:\s*\.\s*\w+(?:::<\w+>)?\(\))+)\s*\.ok_or_else\(\|\| (.*?)\)\?;/ => (match \1 { Some(v__) => v__, None => return Err(\2) }); min=0
//@sub /((?:\w+)(?:\s*\.\s*\w+(?:::<\w+>)?\(\))+)\s*\.map_err\(\|_\w*\| (.*?)\)\?;/ => (match \1 { Ok(v__) => v__, Err(_) => return Err(\2) }); min=0
//@sub /\.parse::<(\w+)>\(\)/ => .parse_\1() min=0
//@sub /format!\(\s*"(\w+ \w+)[^"]*"\s*,\s*/ => fmt_msg("\1",  min=0
//@sub /unwrap_or\(""\)/ => unwrap_or(Str::empty()) min=0
//@sub /unwrap_or\(("[^"]*")\)/ => unwrap_or(Str::lit(\1)) min=0
//@ret r
//@sig
    ensures
        [[L: bed_fields/ok_iff_start_and_end_present_and_numeric]]
        r is Ok <==> old(split).rest().len() >= 2 && u32_of(old(split).rest()[0]) is Some && u32_of(old(split).rest()[1]) is Some,
        [[L: bed_fields/start_is_the_number_of_the_first_piece]]
        r matches Ok(v) ==> u32_of(old(split).rest()[0]) == Some(v.0),
        [[L: bed_fields/end_is_the_number_of_the_second_piece]]
        r matches Ok(v) ==> u32_of(old(split).rest()[1]) == Some(v.1),
        [[L: bed_fields/rest_is_the_third_piece_verbatim_or_empty]]
        r matches Ok(v) ==> v.2@ == (if old(split).rest().len() >= 3 { old(split).rest()[2] } else { Seq::<char>::empty() }),
        [[L: bed_fields/error_is_invalid_input_of_the_first_bad_field]]
        r matches Err(e) ==> e is InvalidInput
            && Some(e->InvalidInput_0.kind()) == bad_start_end(seq![Seq::<char>::empty()] + old(split).rest()),
//@end

//@extract fn bigtools/src/bed/bedparser.rs parse_bed
//@rule R16
//@sub /&'a str/ => &'a Str min=2
//@sub /\(\|\| \{.*?\n    \}\)\(\)/ => parse_bed_fields(&mut split, s) min=1 count=1
//@ret r
//@sig
    ensures
        [[L: bed/a_line_is_never_the_end_of_input]]
        r is Some,
        [[L: bed/ok_iff_three_columns_and_start_end_numeric]]
        (r matches Some(Ok(_))) <==> bed_bad(s@) is None,
        [[L: bed/chrom_is_column_1]]
        r matches Some(Ok(v)) ==> v.0@ == bed_cols(s@)[0],
        [[L: bed/start_is_the_number_in_column_2]]
        r matches Some(Ok(v)) ==> u32_of(bed_cols(s@)[1]) == Some(v.1.start),
        [[L: bed/end_is_the_number_in_column_3]]
        r matches Some(Ok(v)) ==> u32_of(bed_cols(s@)[2]) == Some(v.1.end),
        [[L: bed/rest_is_everything_behind_the_third_tab_verbatim]]
        r matches Some(Ok(v)) ==> v.1.rest@ == bed_rest(s@),
        [[L: bed/malformed_line_is_refused_naming_the_first_bad_field]]
        r matches Some(Err(e)) ==> e is InvalidInput && Some(e->InvalidInput_0.kind()) == bed_bad(s@),
//@open
    proof { lemma_splitn_len(trim_end_spec(s@), 3, '\t'); lemma_splitn_len(trim_end_spec(s@), 4, '\t'); lemma_splitn_len(trim_end_spec(s@), 5, '\t'); }
    let ghost c = bed_cols(s@);
//@at /parse_bed_fields\(&mut split, s\)/ before
    proof {
        assert(seq![Seq::<char>::empty()] + c.drop_first() =~= c.update(0, Seq::<char>::empty()));
    }
//@end

//@extract closure bigtools/src/bed/bedparser.rs parse_bedgraph res
//@rule R16
//@header fn parse_bedgraph_fields(split: &mut VSplit, s: &Str) -> Result<(u32, u32, f32), BedValueError>
//@sub /((?:\w+)(?:\s*\.\s*\w+(?:::<\w+>)?\(\))+)\s*\.ok_or_else\(\|\| (.*?)\)\?;/ => (match \1 { Some(v__) => v__, None => return Err(\2) }); min=0
//@sub /((?:\w+)(?:\s*\.\s*\w+(?:::<\w+>)?\(\))+)\s*\.map_err\(\|_\w*\| (.*?)\)\?;/ => (match \1 { Ok(v__) => v__, Err(_) => return Err(\2) }); min=0
//@sub /\.parse::<(\w+)>\(\)/ => .parse_\1() min=0
//@sub /format!\(\s*"(\w+ \w+)[^"]*"\s*,\s*/ => fmt_msg("\1",  min=0
//@sub /unwrap_or\(""\)/ => unwrap_or(Str::empty()) min=0
//@sub /unwrap_or\(("[^"]*")\)/ => unwrap_or(Str::lit(\1)) min=0
//@ret r
//@sig
    ensures
        [[L: bg_fields/ok_iff_start_end_value_present_and_numeric]]
        r is Ok <==> old(split).rest().len() >= 3 && u32_of(old(split).rest()[0]) is Some && u32_of(old(split).rest()[1]) is Some
            && f32_of(old(split).rest()[2]) is Some,
        [[L: bg_fields/start_is_the_number_of_the_first_piece]]
        r matches Ok(v) ==> u32_of(old(split).rest()[0]) == Some(v.0),
        [[L: bg_fields/end_is_the_number_of_the_second_piece]]
        r matches Ok(v) ==> u32_of(old(split).rest()[1]) == Some(v.1),
        [[L: bg_fields/value_is_the_number_of_the_third_piece]]
        r matches Ok(v) ==> f32_of(old(split).rest()[2]) == Some(v.2),
        [[L: bg_fields/error_is_invalid_input_of_the_first_bad_field]]
        r matches Err(e) ==> e is InvalidInput && ({
            let c = seq![Seq::<char>::empty()] + old(split).rest();
            Some(e->InvalidInput_0.kind()) == (if bad_start_end(c) is Some { bad_start_end(c) }
                else if c.len() < 4 { Some(k_missing_value()) } else { Some(k_invalid_value()) })
        }),
//@end

//@extract fn bigtools/src/bed/bedparser.rs parse_bedgraph
//@rule R16
//@sub /&'a str/ => &'a Str min=2
//@sub /\(\|\| \{.*?\n    \}\)\(\)/ => parse_bedgraph_fields(&mut split, s) min=1 count=1
//@ret r
//@sig
    ensures
        [[L: bg/a_line_is_never_the_end_of_input]]
        r is Some,
        [[L: bg/ok_iff_four_columns_and_start_end_value_numeric]]
        (r matches Some(Ok(_))) <==> bg_bad(s@) is None,
        [[L: bg/chrom_is_column_1]]
        r matches Some(Ok(v)) ==> v.0@ == bg_cols(s@)[0],
        [[L: bg/start_is_the_number_in_column_2]]
        r matches Some(Ok(v)) ==> u32_of(bg_cols(s@)[1]) == Some(v.1.start),
        [[L: bg/end_is_the_number_in_column_3]]
        r matches Some(Ok(v)) ==> u32_of(bg_cols(s@)[2]) == Some(v.1.end),
        [[L: bg/value_is_the_number_in_column_4]]
        r matches Some(Ok(v)) ==> f32_of(bg_cols(s@)[3]) == Some(v.1.value),
        [[L: bg/malformed_line_is_refused_naming_the_first_bad_field]]
        r matches Some(Err(e)) ==> e is InvalidInput && Some(e->InvalidInput_0.kind()) == bg_bad(s@),
//@open
    proof { lemma_splitn_len(trim_end_spec(s@), 3, '\t'); lemma_splitn_len(trim_end_spec(s@), 4, '\t'); lemma_splitn_len(trim_end_spec(s@), 5, '\t'); }
    let ghost c = bg_cols(s@);
//@at /parse_bedgraph_fields\(&mut split, s\)/ before
    proof {
        assert(seq![Seq::<char>::empty()] + c.drop_first() =~= c.update(0, Seq::<char>::empty()));
    }
//@end

// ================= (2) BedFileStream::next =================
/// `B: BufRead` under the line reader (`BufReader<File>`, `BufReader<Stdin>`, ...).  Model: the outcomes of the
/// `read_line` calls still to come, `lines()`: `Ok(text)` = one line of the file INCLUDING its terminator (so it
/// is never empty: the last line may lack the '\n' but has at least one character), `Err(e)` = that read fails.
#[verifier::external_body]
pub struct VBufRead { _p: u8 }
impl VBufRead {
    pub uninterp spec fn lines(&self) -> Seq<Result<Seq<char>, IoErr>>;
    /// `BufRead::read_line(&mut String)` (ASSUMED std contract): at end of file `Ok(0)` and nothing changes;
    /// otherwise the next line is APPENDED to `buf` and its (positive) byte count returned, or the read fails
    /// (nothing is promised about `buf` then).
    #[verifier::external_body]
    pub fn read_line(&mut self, buf: &mut Str) -> (r: Result<usize, IoErr>)
        ensures
            old(self).lines().len() == 0 ==> r == Ok::<usize, IoErr>(0) && final(self).lines() == old(self).lines() && final(buf)@ == old(buf)@,
            old(self).lines().len() > 0 ==> final(self).lines() == old(self).lines().drop_first(),
            old(self).lines().len() > 0 ==> (old(self).lines()[0] matches Ok(t) ==> r is Ok && r->Ok_0 > 0 && final(buf)@ == old(buf)@ + t),
            old(self).lines().len() > 0 ==> (old(self).lines()[0] matches Err(e) ==> r == Err::<usize, IoErr>(e)),
    { unimplemented!() }
}
/// `BufReader::new(file)`: buffering is transparent
pub fn buf_reader_new(file: VBufRead) -> (r: VBufRead)
    ensures r == file,
{ file }

// `StreamingLineReader<B>` (utils/file/streaming_linereader.rs): extracted and VERIFIED (not a shim)
//@extract struct bigtools/src/utils/file/streaming_linereader.rs StreamingLineReader
//@rule R8
//@sub /#\[derive\(Debug\)\]\n/ => "" min=0
//@sub /StreamingLineReader<B>/ => StreamingLineReader min=1
//@sub /current_line: String,/ => pub current_line: Str, min=1
//@sub /buf_read: B,/ => pub buf_read: VBufRead, min=1
//@end
impl StreamingLineReader {
    /// the lines not read yet
    pub open spec fn lines(&self) -> Seq<Result<Seq<char>, IoErr>> { self.buf_read.lines() }
//@extract method bigtools/src/utils/file/streaming_linereader.rs new "impl<B: BufRead> StreamingLineReader<B>"
//@rule R16
//@sub /\(bf: B\) -> StreamingLineReader<B>/ => (bf: VBufRead) -> StreamingLineReader min=1
//@sub /String::new\(\)/ => Str::new() min=0
//@ret r
//@sig
    ensures
        [[L: starts_at_the_first_line]]
        r.lines() == bf.lines(),
//@end
//@extract method bigtools/src/utils/file/streaming_linereader.rs read "impl<B: BufRead> StreamingLineReader<B>"
//@rule R16
//@sub /Option<io::Result<&'_ str>>/ => Option<Result<&'_ Str, IoErr>> min=1
//@sub /\.trim_(?:end|start)_matches\((?:[^()]|\([^()]*\))*\)/ => .trim_end_matches_any() min=0
//@ret r
//@sig
    ensures
        [[L: reader/none_iff_end_of_file]]
        r is None <==> old(self).lines().len() == 0,
        [[L: reader/exactly_one_line_consumed]]
        old(self).lines().len() > 0 ==> final(self).lines() == old(self).lines().drop_first(),
        old(self).lines().len() == 0 ==> final(self).lines() == old(self).lines(),
        [[L: reader/line_is_that_line_alone_without_trailing_whitespace]]
        old(self).lines().len() > 0 ==> (old(self).lines()[0] matches Ok(t) ==>
            r is Some && r->Some_0 is Ok && r->Some_0->Ok_0@ == trim_end_spec(t)),
        [[L: reader/io_error_is_passed_on]]
        old(self).lines().len() > 0 ==> (old(self).lines()[0] matches Err(e) ==>
            r == Some(Err::<&Str, IoErr>(e))),
    decreases
        [[L: reader/termination]]
        old(self).lines().len(),
//@at /match self\.buf_read\.read_line\(/ before
        assert(self.current_line@ =~= Seq::<char>::empty()); [[L: reader/buffer_is_empty_before_the_read]]
        proof { assert forall|t: Seq<char>| (#[trigger] (Seq::<char>::empty() + t)) == t by { assert(Seq::<char>::empty() + t =~= t); } }
//@end
}

/// what an item of the stream says, for comparison with the specification: texts by content
pub enum ItemView<V> {
    Item(Seq<char>, V),
    Refused(Seq<char>),
    Io(IoErr),
}
/// a BED entry by content
pub struct EntryView { pub start: u32, pub end: u32, pub rest: Seq<char> }
pub open spec fn entry_view(e: BedEntry) -> EntryView { EntryView { start: e.start, end: e.end, rest: e.rest@ } }
pub open spec fn err_view<V>(e: BedValueError) -> ItemView<V> {
    match e { BedValueError::InvalidInput(m) => ItemView::Refused(m.kind()), BedValueError::IoError(x) => ItemView::Io(x) }
}
pub open spec fn bed_item_view(r: Result<(&Str, BedEntry), BedValueError>) -> ItemView<EntryView> {
    match r { Ok(v) => ItemView::Item(v.0@, entry_view(v.1)), Err(e) => err_view(e) }
}
pub open spec fn bg_item_view(r: Result<(&Str, Value), BedValueError>) -> ItemView<Value> {
    match r { Ok(v) => ItemView::Item(v.0@, v.1), Err(e) => err_view(e) }
}
/// THE ITEM A BED LINE STANDS FOR (C01/C02/C13): the entry with the columns of that line, or the refusal
pub open spec fn bed_line_item(line: Seq<char>) -> ItemView<EntryView> {
    match bed_bad(line) {
        Some(k) => ItemView::Refused(k),
        None => ItemView::Item(bed_cols(line)[0],
            EntryView { start: u32_of(bed_cols(line)[1])->Some_0, end: u32_of(bed_cols(line)[2])->Some_0, rest: bed_rest(line) }),
    }
}
pub open spec fn bg_line_item(line: Seq<char>) -> ItemView<Value> {
    match bg_bad(line) {
        Some(k) => ItemView::Refused(k),
        None => ItemView::Item(bg_cols(line)[0],
            Value { start: u32_of(bg_cols(line)[1])->Some_0, end: u32_of(bg_cols(line)[2])->Some_0, value: f32_of(bg_cols(line)[3])->Some_0 }),
    }
}
/// ... and the item a read outcome stands for: an I/O error is passed on
pub open spec fn bed_read_item(l: Result<Seq<char>, IoErr>) -> ItemView<EntryView> {
    match l { Ok(t) => bed_line_item(t), Err(e) => ItemView::Io(e) }
}
pub open spec fn bg_read_item(l: Result<Seq<char>, IoErr>) -> ItemView<Value> {
    match l { Ok(t) => bg_line_item(t), Err(e) => ItemView::Io(e) }
}
/// trimming before parsing changes nothing (the reader trims, `next` trims, the parse functions trim)
proof fn lemma_items_ignore_trailing_whitespace(t: Seq<char>)
    ensures
        bed_line_item(trim_end_spec(t)) == bed_line_item(t), bg_line_item(trim_end_spec(t)) == bg_line_item(t),
        bed_line_item(trim_end_spec(trim_end_spec(t))) == bed_line_item(t), bg_line_item(trim_end_spec(trim_end_spec(t))) == bg_line_item(t),
{
    lemma_trim_idempotent(t);
    lemma_trim_idempotent(trim_end_spec(t));
}

// The struct is generic in the value type V and carries the parse function as a fn-pointer field
// `parse: Parser<V>`.  It has exactly two constructors: `from_bed_file` (`parse: parse_bed`, V = BedEntry) and
// `from_bedgraph_file` (`parse: parse_bedgraph`, V = Value).  Both instantiations are verified separately, the
// fn-pointer call `(self.parse)(line)` replaced by the call of the (verified) parse function of that
// instantiation; the field itself becomes a unit marker.
pub struct ParserBed;
pub struct ParserBedGraph;
/// `parse: parse_bed` / `parse: parse_bedgraph` in the constructors (fn item -> fn pointer): the marker of that
/// function.  (A constructor that wires the other function does not type-check here, as in the repository.)
pub fn fnptr_parse_bed() -> ParserBed { ParserBed }
pub fn fnptr_parse_bedgraph() -> ParserBedGraph { ParserBedGraph }
//@extract struct bigtools/src/bed/bedparser.rs BedFileStream
//@rule R8
//@sub /BedFileStream<V, B>/ => BedFileStreamBed min=1
//@sub /StreamingLineReader<B>/ => StreamingLineReader min=1
//@sub /Parser<V>/ => ParserBed min=1
//@end
//@extract struct bigtools/src/bed/bedparser.rs BedFileStream
//@rule R8
//@sub /BedFileStream<V, B>/ => BedFileStreamBedGraph min=1
//@sub /StreamingLineReader<B>/ => StreamingLineReader min=1
//@sub /Parser<V>/ => ParserBedGraph min=1
//@end

impl BedFileStreamBed {
//@extract method bigtools/src/bed/bedparser.rs from_bed_file "BedFileStream<BedEntry, BufReader<R>>"
//@rule R16
//@sub /\(file: R\) -> BedFileStream<BedEntry, BufReader<R>>/ => (file: VBufRead) -> BedFileStreamBed min=1
//@sub /BedFileStream \{/ => BedFileStreamBed { min=1
//@sub /BufReader::new\(/ => buf_reader_new( min=0
//@sub /parse: (\w+),/ => parse: fnptr_\1(), min=1
//@ret r
//@sig
    ensures
        [[L: stream_starts_at_the_first_line_of_the_file]]
        r.bed.lines() == file.lines(),
//@end
//@extract method bigtools/src/bed/bedparser.rs next "StreamingBedValues for BedFileStream"
//@rule R16
//@sub /fn next\(&mut self\) -> Option<Result<\(&str, Self::Value\), BedValueError>>/ => fn next(&mut self) -> Option<Result<(&Str, BedEntry), BedValueError>> min=1
//@sub /\(self\.parse\)\(/ => parse_bed( min=0
//@ret r
//@sig
    ensures
        [[L: file_bed/none_iff_file_exhausted]]
        r is None <==> old(self).bed.lines().len() == 0,
        [[L: file_bed/exactly_one_line_consumed]]
        old(self).bed.lines().len() > 0 ==> final(self).bed.lines() == old(self).bed.lines().drop_first(),
        old(self).bed.lines().len() == 0 ==> final(self).bed.lines() == old(self).bed.lines(),
        [[L: file_bed/item_is_the_parse_of_that_line_io_error_passed_on]]
        r matches Some(it) ==> bed_item_view(it) == bed_read_item(old(self).bed.lines()[0]),
    decreases
        [[L: file_bed/termination]]
        old(self).bed.lines().len(),
//@open
    proof { if self.bed.lines().len() > 0 && self.bed.lines()[0] is Ok { lemma_items_ignore_trailing_whitespace(self.bed.lines()[0]->Ok_0); } }
//@end
}

impl BedFileStreamBedGraph {
//@extract method bigtools/src/bed/bedparser.rs from_bedgraph_file "BedFileStream<Value, BufReader<R>>"
//@rule R16
//@sub /\(file: R\) -> BedFileStream<Value, BufReader<R>>/ => (file: VBufRead) -> BedFileStreamBedGraph min=1
//@sub /BedFileStream \{/ => BedFileStreamBedGraph { min=1
//@sub /BufReader::new\(/ => buf_reader_new( min=0
//@sub /parse: (\w+),/ => parse: fnptr_\1(), min=1
//@ret r
//@sig
    ensures
        [[L: stream_starts_at_the_first_line_of_the_file]]
        r.bed.lines() == file.lines(),
//@end
//@extract method bigtools/src/bed/bedparser.rs next "StreamingBedValues for BedFileStream"
//@rule R16
//@sub /fn next\(&mut self\) -> Option<Result<\(&str, Self::Value\), BedValueError>>/ => fn next(&mut self) -> Option<Result<(&Str, Value), BedValueError>> min=1
//@sub /\(self\.parse\)\(/ => parse_bedgraph( min=0
//@ret r
//@sig
    ensures
        [[L: file_bg/none_iff_file_exhausted]]
        r is None <==> old(self).bed.lines().len() == 0,
        [[L: file_bg/exactly_one_line_consumed]]
        old(self).bed.lines().len() > 0 ==> final(self).bed.lines() == old(self).bed.lines().drop_first(),
        old(self).bed.lines().len() == 0 ==> final(self).bed.lines() == old(self).bed.lines(),
        [[L: file_bg/item_is_the_parse_of_that_line_io_error_passed_on]]
        r matches Some(it) ==> bg_item_view(it) == bg_read_item(old(self).bed.lines()[0]),
    decreases
        [[L: file_bg/termination]]
        old(self).bed.lines().len(),
//@open
    proof { if self.bed.lines().len() > 0 && self.bed.lines()[0] is Ok { lemma_items_ignore_trailing_whitespace(self.bed.lines()[0]->Ok_0); } }
//@end
}

// ---------------- composition with unit `feed` ----------------
// `feed` (BedParserStreamingIterator::process_to_bbi) ASSUMES a source `VSource` whose `rest()` is "the item
// sequence" and whose `next()` pops it.  The drivers below call `next` until `None` and collect what it returned
// (names copied to owned texts): the collected sequence is, item by item and in order, the parse of the file's
// lines -- so the `rest()` that `feed` talks about is `lines().map(bed_read_item)`; in particular it has exactly
// one item per line.  Proved from the contract of `next` alone.
pub open spec fn bed_owned_view(r: Result<(Str, BedEntry), BedValueError>) -> ItemView<EntryView> {
    match r { Ok(v) => ItemView::Item(v.0@, entry_view(v.1)), Err(e) => err_view(e) }
}
pub open spec fn bg_owned_view(r: Result<(Str, Value), BedValueError>) -> ItemView<Value> {
    match r { Ok(v) => ItemView::Item(v.0@, v.1), Err(e) => err_view(e) }
}
fn drain_bed(st: &mut BedFileStreamBed) -> (out: Vec<Result<(Str, BedEntry), BedValueError>>)
    ensures
        [[L: drain_bed/one_item_per_line]]
        out@.len() == old(st).bed.lines().len(),
        final(st).bed.lines().len() == 0,
        [[L: drain_bed/items_are_the_parses_of_the_lines_in_order]]
        forall|k: int| 0 <= k < out@.len() ==> bed_owned_view(#[trigger] out@[k]) == bed_read_item(old(st).bed.lines()[k]),
{
    let ghost all = st.bed.lines();
    let mut out: Vec<Result<(Str, BedEntry), BedValueError>> = Vec::new();
    loop
        invariant
            out@.len() <= all.len(), all == old(st).bed.lines(),
            st.bed.lines() == all.subrange(out@.len() as int, all.len() as int),
            forall|k: int| 0 <= k < out@.len() ==> bed_owned_view(#[trigger] out@[k]) == bed_read_item(all[k]),
        ensures
            out@.len() == all.len(), st.bed.lines().len() == 0,
        decreases
            [[L: drain_bed/termination]]
            st.bed.lines().len(),
    {
        let ghost n = out@.len() as int;
        proof {
            if n < all.len() {
                assert(all.subrange(n, all.len() as int)[0] == all[n]);
                assert(all.subrange(n, all.len() as int).drop_first() =~= all.subrange(n + 1, all.len() as int));
            }
        }
        match st.next() {
            None => { break; }
            Some(Ok(v)) => { let name = v.0.to_string(); out.push(Ok((name, v.1))); }
            Some(Err(e)) => { out.push(Err(e)); }
        }
    }
    out
}
fn drain_bedgraph(st: &mut BedFileStreamBedGraph) -> (out: Vec<Result<(Str, Value), BedValueError>>)
    ensures
        [[L: drain_bg/one_item_per_line]]
        out@.len() == old(st).bed.lines().len(),
        final(st).bed.lines().len() == 0,
        [[L: drain_bg/items_are_the_parses_of_the_lines_in_order]]
        forall|k: int| 0 <= k < out@.len() ==> bg_owned_view(#[trigger] out@[k]) == bg_read_item(old(st).bed.lines()[k]),
{
    let ghost all = st.bed.lines();
    let mut out: Vec<Result<(Str, Value), BedValueError>> = Vec::new();
    loop
        invariant
            out@.len() <= all.len(), all == old(st).bed.lines(),
            st.bed.lines() == all.subrange(out@.len() as int, all.len() as int),
            forall|k: int| 0 <= k < out@.len() ==> bg_owned_view(#[trigger] out@[k]) == bg_read_item(all[k]),
        ensures
            out@.len() == all.len(), st.bed.lines().len() == 0,
        decreases
            [[L: drain_bg/termination]]
            st.bed.lines().len(),
    {
        let ghost n = out@.len() as int;
        proof {
            if n < all.len() {
                assert(all.subrange(n, all.len() as int)[0] == all[n]);
                assert(all.subrange(n, all.len() as int).drop_first() =~= all.subrange(n + 1, all.len() as int));
            }
        }
        match st.next() {
            None => { break; }
            Some(Ok(v)) => { let name = v.0.to_string(); out.push(Ok((name, v.1))); }
            Some(Err(e)) => { out.push(Err(e)); }
        }
    }
    out
}

// ================= (3) BedIteratorStream::next / BedInfallibleIteratorStream::next =================
/// `V: Clone` (Value, BedEntry, or the caller's type): an opaque payload; `Clone` is ASSUMED faithful
pub struct Val { pub payload: u64 }
impl Val {
    pub fn clone(&self) -> (r: Val)
        ensures r == *self,
    { Val { payload: self.payload } }
}
/// `C: Into<String> + for<'a> PartialEq<&'a str>` (in practice `&str` / `String`): a text
#[verifier::external_body]
pub struct CName { _p: u8 }
impl CName {
    pub uninterp spec fn view(&self) -> Seq<char>;
    /// `Into<String>`: ASSUMED to keep the characters
    #[verifier::external_body]
    pub fn into(self) -> (r: Str)
        ensures r@ == self@,
    { unimplemented!() }
}
/// `C == &str` (`PartialEq<&str> for C`): ASSUMED to be equality of the characters
#[verifier::external_body]
pub fn cname_eq(a: &CName, b: &Str) -> (r: bool)
    ensures r == (a@ == b@),
{ unimplemented!() }
/// `E: Into<BedValueError>`: some deterministic conversion
#[verifier::external_body]
pub struct SrcErr { _p: u8 }
impl SrcErr {
    pub uninterp spec fn conv(self) -> BedValueError;
    #[verifier::external_body]
    pub fn into(self) -> (r: BedValueError)
        ensures r == self.conv(),
    { unimplemented!() }
}
/// `I: Iterator<Item = Result<(C, V), E>>`: the items not handed out yet; ASSUMED fused (stays exhausted)
#[verifier::external_body]
pub struct VIter { _p: u8 }
impl VIter {
    pub uninterp spec fn rest(&self) -> Seq<Result<(CName, Val), SrcErr>>;
    #[verifier::external_body]
    pub fn next(&mut self) -> (r: Option<Result<(CName, Val), SrcErr>>)
        ensures
            old(self).rest().len() == 0 ==> r is None && final(self).rest() == old(self).rest(),
            old(self).rest().len() > 0 ==> r == Some(old(self).rest()[0]) && final(self).rest() == old(self).rest().drop_first(),
    { unimplemented!() }
}
/// `I: Iterator<Item = (C, V)>`
#[verifier::external_body]
pub struct VIterI { _p: u8 }
impl VIterI {
    pub uninterp spec fn rest(&self) -> Seq<(CName, Val)>;
    #[verifier::external_body]
    pub fn next(&mut self) -> (r: Option<(CName, Val)>)
        ensures
            old(self).rest().len() == 0 ==> r is None && final(self).rest() == old(self).rest(),
            old(self).rest().len() > 0 ==> r == Some(old(self).rest()[0]) && final(self).rest() == old(self).rest().drop_first(),
    { unimplemented!() }
}

//@extract struct bigtools/src/bed/bedparser.rs BedIteratorStream
//@rule R8
//@sub /BedIteratorStream<V, I>/ => BedIteratorStream min=1
//@sub /iter: I,/ => iter: VIter, min=1
//@sub /\(String, V\)/ => (Str, Val) min=1
//@end
//@extract struct bigtools/src/bed/bedparser.rs BedInfallibleIteratorStream
//@rule R8
//@sub /BedInfallibleIteratorStream<V, I>/ => BedInfallibleIteratorStream min=1
//@sub /iter: I,/ => iter: VIterI, min=1
//@sub /\(String, V\)/ => (Str, Val) min=1
//@end

// R11 in both `next`s: the generic signature instantiated (`(&str, V)` -> `(&Str, Val)`); `v.0 == &c.0` ->
// `cname_eq(&v.0, &c.0)`; the closing `self.curr.as_ref().map(|v| E)` -> `match self.curr.as_ref() { Some(v) =>
// Some(E), None => None }` (definition of Option::map; E verbatim).
impl BedIteratorStream {
//@extract method bigtools/src/bed/bedparser.rs next "StreamingBedValues for BedIteratorStream"
//@rule R16
//@sub /\(&str, V\)/ => (&Str, Val) min=1
//@sub /^\s*use std::ops::Deref;\n/ => "" min=0
//@sub /(\w+(?:\.\w+)*) == &(\w+(?:\.\w+)*)/ => cname_eq(&\1, &\2) min=0
//@sub /(self\.curr\.as_ref\(\))\.map\(\|v\| (.*?)\)(\s*\}\s*)\Z/ => match \1 { Some(v) => Some(\2), None => None }\3 min=1
//@ret r
//@sig
    ensures
        [[L: iter/none_iff_iterator_exhausted]]
        r is None <==> old(self).iter.rest().len() == 0,
        [[L: iter/exactly_one_item_consumed]]
        old(self).iter.rest().len() > 0 ==> final(self).iter.rest() == old(self).iter.rest().drop_first(),
        old(self).iter.rest().len() == 0 ==> final(self).iter.rest() == old(self).iter.rest(),
        [[L: iter/ok_item_yields_its_own_chrom_text_and_value]]
        old(self).iter.rest().len() > 0 ==> (old(self).iter.rest()[0] matches Ok(x) ==>
            r is Some && r->Some_0 is Ok && r->Some_0->Ok_0.0@ == x.0@ && r->Some_0->Ok_0.1 == x.1),
        [[L: iter/error_item_is_passed_on]]
        old(self).iter.rest().len() > 0 ==> (old(self).iter.rest()[0] matches Err(e) ==>
            r == Some(Err::<(&Str, Val), BedValueError>(e.conv()))),
        [[L: iter/cache_holds_what_was_returned]]
        r matches Some(Ok(y)) ==> final(self).curr is Some && final(self).curr->Some_0.0@ == y.0@ && final(self).curr->Some_0.1 == y.1,
    decreases
        [[L: iter/termination]]
        old(self).iter.rest().len(),
//@end
}
impl BedInfallibleIteratorStream {
//@extract method bigtools/src/bed/bedparser.rs next "StreamingBedValues\s+for BedInfallibleIteratorStream"
//@rule R16
//@sub /\(&str, V\)/ => (&Str, Val) min=1
//@sub /^\s*use std::ops::Deref;\n/ => "" min=0
//@sub /(\w+(?:\.\w+)*) == &(\w+(?:\.\w+)*)/ => cname_eq(&\1, &\2) min=0
//@sub /(self\.curr\.as_ref\(\))\.map\(\|v\| (.*?)\)(\s*\}\s*)\Z/ => match \1 { Some(v) => Some(\2), None => None }\3 min=1
//@ret r
//@sig
    ensures
        [[L: infallible/none_iff_iterator_exhausted]]
        r is None <==> old(self).iter.rest().len() == 0,
        [[L: infallible/exactly_one_item_consumed]]
        old(self).iter.rest().len() > 0 ==> final(self).iter.rest() == old(self).iter.rest().drop_first(),
        old(self).iter.rest().len() == 0 ==> final(self).iter.rest() == old(self).iter.rest(),
        [[L: infallible/item_yields_its_own_chrom_text_and_value]]
        old(self).iter.rest().len() > 0 ==>
            r is Some && r->Some_0 is Ok && r->Some_0->Ok_0.0@ == old(self).iter.rest()[0].0@ && r->Some_0->Ok_0.1 == old(self).iter.rest()[0].1,
        [[L: infallible/cache_holds_what_was_returned]]
        r matches Some(Ok(y)) ==> final(self).curr is Some && final(self).curr->Some_0.0@ == y.0@ && final(self).curr->Some_0.1 == y.1,
    decreases
        [[L: infallible/termination]]
        old(self).iter.rest().len(),
//@end
}

} // verus!
fn main() {}
