//@unit bw_enc
//@serves C01 C09
//@backend verus
// bigwigwrite::encode_section: one batch of values -> one on-disk bigWig data block
// (bedGraph section, type 1).  C01/C09: block bytes == published section layout (24-byte header,
// 12 bytes per item), header count == number of items (u16, lossless), block span == [first.start,
// last.end) and covers every item, one chromosome, advertised uncompressed size == real size.
use vstd::prelude::*;
use vstd::std_specs::ops::*;
use vstd::std_specs::convert::FromSpec;
verus! {
//@include ../_shared/floats.rs
//@include ../_shared/bytes.rs

//@extract struct bigtools/src/bbi.rs Value
//@rule R8
//@end
//@extract struct bigtools/src/bbi/bbiwrite.rs SectionData
//@rule R8
//@end

// libdeflater (C library): assumed contract = zlib inverse.  Replaces the 7-line
// Compressor::new / zlib_compress_bound / zlib_compress / resize cluster (R11).
pub uninterp spec fn inflate(z: Seq<u8>) -> Seq<u8>;
#[verifier::external_body]
pub fn deflate_vec(b: &Sink) -> (r: Vec<u8>) ensures inflate(r@) == b@ { unimplemented!() }

// ---- format spec (from the published bigWig layout; shares no code with the reader) ----
// BEGIN fmt_bw_section (textually identical copy in bw_dec/unit.rs.tpl)
/// 24-byte section header: chromId, chromStart, chromEnd, itemStep = 0, itemSpan = 0,
/// type = 1 (bedGraph), reserved = 0, itemCount (u16)
pub open spec fn bw_header(chrom: u32, start: u32, end: u32, n: u16) -> Seq<u8> {
    (Seq::<u8>::empty() + le32(chrom) + le32(start) + le32(end) + le32(0u32) + le32(0u32)).push(1u8).push(0u8) + le16(n)
}
/// one 12-byte bedGraph item appended to `b` (left-associated, the order a sequential writer produces)
pub open spec fn put_bw_item(b: Seq<u8>, v: Value) -> Seq<u8> {
    b + le32(v.start) + le32(v.end) + le32(f32_bits(v.value))
}
pub open spec fn fmt_bw_items(hdr: Seq<u8>, items: Seq<Value>) -> Seq<u8>
    decreases items.len()
{
    if items.len() == 0 { hdr } else { put_bw_item(fmt_bw_items(hdr, items.drop_last()), items.last()) }
}
pub open spec fn fmt_bw_section(chrom: u32, items: Seq<Value>) -> Seq<u8> {
    fmt_bw_items(bw_header(chrom, items[0].start, items.last().end, items.len() as u16), items)
}
// END fmt_bw_section
pub proof fn lemma_fmt_len(hdr: Seq<u8>, items: Seq<Value>)
    ensures fmt_bw_items(hdr, items).len() == hdr.len() + 12 * items.len()
    decreases items.len()
{
    if items.len() > 0 { lemma_fmt_len(hdr, items.drop_last()); }
}
/// what the batching unit (bw_batch) guarantees about an emitted batch, plus the u16 bound that
/// nothing in the repository checks (see NOTES.md)
pub open spec fn batch_ok(items: Seq<Value>) -> bool {
    &&& 1 <= items.len() <= 65535
    &&& forall|i: int| 0 <= i < items.len() ==> (#[trigger] items[i]).start <= items[i].end
    &&& forall|i: int, j: int| 0 <= i < j < items.len() ==> (#[trigger] items[i]).end <= (#[trigger] items[j]).start
}

//@extract fn bigtools/src/bbi/bigwigwrite.rs encode_section
//@rule R16
//@rule R1
//@rule R3 min=11
//@rule R7 min=1
//@rule R8
//@presub /use libdeflater::\{CompressionLvl, Compressor\};\n/ => ""
//@presub /let mut compressor = Compressor::new\(CompressionLvl::default\(\)\);\s*let max_sz = compressor\.zlib_compress_bound\(bytes\.len\(\)\);\s*let mut compressed_data = vec!\[0; max_sz\];\s*let actual_sz = compressor\s*\.zlib_compress\(&bytes, &mut compressed_data\)\s*\.unwrap\(\);\s*compressed_data\.(?:resize\(actual_sz, 0\)|truncate\(actual_sz\));/ => let compressed_data = deflate_vec(&bytes); let actual_sz = compressed_data.len(); let max_sz = actual_sz;
//@sub /let mut bytes = Vec::with_capacity\(((?:\d+|items_in_section\.len\(\)|[-+*\/()]|\s)*)\);/ => let mut bytes = Sink::with_capacity(0); CAP{\1}CAP
//@sub / CAP\{[^-\/{}]*\}CAP/ => "" min=0
//@sub /items_in_section\.len\(\)(?=[-+*()\d\s]*(?:items_in_section\.len\(\)[-+*()\d\s]*)*\}CAP)/ => items_in_section@.len() min=0
//@sub /CAP\{([^\/{}]*)\}CAP/ => assert((\1) >= 0); min=0
//@sub /\(bytes, (\d+)\)/ => (bytes.bytes, \1) min=0
//@sub /\}\s*else\s*\{\s*bytes\s*\}/ => } else { bytes.bytes } min=0
//@sub /io::Result</ => Result<
//@sub /usize\)> \{/ => usize), IoError> {
//@ret r
//@sig
    requires
        [[L: pre_batch]]
        batch_ok(items_in_section@),
    ensures
        [[L: never_fails_on_memory_sink]]
        r.is_ok(),
        [[L: bytes_are_published_layout]]
        !compress ==> r.unwrap().0.data@ == fmt_bw_section(chrom_id, items_in_section@),
        [[L: compressed_inflates_to_layout]]
        compress ==> inflate(r.unwrap().0.data@) == fmt_bw_section(chrom_id, items_in_section@),
        [[L: advertised_uncompressed_size]]
        r.unwrap().1 == (if compress { 24 + 12 * items_in_section@.len() } else { 0 }),
        [[L: section_chrom_is_callers]]
        r.unwrap().0.chrom == chrom_id,
        [[L: span_is_first_start_to_last_end]]
        r.unwrap().0.start == items_in_section@[0].start && r.unwrap().0.end == items_in_section@.last().end,
        [[L: span_covers_every_item]]
        forall|i: int| 0 <= i < items_in_section@.len() ==> r.unwrap().0.start <= (#[trigger] items_in_section@[i]).start && items_in_section@[i].end <= r.unwrap().0.end,
//@at /bytes\.put_u16\(/ before
    assert(items_in_section.len() <= 65535); [[L: count_fits_u16]]
//@at /bytes\.put_u16\(/ after
    let ghost hdr = bytes@;
    proof {
        assert(hdr == bw_header(chrom_id, items_in_section@[0].start, items_in_section@.last().end, items_in_section@.len() as u16)); [[L: header_layout]]
    }
//@loop 1
        invariant
            [[L: loop/prefix_encoded]]
            bytes@ == fmt_bw_items(hdr, items_in_section@.subrange(0, i__1 as int)),
//@at /let item = &items_in_section\[i__1\];/ after
        proof {
            assert(items_in_section@.subrange(0, i__1 + 1).drop_last() =~= items_in_section@.subrange(0, i__1 as int));
        }
        let ghost b0 = bytes@;
//@at /^    \}$/ nth=1 before
        proof {
            assert(bytes@ == put_bw_item(b0, *item)); [[L: loop/item_layout]]
        }
//@at /let [^=;]*= if compress \{/ before
    proof {
        assert(items_in_section@.subrange(0, items_in_section@.len() as int) =~= items_in_section@);
        lemma_fmt_len(hdr, items_in_section@);
        assert(hdr.len() == 24);
    }
//@end

} // verus!
fn main() {}
