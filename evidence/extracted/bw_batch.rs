// bigWig per-value step: bigwigwrite::process_val (validation, per-chromosome summary, batching).
//  C13: the value is refused (Err) exactly when start > end, end > chromosome length, or it
//       overlaps the next value; a refused value changes nothing.
//  C06: the per-chromosome summary is advanced by exactly this value (count, bases, and the
//       documented shape of sum / sum of squares / min / max over uninterpreted float operators).
//  C01: every accepted value is kept exactly once, in order (emitted stream ++ pending batch);
//       batches are 1..=items_per_slot long, emitted only when full or at the chromosome end,
//       all under the caller's chrom_id; nothing is left pending at the chromosome end.
use vstd::prelude::*;
use vstd::std_specs::ops::*;
use vstd::std_specs::convert::FromSpec;
verus! {
// ---- shared float prelude -------------------------------------------------
// Rust float operators are total; Verus models their results as uninterpreted
// functions (`add_spec`, `mul_spec`, `from_spec`, ...).  The axioms below say
// only (1) the operators have no precondition and (2) the exec operator returns
// the value of its spec function (determinism).  Nothing numerical is assumed.
mod float_ax {
use vstd::prelude::*;
use vstd::std_specs::ops::*;
use vstd::std_specs::convert::FromSpec;
pub broadcast axiom fn ax_f64_mul_total(a: f64, b: f64) ensures #[trigger] a.mul_req(b);
pub broadcast axiom fn ax_f64_add_total(a: f64, b: f64) ensures #[trigger] a.add_req(b);
pub broadcast axiom fn ax_f64_sub_total(a: f64, b: f64) ensures #[trigger] a.sub_req(b);
pub broadcast axiom fn ax_f64_div_total(a: f64, b: f64) ensures #[trigger] a.div_req(b);
pub broadcast axiom fn ax_f32_add_total(a: f32, b: f32) ensures #[trigger] a.add_req(b);
pub broadcast axiom fn ax_f32_sub_total(a: f32, b: f32) ensures #[trigger] a.sub_req(b);
pub broadcast group float_total { ax_f64_mul_total, ax_f64_add_total, ax_f64_sub_total, ax_f64_div_total, ax_f32_add_total, ax_f32_sub_total }
pub axiom fn float_det()
    ensures
        <f64 as AddSpec<f64>>::obeys_add_spec(), <f64 as MulSpec<f64>>::obeys_mul_spec(),
        <f64 as SubSpec<f64>>::obeys_sub_spec(), <f64 as DivSpec<f64>>::obeys_div_spec(),
        <f32 as AddSpec<f32>>::obeys_add_spec(), <f32 as SubSpec<f32>>::obeys_sub_spec(),
        <f64 as FromSpec<u32>>::obeys_from_spec(), <f64 as FromSpec<f32>>::obeys_from_spec();
}
broadcast use float_ax::float_total;
pub uninterp spec fn fmin(a: f64, b: f64) -> f64;
pub uninterp spec fn fmax(a: f64, b: f64) -> f64;
pub assume_specification [f64::min] (a: f64, b: f64) -> (r: f64) ensures r == fmin(a, b);
pub assume_specification [f64::max] (a: f64, b: f64) -> (r: f64) ensures r == fmax(a, b);
// float constants (rule R12c): Verus has no model of core::f64 associated consts; each is an
// uninterpreted spec constant, distinct names so that swapping two of them is visible.
pub uninterp spec fn spec_f64_max() -> f64;
pub uninterp spec fn spec_f64_min() -> f64;
pub uninterp spec fn spec_f64_min_positive() -> f64;
pub uninterp spec fn spec_f64_nan() -> f64;
pub uninterp spec fn spec_f64_infinity() -> f64;
pub uninterp spec fn spec_f64_neg_infinity() -> f64;
pub uninterp spec fn spec_f64_epsilon() -> f64;
#[verifier::external_body] pub fn fconst_f64_max() -> (r: f64) ensures r == spec_f64_max() { f64::MAX }
#[verifier::external_body] pub fn fconst_f64_min() -> (r: f64) ensures r == spec_f64_min() { f64::MIN }
#[verifier::external_body] pub fn fconst_f64_min_positive() -> (r: f64) ensures r == spec_f64_min_positive() { f64::MIN_POSITIVE }
#[verifier::external_body] pub fn fconst_f64_nan() -> (r: f64) ensures r == spec_f64_nan() { f64::NAN }
#[verifier::external_body] pub fn fconst_f64_infinity() -> (r: f64) ensures r == spec_f64_infinity() { f64::INFINITY }
#[verifier::external_body] pub fn fconst_f64_neg_infinity() -> (r: f64) ensures r == spec_f64_neg_infinity() { f64::NEG_INFINITY }
#[verifier::external_body] pub fn fconst_f64_epsilon() -> (r: f64) ensures r == spec_f64_epsilon() { f64::EPSILON }

#[derive(Copy, Clone)]
pub struct Summary {
    pub total_items: u64,
    pub bases_covered: u64,
    pub min_val: f64,
    pub max_val: f64,
    pub sum: f64,
    pub sum_squares: f64,
}
#[derive(Copy, Clone)]
pub struct Value {
    pub start: u32,
    pub end: u32,
    pub value: f32,
}
#[derive(Copy, Clone)]
pub enum InputSortType {
    ALL,
    START,
    // TODO
    //NONE,
}
pub struct BBIWriteOptions {
    pub compress: bool,
    pub items_per_slot: u32,
    pub block_size: u32,
    pub initial_zoom_size: u32,
    pub max_zooms: u32,
    pub manual_zoom_sizes: Option<Vec<u32>>,
    pub input_sort_type: InputSortType,
    pub channel_size: usize,
    pub inmemory: bool,
}

// ---------------- shims (assumed; listed in NOTES.md) ----------------
// Error value: the real type is `struct BigWigInvalidInput(String)`; the message text built by
// `format!` is dropped (unit-local substitution), only "an error value is returned" is kept.
pub struct BigWigInvalidInput { _p: u8 }
impl BigWigInvalidInput {
    fn new() -> (r: BigWigInvalidInput) { BigWigInvalidInput { _p: 0 } }
}
// tokio runtime handle: opaque, only passed through (its one use is inside the R2 hand-off).
#[verifier::external_body]
pub struct Handle { _p: u8 }

// R2 shim: `runtime.spawn(encode_section(compress, items, chrom_id))` + bounded-channel send.
// Assumed contract: the batch is appended, in order, to the chromosome's section stream and is
// recorded with the chrom_id it was submitted under.  `requires` = encode_section's own
// precondition (it reads items[0] / items[len-1]); the u16 item-count limit is the encoder unit's.
#[verifier::external_body]
pub struct SectionSink { _p: u8 }
impl SectionSink {
    /// flat stream of all values handed to the encoder so far, in submission order
    pub uninterp spec fn log(&self) -> Seq<Value>;
    /// length of each submitted batch, in submission order
    pub uninterp spec fn batches(&self) -> Seq<int>;
    /// chrom_id each batch was submitted under
    pub uninterp spec fn chroms(&self) -> Seq<u32>;
    /// compress flag each batch was submitted with
    pub uninterp spec fn flags(&self) -> Seq<bool>;
    #[verifier::external_body]
    fn emit_encode_section(&mut self, compress: bool, items: Vec<Value>, chrom_id: u32)
        requires
            items@.len() > 0,
        ensures
            final(self).log() == old(self).log() + items@,
            final(self).batches() == old(self).batches().push(items@.len() as int),
            final(self).chroms() == old(self).chroms().push(chrom_id),
            final(self).flags() == old(self).flags().push(compress),
    { unimplemented!() }
}
/// `std::mem::replace(v, Vec::with_capacity(cap))`: returns the old vector, leaves an empty one.
fn replace_vec(v: &mut Vec<Value>, cap: usize) -> (r: Vec<Value>)
    ensures r@ == old(v)@, final(v)@.len() == 0
{ let mut n = Vec::with_capacity(cap); std::mem::swap(v, &mut n); n }

// ---------------- specification vocabulary (written from the properties) ----------------
/// C13: the value cannot be represented at this point of the stream
spec fn refused(v: Value, next: Option<&Value>, chrom_length: u32) -> bool {
    ||| v.start > v.end
    ||| v.end > chrom_length
    ||| (next.is_some() && v.end > next.unwrap().start)
}
/// C06 vocabulary: weight (length as f64) and value (as f64) of one bedGraph value; the float
/// operators themselves are uninterpreted (shape is pinned, rounding is not judged)
spec fn wt(v: Value) -> f64 { f64::from_spec((v.end - v.start) as u32) }
spec fn fv(v: Value) -> f64 { f64::from_spec(v.value) }
/// total number of bases of a value sequence
spec fn tot(h: Seq<Value>) -> int
    decreases h.len()
{
    if h.len() == 0 { 0 } else { tot(h.drop_last()) + (h.last().end - h.last().start) }
}
/// values accepted so far on this chromosome: start <= end, sorted, non-overlapping, inside the chromosome
spec fn hist_ok(h: Seq<Value>, chrom_length: u32) -> bool {
    &&& forall|i: int| 0 <= i < h.len() ==> (#[trigger] h[i]).start <= h[i].end && h[i].end <= chrom_length
    &&& forall|i: int| 0 <= i < h.len() - 1 ==> (#[trigger] h[i]).end <= h[i + 1].start
}
/// the running summary counts exactly the accepted values (integer part)
spec fn summary_counts(s: Summary, h: Seq<Value>) -> bool {
    &&& s.total_items == h.len()
    &&& s.bases_covered == tot(h)
}
/// sorted + disjoint + inside the chromosome  ==>  total bases <= end of the last value
proof fn lemma_tot_bound(h: Seq<Value>, chrom_length: u32)
    requires hist_ok(h, chrom_length),
    ensures 0 <= tot(h), h.len() > 0 ==> tot(h) <= h.last().end, tot(h) <= chrom_length,
    decreases h.len(),
{
    if h.len() > 0 {
        let g = h.drop_last();
        assert forall|i: int| 0 <= i < g.len() implies (#[trigger] g[i]).start <= g[i].end && g[i].end <= chrom_length by {
            assert(g[i] == h[i]);
        }
        assert forall|i: int| 0 <= i < g.len() - 1 implies (#[trigger] g[i]).end <= g[i + 1].start by {
            assert(g[i] == h[i]); assert(g[i + 1] == h[i + 1]);
        }
        lemma_tot_bound(g, chrom_length);
        let l = h[h.len() - 1];
        if g.len() > 0 {
            assert(g.last() == h[h.len() - 2]);
            assert(h[h.len() - 2].end <= h[h.len() - 2 + 1].start);
        }
    }
}
proof fn lemma_hist_push(h: Seq<Value>, v: Value, chrom_length: u32)
    requires hist_ok(h, chrom_length), v.start <= v.end <= chrom_length, h.len() > 0 ==> h.last().end <= v.start,
    ensures hist_ok(h.push(v), chrom_length), tot(h.push(v)) == tot(h) + (v.end - v.start),
{
    let hp = h.push(v);
    assert(hp.drop_last() =~= h);
    assert(hp.last() == v);
    assert forall|i: int| 0 <= i < hp.len() implies (#[trigger] hp[i]).start <= hp[i].end && hp[i].end <= chrom_length by {
        if i < h.len() { assert(hp[i] == h[i]); }
    }
    assert forall|i: int| 0 <= i < hp.len() - 1 implies (#[trigger] hp[i]).end <= hp[i + 1].start by {
        assert(hp[i] == h[i]);
        if i + 1 < h.len() { assert(hp[i + 1] == h[i + 1]); }
    }
}

fn process_val(
    current_val: Value,
    next_val: Option<&Value>,
    chrom_length: u32,
    chrom: &String,
    summary: &mut Summary,
    items: &mut Vec<Value>,
    options: &BBIWriteOptions,
    runtime: &Handle,
    ftx: &mut SectionSink,
    chrom_id: u32, Ghost(hist): Ghost<Seq<Value>>) -> (r: Result<(), BigWigInvalidInput>)
    requires
        
        options.items_per_slot >= 1,
        old(items)@.len() < options.items_per_slot,
        // values accepted so far on this chromosome, and the protocol of the caller: the
        // previous call was given this value as its `next_val` (so it checked prev.end <= start)
        hist_ok(hist, chrom_length),
        hist.len() > 0 ==> hist.last().end <= current_val.start,
        summary_counts(*old(summary), hist),
        // fewer than 2^64 values per chromosome (total_items is a u64 counter)
        old(summary).total_items < u64::MAX,
    ensures
        
        r.is_err() <==> refused(current_val, next_val, chrom_length),
        
        r.is_err() ==> *final(summary) == *old(summary) && final(items)@ == old(items)@
            && final(ftx).log() == old(ftx).log() && final(ftx).batches() == old(ftx).batches()
            && final(ftx).chroms() == old(ftx).chroms() && final(ftx).flags() == old(ftx).flags(),
        
        r.is_ok() ==> final(summary).total_items == old(summary).total_items + 1,
        
        r.is_ok() ==> final(summary).bases_covered == old(summary).bases_covered + (current_val.end - current_val.start),
        
        r.is_ok() ==> final(summary).sum == old(summary).sum.add_spec(wt(current_val).mul_spec(fv(current_val))),
        
        r.is_ok() ==> final(summary).sum_squares == old(summary).sum_squares.add_spec(wt(current_val).mul_spec(fv(current_val)).mul_spec(fv(current_val))),
        
        r.is_ok() ==> final(summary).min_val == fmin(old(summary).min_val, fv(current_val)),
        
        r.is_ok() ==> final(summary).max_val == fmax(old(summary).max_val, fv(current_val)),
        
        r.is_ok() ==> summary_counts(*final(summary), hist.push(current_val)) && hist_ok(hist.push(current_val), chrom_length),
        
        r.is_ok() ==> final(ftx).log() + final(items)@ == (old(ftx).log() + old(items)@).push(current_val),
        
        r.is_ok() ==> (final(ftx).batches().len() == old(ftx).batches().len()
            || final(ftx).batches().len() == old(ftx).batches().len() + 1),
        r.is_ok() ==> (final(ftx).batches().len() == old(ftx).batches().len() + 1
            <==> (next_val.is_none() || old(items)@.len() + 1 >= options.items_per_slot)),
        
        r.is_ok() && final(ftx).batches().len() == old(ftx).batches().len() + 1 ==> {
            &&& final(ftx).batches() == old(ftx).batches().push(old(items)@.len() as int + 1)
            &&& final(ftx).log() == old(ftx).log() + old(items)@.push(current_val)
        },
        
        r.is_ok() && final(ftx).batches().len() == old(ftx).batches().len() + 1 ==> {
            &&& final(ftx).chroms() == old(ftx).chroms().push(chrom_id)
            &&& final(ftx).flags() == old(ftx).flags().push(options.compress)
        },
        
        r.is_ok() && final(ftx).batches().len() == old(ftx).batches().len() ==> {
            &&& final(ftx).batches() == old(ftx).batches()
            &&& final(ftx).log() == old(ftx).log()
            &&& final(ftx).chroms() == old(ftx).chroms()
            &&& final(ftx).flags() == old(ftx).flags()
            &&& final(items)@ == old(items)@.push(current_val)
        },
        
        r.is_ok() ==> forall|i: int| old(ftx).batches().len() <= i < final(ftx).batches().len()
            ==> 1 <= #[trigger] final(ftx).batches()[i] <= options.items_per_slot,
        
        r.is_ok() && next_val.is_none() ==> final(items)@.len() == 0,
        
        r.is_ok() ==> final(items)@.len() < options.items_per_slot,
{
    proof {
        float_ax::float_det();
        lemma_tot_bound(hist, chrom_length); 
        if current_val.start <= current_val.end && current_val.end <= chrom_length {
            lemma_hist_push(hist, current_val, chrom_length);
        }
    }
    let ghost log0 = ftx.log();
    let ghost items0 = items@;

    // Check a few preconditions:
    // - The current end is greater than or equal to the start
    // - The current end is at most the chromosome length
    // - If there is a next value, then it does not overlap value
    // TODO: test these correctly fails
    if current_val.start > current_val.end {
        return Err(BigWigInvalidInput::new());
    }
    if current_val.end > chrom_length {
        return Err(BigWigInvalidInput::new());
    }
    match next_val {
        None => {}
        Some(next_val) => {
            if current_val.end > next_val.start {
                return Err(BigWigInvalidInput::new());
            }
        }
    }

    // Now, actually process the value.

    // First, update the summary.
    let len = current_val.end - current_val.start;
    let val = f64::from(current_val.value);
    summary.total_items = summary.total_items + (1);
    summary.bases_covered = summary.bases_covered + (u64::from(len));
    summary.min_val = summary.min_val.min(val);
    summary.max_val = summary.max_val.max(val);
    summary.sum = summary.sum + (f64::from(len) * val);
    summary.sum_squares = summary.sum_squares + (f64::from(len) * val * val);

    // Then, add the current item to the actual values, and encode if full, or last item
    items.push(current_val);
    if next_val.is_none() || items.len() >= options.items_per_slot as usize {
        let items = replace_vec(items, options.items_per_slot as usize);
        ftx.emit_encode_section(options.compress, items, chrom_id);
    }


    proof {
        assert(ftx.log() + items@ =~= (log0 + items0).push(current_val));
    }
    Ok(())
}

} // verus!
fn main() {}

