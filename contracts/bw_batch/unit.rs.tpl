//@unit bw_batch
//@serves C01 C06 C13
//@backend verus
// bigWig per-value step: bigwigwrite::process_val (validation, per-chromosome summary, batching).
//  C13: the value is refused (Err) exactly when start > end, end > chromosome length, or it
//       overlaps the next value; a refused value changes nothing.
//  C06: the per-chromosome summary is advanced by exactly this value (count, bases, and the
//       documented shape of sum / sum of squares / min / max over uninterpreted float operators).
//  C01: every accepted value is kept exactly once, in order (emitted stream ++ pending batch);
//       batches are 1..=items_per_slot long, emitted only when full or at the chromosome end,
//       all under the caller's chrom_id; nothing is left pending at the chromosome end.
use vstd::prelude::*;
use vstd::std_specs::ops::*;
use vstd::std_specs::convert::FromSpec;
verus! {
//@include ../_shared/floats.rs

//@extract struct bigtools/src/bbi.rs Summary
//@rule R8
//@end
//@extract struct bigtools/src/bbi.rs Value
//@rule R8
//@end
//@extract enum bigtools/src/bbi/bbiwrite.rs InputSortType
//@rule R8
//@end
//@extract struct bigtools/src/bbi/bbiwrite.rs BBIWriteOptions
//@rule R8
//@sub /#\[derive\(Clone\)\]\n/ => ""
//@end

// ---------------- shims (assumed; listed in NOTES.md) ----------------
// Error value: the real type is `struct BigWigInvalidInput(String)`; the message text built by
// `format!` is dropped (unit-local substitution), only "an error value is returned" is kept.
pub struct BigWigInvalidInput { _p: u8 }
impl BigWigInvalidInput {
    fn new() -> (r: BigWigInvalidInput) { BigWigInvalidInput { _p: 0 } }
}
// tokio runtime handle: opaque, only passed through (its one use is inside the R2 hand-off).
#[verifier::external_body]
pub struct Handle { _p: u8 }

// R2 shim: `runtime.spawn(encode_section(compress, items, chrom_id))` + bounded-channel send.
// Assumed contract: the batch is appended, in order, to the chromosome's section stream and is
// recorded with the chrom_id it was submitted under.  `requires` = encode_section's own
// precondition (it reads items[0] / items[len-1]); the u16 item-count limit is the encoder unit's.
#[verifier::external_body]
pub struct SectionSink { _p: u8 }
impl SectionSink {
    /// flat stream of all values handed to the encoder so far, in submission order
    pub uninterp spec fn log(&self) -> Seq<Value>;
    /// length of each submitted batch, in submission order
    pub uninterp spec fn batches(&self) -> Seq<int>;
    /// chrom_id each batch was submitted under
    pub uninterp spec fn chroms(&self) -> Seq<u32>;
    /// compress flag each batch was submitted with
    pub uninterp spec fn flags(&self) -> Seq<bool>;
    #[verifier::external_body]
    fn emit_encode_section(&mut self, compress: bool, items: Vec<Value>, chrom_id: u32)
        requires
            items@.len() > 0,
        ensures
            final(self).log() == old(self).log() + items@,
            final(self).batches() == old(self).batches().push(items@.len() as int),
            final(self).chroms() == old(self).chroms().push(chrom_id),
            final(self).flags() == old(self).flags().push(compress),
    { unimplemented!() }
}
/// `std::mem::replace(v, Vec::with_capacity(cap))`: returns the old vector, leaves an empty one.
fn replace_vec(v: &mut Vec<Value>, cap: usize) -> (r: Vec<Value>)
    ensures r@ == old(v)@, final(v)@.len() == 0
{ let mut n = Vec::with_capacity(cap); std::mem::swap(v, &mut n); n }

// ---------------- specification vocabulary (written from the properties) ----------------
/// C13: the value cannot be represented at this point of the stream
spec fn refused(v: Value, next: Option<&Value>, chrom_length: u32) -> bool {
    ||| v.start > v.end
    ||| v.end > chrom_length
    ||| (next.is_some() && v.end > next.unwrap().start)
}
/// C06 vocabulary: weight (length as f64) and value (as f64) of one bedGraph value; the float
/// operators themselves are uninterpreted (shape is pinned, rounding is not judged)
spec fn wt(v: Value) -> f64 { f64::from_spec((v.end - v.start) as u32) }
spec fn fv(v: Value) -> f64 { f64::from_spec(v.value) }
/// total number of bases of a value sequence
spec fn tot(h: Seq<Value>) -> int
    decreases h.len()
{
    if h.len() == 0 { 0 } else { tot(h.drop_last()) + (h.last().end - h.last().start) }
}
/// values accepted so far on this chromosome: start <= end, sorted, non-overlapping, inside the chromosome
spec fn hist_ok(h: Seq<Value>, chrom_length: u32) -> bool {
    &&& forall|i: int| 0 <= i < h.len() ==> (#[trigger] h[i]).start <= h[i].end && h[i].end <= chrom_length
    &&& forall|i: int| 0 <= i < h.len() - 1 ==> (#[trigger] h[i]).end <= h[i + 1].start
}
/// the running summary counts exactly the accepted values (integer part)
spec fn summary_counts(s: Summary, h: Seq<Value>) -> bool {
    &&& s.total_items == h.len()
    &&& s.bases_covered == tot(h)
}
/// sorted + disjoint + inside the chromosome  ==>  total bases <= end of the last value
proof fn lemma_tot_bound(h: Seq<Value>, chrom_length: u32)
    requires hist_ok(h, chrom_length),
    ensures 0 <= tot(h), h.len() > 0 ==> tot(h) <= h.last().end, tot(h) <= chrom_length,
    decreases h.len(),
{
    if h.len() > 0 {
        let g = h.drop_last();
        assert forall|i: int| 0 <= i < g.len() implies (#[trigger] g[i]).start <= g[i].end && g[i].end <= chrom_length by {
            assert(g[i] == h[i]);
        }
        assert forall|i: int| 0 <= i < g.len() - 1 implies (#[trigger] g[i]).end <= g[i + 1].start by {
            assert(g[i] == h[i]); assert(g[i + 1] == h[i + 1]);
        }
        lemma_tot_bound(g, chrom_length);
        let l = h[h.len() - 1];
        if g.len() > 0 {
            assert(g.last() == h[h.len() - 2]);
            assert(h[h.len() - 2].end <= h[h.len() - 2 + 1].start);
        }
    }
}
proof fn lemma_hist_push(h: Seq<Value>, v: Value, chrom_length: u32)
    requires hist_ok(h, chrom_length), v.start <= v.end <= chrom_length, h.len() > 0 ==> h.last().end <= v.start,
    ensures hist_ok(h.push(v), chrom_length), tot(h.push(v)) == tot(h) + (v.end - v.start),
{
    let hp = h.push(v);
    assert(hp.drop_last() =~= h);
    assert(hp.last() == v);
    assert forall|i: int| 0 <= i < hp.len() implies (#[trigger] hp[i]).start <= hp[i].end && hp[i].end <= chrom_length by {
        if i < h.len() { assert(hp[i] == h[i]); }
    }
    assert forall|i: int| 0 <= i < hp.len() - 1 implies (#[trigger] hp[i]).end <= hp[i + 1].start by {
        assert(hp[i] == h[i]);
        if i + 1 < h.len() { assert(hp[i + 1] == h[i + 1]); }
    }
}

//@extract fn bigtools/src/bbi/bigwigwrite.rs process_val
//@rule R16
//@rule R2 min=1
//@rule R1 min=1
//@rule R5 min=4
//@sub /return Err\(BigWigInvalidInput\(format!\(.*?\)\)\);/ => return Err(BigWigInvalidInput::new()); min=3
//@sub /std::mem::replace\(items, Vec::with_capacity\(([^()]*)\)\)/ => replace_vec(items, \1)
//@sub /BBIDataProcessoringInputSectionChannel/ => SectionSink
//@sub /chrom_id: u32,\n\)/ => chrom_id: u32, Ghost(hist): Ghost<Seq<Value>>)
//@ret r
//@sig
    requires
        [[L: pre]]
        options.items_per_slot >= 1,
        old(items)@.len() < options.items_per_slot,
        // values accepted so far on this chromosome, and the protocol of the caller: the
        // previous call was given this value as its `next_val` (so it checked prev.end <= start)
        hist_ok(hist, chrom_length),
        hist.len() > 0 ==> hist.last().end <= current_val.start,
        summary_counts(*old(summary), hist),
        // fewer than 2^64 values per chromosome (total_items is a u64 counter)
        old(summary).total_items < u64::MAX,
    ensures
        [[L: refused_iff_unrepresentable]]
        r.is_err() <==> refused(current_val, next_val, chrom_length),
        [[L: refused_changes_nothing]]
        r.is_err() ==> *final(summary) == *old(summary) && final(items)@ == old(items)@
            && final(ftx).log() == old(ftx).log() && final(ftx).batches() == old(ftx).batches()
            && final(ftx).chroms() == old(ftx).chroms() && final(ftx).flags() == old(ftx).flags(),
        [[L: summary/total_items_plus_one]]
        r.is_ok() ==> final(summary).total_items == old(summary).total_items + 1,
        [[L: summary/bases_covered_plus_length]]
        r.is_ok() ==> final(summary).bases_covered == old(summary).bases_covered + (current_val.end - current_val.start),
        [[L: summary/sum_weighted_by_length]]
        r.is_ok() ==> final(summary).sum == old(summary).sum.add_spec(wt(current_val).mul_spec(fv(current_val))),
        [[L: summary/sum_squares]]
        r.is_ok() ==> final(summary).sum_squares == old(summary).sum_squares.add_spec(wt(current_val).mul_spec(fv(current_val)).mul_spec(fv(current_val))),
        [[L: summary/min]]
        r.is_ok() ==> final(summary).min_val == fmin(old(summary).min_val, fv(current_val)),
        [[L: summary/max]]
        r.is_ok() ==> final(summary).max_val == fmax(old(summary).max_val, fv(current_val)),
        [[L: summary_counts_history]]
        r.is_ok() ==> summary_counts(*final(summary), hist.push(current_val)) && hist_ok(hist.push(current_val), chrom_length),
        [[L: every_value_kept_once_in_order]]
        r.is_ok() ==> final(ftx).log() + final(items)@ == (old(ftx).log() + old(items)@).push(current_val),
        [[L: emit_only_when_full_or_last]]
        r.is_ok() ==> (final(ftx).batches().len() == old(ftx).batches().len()
            || final(ftx).batches().len() == old(ftx).batches().len() + 1),
        r.is_ok() ==> (final(ftx).batches().len() == old(ftx).batches().len() + 1
            <==> (next_val.is_none() || old(items)@.len() + 1 >= options.items_per_slot)),
        [[L: emitted_batch_is_whole_pending]]
        r.is_ok() && final(ftx).batches().len() == old(ftx).batches().len() + 1 ==> {
            &&& final(ftx).batches() == old(ftx).batches().push(old(items)@.len() as int + 1)
            &&& final(ftx).log() == old(ftx).log() + old(items)@.push(current_val)
        },
        [[L: emitted_under_callers_chrom_id_and_compress_flag]]
        r.is_ok() && final(ftx).batches().len() == old(ftx).batches().len() + 1 ==> {
            &&& final(ftx).chroms() == old(ftx).chroms().push(chrom_id)
            &&& final(ftx).flags() == old(ftx).flags().push(options.compress)
        },
        [[L: no_emit_only_appends_to_pending]]
        r.is_ok() && final(ftx).batches().len() == old(ftx).batches().len() ==> {
            &&& final(ftx).batches() == old(ftx).batches()
            &&& final(ftx).log() == old(ftx).log()
            &&& final(ftx).chroms() == old(ftx).chroms()
            &&& final(ftx).flags() == old(ftx).flags()
            &&& final(items)@ == old(items)@.push(current_val)
        },
        [[L: batch_len_1_to_items_per_slot]]
        r.is_ok() ==> forall|i: int| old(ftx).batches().len() <= i < final(ftx).batches().len()
            ==> 1 <= #[trigger] final(ftx).batches()[i] <= options.items_per_slot,
        [[L: chrom_end_leaves_nothing_pending]]
        r.is_ok() && next_val.is_none() ==> final(items)@.len() == 0,
        [[L: pending_not_full_at_exit]]
        r.is_ok() ==> final(items)@.len() < options.items_per_slot,
//@open
    proof {
        float_ax::float_det();
        lemma_tot_bound(hist, chrom_length); [[L: bases_covered_cannot_overflow]]
        if current_val.start <= current_val.end && current_val.end <= chrom_length {
            lemma_hist_push(hist, current_val, chrom_length);
        }
    }
    let ghost log0 = ftx.log();
    let ghost items0 = items@;
//@at /^    Ok\(\(\)\)\s*$/ before
    proof {
        assert(ftx.log() + items@ =~= (log0 + items0).push(current_val));
    }
//@end

} // verus!
fn main() {}
