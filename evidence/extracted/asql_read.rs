// bigbedread.rs `BigBedRead::autosql` and the three `open` functions (bigwigread.rs, bigbedread.rs, bbiread.rs).
//   C19/C02: "a schema supplied to the tool or the library is stored and returned verbatim": the reader returns exactly
//   the bytes stored at `auto_sql_offset` up to (not including) the terminating NUL -- the reader-side mirror of unit
//   write_pre (`bb/text_stored_verbatim_at_autosql_offset`, `bb/text_has_no_nul_and_one_nul_follows`); offset 0 = no
//   schema.  C10: a file is opened as what its magic says (bigWig / bigBed), never as the other kind.
// The prelude (types, VRead shim) is a copy of unit summary_io's prelude, taken mechanically by the maintainer's
// script at unit-creation time (same shims, same assumptions).
use vstd::prelude::*;
use vstd::std_specs::convert::FromSpec;
verus! {
// ---- shared byte-level prelude ---------------------------------------------
// Format vocabulary written from the published BBI layout (Kent et al. 2010),
// as arithmetic on byte values - not as calls to from_le_bytes/to_le_bytes.
/// k-th base-256 digit of x (opaque: the div/mod arithmetic is only unfolded inside the codec lemmas)
#[verifier::opaque]
pub open spec fn byte_of(x: int, k: int) -> u8 {
    if k == 0 { (x % 256) as u8 } else if k == 1 { (x / 256 % 256) as u8 } else if k == 2 { (x / 65536 % 256) as u8 }
    else if k == 3 { (x / 16777216 % 256) as u8 } else if k == 4 { (x / 4294967296 % 256) as u8 }
    else if k == 5 { (x / 1099511627776 % 256) as u8 } else if k == 6 { (x / 281474976710656 % 256) as u8 }
    else { (x / 72057594037927936 % 256) as u8 }
}
pub open spec fn le16(x: u16) -> Seq<u8> { seq![byte_of(x as int, 0), byte_of(x as int, 1)] }
pub open spec fn le32(x: u32) -> Seq<u8> { seq![byte_of(x as int, 0), byte_of(x as int, 1), byte_of(x as int, 2), byte_of(x as int, 3)] }
pub open spec fn le64(x: u64) -> Seq<u8> {
    seq![byte_of(x as int, 0), byte_of(x as int, 1), byte_of(x as int, 2), byte_of(x as int, 3),
         byte_of(x as int, 4), byte_of(x as int, 5), byte_of(x as int, 6), byte_of(x as int, 7)]
}
pub open spec fn be16(x: u16) -> Seq<u8> { seq![byte_of(x as int, 1), byte_of(x as int, 0)] }
pub open spec fn be32(x: u32) -> Seq<u8> { seq![byte_of(x as int, 3), byte_of(x as int, 2), byte_of(x as int, 1), byte_of(x as int, 0)] }
pub open spec fn be64(x: u64) -> Seq<u8> {
    seq![byte_of(x as int, 7), byte_of(x as int, 6), byte_of(x as int, 5), byte_of(x as int, 4),
         byte_of(x as int, 3), byte_of(x as int, 2), byte_of(x as int, 1), byte_of(x as int, 0)]
}
// decode: value of the little-/big-endian integer stored at s[i..]
pub open spec fn dle16(s: Seq<u8>, i: int) -> int { s[i] as int + 256 * (s[i + 1] as int) }
pub open spec fn dle32(s: Seq<u8>, i: int) -> int {
    s[i] as int + 256 * (s[i + 1] as int) + 65536 * (s[i + 2] as int) + 16777216 * (s[i + 3] as int)
}
pub open spec fn dle64(s: Seq<u8>, i: int) -> int { dle32(s, i) + 4294967296 * dle32(s, i + 4) }
pub open spec fn dbe16(s: Seq<u8>, i: int) -> int { 256 * (s[i] as int) + s[i + 1] as int }
pub open spec fn dbe32(s: Seq<u8>, i: int) -> int {
    16777216 * (s[i] as int) + 65536 * (s[i + 1] as int) + 256 * (s[i + 2] as int) + s[i + 3] as int
}
pub open spec fn dbe64(s: Seq<u8>, i: int) -> int { 4294967296 * dbe32(s, i) + dbe32(s, i + 4) }
/// integer at s[i..] in byte order `big`
pub open spec fn d16(big: bool, s: Seq<u8>, i: int) -> int { if big { dbe16(s, i) } else { dle16(s, i) } }
pub open spec fn d32(big: bool, s: Seq<u8>, i: int) -> int { if big { dbe32(s, i) } else { dle32(s, i) } }
pub open spec fn d64(big: bool, s: Seq<u8>, i: int) -> int { if big { dbe64(s, i) } else { dle64(s, i) } }
pub open spec fn e16(big: bool, x: u16) -> Seq<u8> { if big { be16(x) } else { le16(x) } }
pub open spec fn e32(big: bool, x: u32) -> Seq<u8> { if big { be32(x) } else { le32(x) } }
pub open spec fn e64(big: bool, x: u64) -> Seq<u8> { if big { be64(x) } else { le64(x) } }

// Floats on disk: IEEE bit patterns.  `to_bits`/`from_bits` are uninterpreted; the only
// assumed fact is that they are inverse (true of Rust's f32::to_bits/from_bits bit-for-bit).
pub uninterp spec fn f32_bits(x: f32) -> u32;
pub uninterp spec fn f32_of_bits(b: u32) -> f32;
pub uninterp spec fn f64_bits(x: f64) -> u64;
pub uninterp spec fn f64_of_bits(b: u64) -> f64;
pub broadcast axiom fn ax_f32_bits_inv(x: f32) ensures #[trigger] f32_of_bits(f32_bits(x)) == x;
pub broadcast axiom fn ax_f64_bits_inv(x: f64) ensures #[trigger] f64_of_bits(f64_bits(x)) == x;

#[verifier::external_body]
#[derive(Debug)]
pub struct IoError { _p: u8 }

#[verifier::external_body]
pub fn vpanic() -> !
    requires false
{ panic!() }

// ---- Sink: append-only in-memory writer (`Vec<u8>` used through byteorder::WriteBytesExt / io::Write).
// Assumed contracts: NativeEndian == LittleEndian (x86-64 / aarch64 targets); writes to a Vec never
// fail, the io::Result plumbing is kept so that `?` in the code typechecks.
pub struct Sink { pub bytes: Vec<u8> }
impl Sink {
    pub open spec fn view(&self) -> Seq<u8> { self.bytes@ }
    #[verifier::external_body]
    pub fn with_capacity(n: usize) -> (r: Sink) ensures r@.len() == 0 { Sink { bytes: Vec::with_capacity(n) } }
    pub fn len(&self) -> (r: usize) ensures r == self@.len() { self.bytes.len() }
    #[verifier::external_body]
    pub fn put_u8(&mut self, v: u8) -> (r: Result<(), IoError>)
        ensures r.is_ok(), final(self)@ == old(self)@.push(v) { unimplemented!() }
    #[verifier::external_body]
    pub fn put_u16(&mut self, v: u16) -> (r: Result<(), IoError>)
        ensures r.is_ok(), final(self)@ == old(self)@ + le16(v) { unimplemented!() }
    #[verifier::external_body]
    pub fn put_u32(&mut self, v: u32) -> (r: Result<(), IoError>)
        ensures r.is_ok(), final(self)@ == old(self)@ + le32(v) { unimplemented!() }
    #[verifier::external_body]
    pub fn put_u64(&mut self, v: u64) -> (r: Result<(), IoError>)
        ensures r.is_ok(), final(self)@ == old(self)@ + le64(v) { unimplemented!() }
    #[verifier::external_body]
    pub fn put_f32(&mut self, v: f32) -> (r: Result<(), IoError>)
        ensures r.is_ok(), final(self)@ == old(self)@ + le32(f32_bits(v)) { unimplemented!() }
    #[verifier::external_body]
    pub fn put_f64(&mut self, v: f64) -> (r: Result<(), IoError>)
        ensures r.is_ok(), final(self)@ == old(self)@ + le64(f64_bits(v)) { unimplemented!() }
    #[verifier::external_body]
    pub fn put_bytes(&mut self, b: &[u8]) -> (r: Result<(), IoError>)
        ensures r.is_ok(), final(self)@ == old(self)@ + b@ { unimplemented!() }
}

// ---- FSink: seekable destination (`BufWriter<W: Write + Seek>`).  Ghost image `data()` and
// position `pos()`.  A put at `pos` overwrites/extends the image; any operation may fail, in
// which case nothing is promised about the image (callers must propagate the error).
#[verifier::external_body]
pub struct FSink { _p: u8 }
pub open spec fn splice(d: Seq<u8>, at: int, b: Seq<u8>) -> Seq<u8>
    recommends 0 <= at <= d.len()
{
    if at + b.len() >= d.len() { d.subrange(0, at) + b } else { d.subrange(0, at) + b + d.subrange(at + b.len(), d.len() as int) }
}
impl FSink {
    pub uninterp spec fn data(&self) -> Seq<u8>;
    pub uninterp spec fn pos(&self) -> int;
    pub open spec fn wf(&self) -> bool { 0 <= self.pos() <= self.data().len() }
    #[verifier::external_body]
    pub fn tell(&mut self) -> (r: Result<u64, IoError>)
        requires old(self).wf(), old(self).pos() <= u64::MAX
        ensures final(self).data() == old(self).data(), final(self).pos() == old(self).pos(), r.is_ok() ==> r.unwrap() == old(self).pos()
    { unimplemented!() }
    #[verifier::external_body]
    pub fn seek_start(&mut self, p: u64) -> (r: Result<u64, IoError>)
        requires old(self).wf(), p <= old(self).data().len()
        ensures final(self).data() == old(self).data(), r.is_ok() ==> (final(self).pos() == p && r.unwrap() == p), final(self).wf()
    { unimplemented!() }
    #[verifier::external_body]
    pub fn seek_end0(&mut self) -> (r: Result<u64, IoError>)
        requires old(self).wf()
        ensures final(self).data() == old(self).data(), r.is_ok() ==> (final(self).pos() == old(self).data().len() && r.unwrap() == old(self).data().len()), final(self).wf()
    { unimplemented!() }
    #[verifier::external_body]
    pub fn put(&mut self, b: &[u8]) -> (r: Result<(), IoError>)
        requires old(self).wf()
        ensures r.is_ok() ==> (final(self).data() == splice(old(self).data(), old(self).pos(), b@) && final(self).pos() == old(self).pos() + b@.len()), final(self).wf()
    { unimplemented!() }
    #[verifier::external_body]
    pub fn put_u8(&mut self, v: u8) -> (r: Result<(), IoError>)
        requires old(self).wf()
        ensures r.is_ok() ==> (final(self).data() == splice(old(self).data(), old(self).pos(), seq![v]) && final(self).pos() == old(self).pos() + 1), final(self).wf()
    { unimplemented!() }
    #[verifier::external_body]
    pub fn put_u16(&mut self, v: u16) -> (r: Result<(), IoError>)
        requires old(self).wf()
        ensures r.is_ok() ==> (final(self).data() == splice(old(self).data(), old(self).pos(), le16(v)) && final(self).pos() == old(self).pos() + 2), final(self).wf()
    { unimplemented!() }
    #[verifier::external_body]
    pub fn put_u32(&mut self, v: u32) -> (r: Result<(), IoError>)
        requires old(self).wf()
        ensures r.is_ok() ==> (final(self).data() == splice(old(self).data(), old(self).pos(), le32(v)) && final(self).pos() == old(self).pos() + 4), final(self).wf()
    { unimplemented!() }
    #[verifier::external_body]
    pub fn put_u64(&mut self, v: u64) -> (r: Result<(), IoError>)
        requires old(self).wf()
        ensures r.is_ok() ==> (final(self).data() == splice(old(self).data(), old(self).pos(), le64(v)) && final(self).pos() == old(self).pos() + 8), final(self).wf()
    { unimplemented!() }
    #[verifier::external_body]
    pub fn put_f64(&mut self, v: f64) -> (r: Result<(), IoError>)
        requires old(self).wf()
        ensures r.is_ok() ==> (final(self).data() == splice(old(self).data(), old(self).pos(), le64(f64_bits(v))) && final(self).pos() == old(self).pos() + 8), final(self).wf()
    { unimplemented!() }
}

// ---- Cur: consuming reader over a byte buffer (`bytes::BytesMut` used through `bytes::Buf`).
// `rem()` = bytes not yet consumed.  The `requires` are the real panics of the `bytes` crate
// (reading past the end / split_to past the end).
#[verifier::external_body]
pub struct Cur { _p: u8 }
impl Cur {
    pub uninterp spec fn rem(&self) -> Seq<u8>;
    #[verifier::external_body]
    pub fn from_vec(v: &Vec<u8>) -> (r: Cur) ensures r.rem() == v@ { unimplemented!() }
    #[verifier::external_body]
    pub fn len(&self) -> (r: usize) ensures r == self.rem().len() { unimplemented!() }
    #[verifier::external_body]
    pub fn split_to(&mut self, n: usize) -> (r: Cur)
        requires n <= old(self).rem().len()
        ensures r.rem() == old(self).rem().subrange(0, n as int), final(self).rem() == old(self).rem().subrange(n as int, old(self).rem().len() as int)
    { unimplemented!() }
    #[verifier::external_body]
    pub fn advance(&mut self, n: usize)
        requires n <= old(self).rem().len()
        ensures final(self).rem() == old(self).rem().subrange(n as int, old(self).rem().len() as int)
    { unimplemented!() }
    #[verifier::external_body]
    pub fn get_u8(&mut self) -> (r: u8)
        requires old(self).rem().len() >= 1
        ensures r == old(self).rem()[0], final(self).rem() == old(self).rem().subrange(1, old(self).rem().len() as int)
    { unimplemented!() }
    #[verifier::external_body]
    pub fn get_u16(&mut self) -> (r: u16)
        requires old(self).rem().len() >= 2
        ensures r == dbe16(old(self).rem(), 0), final(self).rem() == old(self).rem().subrange(2, old(self).rem().len() as int)
    { unimplemented!() }
    #[verifier::external_body]
    pub fn get_u16_le(&mut self) -> (r: u16)
        requires old(self).rem().len() >= 2
        ensures r == dle16(old(self).rem(), 0), final(self).rem() == old(self).rem().subrange(2, old(self).rem().len() as int)
    { unimplemented!() }
    #[verifier::external_body]
    pub fn get_u32(&mut self) -> (r: u32)
        requires old(self).rem().len() >= 4
        ensures r == dbe32(old(self).rem(), 0), final(self).rem() == old(self).rem().subrange(4, old(self).rem().len() as int)
    { unimplemented!() }
    #[verifier::external_body]
    pub fn get_u32_le(&mut self) -> (r: u32)
        requires old(self).rem().len() >= 4
        ensures r == dle32(old(self).rem(), 0), final(self).rem() == old(self).rem().subrange(4, old(self).rem().len() as int)
    { unimplemented!() }
    #[verifier::external_body]
    pub fn get_u64(&mut self) -> (r: u64)
        requires old(self).rem().len() >= 8
        ensures r == dbe64(old(self).rem(), 0), final(self).rem() == old(self).rem().subrange(8, old(self).rem().len() as int)
    { unimplemented!() }
    #[verifier::external_body]
    pub fn get_u64_le(&mut self) -> (r: u64)
        requires old(self).rem().len() >= 8
        ensures r == dle64(old(self).rem(), 0), final(self).rem() == old(self).rem().subrange(8, old(self).rem().len() as int)
    { unimplemented!() }
    #[verifier::external_body]
    pub fn get_f32(&mut self) -> (r: f32)
        requires old(self).rem().len() >= 4
        ensures r == f32_of_bits(dbe32(old(self).rem(), 0) as u32), final(self).rem() == old(self).rem().subrange(4, old(self).rem().len() as int)
    { unimplemented!() }
    #[verifier::external_body]
    pub fn get_f32_le(&mut self) -> (r: f32)
        requires old(self).rem().len() >= 4
        ensures r == f32_of_bits(dle32(old(self).rem(), 0) as u32), final(self).rem() == old(self).rem().subrange(4, old(self).rem().len() as int)
    { unimplemented!() }
}
// `uN::from_{le,be}_bytes([..])` (rule R4) with arithmetic contracts
#[verifier::external_body]
pub fn u32_from_le(b: [u8; 4]) -> (r: u32) ensures r == dle32(b@, 0) { u32::from_le_bytes(b) }
#[verifier::external_body]
pub fn u32_from_be(b: [u8; 4]) -> (r: u32) ensures r == dbe32(b@, 0) { u32::from_be_bytes(b) }
#[verifier::external_body]
pub fn u64_from_le(b: [u8; 8]) -> (r: u64) ensures r == dle64(b@, 0) { u64::from_le_bytes(b) }
#[verifier::external_body]
pub fn u64_from_be(b: [u8; 8]) -> (r: u64) ensures r == dbe64(b@, 0) { u64::from_be_bytes(b) }
#[verifier::external_body]
pub fn f32_from_le(b: [u8; 4]) -> (r: f32) ensures r == f32_of_bits(dle32(b@, 0) as u32) { f32::from_le_bytes(b) }
#[verifier::external_body]
pub fn f32_from_be(b: [u8; 4]) -> (r: f32) ensures r == f32_of_bits(dbe32(b@, 0) as u32) { f32::from_be_bytes(b) }
// ---- codec inverse lemmas (include after bytes.rs when needed) ----
/// base-256 digits of a u16 / u32 recombine to the value (bit-vector proof: stable in any context)
#[verifier::spinoff_prover]
pub proof fn lemma_digits16(x: u16)
    ensures byte_of(x as int, 0) as int + 256 * (byte_of(x as int, 1) as int) == x,
{
    reveal(byte_of);
    let a: u16 = x % 256; let b: u16 = x / 256 % 256;
    assert(a + 256 * b == x && a < 256 && b < 256) by (bit_vector) requires a == x % 256, b == x / 256 % 256;
}
#[verifier::spinoff_prover]
pub proof fn lemma_digits32(x: u32)
    ensures byte_of(x as int, 0) as int + 256 * (byte_of(x as int, 1) as int) + 65536 * (byte_of(x as int, 2) as int) + 16777216 * (byte_of(x as int, 3) as int) == x,
{
    reveal(byte_of);
    let a: u32 = x % 256; let b: u32 = x / 256 % 256; let c: u32 = x / 65536 % 256; let d: u32 = x / 16777216 % 256;
    assert(a + 256 * b + 65536 * c + 16777216 * d == x && a < 256 && b < 256 && c < 256 && d < 256) by (bit_vector)
        requires a == x % 256, b == x / 256 % 256, c == x / 65536 % 256, d == x / 16777216 % 256;
}
#[verifier::spinoff_prover]
pub proof fn lemma_codec16(big: bool, x: u16) ensures e16(big, x).len() == 2, d16(big, e16(big, x), 0) == x { lemma_digits16(x); }
#[verifier::spinoff_prover]
pub proof fn lemma_codec32(big: bool, x: u32) ensures e32(big, x).len() == 4, d32(big, e32(big, x), 0) == x { lemma_digits32(x); }
#[verifier::spinoff_prover]
pub proof fn lemma_split64(x: u64)
    ensures ({
        let lo = (x % 4294967296) as u32; let hi = (x / 4294967296) as u32;
        &&& byte_of(x as int, 0) == byte_of(lo as int, 0) && byte_of(x as int, 1) == byte_of(lo as int, 1)
        &&& byte_of(x as int, 2) == byte_of(lo as int, 2) && byte_of(x as int, 3) == byte_of(lo as int, 3)
        &&& byte_of(x as int, 4) == byte_of(hi as int, 0) && byte_of(x as int, 5) == byte_of(hi as int, 1)
        &&& byte_of(x as int, 6) == byte_of(hi as int, 2) && byte_of(x as int, 7) == byte_of(hi as int, 3)
        &&& x as int == lo as int + 4294967296 * (hi as int)
    })
{
    reveal(byte_of);
    assert(x % 256 == (x % 4294967296) % 256) by (bit_vector);
    assert(x / 256 % 256 == (x % 4294967296) / 256 % 256) by (bit_vector);
    assert(x / 65536 % 256 == (x % 4294967296) / 65536 % 256) by (bit_vector);
    assert(x / 16777216 % 256 == (x % 4294967296) / 16777216 % 256) by (bit_vector);
    assert(x / 4294967296 % 256 == (x / 4294967296) % 256) by (bit_vector);
    assert(x / 1099511627776 % 256 == (x / 4294967296) / 256 % 256) by (bit_vector);
    assert(x / 281474976710656 % 256 == (x / 4294967296) / 65536 % 256) by (bit_vector);
    assert(x / 72057594037927936 % 256 == (x / 4294967296) / 16777216 % 256) by (bit_vector);
    assert(x == (x % 4294967296) + 4294967296 * (x / 4294967296)) by (bit_vector);
    assert(x / 4294967296 <= 4294967295) by (bit_vector);
    assert(x % 4294967296 <= 4294967295) by (bit_vector);
}
pub proof fn lemma_codec64(big: bool, x: u64) ensures e64(big, x).len() == 8, d64(big, e64(big, x), 0) == x
{
    let lo = (x % 4294967296) as u32; let hi = (x / 4294967296) as u32;
    lemma_split64(x);
    lemma_codec32(big, lo); lemma_codec32(big, hi);
}
/// decoding inside a larger buffer: if the 4 bytes at s[k..k+4] are e32(big, x) then d32 reads x
pub proof fn lemma_d32_embedded(big: bool, s: Seq<u8>, k: int, x: u32)
    requires 0 <= k, k + 4 <= s.len(), s.subrange(k, k + 4) == e32(big, x),
    ensures d32(big, s, k) == x
{
    lemma_codec32(big, x);
    let t = s.subrange(k, k + 4);
    assert(t[0] == s[k] && t[1] == s[k + 1] && t[2] == s[k + 2] && t[3] == s[k + 3]);
}
pub proof fn lemma_d16_embedded(big: bool, s: Seq<u8>, k: int, x: u16)
    requires 0 <= k, k + 2 <= s.len(), s.subrange(k, k + 2) == e16(big, x),
    ensures d16(big, s, k) == x
{
    lemma_codec16(big, x);
    let t = s.subrange(k, k + 2);
    assert(t[0] == s[k] && t[1] == s[k + 1]);
}
pub proof fn lemma_d64_embedded(big: bool, s: Seq<u8>, k: int, x: u64)
    requires 0 <= k, k + 8 <= s.len(), s.subrange(k, k + 8) == e64(big, x),
    ensures d64(big, s, k) == x
{
    lemma_codec64(big, x);
    let t = s.subrange(k, k + 8);
    assert(t[0] == s[k] && t[1] == s[k + 1] && t[2] == s[k + 2] && t[3] == s[k + 3]
        && t[4] == s[k + 4] && t[5] == s[k + 5] && t[6] == s[k + 6] && t[7] == s[k + 7]);
}

// std stand-ins that only matter for CHANGED code (0 hits on /repo): they let an edit that swallows an error reach
// the verifier.  Contracts are those of std.
pub assume_specification<T, E>[Result::<T, E>::unwrap_or](x: Result<T, E>, d: T) -> (v: T)
    ensures x matches Ok(y) ==> v == y, x is Err ==> v == d;
pub assume_specification<T: Default, E>[Result::<T, E>::unwrap_or_default](x: Result<T, E>) -> (v: T)
    ensures x matches Ok(y) ==> v == y;

/// shim for byteordered::Endianness (external crate, a plain 2-variant enum)
#[derive(Clone, Copy)]
pub enum Endianness { Big, Little }
pub open spec fn is_big(e: Endianness) -> bool { e is Big }

#[derive(Copy, Clone)]
pub struct Summary {
    pub total_items: u64,
    pub bases_covered: u64,
    pub min_val: f64,
    pub max_val: f64,
    pub sum: f64,
    pub sum_squares: f64,
}
#[derive(Copy, Clone)]
pub enum BBIFile {
    BigWig,
    BigBed,
}
#[derive(Copy, Clone)]
pub struct ZoomHeader {
    pub reduction_level: u32,
    pub data_offset: u64,
    pub index_offset: u64,
    pub index_tree_offset: Option<u64>,
}
#[derive(Copy, Clone)]
pub struct BBIHeader {
    pub endianness: Endianness,
    pub version: u16,
    pub field_count: u16,
    pub defined_field_count: u16,

    pub zoom_levels: u16,
    pub chromosome_tree_offset: u64,
    pub full_data_offset: u64,
    pub full_index_offset: u64,
    pub full_index_tree_offset: Option<u64>,
    pub auto_sql_offset: u64,
    pub total_summary_offset: u64,
    pub uncompress_buf_size: u32,
}
// R11: `name: String` -> `name: Vec<u8>` (never inspected here)
pub struct ChromInfo {
    pub name: Vec<u8>,
    pub length: u32,
    pub id: u32,
}
pub struct BBIFileInfo {
    pub filetype: BBIFile,
    pub header: BBIHeader,
    pub zoom_headers: Vec<ZoomHeader>,
    pub chrom_info: Vec<ChromInfo>,
}
// thiserror derive: `#[error(..)]` display strings dropped, `#[from] io::Error` -> IoError, BedValueError opaque,
// String payloads -> Vec<u8>; the From impl that `#[from]` generates is written out below (it wraps, nothing else)
pub enum BBIReadError {
    InvalidChromosome(Vec<u8>),
    UnknownMagic,
    InvalidFile(Vec<u8>),
    BedValueError(BedValueError),
    IoError(IoError),
}
/// bed::bedparser::BedValueError (opaque; never constructed here)
#[verifier::external_body]
pub struct BedValueError { _p: u8 }
impl vstd::std_specs::convert::FromSpecImpl<IoError> for BBIReadError {
    open spec fn obeys_from_spec() -> bool { true }
    open spec fn from_spec(e: IoError) -> BBIReadError { BBIReadError::IoError(e) }
}
impl From<IoError> for BBIReadError {
    fn from(e: IoError) -> (r: BBIReadError) { BBIReadError::IoError(e) }
}

// ---------------- reader shims ----------------
// `R: Read + Seek` behind `BBIFileRead::raw_reader()`: ghost file content, OS position and an environment flag.
// ASSUMED contract of std (as in units rt_readnode / tree_offsets): `seek(Start(p))` moves to p or fails only
// because of the environment; reading exactly n bytes fails iff fewer than n bytes remain or the environment
// fails and otherwise yields the next n bytes.
#[verifier::external_body]
pub struct VRead { _p: u8 }
impl VRead {
    pub uninterp spec fn content(&self) -> Seq<u8>;
    pub uninterp spec fn pos(&self) -> int;
    pub uninterp spec fn env_ok(&self) -> bool;
    #[verifier::external_body]
    pub fn seek_start(&mut self, p: u64) -> (r: Result<u64, IoError>)
        ensures final(self).content() == old(self).content(), final(self).env_ok() == old(self).env_ok(),
            old(self).env_ok() ==> r is Ok, r is Ok ==> final(self).pos() == p && r->Ok_0 == p,
    { unimplemented!() }
    #[verifier::external_body]
    pub fn read_cur(&mut self, n: usize) -> (r: Result<Cur, IoError>)
        ensures final(self).content() == old(self).content(), final(self).env_ok() == old(self).env_ok(),
            (old(self).env_ok() && 0 <= old(self).pos() && old(self).pos() + n <= old(self).content().len()) ==> r is Ok,
            r is Ok ==> 0 <= old(self).pos() && old(self).pos() + n <= old(self).content().len()
                && final(self).pos() == old(self).pos() + n
                && r->Ok_0.rem() == old(self).content().subrange(old(self).pos(), old(self).pos() + n),
    { unimplemented!() }
    /// `byteorder::ReadBytesExt::read_u64::<BigEndian>()` / `::<LittleEndian>()` (ASSUMED: `read_exact` of 8
    /// bytes, then `u64::from_be_bytes` / `from_le_bytes`)
    pub fn read_u64_be(&mut self) -> (r: Result<u64, IoError>)
        ensures final(self).content() == old(self).content(), final(self).env_ok() == old(self).env_ok(),
            (old(self).env_ok() && 0 <= old(self).pos() && old(self).pos() + 8 <= old(self).content().len()) ==> r is Ok,
            r is Ok ==> 0 <= old(self).pos() && old(self).pos() + 8 <= old(self).content().len()
                && final(self).pos() == old(self).pos() + 8 && r->Ok_0 == dbe64(old(self).content(), old(self).pos()),
    {
        let mut c = self.read_cur(8)?;
        Ok(c.get_u64())
    }
    pub fn read_u64_le(&mut self) -> (r: Result<u64, IoError>)
        ensures final(self).content() == old(self).content(), final(self).env_ok() == old(self).env_ok(),
            (old(self).env_ok() && 0 <= old(self).pos() && old(self).pos() + 8 <= old(self).content().len()) ==> r is Ok,
            r is Ok ==> 0 <= old(self).pos() && old(self).pos() + 8 <= old(self).content().len()
                && final(self).pos() == old(self).pos() + 8 && r->Ok_0 == dle64(old(self).content(), old(self).pos()),
    {
        let mut c = self.read_cur(8)?;
        Ok(c.get_u64_le())
    }
}
/// `f64::from_bits`
#[verifier::external_body]
pub fn f64_from_bits(b: u64) -> (r: f64) ensures r == f64_of_bits(b) { f64::from_bits(b) }

/// `byteordered::ByteOrdered<&mut R, Endianness>` built by `ByteOrdered::runtime(reader, endianness)`.
/// ASSUMED contract of the `byteordered` crate: `read_u64()` / `read_f64()` read exactly 8 bytes from the inner
/// reader and decode them in the byte order given at construction (`f64` through its IEEE bit pattern), passing
/// I/O errors on; `seek` is the inner reader's.  Written out as verified code over `VRead`.
pub struct VOrd<'a> { pub inner: &'a mut VRead, pub e: Endianness }
impl<'a> VOrd<'a> {
    pub fn runtime(inner: &'a mut VRead, e: Endianness) -> (r: VOrd<'a>)
        ensures r.e == e, *r.inner == *old(inner), *final(r.inner) == *final(inner),
    { VOrd { inner, e } }
    pub fn seek_start(&mut self, p: u64) -> (r: Result<u64, IoError>)
        ensures final(self).e == old(self).e, *final(final(self).inner) == *final(old(self).inner),
            final(self).inner.content() == old(self).inner.content(), final(self).inner.env_ok() == old(self).inner.env_ok(),
            old(self).inner.env_ok() ==> r is Ok, r is Ok ==> final(self).inner.pos() == p && r->Ok_0 == p,
    { self.inner.seek_start(p) }
    pub fn read_u64(&mut self) -> (r: Result<u64, IoError>)
        ensures final(self).e == old(self).e, *final(final(self).inner) == *final(old(self).inner),
            final(self).inner.content() == old(self).inner.content(), final(self).inner.env_ok() == old(self).inner.env_ok(),
            (old(self).inner.env_ok() && 0 <= old(self).inner.pos() && old(self).inner.pos() + 8 <= old(self).inner.content().len()) ==> r is Ok,
            r is Ok ==> 0 <= old(self).inner.pos() && old(self).inner.pos() + 8 <= old(self).inner.content().len()
                && final(self).inner.pos() == old(self).inner.pos() + 8
                && r->Ok_0 == d64(is_big(old(self).e), old(self).inner.content(), old(self).inner.pos()),
    {
        match self.e {
            Endianness::Big => self.inner.read_u64_be(),
            Endianness::Little => self.inner.read_u64_le(),
        }
    }
    // stand-ins that only matter for CHANGED code (0 hits on /repo): nothing is promised about the value or the
    // position, so an edit that starts using them is judged by the contracts below
    #[verifier::external_body]
    pub fn read_u32(&mut self) -> (r: Result<u32, IoError>)
        ensures final(self).e == old(self).e, *final(final(self).inner) == *final(old(self).inner),
            final(self).inner.content() == old(self).inner.content(), final(self).inner.env_ok() == old(self).inner.env_ok(),
    { unimplemented!() }
    #[verifier::external_body]
    pub fn read_i64(&mut self) -> (r: Result<i64, IoError>)
        ensures final(self).e == old(self).e, *final(final(self).inner) == *final(old(self).inner),
            final(self).inner.content() == old(self).inner.content(), final(self).inner.env_ok() == old(self).inner.env_ok(),
    { unimplemented!() }
    #[verifier::external_body]
    pub fn read_f32(&mut self) -> (r: Result<f32, IoError>)
        ensures final(self).e == old(self).e, *final(final(self).inner) == *final(old(self).inner),
            final(self).inner.content() == old(self).inner.content(), final(self).inner.env_ok() == old(self).inner.env_ok(),
    { unimplemented!() }
    pub fn read_f64(&mut self) -> (r: Result<f64, IoError>)
        ensures final(self).e == old(self).e, *final(final(self).inner) == *final(old(self).inner),
            final(self).inner.content() == old(self).inner.content(), final(self).inner.env_ok() == old(self).inner.env_ok(),
            (old(self).inner.env_ok() && 0 <= old(self).inner.pos() && old(self).inner.pos() + 8 <= old(self).inner.content().len()) ==> r is Ok,
            r is Ok ==> 0 <= old(self).inner.pos() && old(self).inner.pos() + 8 <= old(self).inner.content().len()
                && final(self).inner.pos() == old(self).inner.pos() + 8
                && r->Ok_0 == f64_of_bits(d64(is_big(old(self).e), old(self).inner.content(), old(self).inner.pos()) as u64),
    {
        let b = self.read_u64()?;
        Ok(f64_from_bits(b))
    }
}

/// `String` as bytes (UTF-8-ness is an uninterpreted predicate of the bytes)
#[verifier::external_body]
pub struct Text { _p: u8 }
impl Text { pub uninterp spec fn bytes(&self) -> Seq<u8>; }
pub uninterp spec fn utf8_ok(b: Seq<u8>) -> bool;
pub struct Utf8Err {}
/// `String::from_utf8(buffer)` (ASSUMED std contract)
#[verifier::external_body]
pub fn string_from_utf8(b: Vec<u8>) -> (r: Result<Text, Utf8Err>)
    ensures r is Ok <==> utf8_ok(b@), r matches Ok(t) ==> t.bytes() == b@,
{ unimplemented!() }
#[verifier::external_body]
pub fn err_text(s: &str) -> (r: Vec<u8>) { unimplemented!() }
/// index of the first 0 byte at or after `from`, or the length when there is none
pub open spec fn nul_at(c: Seq<u8>, from: int) -> int
    decreases c.len() - from
{
    if from < 0 || from >= c.len() { c.len() as int } else if c[from] == 0u8 { from } else { nul_at(c, from + 1) }
}
impl VRead {
    /// `BufRead::read_until(0, &mut buf)` (ASSUMED std contract; BufReader buffering transparent): appends the bytes
    /// from the position through and INCLUDING the first 0 byte, or through end of file when there is none
    #[verifier::external_body]
    pub fn read_until_nul(&mut self, buf: &mut Vec<u8>) -> (r: Result<usize, IoError>)
        ensures final(self).content() == old(self).content(), final(self).env_ok() == old(self).env_ok(),
            (old(self).env_ok() && 0 <= old(self).pos() <= old(self).content().len()) ==> r is Ok,
            r is Ok ==> {
                let c = old(self).content(); let p = old(self).pos(); let z = nul_at(c, p);
                let e = if z < c.len() { z + 1 } else { c.len() as int };
                &&& 0 <= p <= c.len()
                &&& final(buf)@ == old(buf)@ + c.subrange(p, e)
                &&& final(self).pos() == e
                &&& r->Ok_0 == e - p
            },
    { unimplemented!() }
}
/// the slice `BufRead::fill_buf` hands out (owned here): SOME non-empty prefix of what remains (how much is the buffer's
/// business: 8 KiB in std's BufReader), empty exactly at end of file.  Not used by the code today: present so that an
/// edit that takes the schema "straight out of the read buffer" is judged.
#[verifier::external_body]
pub struct VBuf { _p: u8 }
impl VBuf {
    pub uninterp spec fn view(&self) -> Seq<u8>;
    #[verifier::external_body]
    pub fn len(&self) -> (r: usize) ensures r == self@.len() { unimplemented!() }
    /// `buf.iter().position(|&b| b == X)` (REAL contract of `Iterator::position` with that predicate): index of the
    /// first byte equal to X in the WINDOW, `None` when the window has none -- nothing about what lies behind it
    #[verifier::external_body]
    pub fn position_eq(&self, x: u8) -> (r: Option<usize>)
        ensures r matches Some(i) ==> i < self@.len() && self@[i as int] == x && forall|k: int| 0 <= k < i ==> self@[k] != x,
            r is None ==> forall|k: int| 0 <= k < self@.len() ==> self@[k] != x,
    { unimplemented!() }
    /// `buf[..n].to_vec()`
    #[verifier::external_body]
    pub fn prefix_to_vec(&self, n: usize) -> (r: Vec<u8>)
        requires n <= self@.len(),
        ensures r@ == self@.subrange(0, n as int),
    { unimplemented!() }
}
impl VRead {
    #[verifier::external_body]
    pub fn fill_buf(&mut self) -> (r: Result<VBuf, IoError>)
        ensures final(self).content() == old(self).content(), final(self).env_ok() == old(self).env_ok(), final(self).pos() == old(self).pos(),
            r matches Ok(b) ==> {
                &&& b@.len() <= isize::MAX
                &&& (0 <= old(self).pos() < old(self).content().len() ==> 0 < b@.len() <= old(self).content().len() - old(self).pos()
                        && b@ == old(self).content().subrange(old(self).pos(), old(self).pos() + b@.len()))
                &&& (old(self).pos() >= old(self).content().len() ==> b@.len() == 0)
            },
    { unimplemented!() }
    #[verifier::external_body]
    pub fn consume(&mut self, n: usize)
        ensures final(self).content() == old(self).content(), final(self).env_ok() == old(self).env_ok(), final(self).pos() == old(self).pos() + n,
    { unimplemented!() }
}
proof fn lemma_nul_at(c: Seq<u8>, from: int)
    requires 0 <= from <= c.len(),
    ensures from <= nul_at(c, from) <= c.len(),
        nul_at(c, from) < c.len() ==> c[nul_at(c, from)] == 0u8,
        forall|k: int| from <= k < nul_at(c, from) ==> c[k] != 0u8,
    decreases c.len() - from
{
    if from < c.len() && c[from] != 0u8 { lemma_nul_at(c, from + 1); }
}

pub struct BigBedRead {
    pub info: BBIFileInfo,
    pub read: VRead,
}

impl BigBedRead {
pub fn autosql(&mut self) -> (r: Result<Option<Text>, BBIReadError>)
    requires
        
        old(self).read.content().len() <= u64::MAX,
    ensures
        
        final(self).read.content() == old(self).read.content() && final(self).info == old(self).info,
        
        old(self).info.header.auto_sql_offset == 0 ==> r == Ok::<Option<Text>, BBIReadError>(None),
        
        (r matches Ok(Some(t)) ==> {
            let c = old(self).read.content(); let o = old(self).info.header.auto_sql_offset as int;
            &&& o != 0 && o <= c.len()
            &&& nul_at(c, o) < c.len() ==> t.bytes() == c.subrange(o, nul_at(c, o))
        }),
        
        ({
            let c = old(self).read.content(); let o = old(self).info.header.auto_sql_offset as int;
            (old(self).read.env_ok() && 0 < o <= c.len() && nul_at(c, o) < c.len() && utf8_ok(c.subrange(o, nul_at(c, o)))) ==> r matches Ok(Some(_))
        }),
{
        let auto_sql_offset = self.info.header.auto_sql_offset;
        if auto_sql_offset == 0 {
            return Ok(None);
        }
        let reader = &mut self.read;
                reader.seek_start(auto_sql_offset)?;
        let mut buffer = Vec::new();
        reader.read_until_nul(&mut buffer)?;
        buffer.pop();

        proof {
            let c = self.read.content(); let o = self.info.header.auto_sql_offset as int;
            // (a hint, guarded so that it states nothing about a `buffer` that is something else after an edit, e.g. one
            // fill_buf window: then the postconditions decide)
            if 0 <= o <= c.len() {
                lemma_nul_at(c, o);
                if nul_at(c, o) < c.len() && buffer@.len() == nul_at(c, o) - o { assert(buffer@ =~= c.subrange(o, nul_at(c, o))); } 
            }
        }
        let autosql = (match string_from_utf8(buffer) { Ok(t__) => t__, Err(_) => return Err(BBIReadError::InvalidFile(err_text("Invalid autosql: not UTF-8"))) });
        Ok(Some(autosql))
    }
}

/// round trip with the writer (unit write_pre): text without NUL stored at [o, o+|t|) followed by one NUL
proof fn lemma_reader_returns_what_write_pre_stored(c: Seq<u8>, o: int, t: Seq<u8>)
    requires 0 <= o, o + t.len() < c.len(), c.subrange(o, o + t.len()) == t, c[o + t.len()] == 0u8,
        forall|k: int| 0 <= k < t.len() ==> t[k] != 0u8,
    ensures
        
        nul_at(c, o) == o + t.len() && c.subrange(o, nul_at(c, o)) == t,
{
    lemma_nul_at(c, o);
    let z = nul_at(c, o);
    if z < o + t.len() { assert(c[z] == c.subrange(o, o + t.len())[z - o]); }
    if z > o + t.len() { assert(c[o + t.len()] != 0u8); }
}

// ================= opening a file: bigWig / bigBed by the magic, never the other kind =================
pub enum BBIFileReadInfoError {
    UnknownMagic,
    InvalidChroms,
    IoError(IoError),
}
pub enum BigWigReadOpenError {
    NotABigWig,
    InvalidChroms,
    IoError(IoError),
}
pub enum BigBedReadOpenError {
    NotABigBed,
    InvalidChroms,
    IoError(IoError),
}
/// what `read_info` makes of a file (units info + chrom_rd own its contract; here only: it reads, it does not write,
/// and its result is a function of the file content)
pub uninterp spec fn info_of(c: Seq<u8>) -> Option<BBIFileInfo>;
#[verifier::external_body]
pub fn read_info(file: &mut VRead) -> (r: Result<BBIFileInfo, BBIFileReadInfoError>)
    ensures final(file).content() == old(file).content(), final(file).env_ok() == old(file).env_ok(),
        r matches Ok(i) ==> info_of(old(file).content()) == Some(i),
        (old(file).env_ok() && info_of(old(file).content()) is Some) ==> r is Ok,
        (r matches Err(e) && e is UnknownMagic) ==> info_of(old(file).content()) is None,
{ unimplemented!() }

impl BigWigReadOpenError {
pub fn from_info_error(error: BBIFileReadInfoError) -> (r: BigWigReadOpenError)
    ensures
        
        (error is UnknownMagic ==> r is NotABigWig) && (error is InvalidChroms ==> r is InvalidChroms) && (error is IoError ==> r is IoError),
{
        match error {
            BBIFileReadInfoError::UnknownMagic => BigWigReadOpenError::NotABigWig,
            BBIFileReadInfoError::InvalidChroms => BigWigReadOpenError::InvalidChroms,
            BBIFileReadInfoError::IoError(e) => BigWigReadOpenError::IoError(e),
        }
    }
}
impl BigBedReadOpenError {
pub fn from_info_error(error: BBIFileReadInfoError) -> (r: BigBedReadOpenError)
    ensures
        
        (error is UnknownMagic ==> r is NotABigBed) && (error is InvalidChroms ==> r is InvalidChroms) && (error is IoError ==> r is IoError),
{
        match error {
            BBIFileReadInfoError::UnknownMagic => BigBedReadOpenError::NotABigBed,
            BBIFileReadInfoError::InvalidChroms => BigBedReadOpenError::InvalidChroms,
            BBIFileReadInfoError::IoError(e) => BigBedReadOpenError::IoError(e),
        }
    }
}

pub struct BigWigRead {
    pub info: BBIFileInfo,
    pub read: VRead,
}
impl BigWigRead {
pub fn open(mut read: VRead) -> (r: Result<BigWigRead, BigWigReadOpenError>)
    ensures
        
        r matches Ok(b) ==> info_of(read.content()) == Some(b.info) && b.info.filetype is BigWig && b.read.content() == read.content(),
        
        (info_of(read.content()) is Some && info_of(read.content())->Some_0.filetype is BigBed) ==> (r is Err && (read.env_ok() ==> r->Err_0 is NotABigWig)),
        
        (read.env_ok() && info_of(read.content()) is Some && info_of(read.content())->Some_0.filetype is BigWig) ==> r is Ok,
{
        let info = (match read_info(&mut read) { Ok(i__) => i__, Err(e__) => return Err(BigWigReadOpenError::from_info_error(e__)) });
        match info.filetype {
            BBIFile::BigWig => {}
            _ => return Err(BigWigReadOpenError::NotABigWig),
        }

        Ok(BigWigRead { info, read })
    }
}
impl BigBedRead {
pub fn open(mut read: VRead) -> (r: Result<BigBedRead, BigBedReadOpenError>)
    ensures
        
        r matches Ok(b) ==> info_of(read.content()) == Some(b.info) && b.info.filetype is BigBed && b.read.content() == read.content(),
        
        (info_of(read.content()) is Some && info_of(read.content())->Some_0.filetype is BigWig) ==> (r is Err && (read.env_ok() ==> r->Err_0 is NotABigBed)),
        
        (read.env_ok() && info_of(read.content()) is Some && info_of(read.content())->Some_0.filetype is BigBed) ==> r is Ok,
{
        let info = (match read_info(&mut read) { Ok(i__) => i__, Err(e__) => return Err(BigBedReadOpenError::from_info_error(e__)) });
        match info.filetype {
            BBIFile::BigBed => {}
            _ => return Err(BigBedReadOpenError::NotABigBed),
        }

        Ok(BigBedRead { info, read })
    }
}

} // verus!
fn main() {}

