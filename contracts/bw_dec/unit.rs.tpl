//@unit bw_dec
//@serves C01 C03 C10
//@backend verus
// every function in its own Z3 process: the shared lemma_codec32 (div/mod under reveal(byte_of)) is
// unstable when it shares a solver context with this unit's recursive spec functions (rlimit at 10 s)
//@verus-arg -V spinoff-all
// bigwigread::get_block_values: one (uncompressed) bigWig data block -> the values of chromosome
// `chrom` overlapping [start, end), clipped, in stored order.  Section types 1 (bedGraph),
// 2 (variable step), 3 (fixed step), both byte orders (symbolic `endianness`).
// C03: per-block statement (exact strict-overlap filter + clip + order, nothing else).
// C10: decode of any well-formed section bytes.  C01: lemma bw_roundtrip joins the reader's
// format vocabulary (raw_items) with the writer's (fmt_bw_section, copied from unit bw_enc).
use vstd::prelude::*;
use vstd::std_specs::ops::*;
use vstd::std_specs::convert::FromSpec;
verus! {
//@include ../_shared/floats.rs
//@include ../_shared/bytes.rs
//@include ../_shared/bytes_lemmas.rs

//@extract struct bigtools/src/bbi.rs Value
//@rule R8
//@end
//@extract struct bigtools/src/bbi/bbiread.rs Block
//@rule R8
//@end

// byteordered::Endianness cannot be extracted (other crate): own 2-variant enum, same variant names
#[derive(Clone, Copy)]
pub enum Endianness { Big, Little }
pub open spec fn is_big(e: Endianness) -> bool { e is Big }

// BBIReadError (thiserror enum holding io::Error / String) -> opaque shim; only "an error value is
// returned here" is kept, the message text is dropped
#[verifier::external_body]
pub struct BBIReadError { _p: u8 }
impl BBIReadError {
    #[verifier::external_body]
    pub fn invalid_file() -> (r: BBIReadError) { unimplemented!() }
}

// `bytes[a..a + 12].try_into().unwrap()` typed &[u8; 12] on BytesMut: slice of the unconsumed
// bytes copied into an array.  requires = the real panic of the slice index (a + 12 > len).
#[verifier::external_body]
pub fn arr12(c: &Cur, a: usize) -> (r: [u8; 12])
    requires a + 12 <= c.rem().len()
    ensures r@ == c.rem().subrange(a as int, a + 12)
{ unimplemented!() }
// the same expression with any other bounds / array length: `bytes[a..b]` panics unless a <= b <= len, and
// `<&[u8; N]>::try_from(slice).unwrap()` panics unless the slice has exactly N bytes
#[verifier::external_body]
pub fn arr_from_to<const N: usize>(c: &Cur, a: usize, b: usize) -> (r: [u8; N])
    requires a <= b <= c.rem().len(), b - a == N
    ensures r@ == c.rem().subrange(a as int, b as int)
{ unimplemented!() }
fn max_u32(a: u32, b: u32) -> (r: u32) ensures r == if a >= b { a } else { b } { if a >= b { a } else { b } }
fn min_u32(a: u32, b: u32) -> (r: u32) ensures r == if a <= b { a } else { b } { if a <= b { a } else { b } }

// ---------------- reader-side format vocabulary (published bigWig section layout) ----------------
// 24-byte section header, in byte order `big`
pub open spec fn hdr_chrom(big: bool, d: Seq<u8>) -> int { d32(big, d, 0) }
pub open spec fn hdr_start(big: bool, d: Seq<u8>) -> int { d32(big, d, 4) }
pub open spec fn hdr_end(big: bool, d: Seq<u8>) -> int { d32(big, d, 8) }
pub open spec fn hdr_step(big: bool, d: Seq<u8>) -> int { d32(big, d, 12) }
pub open spec fn hdr_span(big: bool, d: Seq<u8>) -> int { d32(big, d, 16) }
pub open spec fn hdr_type(d: Seq<u8>) -> int { d[20] as int }
pub open spec fn hdr_count(big: bool, d: Seq<u8>) -> int { d16(big, d, 22) }

/// i-th stored item of a bedGraph section (type 1): 12 bytes start, end, value
pub open spec fn raw1(big: bool, d: Seq<u8>, i: int) -> Value {
    Value { start: d32(big, d, 24 + 12 * i) as u32, end: d32(big, d, 24 + 12 * i + 4) as u32,
            value: f32_of_bits(d32(big, d, 24 + 12 * i + 8) as u32) }
}
/// i-th stored item of a variable-step section (type 2): 8 bytes start, value; end = start + span
pub open spec fn raw2(big: bool, d: Seq<u8>, i: int) -> Value {
    Value { start: d32(big, d, 24 + 8 * i) as u32, end: (d32(big, d, 24 + 8 * i) + hdr_span(big, d)) as u32,
            value: f32_of_bits(d32(big, d, 24 + 8 * i + 4) as u32) }
}
/// start of the i-th item of a fixed-step section (type 3)
pub open spec fn fixed_start(big: bool, d: Seq<u8>, i: int) -> int { hdr_start(big, d) + i * hdr_step(big, d) }
/// i-th stored item of a fixed-step section (type 3): 4 bytes value; start = chromStart + i*step
pub open spec fn raw3(big: bool, d: Seq<u8>, i: int) -> Value {
    Value { start: fixed_start(big, d, i) as u32, end: (fixed_start(big, d, i) + hdr_span(big, d)) as u32,
            value: f32_of_bits(d32(big, d, 24 + 4 * i) as u32) }
}
pub open spec fn raw_item(big: bool, d: Seq<u8>, i: int) -> Value {
    if hdr_type(d) == 1 { raw1(big, d, i) } else if hdr_type(d) == 2 { raw2(big, d, i) } else { raw3(big, d, i) }
}
/// the items a section stores, in stored order
pub open spec fn raw_items(big: bool, d: Seq<u8>) -> Seq<Value> {
    Seq::new(hdr_count(big, d) as nat, |i: int| raw_item(big, d, i))
}
/// well-formed item area: enough bytes for the advertised count; no coordinate exceeds u32
pub open spec fn wf_items(big: bool, d: Seq<u8>) -> bool {
    let n = hdr_count(big, d);
    &&& hdr_type(d) == 1 ==> 24 + 12 * n <= d.len()
    &&& hdr_type(d) == 2 ==> 24 + 8 * n <= d.len()
            && forall|i: int| 0 <= i < n ==> (#[trigger] d32(big, d, 24 + 8 * i)) + hdr_span(big, d) <= u32::MAX
    &&& hdr_type(d) == 3 ==> 24 + 4 * n <= d.len()
            && forall|i: int| 0 <= i <= n ==> (#[trigger] fixed_start(big, d, i)) <= u32::MAX
            && forall|i: int| 0 <= i < n ==> (#[trigger] fixed_start(big, d, i)) + hdr_span(big, d) <= u32::MAX
}

// ---------------- C03 per-block statement ----------------
/// strict overlap with the query range [s, e)
pub open spec fn keep(v: Value, s: u32, e: u32) -> bool { s < e && v.end > s && v.start < e }   // an empty range overlaps nothing
/// clipped to [max(v.start, s), min(v.end, e)); value bits untouched
pub open spec fn clip(v: Value, s: u32, e: u32) -> Value {
    Value { start: if v.start >= s { v.start } else { s }, end: if v.end <= e { v.end } else { e }, value: v.value }
}
/// exactly the overlapping items, clipped, in stored order, nothing else
pub open spec fn filter_clip(raw: Seq<Value>, s: u32, e: u32) -> Seq<Value>
    decreases raw.len()
{
    if raw.len() == 0 { Seq::empty() }
    else if keep(raw.last(), s, e) { filter_clip(raw.drop_last(), s, e).push(clip(raw.last(), s, e)) }
    else { filter_clip(raw.drop_last(), s, e) }
}
pub proof fn lemma_fc_step(raw: Seq<Value>, i: int, s: u32, e: u32)
    requires 0 <= i < raw.len()
    ensures filter_clip(raw.subrange(0, i + 1), s, e) ==
        (if keep(raw[i], s, e) { filter_clip(raw.subrange(0, i), s, e).push(clip(raw[i], s, e)) } else { filter_clip(raw.subrange(0, i), s, e) })
{
    assert(raw.subrange(0, i + 1).drop_last() =~= raw.subrange(0, i));
    assert(raw.subrange(0, i + 1).last() == raw[i]);
}
// ---------------- C03 corollaries of the exact statement ----------------
/// stored order is ascending and non-overlapping (what the writer guarantees, C01 / bw_batch)
pub open spec fn ascending(a: Seq<Value>) -> bool {
    &&& forall|i: int| 0 <= i < a.len() ==> (#[trigger] a[i]).start <= a[i].end
    &&& forall|i: int, j: int| 0 <= i < j < a.len() ==> (#[trigger] a[i]).end <= (#[trigger] a[j]).start
}
/// "each clipped to the range, in ascending order": every returned value lies inside [s, e), is a
/// well-ordered interval, and the result is ascending / non-overlapping whenever the stored items are
/// (`m`: any bound on the stored ends; only used to carry the induction)
pub proof fn lemma_fc_inside_and_ascending(raw: Seq<Value>, s: u32, e: u32, m: int)
    requires
        ascending(raw), s <= e,
        forall|i: int| 0 <= i < raw.len() ==> (#[trigger] raw[i]).end <= m,
    ensures
        [[L: fc/no_more_than_stored]]
        filter_clip(raw, s, e).len() <= raw.len(),
        [[L: fc/inside_query_range]]
        forall|j: int| 0 <= j < filter_clip(raw, s, e).len() ==>
            s <= (#[trigger] filter_clip(raw, s, e)[j]).start && filter_clip(raw, s, e)[j].end <= e && filter_clip(raw, s, e)[j].end <= m,
        [[L: fc/ascending_non_overlapping]]
        ascending(filter_clip(raw, s, e)),
    decreases raw.len()
{
    if raw.len() > 0 {
        let p = raw.drop_last(); let l = raw.last();
        assert(l == raw[raw.len() - 1]);
        assert forall|i: int| 0 <= i < p.len() implies (#[trigger] p[i]).start <= p[i].end && p[i].end <= l.start by { assert(p[i] == raw[i]); }
        assert forall|i: int, j: int| 0 <= i < j < p.len() implies (#[trigger] p[i]).end <= (#[trigger] p[j]).start by { assert(p[i] == raw[i]); assert(p[j] == raw[j]); }
        lemma_fc_inside_and_ascending(p, s, e, l.start as int);
        let fp = filter_clip(p, s, e);
        if keep(l, s, e) {
            let f = fp.push(clip(l, s, e));
            assert(filter_clip(raw, s, e) == f);
            assert forall|j: int| 0 <= j < f.len() implies s <= (#[trigger] f[j]).start && f[j].end <= e && f[j].end <= m && f[j].start <= f[j].end by {
                if j < fp.len() { assert(f[j] == fp[j]); }
            }
            assert forall|i: int, j: int| 0 <= i < j < f.len() implies (#[trigger] f[i]).end <= (#[trigger] f[j]).start by {
                assert(f[i] == fp[i]);
                if j < fp.len() { assert(f[j] == fp[j]); }
            }
        } else {
            assert(filter_clip(raw, s, e) == fp);
        }
    }
}
pub proof fn lemma_step_mul(k: int, step: int)
    ensures (k + 1) * step == k * step + step
{
    assert((k + 1) * step == k * step + step) by (nonlinear_arith);
}

// BEGIN fmt_bw_section (textually identical copy of the block in bw_enc/unit.rs.tpl)
/// 24-byte section header: chromId, chromStart, chromEnd, itemStep = 0, itemSpan = 0,
/// type = 1 (bedGraph), reserved = 0, itemCount (u16)
pub open spec fn bw_header(chrom: u32, start: u32, end: u32, n: u16) -> Seq<u8> {
    (Seq::<u8>::empty() + le32(chrom) + le32(start) + le32(end) + le32(0u32) + le32(0u32)).push(1u8).push(0u8) + le16(n)
}
/// one 12-byte bedGraph item appended to `b` (left-associated, the order a sequential writer produces)
pub open spec fn put_bw_item(b: Seq<u8>, v: Value) -> Seq<u8> {
    b + le32(v.start) + le32(v.end) + le32(f32_bits(v.value))
}
pub open spec fn fmt_bw_items(hdr: Seq<u8>, items: Seq<Value>) -> Seq<u8>
    decreases items.len()
{
    if items.len() == 0 { hdr } else { put_bw_item(fmt_bw_items(hdr, items.drop_last()), items.last()) }
}
pub open spec fn fmt_bw_section(chrom: u32, items: Seq<Value>) -> Seq<u8> {
    fmt_bw_items(bw_header(chrom, items[0].start, items.last().end, items.len() as u16), items)
}
// END fmt_bw_section

// ---------------- C01: writer layout read back by the reader's vocabulary ----------------
/// what unit bw_enc requires of a batch (copied from bw_enc: `batch_ok`)
pub open spec fn batch_ok(items: Seq<Value>) -> bool {
    &&& 1 <= items.len() <= 65535
    &&& forall|i: int| 0 <= i < items.len() ==> (#[trigger] items[i]).start <= items[i].end
    &&& forall|i: int, j: int| 0 <= i < j < items.len() ==> (#[trigger] items[i]).end <= (#[trigger] items[j]).start
}
pub proof fn lemma_fmt_len(hdr: Seq<u8>, items: Seq<Value>)
    ensures fmt_bw_items(hdr, items).len() == hdr.len() + 12 * items.len()
    decreases items.len()
{
    if items.len() > 0 { lemma_fmt_len(hdr, items.drop_last()); }
}
/// the header is a prefix of the section
pub proof fn lemma_fmt_prefix(hdr: Seq<u8>, items: Seq<Value>, k: int)
    requires 0 <= k < hdr.len()
    ensures fmt_bw_items(hdr, items).len() >= hdr.len(), fmt_bw_items(hdr, items)[k] == hdr[k]
    decreases items.len()
{
    lemma_fmt_len(hdr, items);
    if items.len() > 0 { lemma_fmt_len(hdr, items.drop_last()); lemma_fmt_prefix(hdr, items.drop_last(), k); }
}
/// the 12 bytes of item i sit at hdr.len() + 12*i
pub proof fn lemma_fmt_item_at(hdr: Seq<u8>, items: Seq<Value>, i: int)
    requires 0 <= i < items.len()
    ensures ({
        let f = fmt_bw_items(hdr, items); let o = hdr.len() + 12 * i;
        &&& f.len() == hdr.len() + 12 * items.len()
        &&& f.subrange(o, o + 4) == le32(items[i].start)
        &&& f.subrange(o + 4, o + 8) == le32(items[i].end)
        &&& f.subrange(o + 8, o + 12) == le32(f32_bits(items[i].value))
    })
    decreases items.len()
{
    let f = fmt_bw_items(hdr, items); let o = hdr.len() + 12 * i;
    let p = fmt_bw_items(hdr, items.drop_last());
    lemma_fmt_len(hdr, items); lemma_fmt_len(hdr, items.drop_last());
    if i == items.len() - 1 {
        assert(f.subrange(o, o + 4) =~= le32(items[i].start));
        assert(f.subrange(o + 4, o + 8) =~= le32(items[i].end));
        assert(f.subrange(o + 8, o + 12) =~= le32(f32_bits(items[i].value)));
    } else {
        lemma_fmt_item_at(hdr, items.drop_last(), i);
        assert(items.drop_last()[i] == items[i]);
        assert(f.subrange(o, o + 4) =~= p.subrange(o, o + 4));
        assert(f.subrange(o + 4, o + 8) =~= p.subrange(o + 4, o + 8));
        assert(f.subrange(o + 8, o + 12) =~= p.subrange(o + 8, o + 12));
    }
}
/// the 24 header bytes decode (little-endian) to the fields the writer put there
pub proof fn lemma_header_fields(c: u32, s: u32, e: u32, n: u16)
    ensures ({
        let h = bw_header(c, s, e, n);
        &&& h.len() == 24
        &&& d32(false, h, 0) == c && d32(false, h, 4) == s && d32(false, h, 8) == e
        &&& d32(false, h, 12) == 0 && d32(false, h, 16) == 0
        &&& h[20] == 1 && h[21] == 0 && d16(false, h, 22) == n
    })
{
    let h = bw_header(c, s, e, n);
    assert(h.len() == 24);
    assert(h.subrange(0, 4) =~= le32(c)); lemma_d32_embedded(false, h, 0, c);
    assert(h.subrange(4, 8) =~= le32(s)); lemma_d32_embedded(false, h, 4, s);
    assert(h.subrange(8, 12) =~= le32(e)); lemma_d32_embedded(false, h, 8, e);
    assert(h.subrange(12, 16) =~= le32(0u32)); lemma_d32_embedded(false, h, 12, 0u32);
    assert(h.subrange(16, 20) =~= le32(0u32)); lemma_d32_embedded(false, h, 16, 0u32);
    assert(h.subrange(22, 24) =~= le16(n)); lemma_d16_embedded(false, h, 22, n);
}
/// a full-span query keeps everything: no item is filtered out or altered
pub proof fn lemma_fc_identity(items: Seq<Value>, len: u32)
    requires forall|i: int| 0 <= i < items.len() ==> (#[trigger] items[i]).end > 0 && items[i].start < len && items[i].end <= len
    ensures filter_clip(items, 0, len) == items
    decreases items.len()
{
    if items.len() > 0 {
        let p = items.drop_last();
        assert forall|i: int| 0 <= i < p.len() implies (#[trigger] p[i]).end > 0 && p[i].start < len && p[i].end <= len by { assert(p[i] == items[i]); }
        lemma_fc_identity(p, len);
        let l = items.last();
        assert(l == items[items.len() - 1]);
        assert(clip(l, 0, len) == l);
        assert(p.push(l) =~= items);
    } else {
        assert(items =~= Seq::<Value>::empty());
    }
}
/// C01 codec inverse, per section: the bytes unit bw_enc produces for a batch (uncompressed, or
/// after the assumed zlib inverse) decode -- little-endian, through the reader-side vocabulary
/// that get_block_values is proved against -- to exactly the batch.
pub proof fn bw_roundtrip(c: u32, items: Seq<Value>, len: u32)
    requires
        batch_ok(items),
    ensures ({
        let data = fmt_bw_section(c, items);
        [[L: rt/size]]
        &&& data.len() == 24 + 12 * items.len()
        [[L: rt/header_fields_read_back]]
        &&& hdr_chrom(false, data) == c && hdr_start(false, data) == items[0].start && hdr_end(false, data) == items.last().end
        &&& hdr_step(false, data) == 0 && hdr_span(false, data) == 0 && hdr_type(data) == 1 && data[21] == 0
        &&& hdr_count(false, data) == items.len()
        [[L: rt/reader_precondition_holds]]
        &&& wf_items(false, data)
        [[L: rt/stored_items_are_the_batch]]
        &&& raw_items(false, data) == items
        [[L: rt/full_span_query_returns_the_batch]]
        &&& (forall|i: int| 0 <= i < items.len() ==> (#[trigger] items[i]).end > 0 && items[i].start < len && items[i].end <= len)
                ==> filter_clip(raw_items(false, data), 0, len) == items
    }),
{
    let n16 = items.len() as u16;
    let hdr = bw_header(c, items[0].start, items.last().end, n16);
    let data = fmt_bw_section(c, items);
    assert(data == fmt_bw_items(hdr, items));
    lemma_header_fields(c, items[0].start, items.last().end, n16);
    lemma_fmt_len(hdr, items);
    assert forall|k: int| 0 <= k < 24 implies data[k] == hdr[k] by { lemma_fmt_prefix(hdr, items, k); }
    assert(n16 == items.len());
    let raw = raw_items(false, data);
    assert(raw.len() == items.len());
    assert forall|i: int| 0 <= i < items.len() implies raw[i] == items[i] by {
        lemma_fmt_item_at(hdr, items, i);
        let o = 24 + 12 * i;
        lemma_d32_embedded(false, data, o, items[i].start);
        lemma_d32_embedded(false, data, o + 4, items[i].end);
        lemma_d32_embedded(false, data, o + 8, f32_bits(items[i].value));
        assert(raw[i] == raw1(false, data, i));
        ax_f32_bits_inv(items[i].value);
    }
    assert(raw =~= items);
    if forall|i: int| 0 <= i < items.len() ==> (#[trigger] items[i]).end > 0 && items[i].start < len && items[i].end <= len {
        lemma_fc_identity(items, len);
    }
}

//@extract fn bigtools/src/bbi/bigwigread.rs get_block_values
//@rule R16
//@rule R4 min=6
//@rule R6 min=1
//@presub /<R: BBIFileRead>\(\s*bigwig: &mut BigWigRead<R>,/ => (\n    endianness: Endianness,\n    data: Vec<u8>,
//@presub /let data = bigwig\.read\.get_block_data\(&bigwig\.info, &block\)\?;\s*let mut bytes = BytesMut::with_capacity\(data\.len\(\)\);\s*bytes\.extend_from_slice\(&data\);/ => let mut bytes = Cur::from_vec(&data);
//@presub /match bigwig\.info\.header\.endianness \{/ => match endianness { min=4
//@presub /BBIReadError::InvalidFile\(format!\(\s*"[^"]*",\s*section_type\s*\)\)/ => BBIReadError::invalid_file()
//@sub /Option<std::vec::IntoIter<Value>>/ => Option<Vec<Value>>
//@sub /Ok\(Some\(values\.into_iter\(\)\)\)/ => Ok(Some(values))
//@sub /let block_item_data: &\[u8; (\d+)\] = bytes\[(\w+)\.\.(\w+) (\+|-) (\d+)\]\.try_into\(\)\.unwrap\(\);/ => let block_item_data: [u8; \1] = ARR{\1}{\2}{\3 \4 \5}(&bytes);
//@sub /ARR\{12\}\{(\w+)\}\{\1 \+ 12\}\(&bytes\)/ => arr12(&bytes, \1) min=0
//@sub /ARR\{(\d+)\}\{(\w+)\}\{([^}]*)\}\(&bytes\)/ => arr_from_to::<\1>(&bytes, \2, \3) min=0
//@sub /assert\(bytes\.len\(\) (==|!=|>=|<=|>|<) / => assert(bytes.rem().len() \1
//@sub /(value\.\w+)\.(max|min)\((\w+)\)/ => \2_u32(\1, \3) min=0
//@sub /for _ in 0\.\.item_count/ => for k in 0..item_count min=2
//@ret r
//@sig
    requires
        [[L: pre_header_present]]
        data@.len() >= 24,
        [[L: pre_well_formed_items]]
        hdr_chrom(is_big(endianness), data@) == chrom ==> wf_items(is_big(endianness), data@),
        [[L: pre_known_offset_no_overflow]]
        block.offset + block.size <= u64::MAX,
    ensures
        [[L: other_chromosome_gives_none]]
        hdr_chrom(is_big(endianness), data@) != chrom ==> r matches Ok(None),
        [[L: unknown_section_type_is_error]]
        hdr_chrom(is_big(endianness), data@) == chrom && !(1 <= hdr_type(data@) <= 3) ==> r is Err,
        [[L: exactly_overlapping_clipped_in_order]]
        hdr_chrom(is_big(endianness), data@) == chrom && 1 <= hdr_type(data@) <= 3 ==>
            (r matches Ok(Some(v)) && v@ == filter_clip(raw_items(is_big(endianness), data@), start, end)),
        [[L: known_offset_is_block_end_on_success]]
        (r matches Ok(Some(_))) ==> *final(known_offset) == block.offset + block.size,
        [[L: known_offset_untouched_otherwise]]
        !(r matches Ok(Some(_))) ==> *final(known_offset) == *old(known_offset),
//@at /let mut bytes_header = bytes\.split_to\(\d+\);/ before
    let ghost big = is_big(endianness);
    let ghost d = data@;
    let ghost raw = raw_items(big, d);
//@at /let mut values: Vec<Value> = Vec::with_capacity/ before
    proof {
        assert(chrom_id == hdr_chrom(big, d)); [[L: header/chrom_id]]
        assert(chrom_start == hdr_start(big, d)); [[L: header/chrom_start]]
        assert(item_step == hdr_step(big, d)); [[L: header/item_step]]
        assert(item_span == hdr_span(big, d)); [[L: header/item_span]]
        assert(section_type == hdr_type(d)); [[L: header/section_type]]
        assert(item_count == hdr_count(big, d)); [[L: header/item_count]]
        assert(bytes.rem() == d.subrange(24, d.len() as int));
    }
//@loop 1
                invariant
                    [[L: loop1/frame]]
                    big == is_big(endianness), d == data@, raw == raw_items(big, d), d.len() >= 24,
                    hdr_type(d) == 1, item_count == hdr_count(big, d), 24 + 12 * item_count <= d.len(),
                    bytes.rem() == d.subrange(24, d.len() as int),
                    [[L: loop1/prefix_filtered]]
                    values@ == filter_clip(raw.subrange(0, i as int), start, end),
//@at /let mut value = Value \{/ nth=1 before
                proof {
                    let b = block_item_data@;
                    [[L: loop1/item_bytes_are_data_24_plus_12i]]
                    assert(b[0] == d[24 + 12 * i] && b[1] == d[24 + 12 * i + 1] && b[2] == d[24 + 12 * i + 2] && b[3] == d[24 + 12 * i + 3]);
                    assert(b[4] == d[24 + 12 * i + 4] && b[5] == d[24 + 12 * i + 5] && b[6] == d[24 + 12 * i + 6] && b[7] == d[24 + 12 * i + 7]);
                    assert(b[8] == d[24 + 12 * i + 8] && b[9] == d[24 + 12 * i + 9] && b[10] == d[24 + 12 * i + 10] && b[11] == d[24 + 12 * i + 11]);
                    assert(raw[i as int] == raw1(big, d, i as int));
                    assert(chrom_start == raw[i as int].start && chrom_end == raw[i as int].end && value == raw[i as int].value); [[L: loop1/item_decoded_at_24_plus_12i]]
                    lemma_fc_step(raw, i as int, start, end);
                }
//@loop 2
                invariant
                    [[L: loop2/frame]]
                    big == is_big(endianness), d == data@, raw == raw_items(big, d), d.len() >= 24,
                    hdr_type(d) == 2, item_count == hdr_count(big, d), item_span == hdr_span(big, d),
                    wf_items(big, d),
                    [[L: loop2/cursor_position]]
                    bytes.rem() == d.subrange(24 + 8 * k, d.len() as int),
                    [[L: loop2/prefix_filtered]]
                    values@ == filter_clip(raw.subrange(0, k as int), start, end),
//@at /let chrom_end = chrom_start \+ item_/ nth=1 before
                proof {
                    assert(raw[k as int] == raw2(big, d, k as int));
                    assert(chrom_start == d32(big, d, 24 + 8 * k)); [[L: loop2/start_decoded_at_24_plus_8k]]
                    assert(value == raw[k as int].value); [[L: loop2/value_decoded]]
                    assert(bytes.rem() == d.subrange(24 + 8 * (k + 1), d.len() as int));
                }
//@at /let mut value = Value \{/ nth=2 before
                proof {
                    assert(chrom_start == raw[k as int].start && chrom_end == raw[k as int].end && value == raw[k as int].value); [[L: loop2/item_is_start_plus_span]]
                    lemma_fc_step(raw, k as int, start, end);
                }
//@loop 3
                invariant
                    [[L: loop3/frame]]
                    big == is_big(endianness), d == data@, raw == raw_items(big, d), d.len() >= 24,
                    hdr_type(d) == 3, item_count == hdr_count(big, d), item_span == hdr_span(big, d),
                    item_step == hdr_step(big, d),
                    wf_items(big, d),
                    [[L: loop3/cursor_position]]
                    bytes.rem() == d.subrange(24 + 4 * k, d.len() as int),
                    [[L: loop3/curr_start_is_start_plus_k_steps]]
                    curr_start == fixed_start(big, d, k as int),
                    [[L: loop3/prefix_filtered]]
                    values@ == filter_clip(raw.subrange(0, k as int), start, end),
//@at /let chrom_start = curr_start;/ before
                proof {
                    assert(raw[k as int] == raw3(big, d, k as int));
                    assert(value == raw[k as int].value); [[L: loop3/value_decoded_at_24_plus_4k]]
                    assert(bytes.rem() == d.subrange(24 + 4 * (k + 1), d.len() as int));
                    lemma_step_mul(k as int, hdr_step(big, d));
                    assert(fixed_start(big, d, k + 1) == fixed_start(big, d, k as int) + hdr_step(big, d));
                }
//@at /let mut value = Value \{/ nth=3 before
                proof {
                    assert(chrom_start == raw[k as int].start && chrom_end == raw[k as int].end && value == raw[k as int].value); [[L: loop3/item_is_kth_step_plus_span]]
                    lemma_fc_step(raw, k as int, start, end);
                }
//@at /\*known_offset = / before
    proof {
        assert(raw.subrange(0, raw.len() as int) =~= raw);
    }
//@end

} // verus!
fn main() {}
