// Kani harnesses for unit rt_build: `get_rtreeindex` in bigtools/src/bbi/bbiwrite.rs (itertools
// `chunks`, nested closures — outside what the Verus lane can extract).
// Included as `#[cfg(kani)] mod verif_kani_rt_build` at the end of bbiwrite.rs in the scratch copy, so
// the REAL function is called and the private fields of RTreeNode are visible.
//
// BOUNDED stand-in (kind = "bounded" / "termination" in kani.toml): each harness fixes the number of
// sections n (the size of the input array) and the block size b; the section FIELDS (chrom, start, end,
// offset, size) are full-width symbolic, constrained only to be sorted by (chrom, start) — ends are
// arbitrary, as in bigBed.  Unwinding assertions stay on.  The returned tree is `mem::forget`-ed
// (DESIGN F4: the recursive drop glue of RTreeNode/RTreeChildren is not what is being checked).
//
// Needs `--cbmc-args --max-field-sensitivity-array-size 1024` (kani.toml): with CBMC's default (64)
// constant propagation is lost through every heap buffer larger than 64 bytes, itertools' chunk state
// becomes symbolic and n = 3 does not finish in 15 min; with it n = 7 takes about a minute.

use super::*;

include!("spec.rs");

/// The section stream: the first N... all N elements of a fixed array, in order.
struct Feed<const N: usize> {
    a: [Section; N],
    i: usize,
}
impl<const N: usize> Iterator for Feed<N> {
    type Item = Section;
    fn next(&mut self) -> Option<Section> {
        if self.i < N {
            let s = self.a[self.i];
            self.i += 1;
            Some(s)
        } else {
            None
        }
    }
}

fn sym_sections<const N: usize>() -> [Section; N] {
    let mut a = [Section { chrom: 0, start: 0, end: 0, offset: 0, size: 0 }; N];
    let mut i = 0;
    while i < N {
        // field order = order of the kani::any() calls = order of `inputs` in kani.toml
        a[i] = Section { chrom: kani::any(), start: kani::any(), end: kani::any(), offset: kani::any(), size: kani::any() };
        i += 1;
    }
    a
}

fn opts(b: u32) -> BBIWriteOptions {
    BBIWriteOptions {
        compress: false,
        items_per_slot: 1,
        block_size: b,
        initial_zoom_size: 10,
        max_zooms: 0,
        manual_zoom_sizes: None,
        input_sort_type: InputSortType::ALL,
        channel_size: 0,
        inmemory: true,
    }
}

/// n = N sections, block size b.  `check`: false = termination only.
fn build<const N: usize>(b: u32, check: bool) {
    let a = sym_sections::<N>();
    kani::assume(sorted_by_start(&a, N));
    kani::cover!(true, "reach_build");
    let o = opts(b);
    let (tree, levels, total) = get_rtreeindex(Feed::<N> { a, i: 0 }, &o);
    // (a) TERMINATION: reaching this line within the unwinding bound (unwinding assertions on).
    if check {
        // (b) SHAPE — the `wf` precondition that unit rt_layout assumes of its input
        assert!(total == N as u64, "shape/total_sections == n");
        assert!(levels == left_depth(&tree), "shape/levels == depth of the returned tree");
        assert!(wf(&tree, levels, b as usize, true), "shape/wf: uniform depth, 1..=b children, every node off the right spine is full");
        assert!(N == 0 || no_empty_leaf(&tree), "shape/no empty leaf for a non-empty input");
        // (c) SPAN COVERAGE — the C04/C05 clause
        assert!(spans_ok(&tree), "spans/every index node: start == first section beneath, end == lexicographic max end beneath");
        // (d) leaves hold the input, in order, unchanged
        let mut idx = 0usize;
        assert!(leaves_match(&tree, &a, &mut idx) && idx == N, "leaves/in-order leaves == input sections, unchanged");
    }
    std::mem::forget(tree);
    std::mem::forget(o);
}

macro_rules! rt_build_harness {
    ($name:ident, $n:expr, $b:expr, $unwind:expr, $check:expr) => {
        #[kani::proof]
        #[kani::unwind($unwind)]
        fn $name() {
            build::<$n>($b, $check)
        }
    };
}

// (a) termination regression guards for the empty stream (the former hang), kind = "termination";
// they also state (b)-(d) for the empty tree (levels 0, total 0, root = one empty leaf).
rt_build_harness!(rt_build_term_n0_b2, 0, 2, 6, true);
rt_build_harness!(rt_build_term_n0_b3, 0, 3, 6, true);

// (b)(c)(d) + termination; unwind bound = n + 3 (largest loop: n sections / n+1 array slots)
// quick tier: rt_build_term_n0_b2 and rt_build_n3_b2 only (kani.toml); the rest is thorough
rt_build_harness!(rt_build_n1_b2, 1, 2, 6, true);
rt_build_harness!(rt_build_n2_b2, 2, 2, 6, true);
rt_build_harness!(rt_build_n3_b2, 3, 2, 6, true);
rt_build_harness!(rt_build_n5_b2, 5, 2, 8, true);
rt_build_harness!(rt_build_n7_b2, 7, 2, 10, true);
rt_build_harness!(rt_build_n3_b3, 3, 3, 6, true);
rt_build_harness!(rt_build_n4_b3, 4, 3, 7, true);
rt_build_harness!(rt_build_n7_b3, 7, 3, 10, true);
rt_build_harness!(rt_build_n4_b2, 4, 2, 7, true);
rt_build_harness!(rt_build_n6_b2, 6, 2, 9, true);
rt_build_harness!(rt_build_n8_b2, 8, 2, 11, true);
rt_build_harness!(rt_build_n9_b2, 9, 2, 12, true);
rt_build_harness!(rt_build_n9_b3, 9, 3, 12, true);
rt_build_harness!(rt_build_n10_b3, 10, 3, 13, true);
