// bbiread::get_zoom_block_values: one uncompressed zoom block (32-byte records) -> the records of
// the queried chromosome that touch the query range.  C07: "a zoom range query returns every
// record intersecting the range"; C10: either byte order.  The contract states the whole result:
// it is the stored records, decoded arithmetically at their published offsets, filtered by
// (chrom == q && end >= s && start <= e), in stored order.
use vstd::prelude::*;
use vstd::std_specs::ops::*;
use vstd::std_specs::convert::FromSpec;
verus! {
// ---- shared float prelude -------------------------------------------------
// Rust float operators are total; Verus models their results as uninterpreted
// functions (`add_spec`, `mul_spec`, `from_spec`, ...).  The axioms below say
// only (1) the operators have no precondition and (2) the exec operator returns
// the value of its spec function (determinism).  Nothing numerical is assumed.
mod float_ax {
use vstd::prelude::*;
use vstd::std_specs::ops::*;
use vstd::std_specs::convert::FromSpec;
pub broadcast axiom fn ax_f64_mul_total(a: f64, b: f64) ensures #[trigger] a.mul_req(b);
pub broadcast axiom fn ax_f64_add_total(a: f64, b: f64) ensures #[trigger] a.add_req(b);
pub broadcast axiom fn ax_f64_sub_total(a: f64, b: f64) ensures #[trigger] a.sub_req(b);
pub broadcast axiom fn ax_f64_div_total(a: f64, b: f64) ensures #[trigger] a.div_req(b);
pub broadcast axiom fn ax_f32_add_total(a: f32, b: f32) ensures #[trigger] a.add_req(b);
pub broadcast axiom fn ax_f32_sub_total(a: f32, b: f32) ensures #[trigger] a.sub_req(b);
pub broadcast group float_total { ax_f64_mul_total, ax_f64_add_total, ax_f64_sub_total, ax_f64_div_total, ax_f32_add_total, ax_f32_sub_total }
pub axiom fn float_det()
    ensures
        <f64 as AddSpec<f64>>::obeys_add_spec(), <f64 as MulSpec<f64>>::obeys_mul_spec(),
        <f64 as SubSpec<f64>>::obeys_sub_spec(), <f64 as DivSpec<f64>>::obeys_div_spec(),
        <f32 as AddSpec<f32>>::obeys_add_spec(), <f32 as SubSpec<f32>>::obeys_sub_spec(),
        <f64 as FromSpec<u32>>::obeys_from_spec(), <f64 as FromSpec<f32>>::obeys_from_spec();
}
broadcast use float_ax::float_total;
pub uninterp spec fn fmin(a: f64, b: f64) -> f64;
pub uninterp spec fn fmax(a: f64, b: f64) -> f64;
pub assume_specification [f64::min] (a: f64, b: f64) -> (r: f64) ensures r == fmin(a, b);
pub assume_specification [f64::max] (a: f64, b: f64) -> (r: f64) ensures r == fmax(a, b);
// float constants (rule R12c): Verus has no model of core::f64 associated consts; each is an
// uninterpreted spec constant, distinct names so that swapping two of them is visible.
pub uninterp spec fn spec_f64_max() -> f64;
pub uninterp spec fn spec_f64_min() -> f64;
pub uninterp spec fn spec_f64_min_positive() -> f64;
pub uninterp spec fn spec_f64_nan() -> f64;
pub uninterp spec fn spec_f64_infinity() -> f64;
pub uninterp spec fn spec_f64_neg_infinity() -> f64;
pub uninterp spec fn spec_f64_epsilon() -> f64;
#[verifier::external_body] pub fn fconst_f64_max() -> (r: f64) ensures r == spec_f64_max() { f64::MAX }
#[verifier::external_body] pub fn fconst_f64_min() -> (r: f64) ensures r == spec_f64_min() { f64::MIN }
#[verifier::external_body] pub fn fconst_f64_min_positive() -> (r: f64) ensures r == spec_f64_min_positive() { f64::MIN_POSITIVE }
#[verifier::external_body] pub fn fconst_f64_nan() -> (r: f64) ensures r == spec_f64_nan() { f64::NAN }
#[verifier::external_body] pub fn fconst_f64_infinity() -> (r: f64) ensures r == spec_f64_infinity() { f64::INFINITY }
#[verifier::external_body] pub fn fconst_f64_neg_infinity() -> (r: f64) ensures r == spec_f64_neg_infinity() { f64::NEG_INFINITY }
#[verifier::external_body] pub fn fconst_f64_epsilon() -> (r: f64) ensures r == spec_f64_epsilon() { f64::EPSILON }
// ---- shared byte-level prelude ---------------------------------------------
// Format vocabulary written from the published BBI layout (Kent et al. 2010),
// as arithmetic on byte values - not as calls to from_le_bytes/to_le_bytes.
/// k-th base-256 digit of x (opaque: the div/mod arithmetic is only unfolded inside the codec lemmas)
#[verifier::opaque]
pub open spec fn byte_of(x: int, k: int) -> u8 {
    if k == 0 { (x % 256) as u8 } else if k == 1 { (x / 256 % 256) as u8 } else if k == 2 { (x / 65536 % 256) as u8 }
    else if k == 3 { (x / 16777216 % 256) as u8 } else if k == 4 { (x / 4294967296 % 256) as u8 }
    else if k == 5 { (x / 1099511627776 % 256) as u8 } else if k == 6 { (x / 281474976710656 % 256) as u8 }
    else { (x / 72057594037927936 % 256) as u8 }
}
pub open spec fn le16(x: u16) -> Seq<u8> { seq![byte_of(x as int, 0), byte_of(x as int, 1)] }
pub open spec fn le32(x: u32) -> Seq<u8> { seq![byte_of(x as int, 0), byte_of(x as int, 1), byte_of(x as int, 2), byte_of(x as int, 3)] }
pub open spec fn le64(x: u64) -> Seq<u8> {
    seq![byte_of(x as int, 0), byte_of(x as int, 1), byte_of(x as int, 2), byte_of(x as int, 3),
         byte_of(x as int, 4), byte_of(x as int, 5), byte_of(x as int, 6), byte_of(x as int, 7)]
}
pub open spec fn be16(x: u16) -> Seq<u8> { seq![byte_of(x as int, 1), byte_of(x as int, 0)] }
pub open spec fn be32(x: u32) -> Seq<u8> { seq![byte_of(x as int, 3), byte_of(x as int, 2), byte_of(x as int, 1), byte_of(x as int, 0)] }
pub open spec fn be64(x: u64) -> Seq<u8> {
    seq![byte_of(x as int, 7), byte_of(x as int, 6), byte_of(x as int, 5), byte_of(x as int, 4),
         byte_of(x as int, 3), byte_of(x as int, 2), byte_of(x as int, 1), byte_of(x as int, 0)]
}
// decode: value of the little-/big-endian integer stored at s[i..]
pub open spec fn dle16(s: Seq<u8>, i: int) -> int { s[i] as int + 256 * (s[i + 1] as int) }
pub open spec fn dle32(s: Seq<u8>, i: int) -> int {
    s[i] as int + 256 * (s[i + 1] as int) + 65536 * (s[i + 2] as int) + 16777216 * (s[i + 3] as int)
}
pub open spec fn dle64(s: Seq<u8>, i: int) -> int { dle32(s, i) + 4294967296 * dle32(s, i + 4) }
pub open spec fn dbe16(s: Seq<u8>, i: int) -> int { 256 * (s[i] as int) + s[i + 1] as int }
pub open spec fn dbe32(s: Seq<u8>, i: int) -> int {
    16777216 * (s[i] as int) + 65536 * (s[i + 1] as int) + 256 * (s[i + 2] as int) + s[i + 3] as int
}
pub open spec fn dbe64(s: Seq<u8>, i: int) -> int { 4294967296 * dbe32(s, i) + dbe32(s, i + 4) }
/// integer at s[i..] in byte order `big`
pub open spec fn d16(big: bool, s: Seq<u8>, i: int) -> int { if big { dbe16(s, i) } else { dle16(s, i) } }
pub open spec fn d32(big: bool, s: Seq<u8>, i: int) -> int { if big { dbe32(s, i) } else { dle32(s, i) } }
pub open spec fn d64(big: bool, s: Seq<u8>, i: int) -> int { if big { dbe64(s, i) } else { dle64(s, i) } }
pub open spec fn e16(big: bool, x: u16) -> Seq<u8> { if big { be16(x) } else { le16(x) } }
pub open spec fn e32(big: bool, x: u32) -> Seq<u8> { if big { be32(x) } else { le32(x) } }
pub open spec fn e64(big: bool, x: u64) -> Seq<u8> { if big { be64(x) } else { le64(x) } }

// Floats on disk: IEEE bit patterns.  `to_bits`/`from_bits` are uninterpreted; the only
// assumed fact is that they are inverse (true of Rust's f32::to_bits/from_bits bit-for-bit).
pub uninterp spec fn f32_bits(x: f32) -> u32;
pub uninterp spec fn f32_of_bits(b: u32) -> f32;
pub uninterp spec fn f64_bits(x: f64) -> u64;
pub uninterp spec fn f64_of_bits(b: u64) -> f64;
pub broadcast axiom fn ax_f32_bits_inv(x: f32) ensures #[trigger] f32_of_bits(f32_bits(x)) == x;
pub broadcast axiom fn ax_f64_bits_inv(x: f64) ensures #[trigger] f64_of_bits(f64_bits(x)) == x;

#[verifier::external_body]
#[derive(Debug)]
pub struct IoError { _p: u8 }

#[verifier::external_body]
pub fn vpanic() -> !
    requires false
{ panic!() }

// ---- Sink: append-only in-memory writer (`Vec<u8>` used through byteorder::WriteBytesExt / io::Write).
// Assumed contracts: NativeEndian == LittleEndian (x86-64 / aarch64 targets); writes to a Vec never
// fail, the io::Result plumbing is kept so that `?` in the code typechecks.
pub struct Sink { pub bytes: Vec<u8> }
impl Sink {
    pub open spec fn view(&self) -> Seq<u8> { self.bytes@ }
    #[verifier::external_body]
    pub fn with_capacity(n: usize) -> (r: Sink) ensures r@.len() == 0 { Sink { bytes: Vec::with_capacity(n) } }
    pub fn len(&self) -> (r: usize) ensures r == self@.len() { self.bytes.len() }
    #[verifier::external_body]
    pub fn put_u8(&mut self, v: u8) -> (r: Result<(), IoError>)
        ensures r.is_ok(), final(self)@ == old(self)@.push(v) { unimplemented!() }
    #[verifier::external_body]
    pub fn put_u16(&mut self, v: u16) -> (r: Result<(), IoError>)
        ensures r.is_ok(), final(self)@ == old(self)@ + le16(v) { unimplemented!() }
    #[verifier::external_body]
    pub fn put_u32(&mut self, v: u32) -> (r: Result<(), IoError>)
        ensures r.is_ok(), final(self)@ == old(self)@ + le32(v) { unimplemented!() }
    #[verifier::external_body]
    pub fn put_u64(&mut self, v: u64) -> (r: Result<(), IoError>)
        ensures r.is_ok(), final(self)@ == old(self)@ + le64(v) { unimplemented!() }
    #[verifier::external_body]
    pub fn put_f32(&mut self, v: f32) -> (r: Result<(), IoError>)
        ensures r.is_ok(), final(self)@ == old(self)@ + le32(f32_bits(v)) { unimplemented!() }
    #[verifier::external_body]
    pub fn put_f64(&mut self, v: f64) -> (r: Result<(), IoError>)
        ensures r.is_ok(), final(self)@ == old(self)@ + le64(f64_bits(v)) { unimplemented!() }
    #[verifier::external_body]
    pub fn put_bytes(&mut self, b: &[u8]) -> (r: Result<(), IoError>)
        ensures r.is_ok(), final(self)@ == old(self)@ + b@ { unimplemented!() }
}

// ---- FSink: seekable destination (`BufWriter<W: Write + Seek>`).  Ghost image `data()` and
// position `pos()`.  A put at `pos` overwrites/extends the image; any operation may fail, in
// which case nothing is promised about the image (callers must propagate the error).
#[verifier::external_body]
pub struct FSink { _p: u8 }
pub open spec fn splice(d: Seq<u8>, at: int, b: Seq<u8>) -> Seq<u8>
    recommends 0 <= at <= d.len()
{
    if at + b.len() >= d.len() { d.subrange(0, at) + b } else { d.subrange(0, at) + b + d.subrange(at + b.len(), d.len() as int) }
}
impl FSink {
    pub uninterp spec fn data(&self) -> Seq<u8>;
    pub uninterp spec fn pos(&self) -> int;
    pub open spec fn wf(&self) -> bool { 0 <= self.pos() <= self.data().len() }
    #[verifier::external_body]
    pub fn tell(&mut self) -> (r: Result<u64, IoError>)
        requires old(self).wf(), old(self).pos() <= u64::MAX
        ensures final(self).data() == old(self).data(), final(self).pos() == old(self).pos(), r.is_ok() ==> r.unwrap() == old(self).pos()
    { unimplemented!() }
    #[verifier::external_body]
    pub fn seek_start(&mut self, p: u64) -> (r: Result<u64, IoError>)
        requires old(self).wf(), p <= old(self).data().len()
        ensures final(self).data() == old(self).data(), r.is_ok() ==> (final(self).pos() == p && r.unwrap() == p), final(self).wf()
    { unimplemented!() }
    #[verifier::external_body]
    pub fn seek_end0(&mut self) -> (r: Result<u64, IoError>)
        requires old(self).wf()
        ensures final(self).data() == old(self).data(), r.is_ok() ==> (final(self).pos() == old(self).data().len() && r.unwrap() == old(self).data().len()), final(self).wf()
    { unimplemented!() }
    #[verifier::external_body]
    pub fn put(&mut self, b: &[u8]) -> (r: Result<(), IoError>)
        requires old(self).wf()
        ensures r.is_ok() ==> (final(self).data() == splice(old(self).data(), old(self).pos(), b@) && final(self).pos() == old(self).pos() + b@.len()), final(self).wf()
    { unimplemented!() }
    #[verifier::external_body]
    pub fn put_u8(&mut self, v: u8) -> (r: Result<(), IoError>)
        requires old(self).wf()
        ensures r.is_ok() ==> (final(self).data() == splice(old(self).data(), old(self).pos(), seq![v]) && final(self).pos() == old(self).pos() + 1), final(self).wf()
    { unimplemented!() }
    #[verifier::external_body]
    pub fn put_u16(&mut self, v: u16) -> (r: Result<(), IoError>)
        requires old(self).wf()
        ensures r.is_ok() ==> (final(self).data() == splice(old(self).data(), old(self).pos(), le16(v)) && final(self).pos() == old(self).pos() + 2), final(self).wf()
    { unimplemented!() }
    #[verifier::external_body]
    pub fn put_u32(&mut self, v: u32) -> (r: Result<(), IoError>)
        requires old(self).wf()
        ensures r.is_ok() ==> (final(self).data() == splice(old(self).data(), old(self).pos(), le32(v)) && final(self).pos() == old(self).pos() + 4), final(self).wf()
    { unimplemented!() }
    #[verifier::external_body]
    pub fn put_u64(&mut self, v: u64) -> (r: Result<(), IoError>)
        requires old(self).wf()
        ensures r.is_ok() ==> (final(self).data() == splice(old(self).data(), old(self).pos(), le64(v)) && final(self).pos() == old(self).pos() + 8), final(self).wf()
    { unimplemented!() }
    #[verifier::external_body]
    pub fn put_f64(&mut self, v: f64) -> (r: Result<(), IoError>)
        requires old(self).wf()
        ensures r.is_ok() ==> (final(self).data() == splice(old(self).data(), old(self).pos(), le64(f64_bits(v))) && final(self).pos() == old(self).pos() + 8), final(self).wf()
    { unimplemented!() }
}

// ---- Cur: consuming reader over a byte buffer (`bytes::BytesMut` used through `bytes::Buf`).
// `rem()` = bytes not yet consumed.  The `requires` are the real panics of the `bytes` crate
// (reading past the end / split_to past the end).
#[verifier::external_body]
pub struct Cur { _p: u8 }
impl Cur {
    pub uninterp spec fn rem(&self) -> Seq<u8>;
    #[verifier::external_body]
    pub fn from_vec(v: &Vec<u8>) -> (r: Cur) ensures r.rem() == v@ { unimplemented!() }
    #[verifier::external_body]
    pub fn len(&self) -> (r: usize) ensures r == self.rem().len() { unimplemented!() }
    #[verifier::external_body]
    pub fn split_to(&mut self, n: usize) -> (r: Cur)
        requires n <= old(self).rem().len()
        ensures r.rem() == old(self).rem().subrange(0, n as int), final(self).rem() == old(self).rem().subrange(n as int, old(self).rem().len() as int)
    { unimplemented!() }
    #[verifier::external_body]
    pub fn advance(&mut self, n: usize)
        requires n <= old(self).rem().len()
        ensures final(self).rem() == old(self).rem().subrange(n as int, old(self).rem().len() as int)
    { unimplemented!() }
    #[verifier::external_body]
    pub fn get_u8(&mut self) -> (r: u8)
        requires old(self).rem().len() >= 1
        ensures r == old(self).rem()[0], final(self).rem() == old(self).rem().subrange(1, old(self).rem().len() as int)
    { unimplemented!() }
    #[verifier::external_body]
    pub fn get_u16(&mut self) -> (r: u16)
        requires old(self).rem().len() >= 2
        ensures r == dbe16(old(self).rem(), 0), final(self).rem() == old(self).rem().subrange(2, old(self).rem().len() as int)
    { unimplemented!() }
    #[verifier::external_body]
    pub fn get_u16_le(&mut self) -> (r: u16)
        requires old(self).rem().len() >= 2
        ensures r == dle16(old(self).rem(), 0), final(self).rem() == old(self).rem().subrange(2, old(self).rem().len() as int)
    { unimplemented!() }
    #[verifier::external_body]
    pub fn get_u32(&mut self) -> (r: u32)
        requires old(self).rem().len() >= 4
        ensures r == dbe32(old(self).rem(), 0), final(self).rem() == old(self).rem().subrange(4, old(self).rem().len() as int)
    { unimplemented!() }
    #[verifier::external_body]
    pub fn get_u32_le(&mut self) -> (r: u32)
        requires old(self).rem().len() >= 4
        ensures r == dle32(old(self).rem(), 0), final(self).rem() == old(self).rem().subrange(4, old(self).rem().len() as int)
    { unimplemented!() }
    #[verifier::external_body]
    pub fn get_u64(&mut self) -> (r: u64)
        requires old(self).rem().len() >= 8
        ensures r == dbe64(old(self).rem(), 0), final(self).rem() == old(self).rem().subrange(8, old(self).rem().len() as int)
    { unimplemented!() }
    #[verifier::external_body]
    pub fn get_u64_le(&mut self) -> (r: u64)
        requires old(self).rem().len() >= 8
        ensures r == dle64(old(self).rem(), 0), final(self).rem() == old(self).rem().subrange(8, old(self).rem().len() as int)
    { unimplemented!() }
    #[verifier::external_body]
    pub fn get_f32(&mut self) -> (r: f32)
        requires old(self).rem().len() >= 4
        ensures r == f32_of_bits(dbe32(old(self).rem(), 0) as u32), final(self).rem() == old(self).rem().subrange(4, old(self).rem().len() as int)
    { unimplemented!() }
    #[verifier::external_body]
    pub fn get_f32_le(&mut self) -> (r: f32)
        requires old(self).rem().len() >= 4
        ensures r == f32_of_bits(dle32(old(self).rem(), 0) as u32), final(self).rem() == old(self).rem().subrange(4, old(self).rem().len() as int)
    { unimplemented!() }
}
// `uN::from_{le,be}_bytes([..])` (rule R4) with arithmetic contracts
#[verifier::external_body]
pub fn u32_from_le(b: [u8; 4]) -> (r: u32) ensures r == dle32(b@, 0) { u32::from_le_bytes(b) }
#[verifier::external_body]
pub fn u32_from_be(b: [u8; 4]) -> (r: u32) ensures r == dbe32(b@, 0) { u32::from_be_bytes(b) }
#[verifier::external_body]
pub fn u64_from_le(b: [u8; 8]) -> (r: u64) ensures r == dle64(b@, 0) { u64::from_le_bytes(b) }
#[verifier::external_body]
pub fn u64_from_be(b: [u8; 8]) -> (r: u64) ensures r == dbe64(b@, 0) { u64::from_be_bytes(b) }
#[verifier::external_body]
pub fn f32_from_le(b: [u8; 4]) -> (r: f32) ensures r == f32_of_bits(dle32(b@, 0) as u32) { f32::from_le_bytes(b) }
#[verifier::external_body]
pub fn f32_from_be(b: [u8; 4]) -> (r: f32) ensures r == f32_of_bits(dbe32(b@, 0) as u32) { f32::from_be_bytes(b) }

#[derive(Copy, Clone)]
pub struct Summary {
    pub total_items: u64,
    pub bases_covered: u64,
    pub min_val: f64,
    pub max_val: f64,
    pub sum: f64,
    pub sum_squares: f64,
}
#[derive(Copy, Clone)]
pub struct ZoomRecord {
    pub chrom: u32,
    pub start: u32,
    pub end: u32,
    pub summary: Summary,
}

/// shim for byteordered::Endianness (external crate, a plain 2-variant enum)
#[derive(Clone, Copy)]
pub enum Endianness { Big, Little }
pub open spec fn is_big(e: Endianness) -> bool { e is Big }

// ---- format spec (from the published zoom-record layout; shares no code with the reader) ----
/// the single-precision float stored at s[k..k+4] in byte order `big`, widened to f64
pub open spec fn f_at(big: bool, s: Seq<u8>, k: int) -> f64 {
    f64::from_spec(f32_of_bits(d32(big, s, k) as u32))
}
/// record i of a zoom block: chromId, chromStart, chromEnd, validCount (u32), min, max, sum, sumSquares (f32)
pub open spec fn rec_at(big: bool, s: Seq<u8>, i: int) -> ZoomRecord {
    ZoomRecord {
        chrom: d32(big, s, 32 * i) as u32,
        start: d32(big, s, 32 * i + 4) as u32,
        end: d32(big, s, 32 * i + 8) as u32,
        summary: Summary {
            total_items: 0,
            bases_covered: d32(big, s, 32 * i + 12) as u64,
            min_val: f_at(big, s, 32 * i + 16),
            max_val: f_at(big, s, 32 * i + 20),
            sum: f_at(big, s, 32 * i + 24),
            sum_squares: f_at(big, s, 32 * i + 28),
        },
    }
}
/// the reader's selection rule (closed on both sides: a superset of "intersects [start, end)")
pub open spec fn keep(r: ZoomRecord, chrom: u32, start: u32, end: u32) -> bool {
    r.chrom == chrom && r.end >= start && r.start <= end
}
/// the first n records of the block, filtered, in stored order
pub open spec fn zoom_sel(big: bool, s: Seq<u8>, n: int, chrom: u32, start: u32, end: u32) -> Seq<ZoomRecord>
    decreases n
{
    if n <= 0 { Seq::empty() } else {
        let p = zoom_sel(big, s, n - 1, chrom, start, end);
        let r = rec_at(big, s, n - 1);
        if keep(r, chrom, start, end) { p.push(r) } else { p }
    }
}
/// C07: every stored record that intersects [start, end) on the chromosome is in the selection
pub proof fn lemma_sel_complete(big: bool, s: Seq<u8>, n: int, chrom: u32, start: u32, end: u32, i: int)
    requires 0 <= i < n, keep(rec_at(big, s, i), chrom, start, end),
    ensures zoom_sel(big, s, n, chrom, start, end).contains(rec_at(big, s, i)),
    decreases n
{
    let p = zoom_sel(big, s, n - 1, chrom, start, end);
    let r = rec_at(big, s, n - 1);
    if i == n - 1 {
        assert(p.push(r)[p.len() as int] == r);
    } else {
        lemma_sel_complete(big, s, n - 1, chrom, start, end, i);
        let x = rec_at(big, s, i);
        let j = choose|j: int| 0 <= j < p.len() && p[j] == x;
        if keep(r, chrom, start, end) { assert(p.push(r)[j] == x); }
    }
}
/// every selected record is a stored record that satisfies the rule (nothing invented, nothing
/// from another chromosome), and the selection is no longer than the block
pub proof fn lemma_sel_sound(big: bool, s: Seq<u8>, n: int, chrom: u32, start: u32, end: u32)
    requires 0 <= n,
    ensures
        zoom_sel(big, s, n, chrom, start, end).len() <= n,
        forall|j: int| 0 <= j < zoom_sel(big, s, n, chrom, start, end).len() ==> {
            let x = #[trigger] zoom_sel(big, s, n, chrom, start, end)[j];
            &&& keep(x, chrom, start, end) && x.summary.total_items == 0
            &&& exists|i: int| 0 <= i < n && x == rec_at(big, s, i)
        },
    decreases n
{
    if n > 0 {
        lemma_sel_sound(big, s, n - 1, chrom, start, end);
        let p = zoom_sel(big, s, n - 1, chrom, start, end);
        let r = rec_at(big, s, n - 1);
        let q = zoom_sel(big, s, n, chrom, start, end);
        assert forall|j: int| 0 <= j < q.len() implies ({
            let x = #[trigger] q[j];
            &&& keep(x, chrom, start, end) && x.summary.total_items == 0
            &&& exists|i: int| 0 <= i < n && x == rec_at(big, s, i)
        }) by {
            if j < p.len() {
                assert(q[j] == p[j]);
                let i0 = choose|i: int| 0 <= i < n - 1 && p[j] == rec_at(big, s, i);
                assert(0 <= i0 < n && q[j] == rec_at(big, s, i0));
            } else {
                assert(q[j] == r);
                assert(0 <= n - 1 < n && q[j] == rec_at(big, s, n - 1));
            }
        }
    }
}
/// "intersects the half-open query range" implies the reader's (closed) rule
pub open spec fn intersects(r: ZoomRecord, chrom: u32, start: u32, end: u32) -> bool {
    r.chrom == chrom && r.start < end && r.end > start
}

pub fn get_zoom_block_values(data: Vec<u8>, endianness: Endianness,
    chrom: u32,
    start: u32,
    end: u32,
) -> (r: Result<Vec<ZoomRecord>, IoError>)
    requires
        
        data@.len() % 32 == 0,
    ensures
        
        r is Ok,
        
        r.unwrap()@ == zoom_sel(is_big(endianness), data@, data@.len() as int / 32, chrom, start, end),
        
        forall|i: int| 0 <= i < data@.len() as int / 32 && intersects(#[trigger] rec_at(is_big(endianness), data@, i), chrom, start, end)
            ==> r.unwrap()@.contains(rec_at(is_big(endianness), data@, i)),
        
        forall|j: int| 0 <= j < r.unwrap()@.len() ==> (#[trigger] r.unwrap()@[j]).chrom == chrom
            && r.unwrap()@[j].end >= start && r.unwrap()@[j].start <= end
            && exists|i: int| 0 <= i < data@.len() as int / 32 && r.unwrap()@[j] == rec_at(is_big(endianness), data@, i),
        
        forall|j: int| 0 <= j < r.unwrap()@.len() ==> (#[trigger] r.unwrap()@[j]).summary.total_items == 0,
        
        r.unwrap()@.len() <= data@.len() as int / 32,
{
    let mut bytes = Cur::from_vec(&data);

    let len = bytes.len();
    assert(((len as int) % (4int * 8)) == (0));
    let itemcount = len / (4 * 8);
    let mut records = Vec::with_capacity(itemcount);

    
    match endianness {
        Endianness::Big => {
            for k__ in 0..itemcount 
                invariant
                    
                    bytes.rem() == data@.subrange(32 * k__ as int, data@.len() as int),
                    
                    itemcount == data@.len() / 32, data@.len() % 32 == 0,
                    
                    records@ == zoom_sel(true, data@, k__ as int, chrom, start, end),
{

                proof { float_ax::float_det(); }
                let chrom_id = bytes.get_u32();
                let chrom_start = bytes.get_u32();
                let chrom_end = bytes.get_u32();
                let bases_covered = u64::from(bytes.get_u32());
                let min_val = f64::from(bytes.get_f32());
                let max_val = f64::from(bytes.get_f32());
                let sum = f64::from(bytes.get_f32());
                let sum_squares = f64::from(bytes.get_f32());

                proof {
                    
                    assert(bytes.rem() =~= data@.subrange(32 * (k__ + 1), data@.len() as int));
                    let ghost rr = rec_at(true, data@, k__ as int);
                    
                    assert(chrom_id == rr.chrom && chrom_start == rr.start && chrom_end == rr.end);
                    
                    assert(bases_covered == rr.summary.bases_covered && min_val == rr.summary.min_val && max_val == rr.summary.max_val
                        && sum == rr.summary.sum && sum_squares == rr.summary.sum_squares);
                }
                if chrom_id == chrom && chrom_end >= start && chrom_start <= end {
                    records.push(ZoomRecord {
                        chrom: chrom_id,
                        start: chrom_start,
                        end: chrom_end,
                        summary: Summary {
                            total_items: 0,
                            bases_covered,
                            min_val,
                            max_val,
                            sum,
                            sum_squares,
                        },
                    });
                }
            }
        }
        Endianness::Little => {
            for k__ in 0..itemcount 
                invariant
                    
                    bytes.rem() == data@.subrange(32 * k__ as int, data@.len() as int),
                    
                    itemcount == data@.len() / 32, data@.len() % 32 == 0,
                    
                    records@ == zoom_sel(false, data@, k__ as int, chrom, start, end),
{

                proof { float_ax::float_det(); }
                let chrom_id = bytes.get_u32_le();
                let chrom_start = bytes.get_u32_le();
                let chrom_end = bytes.get_u32_le();
                let bases_covered = u64::from(bytes.get_u32_le());
                let min_val = f64::from(bytes.get_f32_le());
                let max_val = f64::from(bytes.get_f32_le());
                let sum = f64::from(bytes.get_f32_le());
                let sum_squares = f64::from(bytes.get_f32_le());

                proof {
                    
                    assert(bytes.rem() =~= data@.subrange(32 * (k__ + 1), data@.len() as int));
                    let ghost rr = rec_at(false, data@, k__ as int);
                    
                    assert(chrom_id == rr.chrom && chrom_start == rr.start && chrom_end == rr.end);
                    
                    assert(bases_covered == rr.summary.bases_covered && min_val == rr.summary.min_val && max_val == rr.summary.max_val
                        && sum == rr.summary.sum && sum_squares == rr.summary.sum_squares);
                }
                if chrom_id == chrom && chrom_end >= start && chrom_start <= end {
                    records.push(ZoomRecord {
                        chrom: chrom_id,
                        start: chrom_start,
                        end: chrom_end,
                        summary: Summary {
                            total_items: 0,
                            bases_covered,
                            min_val,
                            max_val,
                            sum,
                            sum_squares,
                        },
                    });
                }
            }
        }
    }


    proof {
        let big = is_big(endianness);
        let n = data@.len() as int / 32;
        lemma_sel_sound(big, data@, n, chrom, start, end);
        assert forall|i: int| 0 <= i < n && intersects(#[trigger] rec_at(big, data@, i), chrom, start, end)
            implies zoom_sel(big, data@, n, chrom, start, end).contains(rec_at(big, data@, i)) by {
            lemma_sel_complete(big, data@, n, chrom, start, end, i);
        }
    }
        Ok(records)
}

} // verus!
fn main() {}

