// bigwigtobedgraph / bigbedtobed (CLI): the record writers -- the "and back" half of C16.
//   C16: "Converting bedGraph to bigWig and back, or BED to bigBed and back, with the command-line tools returns
//         the original records in the original order with numerically equal values and identical extra columns.
//         This holds for any thread count ...; restricting the output by chromosome, start and end yields exactly
//         the corresponding range-query result."
// Here, per call and on the text cut from /repo on every run:
//   (a) write_bg_singlethreaded / write_bed_singlethreaded: which chromosomes are asked, with which range, and
//       that the output is one line per record of each answer, in answer order, chromosomes in file order;
//   (b) write_bg_from_bed / write_bed_from_bed (descriptive, `doc/` labels): one query per region line, in order;
//   (c) write_bg / write_bed: the per-chromosome task `file_future`, the task producer and the hand-over loop,
//       sequentialised (rule R1: NO concurrency claim), and the product statement "same per-chromosome lines =>
//       same text as the single-threaded writer".
// The range query itself (`get_interval`) is ASSUMED (units query_glue, bw_values, bb_dec, rt_search ...): a
// deterministic function `answer(file, name, start, end)` of the file; `format`/`uwrite!` are uninterpreted
// functions of the format literal and the argument tuple (device of unit avg_rows).  See NOTES.md.
use vstd::prelude::*;
// `uwrite!(&mut buf, LIT, a, b, ..)` is kept verbatim: this macro SHADOWS ufmt's, rustc splits the arguments.
// The arguments are taken by reference (`chrom.name` is a String: it must not be moved out in a loop).
#[allow(unused_macros)]
macro_rules! uwrite {
    ($w:expr, $f:literal $(, $a:expr)* $(,)?) => { uw_append($w, $f, ($(&$a,)*)) };
}
// messages on stderr are not modelled (the text is dropped; no effect on files)
#[allow(unused_macros)]
macro_rules! eprintln {
    ($($t:tt)*) => { () };
}
verus! {

// =====================================================================================
// opaque stand-ins (R11)
// =====================================================================================
/// a chromosome name (`String` / `&str`): opaque, with real equality
#[verifier::external_body] pub struct Name { _p: u8 }
/// `a == b` on names: decides spec equality
#[verifier::external_body]
pub fn name_eq(a: &Name, b: &Name) -> (r: bool) ensures r == (*a == *b), { unimplemented!() }
impl Clone for Name {
    #[verifier::external_body] fn clone(&self) -> (r: Name) ensures r == *self, { unimplemented!() }
}
impl Name {
    // plausible foreign calls: same name
    #[verifier::external_body] pub fn to_owned(&self) -> (r: Name) ensures r == *self, { unimplemented!() }
    #[verifier::external_body] pub fn to_string(&self) -> (r: Name) ensures r == *self, { unimplemented!() }
    #[verifier::external_body] pub fn as_str(&self) -> (r: &Name) ensures *r == *self, { unimplemented!() }
}
/// the `rest` column(s) of a BED record (`String`): opaque; only emptiness is observed
#[verifier::external_body] pub struct Rest { _p: u8 }
pub uninterp spec fn rest_empty(r: Rest) -> bool;
impl Rest {
    #[verifier::external_body] pub fn is_empty(&self) -> (r: bool) ensures r == rest_empty(*self), { unimplemented!() }
    // plausible foreign calls: nothing promised
    #[verifier::external_body] pub fn len(&self) -> usize { unimplemented!() }
    #[verifier::external_body] pub fn trim(&self) -> &Rest { unimplemented!() }
    #[verifier::external_body] pub fn trim_end(&self) -> &Rest { unimplemented!() }
}
/// std::io::Error
#[verifier::external_body] pub struct IoErr { _p: u8 }
/// bed::bedparser::BedValueError
#[verifier::external_body] pub struct BedValueErr { _p: u8 }
/// text inside an error
#[verifier::external_body] pub struct ErrText { _p: u8 }
/// `Box<dyn Error>` (bigbedtobed's single-threaded writer); which error: lost behind `?`
#[verifier::external_body] pub struct AnyErr { _p: u8 }
/// the text `ryu::Buffer::new().format(x)` produces for an f32 (shortest round-trip decimal: NOT interpreted;
/// that `parse::<f32>` of it gives x back is a property of ryu/std, outside this unit)
#[verifier::external_body] pub struct NumText { _p: u8 }
pub uninterp spec fn ryu_text(x: f32) -> NumText;
pub mod ryu {
    use super::*;
    pub struct Buffer {}
    impl Buffer {
        #[verifier::external_body] pub fn new() -> Buffer { unimplemented!() }
        /// real signature: `format(&mut self, f) -> &str`
        #[verifier::external_body] pub fn format(self, f: f32) -> (r: NumText) ensures r == ryu_text(f), { unimplemented!() }
        #[verifier::external_body] pub fn format_finite(self, f: f32) -> NumText { unimplemented!() }
    }
}

#[derive(Copy, Clone)]
pub struct Value {
    pub start: u32,
    pub end: u32,
    pub value: f32,
}
pub struct BedEntry {
    pub start: u32,
    pub end: u32,
    pub rest: Rest,
}
pub struct ChromInfo {
    pub name: Name,
    pub length: u32,
    pub id: u32,
}
impl Clone for ChromInfo {
    /// `#[derive(Clone)]`: a faithful copy
    #[verifier::external_body] fn clone(&self) -> (r: ChromInfo) ensures r == *self, { unimplemented!() }
}
pub enum BBIReadError {
    InvalidChromosome(ErrText),
    UnknownMagic,
    InvalidFile(ErrText),
    BedValueError(BedValueErr),
    IoError(IoErr),
}
// the conversions behind `?`
impl vstd::std_specs::convert::FromSpecImpl<IoErr> for BBIReadError {
    open spec fn obeys_from_spec() -> bool { true }
    open spec fn from_spec(e: IoErr) -> BBIReadError { BBIReadError::IoError(e) }
}
impl From<IoErr> for BBIReadError { fn from(e: IoErr) -> (r: BBIReadError) { BBIReadError::IoError(e) } }
impl From<IoErr> for AnyErr { #[verifier::external_body] fn from(e: IoErr) -> AnyErr { unimplemented!() } }
impl From<BBIReadError> for AnyErr { #[verifier::external_body] fn from(e: BBIReadError) -> AnyErr { unimplemented!() } }
impl From<Never> for AnyErr { #[verifier::external_body] fn from(e: Never) -> AnyErr { unimplemented!() } }
/// `<[T]>::to_vec`: a copy of the slice (ASSUMED: the elements' Clone is a faithful copy -- ChromInfo is String + 2 x u32)
pub assume_specification<T: Clone>[ <[T]>::to_vec ](s: &[T]) -> (r: Vec<T>) ensures r@ == s@;
pub assume_specification<T>[ <[T]>::reverse ](s: &mut [T]) ensures final(s)@ == old(s)@.reverse();

// =====================================================================================
// text: pieces written by `uwrite!`, the String buffer, the output file
// =====================================================================================
/// the text one `uwrite!(buf, LIT, args..)` appends: an uninterpreted function of the literal and the argument
/// tuple (in order; arity is part of the tuple type).  What `{}` does to a u32 / &str is not interpreted.
#[verifier::external_body] pub struct Piece { _p: u8 }
pub uninterp spec fn piece_spec<T>(fmt: &str, args: T) -> Piece;
/// `core::convert::Infallible`
#[verifier::external_body] #[derive(Debug)] pub struct Never { _p: u8 }
/// the `String` the line is built in
#[verifier::external_body] pub struct Buf { _p: u8 }
impl Buf {
    /// pieces appended since the last clear
    pub uninterp spec fn text(&self) -> Seq<Piece>;
    #[verifier::external_body] pub fn with_capacity(n: usize) -> (r: Buf) ensures r.text() == Seq::<Piece>::empty(), { unimplemented!() }
    #[verifier::external_body] pub fn new() -> (r: Buf) ensures r.text() == Seq::<Piece>::empty(), { unimplemented!() }
    #[verifier::external_body] pub fn clear(&mut self) ensures final(self).text() == Seq::<Piece>::empty(), { unimplemented!() }
    /// `as_bytes` / `as_str`: the same text
    #[verifier::external_body] pub fn as_bytes(&self) -> (r: &Buf) ensures r.text() == self.text(), { unimplemented!() }
    #[verifier::external_body] pub fn as_str(&self) -> (r: &Buf) ensures r.text() == self.text(), { unimplemented!() }
    // plausible foreign calls: nothing promised
    #[verifier::external_body] pub fn len(&self) -> usize { unimplemented!() }
    #[verifier::external_body] pub fn is_empty(&self) -> bool { unimplemented!() }
    #[verifier::external_body] pub fn truncate(&mut self, n: usize) { unimplemented!() }
}
/// shim behind the shadowing `uwrite!` (ufmt into a String cannot fail): exactly one piece is appended
#[verifier::external_body]
pub fn uw_append<T>(w: &mut Buf, fmt: &'static str, args: T) -> (r: Result<(), Never>)
    ensures r is Ok, final(w).text() == old(w).text().push(piece_spec(fmt, args)),
{ unimplemented!() }

/// the output: `File` behind an `io::BufWriter` (single-threaded, overlap-bed) or the staging writer
/// `io::BufWriter<TempFileBufferWriter<File>>` of one task (multi-threaded).
/// ASSUMED: `BufWriter::write(b)` returning Ok has accepted ALL of b (true of std's BufWriter as long as
/// |b| < capacity (32000 resp. 8192 bytes): it copies into its buffer, flushing first with write_all when
/// needed; a line longer than the capacity goes to `inner.write` directly and may be cut short -- see NOTES);
/// the implicit flush when the BufWriter is dropped succeeds (its error is ignored by std -- see NOTES).
#[verifier::external_body] pub struct Out { _p: u8 }
impl Out {
    /// every piece accepted so far, in order
    pub uninterp spec fn lines(&self) -> Seq<Piece>;
    #[verifier::external_body]
    pub fn write(&mut self, b: &Buf) -> (r: Result<usize, IoErr>)
        ensures r is Ok ==> final(self).lines() == old(self).lines() + b.text(),
    { unimplemented!() }
    #[verifier::external_body]
    pub fn write_all(&mut self, b: &Buf) -> (r: Result<(), IoErr>)
        ensures r is Ok ==> final(self).lines() == old(self).lines() + b.text(),
    { unimplemented!() }
    #[verifier::external_body]
    pub fn flush(&mut self) -> (r: Result<(), IoErr>) ensures final(self).lines() == old(self).lines(), { unimplemented!() }
}
pub mod io {
    use super::*;
    /// `io::BufWriter::{with_capacity, new}(out_file)`: the same destination (buffering is not modelled)
    pub struct BufWriter {}
    impl BufWriter {
        #[verifier::external_body]
        pub fn with_capacity(n: usize, f: &mut Out) -> (w: &mut Out)
            ensures *w == *old(f), *final(f) == *final(w),
        { unimplemented!() }
        #[verifier::external_body]
        pub fn new(f: &mut Out) -> (w: &mut Out)
            ensures *w == *old(f), *final(f) == *final(w),
        { unimplemented!() }
    }
}

// =====================================================================================
// the reader: BigWigRead<R> (T = Value) / BigBedRead<R> (T = BedEntry)
// =====================================================================================
/// identity of the file content a reader serves
#[verifier::external_body] pub struct FileId { _p: u8 }
/// THE range-query result (C16 "the corresponding range-query result"): what `get_interval(name, start, end)` on
/// file f returns -- Err (unknown chromosome, index read error) or the finite list of items the iterator yields.
/// ASSUMED deterministic in (file, name, start, end).  Its content (records overlapping [start, end), ascending,
/// clipped for bigWig) is the business of units query_glue (`*/iterator_*`, `unknown_chromosome_*`), bw_values,
/// value_iter, bb_dec, rt_search; nothing about it is used here.
pub uninterp spec fn answer<T>(f: FileId, name: Name, start: u32, end: u32) -> Result<Seq<Result<T, BBIReadError>>, BBIReadError>;
pub ghost struct Query { pub name: Name, pub start: u32, pub end: u32 }
#[verifier::external_body]
#[verifier::accept_recursive_types(T)]
pub struct Reader<T> { _p: core::marker::PhantomData<T> }
#[verifier::external_body]
#[verifier::accept_recursive_types(T)]
pub struct Answer<T> { _p: core::marker::PhantomData<T> }
impl<T> Answer<T> {
    pub uninterp spec fn all(&self) -> Seq<Result<T, BBIReadError>>;
    pub uninterp spec fn pos(&self) -> nat;
    #[verifier::external_body]
    pub fn next(&mut self) -> (r: Option<Result<T, BBIReadError>>)
        ensures
            final(self).all() == old(self).all(),
            old(self).pos() < old(self).all().len() ==> r == Some(old(self).all()[old(self).pos() as int]) && final(self).pos() == old(self).pos() + 1,
            old(self).pos() >= old(self).all().len() ==> r is None && final(self).pos() == old(self).pos(),
    { unimplemented!() }
    // plausible foreign calls: nothing promised
    #[verifier::external_body] pub fn last(&mut self) -> Option<Result<T, BBIReadError>> { unimplemented!() }
    #[verifier::external_body] pub fn nth(&mut self, n: usize) -> Option<Result<T, BBIReadError>> { unimplemented!() }
}
impl<T> Reader<T> {
    pub uninterp spec fn file(&self) -> FileId;
    /// the chromosome table in file order (`chroms()`)
    pub uninterp spec fn table(&self) -> Seq<ChromInfo>;
    /// ghost log: the range queries made through this handle, in order
    pub uninterp spec fn queries(&self) -> Seq<Query>;
    #[verifier::external_body]
    pub fn chroms(&self) -> (r: &[ChromInfo]) ensures r@ == self.table(), { unimplemented!() }
    #[verifier::external_body]
    pub fn get_interval(&mut self, chrom_name: &Name, start: u32, end: u32) -> (r: Result<Answer<T>, BBIReadError>)
        ensures
            final(self).file() == old(self).file(), final(self).table() == old(self).table(),
            final(self).queries() == old(self).queries().push(Query { name: *chrom_name, start, end }),
            r matches Ok(a) ==> answer::<T>(old(self).file(), *chrom_name, start, end) == Ok::<Seq<Result<T, BBIReadError>>, BBIReadError>(a.all()) && a.pos() == 0,
            r matches Err(e) ==> answer::<T>(old(self).file(), *chrom_name, start, end) == Err::<Seq<Result<T, BBIReadError>>, BBIReadError>(e),
    { unimplemented!() }
    /// `Reopen::reopen`: a second handle on the same file, or an I/O error
    #[verifier::external_body]
    pub fn reopen(&self) -> (r: Result<Reader<T>, IoErr>)
        ensures r matches Ok(b) ==> b.file() == self.file() && b.table() == self.table() && b.queries() == Seq::<Query>::empty(),
    { unimplemented!() }
}

// =====================================================================================
// specification vocabulary (written from C16)
// =====================================================================================
pub open spec fn fmt4() -> &'static str { "{}\t{}\t{}\t{}\n" }
pub open spec fn fmt3() -> &'static str { "{}\t{}\t{}\n" }
/// a record type and the ONE line it becomes under a chromosome name
pub trait Rec: Sized {
    spec fn line(name: Name, x: Self) -> Piece;
}
/// bedGraph: chrom TAB start TAB end TAB value NEWLINE
impl Rec for Value {
    open spec fn line(name: Name, x: Value) -> Piece { piece_spec(fmt4(), (&name, &x.start, &x.end, &ryu_text(x.value))) }
}
/// BED: chrom TAB start TAB end [TAB rest] NEWLINE -- "identical extra columns": the rest column(s) follow after ONE
/// tab exactly when there are any (a three-column line comes back as three columns, no trailing tab)
impl Rec for BedEntry {
    open spec fn line(name: Name, x: BedEntry) -> Piece {
        if rest_empty(x.rest) { piece_spec(fmt3(), (&name, &x.start, &x.end)) }
        else { piece_spec(fmt4(), (&name, &x.start, &x.end, &x.rest)) }
    }
}
/// one line per item, in answer order (first n items)
pub open spec fn lines_of<T: Rec>(name: Name, items: Seq<Result<T, BBIReadError>>, n: int) -> Seq<Piece>
    decreases n
{
    if n <= 0 { Seq::empty() } else { lines_of(name, items, n - 1).push(T::line(name, items[n - 1]->Ok_0)) }
}
pub open spec fn items_ok<T>(items: Seq<Result<T, BBIReadError>>, n: int) -> bool {
    forall|j: int| 0 <= j < n ==> (#[trigger] items[j]) is Ok
}
/// `-start` / `-end` count only together with `-chrom`
pub open spec fn eff(chrom: Option<Name>, x: Option<u32>) -> Option<u32> { if chrom is Some { x } else { None } }
pub open spec fn q_start(s: Option<u32>) -> u32 { match s { Some(x) => x, None => 0 } }
pub open spec fn q_end(e: Option<u32>, c: ChromInfo) -> u32 { match e { Some(x) => x, None => c.length } }
/// the ONE query made for chromosome c: its name, start (default 0), end (default: the chromosome's length)
pub open spec fn chrom_query(c: ChromInfo, s: Option<u32>, e: Option<u32>) -> Query { Query { name: c.name, start: q_start(s), end: q_end(e, c) } }
pub open spec fn chrom_answer<T>(f: FileId, c: ChromInfo, s: Option<u32>, e: Option<u32>) -> Result<Seq<Result<T, BBIReadError>>, BBIReadError> {
    answer::<T>(f, c.name, q_start(s), q_end(e, c))
}
/// no read error for this chromosome: the query is answered and every item is Ok
pub open spec fn chrom_clean<T>(f: FileId, c: ChromInfo, s: Option<u32>, e: Option<u32>) -> bool {
    chrom_answer::<T>(f, c, s, e) matches Ok(items) && items_ok(items, items.len() as int)
}
/// the text of one chromosome: every record of the range-query result, one line each, in answer order
pub open spec fn chrom_text<T: Rec>(f: FileId, c: ChromInfo, s: Option<u32>, e: Option<u32>) -> Seq<Piece> {
    lines_of(c.name, chrom_answer::<T>(f, c, s, e)->Ok_0, chrom_answer::<T>(f, c, s, e)->Ok_0.len() as int)
}
/// the text of the first n chromosomes of cs, in that order
pub open spec fn all_text<T: Rec>(f: FileId, cs: Seq<ChromInfo>, n: int, s: Option<u32>, e: Option<u32>) -> Seq<Piece>
    decreases n
{
    if n <= 0 { Seq::empty() } else { all_text::<T>(f, cs, n - 1, s, e) + chrom_text::<T>(f, cs[n - 1], s, e) }
}
pub open spec fn all_clean<T>(f: FileId, cs: Seq<ChromInfo>, n: int, s: Option<u32>, e: Option<u32>) -> bool {
    forall|k: int| 0 <= k < n ==> chrom_clean::<T>(f, #[trigger] cs[k], s, e)
}
pub open spec fn all_queries(cs: Seq<ChromInfo>, n: int, s: Option<u32>, e: Option<u32>) -> Seq<Query>
    decreases n
{
    if n <= 0 { Seq::empty() } else { all_queries(cs, n - 1, s, e).push(chrom_query(cs[n - 1], s, e)) }
}
/// the FIRST entry of the chromosome table, from position i on, whose name is n
pub open spec fn lookup_from(v: Seq<ChromInfo>, n: Name, i: int) -> Option<ChromInfo>
    decreases v.len() - i
{
    if i < 0 || i >= v.len() { None } else if v[i].name == n { Some(v[i]) } else { lookup_from(v, n, i + 1) }
}
pub open spec fn lookup(v: Seq<ChromInfo>, n: Name) -> Option<ChromInfo> { lookup_from(v, n, 0) }
/// which chromosomes are written: the named one (None: it is not in the file) or ALL chromosomes in file order
pub open spec fn wanted(table: Seq<ChromInfo>, chrom: Option<Name>) -> Option<Seq<ChromInfo>> {
    match chrom {
        None => Some(table),
        Some(n) => match lookup(table, n) { Some(c) => Some(seq![c]), None => None },
    }
}

/// `V.iter().find(|c| c.name == NAME)`: the first entry with that name (closures over iterators are outside
/// Verus; the same result computed by a verified index loop)
pub fn find_chrom<'a>(v: &'a [ChromInfo], chrom_name: &Name) -> (r: Option<&'a ChromInfo>)
    ensures
        r matches Some(c) ==> lookup(v@, *chrom_name) == Some(*c),
        r is None ==> lookup(v@, *chrom_name) is None,
{
    let mut i: usize = 0;
    while i < v.len()
        invariant i <= v.len(), lookup(v@, *chrom_name) == lookup_from(v@, *chrom_name, i as int),
        decreases v.len() - i,
    {
        if name_eq(&v[i].name, chrom_name) {
            return Some(&v[i]);
        }
        i = i + 1;
    }
    None
}

// =====================================================================================
// (a) single-threaded writers
// =====================================================================================
#[verifier::loop_isolation(false)]
pub fn write_bg_singlethreaded(
    bigwig: &mut Reader<Value>,
    out_file: &mut Out,
    chrom: Option<Name>,
    start: Option<u32>,
    end: Option<u32>,
) -> (r: Result<(), BBIReadError>)
    ensures
        
        final(bigwig).file() == old(bigwig).file() && final(bigwig).table() == old(bigwig).table(),
        
        wanted(old(bigwig).table(), chrom) is None ==> r is Ok && final(out_file).lines() == old(out_file).lines()
            && final(bigwig).queries() == old(bigwig).queries(),
        
        wanted(old(bigwig).table(), chrom) matches Some(cs) ==> (r is Ok ==>
            final(bigwig).queries() == old(bigwig).queries() + all_queries(cs, cs.len() as int, eff(chrom, start), eff(chrom, end))),
        
        wanted(old(bigwig).table(), chrom) matches Some(cs) ==> (r is Ok ==>
            final(out_file).lines() == old(out_file).lines() + all_text::<Value>(old(bigwig).file(), cs, cs.len() as int, eff(chrom, start), eff(chrom, end))),
        
        wanted(old(bigwig).table(), chrom) matches Some(cs) ==> (r is Ok ==>
            all_clean::<Value>(old(bigwig).file(), cs, cs.len() as int, eff(chrom, start), eff(chrom, end))),
{
    let ghost chrom0 = chrom;
    let ghost start0 = start;
    let ghost end0 = end;
    let ghost f0 = bigwig.file();
    let ghost q0 = bigwig.queries();
    let ghost l0 = out_file.lines();

    let start = (match chrom.as_ref() { Some(_) => start, None => None });
    let end = (match chrom.as_ref() { Some(_) => end, None => None });

    let chroms: Vec<ChromInfo> = if let Some(arg_chrom) = chrom {
        let chrom = find_chrom(bigwig.chroms(), &arg_chrom);
        let Some(chrom) = chrom else {
            eprintln!("{arg_chrom} not found in file.");
            return Ok(());
        };
        vec![chrom.clone()]
    } else {
        bigwig.chroms().to_vec()
    };

    let ghost s_ = start;
    let ghost e_ = end;
    assert(s_ == eff(chrom0, start0) && e_ == eff(chrom0, end0)); 
    assert(wanted(bigwig.table(), chrom0) == Some(chroms@)); 
    let mut writer = io::BufWriter::with_capacity(32 * 1000, out_file);
    for i__1 in 0..chroms.len() 
        invariant
            
            bigwig.file() == f0, bigwig.table() == old(bigwig).table(),
            wanted(old(bigwig).table(), chrom0) == Some(chroms@),
            
            writer.lines() == l0 + all_text::<Value>(f0, chroms@, i__1 as int, s_, e_),
            
            bigwig.queries() == q0 + all_queries(chroms@, i__1 as int, s_, e_),
            
            all_clean::<Value>(f0, chroms@, i__1 as int, s_, e_),
{ let chrom = &chroms[i__1];
        let start = start.unwrap_or(0);
        let end = end.unwrap_or(chrom.length);
        let mut values = bigwig.get_interval(&chrom.name, start, end)?;
        let mut buf = Buf::with_capacity(50); // Estimate
        loop 
            invariant
                
                0 <= i__1 < chroms@.len(), *chrom == chroms@[i__1 as int],
                bigwig.file() == f0, bigwig.table() == old(bigwig).table(), wanted(old(bigwig).table(), chrom0) == Some(chroms@),
                
                bigwig.queries() == q0 + all_queries(chroms@, i__1 as int, s_, e_).push(chrom_query(*chrom, s_, e_)),
                
                chrom_answer::<Value>(f0, *chrom, s_, e_) == Ok::<Seq<Result<Value, BBIReadError>>, BBIReadError>(values.all()),
                values.pos() <= values.all().len(),
                
                buf.text() == Seq::<Piece>::empty(),
                
                writer.lines() == l0 + all_text::<Value>(f0, chroms@, i__1 as int, s_, e_) + lines_of(chrom.name, values.all(), values.pos() as int),
                
                items_ok(values.all(), values.pos() as int),
            decreases
                
                values.all().len() - values.pos(),
{ let raw_val = match values.next() { Some(x__) => x__, None => break };
            let val = raw_val?;

            // Using ryu for f32 to string conversion has a ~15% speedup
            uwrite!(
                &mut buf,
                "{}\t{}\t{}\t{}\n",
                chrom.name,
                val.start,
                val.end,
                ryu::Buffer::new().format(val.value)
            )
            .unwrap();
            writer.write(buf.as_bytes())?;
            buf.clear();
        }
    }

    Ok(())
}

/// `bigbedtobed --zoom N` (summary rows of a zoom level instead of records): NOT part of C16.  The whole
/// `if let Some(zoom) = zoom { .. }` branch of write_bed_singlethreaded is replaced by a call of this stub
/// (nothing promised except that the reader still serves the same file; `start`/`end` are handed on as whatever the
/// locals of those names are at that point -- `Option<u32>` on /repo, plain `u32` after an edit that resolves the
/// defaults earlier).
#[verifier::external_body]
pub fn zoom_mode<S, E>(bigbed: &mut Reader<BedEntry>, writer: &mut Out, chroms: Vec<ChromInfo>, start: S, end: E, zoom: u32) -> (r: Result<(), AnyErr>)
    ensures final(bigbed).file() == old(bigbed).file() && final(bigbed).table() == old(bigbed).table(),
{ unimplemented!() }
#[verifier::loop_isolation(false)]
pub fn write_bed_singlethreaded(
    bigbed: &mut Reader<BedEntry>,
    out_file: &mut Out,
    chrom: Option<Name>,
    start: Option<u32>,
    end: Option<u32>,
    zoom: Option<u32>,
) -> (r: Result<(), AnyErr>)
    ensures
        
        final(bigbed).file() == old(bigbed).file() && final(bigbed).table() == old(bigbed).table(),
        
        zoom is None && wanted(old(bigbed).table(), chrom) is None ==> r is Ok && final(out_file).lines() == old(out_file).lines()
            && final(bigbed).queries() == old(bigbed).queries(),
        
        zoom is None ==> (wanted(old(bigbed).table(), chrom) matches Some(cs) ==> (r is Ok ==>
            final(bigbed).queries() == old(bigbed).queries() + all_queries(cs, cs.len() as int, eff(chrom, start), eff(chrom, end)))),
        
        zoom is None ==> (wanted(old(bigbed).table(), chrom) matches Some(cs) ==> (r is Ok ==>
            final(out_file).lines() == old(out_file).lines() + all_text::<BedEntry>(old(bigbed).file(), cs, cs.len() as int, eff(chrom, start), eff(chrom, end)))),
        
        zoom is None ==> (wanted(old(bigbed).table(), chrom) matches Some(cs) ==> (r is Ok ==>
            all_clean::<BedEntry>(old(bigbed).file(), cs, cs.len() as int, eff(chrom, start), eff(chrom, end)))),
{
    let ghost chrom0 = chrom;
    let ghost start0 = start;
    let ghost end0 = end;
    let ghost f0 = bigbed.file();
    let ghost q0 = bigbed.queries();
    let ghost l0 = out_file.lines();

    let start = (match chrom.as_ref() { Some(_) => start, None => None });
    let end = (match chrom.as_ref() { Some(_) => end, None => None });

    let chroms: Vec<ChromInfo> = if let Some(arg_chrom) = chrom {
        let chrom = find_chrom(bigbed.chroms(), &arg_chrom);
        let Some(chrom) = chrom else {
            eprintln!("Error: {arg_chrom} not found in file.");
            return Ok(());
        };
        vec![chrom.clone()]
    } else {
        bigbed.chroms().to_vec()
    };

    let ghost s_ = start;
    let ghost e_ = end;
    assert(s_ == eff(chrom0, start0) && e_ == eff(chrom0, end0)); 
    assert(wanted(bigbed.table(), chrom0) == Some(chroms@)); 
    let mut writer = io::BufWriter::with_capacity(32 * 1000, out_file);
    let mut buf: Buf = Buf::with_capacity(50); // Estimate
    if let Some(zoom) = zoom {
        return zoom_mode(bigbed, writer, chroms, start, end, zoom);
    } else {
        for i__1 in 0..chroms.len() 
        invariant
            
            bigbed.file() == f0, bigbed.table() == old(bigbed).table(),
            wanted(old(bigbed).table(), chrom0) == Some(chroms@),
            
            buf.text() == Seq::<Piece>::empty(),
            
            writer.lines() == l0 + all_text::<BedEntry>(f0, chroms@, i__1 as int, s_, e_),
            
            bigbed.queries() == q0 + all_queries(chroms@, i__1 as int, s_, e_),
            
            all_clean::<BedEntry>(f0, chroms@, i__1 as int, s_, e_),
{ let chrom = &chroms[i__1];
            let start = start.unwrap_or(0);
            let end = end.unwrap_or(chrom.length);
            let mut values = bigbed.get_interval(&chrom.name, start, end)?; loop 
            invariant
                
                0 <= i__1 < chroms@.len(), *chrom == chroms@[i__1 as int],
                bigbed.file() == f0, bigbed.table() == old(bigbed).table(), wanted(old(bigbed).table(), chrom0) == Some(chroms@),
                
                bigbed.queries() == q0 + all_queries(chroms@, i__1 as int, s_, e_).push(chrom_query(*chrom, s_, e_)),
                
                chrom_answer::<BedEntry>(f0, *chrom, s_, e_) == Ok::<Seq<Result<BedEntry, BBIReadError>>, BBIReadError>(values.all()),
                values.pos() <= values.all().len(),
                
                buf.text() == Seq::<Piece>::empty(),
                
                writer.lines() == l0 + all_text::<BedEntry>(f0, chroms@, i__1 as int, s_, e_) + lines_of(chrom.name, values.all(), values.pos() as int),
                
                items_ok(values.all(), values.pos() as int),
            decreases
                
                values.all().len() - values.pos(),
{ let raw_val = match values.next() { Some(x__) => x__, None => break };
                let val = raw_val?;
                if !val.rest.is_empty() {
                    uwrite!(
                        &mut buf,
                        "{}\t{}\t{}\t{}\n",
                        chrom.name,
                        val.start,
                        val.end,
                        val.rest
                    )
                    .unwrap();
                } else {
                    uwrite!(&mut buf, "{}\t{}\t{}\n", chrom.name, val.start, val.end).unwrap();
                };
                writer.write(buf.as_bytes())?;
                buf.clear();
            }
        }
    }
    Ok(())
}


// =====================================================================================
// (c) multi-threaded writers write_bg / write_bed, SEQUENTIALISED (rule R1: `async`/`.await` stripped, every
//     piece verified as running to completion; NO claim about schedules, blocking, wake-ups, panics of tasks)
//     Four pieces per tool are carved out of the function text by whole-text //@presub (see NOTES.md):
//       file_future   the task of ONE chromosome: one query (name, 0, length), one line per record into ITS writer
//       produce       `remaining_chroms = chroms().to_vec(); reverse();` + the producer loop: pop, reopen, fresh
//                     staging buffer, spawn the task, send the task handle, send the buffer
//       join_tasks    the loop that awaits the task handles in send order and returns the first error
//       hand_over     the main loop: take the next buffer, switch it to the output file, wait, take the file back
// =====================================================================================
/// TempFileBufferWriter<File> behind io::BufWriter: the producer half of one chromosome's staging buffer.  The
/// task writes its lines into it (`Out` is used for the `&mut` view the task has of it).
#[verifier::external_body] pub struct StageW { _p: u8 }
impl StageW { pub uninterp spec fn cid(&self) -> int; }
/// TempFileBuffer<File>, consumer half, per unit tfb (same reading as unit chrom_pipe):
///   `staged()` = everything the producer half has accepted when its task finishes;
///   switch          = tfb `switch/pre_invariant_and_switch_called_at_most_once`, `switch/destination_handed_over_untouched`
///   await_real_file = tfb `await_real_file/pre_published_invariant_and_switched`,
///                     `await_real_file/destination_holds_d0_then_all_written_bytes_once_in_order`
///                     (the method waits for the producer itself: R13, blocking not modelled)
///   is_real_file_ready = tfb `is_real_file_ready/true_iff_producer_has_published`
/// `fuel()`: how many more times the waiting loop has to yield before the task has finished.  ASSUMED finite
/// (fair scheduler, the task is not stuck): only the termination label of the busy-wait rests on it.
#[verifier::external_body] pub struct StageBuf { _p: u8 }
impl StageBuf {
    pub uninterp spec fn cid(&self) -> int;
    pub uninterp spec fn staged(&self) -> Seq<Piece>;
    pub uninterp spec fn dest(&self) -> Option<Out>;
    pub uninterp spec fn fuel(&self) -> nat;
    #[verifier::external_body]
    pub fn switch(&mut self, new_file: Out)
        requires
            
            old(self).dest() is None,
        ensures
            final(self).dest() == Some(new_file), final(self).staged() == old(self).staged(), final(self).cid() == old(self).cid(),
            final(self).fuel() == old(self).fuel(),
    { unimplemented!() }
    #[verifier::external_body]
    pub fn is_real_file_ready(&self) -> (r: bool) ensures r == (self.fuel() == 0), { unimplemented!() }
    #[verifier::external_body]
    pub fn await_real_file(self) -> (d: Out)
        requires
            
            self.dest() is Some,
        ensures
            d.lines() == self.dest().unwrap().lines() + self.staged(),
    { unimplemented!() }
    // plausible foreign call: nothing promised
    #[verifier::external_body] pub fn len(&self) -> usize { unimplemented!() }
}
/// `tokio::task::yield_now().await` inside `while !buf.is_real_file_ready()`: lets the task run
#[verifier::external_body]
pub fn yield_now(buf: &mut StageBuf)
    ensures
        final(buf).dest() == old(buf).dest(), final(buf).staged() == old(buf).staged(), final(buf).cid() == old(buf).cid(),
        old(buf).fuel() > 0 ==> final(buf).fuel() == old(buf).fuel() - 1,
        old(buf).fuel() == 0 ==> final(buf).fuel() == 0,
{ unimplemented!() }
pub struct TempFileBuffer {}
impl TempFileBuffer {
    /// `TempFileBuffer::new(inmemory)`: a fresh pair (tfb `fresh_pair`): nothing written, not switched
    #[verifier::external_body]
    pub fn new(inmemory: bool) -> (r: (StageBuf, StageW))
        ensures r.0.cid() == r.1.cid(), r.0.dest() is None,
    { unimplemented!() }
}
/// `io::BufWriter::new(file)` around the producer half (buffering not modelled)
#[verifier::external_body]
pub fn buffered(file: StageW) -> (w: StageW) ensures w.cid() == file.cid(), { unimplemented!() }
/// tokio JoinHandle of one `file_future` task.  Ghost: what the task was started with and its result.
#[verifier::external_body]
#[verifier::accept_recursive_types(T)]
pub struct Task<T> { _p: core::marker::PhantomData<T> }
impl<T> Task<T> {
    pub uninterp spec fn file(&self) -> FileId;
    pub uninterp spec fn chrom(&self) -> ChromInfo;
    pub uninterp spec fn cid(&self) -> int;
    pub uninterp spec fn result(&self) -> Result<(), BBIReadError>;
    /// `handle.await.unwrap()`: the task's result (a PANICKED task makes `.unwrap()` panic: not modelled)
    #[verifier::external_body]
    pub fn unwrap(self) -> (r: Result<(), BBIReadError>) ensures r == self.result(), { unimplemented!() }
}
/// `tokio::task::spawn(file_future(reader, chrom, writer))`
#[verifier::external_body]
pub fn spawn_file_future<T>(reader: Reader<T>, chrom: ChromInfo, writer: StageW) -> (h: Task<T>)
    ensures h.file() == reader.file(), h.chrom() == chrom, h.cid() == writer.cid(),
{ unimplemented!() }
/// JoinHandle of the join_tasks loop
#[verifier::external_body] pub struct DataHandle { _p: u8 }
impl DataHandle {
    pub uninterp spec fn result(&self) -> Result<(), BBIReadError>;
    #[verifier::external_body]
    pub fn unwrap(self) -> (r: Result<(), BBIReadError>) ensures r == self.result(), { unimplemented!() }
}
/// futures mpsc Sender<M>: ghost log of what was sent.  `send(..).await.unwrap()` PANICS when the receiver is gone
/// (a panic returns nothing: `unwrap` below has no precondition)
#[verifier::external_body]
#[verifier::reject_recursive_types(M)]
pub struct Tx<M> { _p: core::marker::PhantomData<M> }
#[verifier::external_body] pub struct SendRes { _p: u8 }
impl SendRes { #[verifier::external_body] pub fn unwrap(self) { unimplemented!() } }
impl<M> Tx<M> {
    pub uninterp spec fn sent(&self) -> Seq<M>;
    #[verifier::external_body]
    pub fn send(&mut self, m: M) -> (r: SendRes) ensures final(self).sent() == old(self).sent().push(m), { unimplemented!() }
}
/// futures mpsc Receiver<M>: ASSUMED a finite queue delivered in send order; None when closed and empty
#[verifier::external_body]
#[verifier::reject_recursive_types(M)]
pub struct Mailbox<M> { _p: core::marker::PhantomData<M> }
impl<M> Mailbox<M> {
    pub uninterp spec fn queue(&self) -> Seq<M>;
    #[verifier::external_body]
    pub fn next(&mut self) -> (r: Option<M>)
        ensures
            old(self).queue().len() == 0 ==> r is None && final(self).queue() == old(self).queue(),
            old(self).queue().len() > 0 ==> r == Some(old(self).queue()[0]) && final(self).queue() == old(self).queue().drop_first(),
    { unimplemented!() }
    #[verifier::external_body] pub fn try_next(&mut self) -> Option<M> { unimplemented!() }
}
/// `v.reverse()`
#[verifier::external_body]
pub fn vec_reverse<T>(v: &mut Vec<T>)
    ensures final(v)@.len() == old(v)@.len(), forall|j: int| 0 <= j < old(v)@.len() ==> #[trigger] final(v)@[j] == old(v)@[old(v)@.len() - 1 - j],
{ v.reverse() }

/// concatenation of the buffers' staged text, in queue order
pub open spec fn cat_staged(q: Seq<StageBuf>, n: int) -> Seq<Piece>
    decreases n
{ if n <= 0 { Seq::empty() } else { cat_staged(q, n - 1) + q[n - 1].staged() } }
pub open spec fn tasks_ok<T>(q: Seq<Task<T>>, n: int) -> bool { forall|k: int| 0 <= k < n ==> (#[trigger] q[k]).result() is Ok }
/// the k-th task / buffer pair the producer sends belongs to the k-th chromosome of the table (FILE ORDER)
pub open spec fn pair_ok<T>(h: Task<T>, b: StageBuf, f: FileId, c: ChromInfo) -> bool {
    h.file() == f && h.chrom() == c && h.cid() == b.cid() && b.dest() is None
}

/// "any thread count", sequential core: if every chromosome's staging buffer holds exactly the lines the
/// single-threaded writer produces for that chromosome (which is what `file_future`'s contract says about the
/// writer half it is given: one query (name, 0, length), one line per record), then the text the hand-over loop
/// assembles (cat_staged, buffers in send order = file order) IS the single-threaded text.
pub proof fn mt_text_is_st_text<T: Rec>(f: FileId, table: Seq<ChromInfo>, bufs: Seq<StageBuf>, n: int)
    requires
        0 <= n <= table.len(), bufs.len() == table.len(),
        forall|k: int| 0 <= k < table.len() ==> (#[trigger] bufs[k]).staged() == chrom_text::<T>(f, table[k], None, None),
    ensures
        
        cat_staged(bufs, n) == all_text::<T>(f, table, n, None, None),
    decreases n,
{
    if n > 0 { mt_text_is_st_text::<T>(f, table, bufs, n - 1); }
}

// ---------------- bg: the task of one chromosome ----------------
#[verifier::loop_isolation(false)]
fn bg_file_future(
        bigwig: &mut Reader<Value>,
        chrom: ChromInfo,
        writer: &mut Out,
    ) -> (r: Result<(), BBIReadError>)
    ensures
        
        final(bigwig).file() == old(bigwig).file() && final(bigwig).table() == old(bigwig).table(),
        
        final(bigwig).queries() == old(bigwig).queries().push(chrom_query(chrom, None, None)),
        
        r is Ok ==> final(writer).lines() == old(writer).lines() + chrom_text::<Value>(old(bigwig).file(), chrom, None, None),
        
        r is Ok ==> chrom_clean::<Value>(old(bigwig).file(), chrom, None, None),
{
    let ghost f0 = bigwig.file();
    let ghost l0 = writer.lines();

        let mut buf: Buf = Buf::with_capacity(50); // Estimate
        let mut values = bigwig.get_interval(&chrom.name, 0, chrom.length)?; loop 
        invariant
            
            bigwig.file() == f0, bigwig.table() == old(bigwig).table(),
            bigwig.queries() == old(bigwig).queries().push(chrom_query(chrom, None, None)),
            values.pos() <= values.all().len(),
            
            chrom_answer::<Value>(f0, chrom, None, None) == Ok::<Seq<Result<Value, BBIReadError>>, BBIReadError>(values.all()),
            
            buf.text() == Seq::<Piece>::empty(),
            
            writer.lines() == l0 + lines_of(chrom.name, values.all(), values.pos() as int),
            
            items_ok(values.all(), values.pos() as int),
        decreases
            
            values.all().len() - values.pos(),
{ let raw_val = match values.next() { Some(x__) => x__, None => break };
            let val = raw_val?;
            // Using ryu for f32 to string conversion has a ~15% speedup
            uwrite!(
                &mut buf,
                "{}\t{}\t{}\t{}\n",
                chrom.name,
                val.start,
                val.end,
                ryu::Buffer::new().format(val.value)
            )
            .unwrap();
            writer.write(buf.as_bytes())?;
            buf.clear();
        }
        Ok(())
    }

// ---------------- bg: the producer ----------------
#[verifier::loop_isolation(false)]
fn bg_produce(bigwig: &Reader<Value>, inmemory: bool, handle_snd: &mut Tx<Task<Value>>, buf_snd: &mut Tx<StageBuf>) -> (r: Result<(), BBIReadError>)
    ensures
        
        r is Ok ==> final(handle_snd).sent().len() == old(handle_snd).sent().len() + bigwig.table().len()
            && final(buf_snd).sent().len() == old(buf_snd).sent().len() + bigwig.table().len(),
        
        r is Ok ==> forall|k: int| 0 <= k < bigwig.table().len() ==> pair_ok(
            #[trigger] final(handle_snd).sent()[old(handle_snd).sent().len() + k], final(buf_snd).sent()[old(buf_snd).sent().len() + k],
            bigwig.file(), bigwig.table()[k]),
        
        old(handle_snd).sent() =~= final(handle_snd).sent().take(old(handle_snd).sent().len() as int)
            && old(buf_snd).sent() =~= final(buf_snd).sent().take(old(buf_snd).sent().len() as int),
{
    let ghost tb = bigwig.table();
    let ghost n = tb.len() as int;
    let ghost h0 = handle_snd.sent();
    let ghost b0 = buf_snd.sent();
    let ghost mut k: int = 0;

    let mut remaining_chroms = bigwig.chroms().to_vec();
    vec_reverse(&mut remaining_chroms);
        loop 
        invariant
            
            0 <= k <= n, remaining_chroms@.len() + k == n,
            forall|j: int| 0 <= j < remaining_chroms@.len() ==> #[trigger] remaining_chroms@[j] == tb[n - 1 - j],
            
            handle_snd.sent().len() == h0.len() + k, buf_snd.sent().len() == b0.len() + k,
            h0 =~= handle_snd.sent().take(h0.len() as int), b0 =~= buf_snd.sent().take(b0.len() as int),
            forall|i: int| 0 <= i < k ==> pair_ok(#[trigger] handle_snd.sent()[h0.len() + i], buf_snd.sent()[b0.len() + i], bigwig.file(), tb[i]),
        decreases
            
            remaining_chroms@.len(),
{
            let Some(chrom) = remaining_chroms.pop() else {
                return Ok::<_, BBIReadError>(());
            };

            let bigbed = bigwig.reopen()?;
            let (buf, file): (StageBuf, StageW) =
                TempFileBuffer::new(inmemory);
            let writer = buffered(file);
            let handle = spawn_file_future(bigbed, chrom, writer);

            handle_snd.send(handle).unwrap();
            buf_snd.send(buf).unwrap();
        
            proof { k = k + 1; }
}
}

// ---------------- bg: joining the tasks ----------------
#[verifier::loop_isolation(false)]
fn bg_join_tasks(handle_rcv: &mut Mailbox<Task<Value>>) -> (r: Result<(), BBIReadError>)
    ensures
        
        r is Ok <==> tasks_ok(old(handle_rcv).queue(), old(handle_rcv).queue().len() as int),
{
    let ghost q = handle_rcv.queue();
    let ghost mut k: int = 0;

        loop 
        invariant
            
            0 <= k <= q.len(), handle_rcv.queue() =~= q.skip(k), tasks_ok(q, k),
        decreases
            
            handle_rcv.queue().len(),
{
            let next = handle_rcv.next();
            let Some(handle) = next else {
                return Ok::<_, BBIReadError>(());
            };
            handle.unwrap()?;
        
            proof { k = k + 1; }
}
}

// ---------------- bg: the hand-over loop ----------------
#[verifier::loop_isolation(false)]
fn bg_hand_over(buf_rcv: &mut Mailbox<StageBuf>, data_handle: DataHandle, mut out_file: Out) -> (r: Result<Out, BBIReadError>)
    requires
        
        forall|k: int| 0 <= k < old(buf_rcv).queue().len() ==> (#[trigger] old(buf_rcv).queue()[k]).dest() is None,
    ensures
        
        r matches Ok(o) ==> o.lines() == out_file.lines() + cat_staged(old(buf_rcv).queue(), old(buf_rcv).queue().len() as int),
        
        r is Ok <==> data_handle.result() is Ok,
{
    let ghost q = buf_rcv.queue();
    let ghost l0 = out_file.lines();
    let ghost mut k: int = 0;

        loop 
        invariant
            
            0 <= k <= q.len(), buf_rcv.queue() =~= q.skip(k),
            out_file.lines() == l0 + cat_staged(q, k),
        decreases
            
            buf_rcv.queue().len(),
{
            let next = buf_rcv.next();
            let Some(mut buf) = next else {
                data_handle.unwrap()?;
                return Ok::<_, BBIReadError>(out_file);
            };

            buf.switch(out_file);
            while !buf.is_real_file_ready() 
            invariant
                
                0 <= k < q.len(), buf.staged() == q[k].staged(), buf.dest() matches Some(d) && d.lines() == l0 + cat_staged(q, k),
                buf_rcv.queue() =~= q.skip(k + 1),
            decreases
                
                buf.fuel(),
{
                yield_now(&mut buf);
            }
            out_file = buf.await_real_file();
        
            proof { k = k + 1; }
}
}

// ---------------- bed: the task of one chromosome ----------------
#[verifier::loop_isolation(false)]
fn bed_file_future(
        bigbed: &mut Reader<BedEntry>,
        chrom: ChromInfo,
        writer: &mut Out,
    ) -> (r: Result<(), BBIReadError>)
    ensures
        
        final(bigbed).file() == old(bigbed).file() && final(bigbed).table() == old(bigbed).table(),
        
        final(bigbed).queries() == old(bigbed).queries().push(chrom_query(chrom, None, None)),
        
        r is Ok ==> final(writer).lines() == old(writer).lines() + chrom_text::<BedEntry>(old(bigbed).file(), chrom, None, None),
        
        r is Ok ==> chrom_clean::<BedEntry>(old(bigbed).file(), chrom, None, None),
{
    let ghost f0 = bigbed.file();
    let ghost l0 = writer.lines();

        let mut buf: Buf = Buf::with_capacity(50); // Estimate
        let mut values = bigbed.get_interval(&chrom.name, 0, chrom.length)?; loop 
        invariant
            
            bigbed.file() == f0, bigbed.table() == old(bigbed).table(),
            bigbed.queries() == old(bigbed).queries().push(chrom_query(chrom, None, None)),
            values.pos() <= values.all().len(),
            
            chrom_answer::<BedEntry>(f0, chrom, None, None) == Ok::<Seq<Result<BedEntry, BBIReadError>>, BBIReadError>(values.all()),
            
            buf.text() == Seq::<Piece>::empty(),
            
            writer.lines() == l0 + lines_of(chrom.name, values.all(), values.pos() as int),
            
            items_ok(values.all(), values.pos() as int),
        decreases
            
            values.all().len() - values.pos(),
{ let raw_val = match values.next() { Some(x__) => x__, None => break };
            let val = raw_val?;
            if !val.rest.is_empty() {
                uwrite!(
                    &mut buf,
                    "{}\t{}\t{}\t{}\n",
                    chrom.name,
                    val.start,
                    val.end,
                    val.rest
                )
                .unwrap();
            } else {
                uwrite!(&mut buf, "{}\t{}\t{}\n", chrom.name, val.start, val.end).unwrap();
            };
            writer.write(buf.as_bytes())?;
            buf.clear();
        }
        Ok(())
    }

// ---------------- bed: the producer ----------------
#[verifier::loop_isolation(false)]
fn bed_produce(bigbed: &Reader<BedEntry>, inmemory: bool, handle_snd: &mut Tx<Task<BedEntry>>, buf_snd: &mut Tx<StageBuf>) -> (r: Result<(), BBIReadError>)
    ensures
        
        r is Ok ==> final(handle_snd).sent().len() == old(handle_snd).sent().len() + bigbed.table().len()
            && final(buf_snd).sent().len() == old(buf_snd).sent().len() + bigbed.table().len(),
        
        r is Ok ==> forall|k: int| 0 <= k < bigbed.table().len() ==> pair_ok(
            #[trigger] final(handle_snd).sent()[old(handle_snd).sent().len() + k], final(buf_snd).sent()[old(buf_snd).sent().len() + k],
            bigbed.file(), bigbed.table()[k]),
        
        old(handle_snd).sent() =~= final(handle_snd).sent().take(old(handle_snd).sent().len() as int)
            && old(buf_snd).sent() =~= final(buf_snd).sent().take(old(buf_snd).sent().len() as int),
{
    let ghost tb = bigbed.table();
    let ghost n = tb.len() as int;
    let ghost h0 = handle_snd.sent();
    let ghost b0 = buf_snd.sent();
    let ghost mut k: int = 0;

    let mut remaining_chroms = bigbed.chroms().to_vec();
    vec_reverse(&mut remaining_chroms);
        loop 
        invariant
            
            0 <= k <= n, remaining_chroms@.len() + k == n,
            forall|j: int| 0 <= j < remaining_chroms@.len() ==> #[trigger] remaining_chroms@[j] == tb[n - 1 - j],
            
            handle_snd.sent().len() == h0.len() + k, buf_snd.sent().len() == b0.len() + k,
            h0 =~= handle_snd.sent().take(h0.len() as int), b0 =~= buf_snd.sent().take(b0.len() as int),
            forall|i: int| 0 <= i < k ==> pair_ok(#[trigger] handle_snd.sent()[h0.len() + i], buf_snd.sent()[b0.len() + i], bigbed.file(), tb[i]),
        decreases
            
            remaining_chroms@.len(),
{
            let Some(chrom) = remaining_chroms.pop() else {
                return Ok::<_, BBIReadError>(());
            };

            let bigbed = bigbed.reopen()?;
            let (buf, file): (StageBuf, StageW) =
                TempFileBuffer::new(inmemory);
            let writer = buffered(file);
            let handle = spawn_file_future(bigbed, chrom, writer);

            handle_snd.send(handle).unwrap();
            buf_snd.send(buf).unwrap();
        
            proof { k = k + 1; }
}
}

// ---------------- bed: joining the tasks ----------------
#[verifier::loop_isolation(false)]
fn bed_join_tasks(handle_rcv: &mut Mailbox<Task<BedEntry>>) -> (r: Result<(), BBIReadError>)
    ensures
        
        r is Ok <==> tasks_ok(old(handle_rcv).queue(), old(handle_rcv).queue().len() as int),
{
    let ghost q = handle_rcv.queue();
    let ghost mut k: int = 0;

        loop 
        invariant
            
            0 <= k <= q.len(), handle_rcv.queue() =~= q.skip(k), tasks_ok(q, k),
        decreases
            
            handle_rcv.queue().len(),
{
            let next = handle_rcv.next();
            let Some(handle) = next else {
                return Ok::<_, BBIReadError>(());
            };
            handle.unwrap()?;
        
            proof { k = k + 1; }
}
}

// ---------------- bed: the hand-over loop ----------------
#[verifier::loop_isolation(false)]
fn bed_hand_over(buf_rcv: &mut Mailbox<StageBuf>, data_handle: DataHandle, mut out_file: Out) -> (r: Result<Out, BBIReadError>)
    requires
        
        forall|k: int| 0 <= k < old(buf_rcv).queue().len() ==> (#[trigger] old(buf_rcv).queue()[k]).dest() is None,
    ensures
        
        r matches Ok(o) ==> o.lines() == out_file.lines() + cat_staged(old(buf_rcv).queue(), old(buf_rcv).queue().len() as int),
        
        r is Ok <==> data_handle.result() is Ok,
{
    let ghost q = buf_rcv.queue();
    let ghost l0 = out_file.lines();
    let ghost mut k: int = 0;

        loop 
        invariant
            
            0 <= k <= q.len(), buf_rcv.queue() =~= q.skip(k),
            out_file.lines() == l0 + cat_staged(q, k),
        decreases
            
            buf_rcv.queue().len(),
{
            let next = buf_rcv.next();
            let Some(mut buf) = next else {
                data_handle.unwrap()?;
                return Ok::<_, BBIReadError>(out_file);
            };

            buf.switch(out_file);
            while !buf.is_real_file_ready() 
            invariant
                
                0 <= k < q.len(), buf.staged() == q[k].staged(), buf.dest() matches Some(d) && d.lines() == l0 + cat_staged(q, k),
                buf_rcv.queue() =~= q.skip(k + 1),
            decreases
                
                buf.fuel(),
{
                yield_now(&mut buf);
            }
            out_file = buf.await_real_file();
        
            proof { k = k + 1; }
}
}

// =====================================================================================
// (b) overlap-bed mode: write_bg_from_bed / write_bed_from_bed.  DESCRIPTIVE (`doc/` labels): C16 only speaks of the
//     -chrom/-start/-end restriction; this states what the code does with a region file.
// =====================================================================================
/// one line of the region (BED) file
#[verifier::external_body] pub struct LineText { _p: u8 }
/// the k-th field of `line.trim().splitn(5, '\t')` (k = 0, 1, 2: chrom, start, end) -- uninterpreted
pub uninterp spec fn field(l: LineText, k: int) -> Name;
/// the number `s.parse::<u32>()` yields -- uninterpreted
pub uninterp spec fn num_of(s: Name) -> u32;
/// `StreamingLineReader<BufReader<File>>` over the region file: a finite list of lines (or read errors)
#[verifier::external_body] pub struct Regions { _p: u8 }
impl Regions {
    pub uninterp spec fn all(&self) -> Seq<Result<LineText, IoErr>>;
    pub uninterp spec fn pos(&self) -> nat;
    #[verifier::external_body]
    pub fn read(&mut self) -> (r: Option<Result<LineText, IoErr>>)
        ensures
            final(self).all() == old(self).all(),
            old(self).pos() < old(self).all().len() ==> r == Some(old(self).all()[old(self).pos() as int]) && final(self).pos() == old(self).pos() + 1,
            old(self).pos() >= old(self).all().len() ==> r is None && final(self).pos() == old(self).pos(),
    { unimplemented!() }
}
/// `line.trim().splitn(5, '\t')` and what the code does with it.  A missing field / a field that is not a u32
/// makes `expect` / `unwrap` PANIC (no precondition here: a panic returns nothing) -- see NOTES "observations".
#[verifier::external_body] pub struct Split { _p: u8 }
#[verifier::external_body] pub struct OptField { _p: u8 }
#[verifier::external_body] #[verifier::accept_recursive_types(T)] pub struct ParseRes<T> { _p: core::marker::PhantomData<T> }
impl LineText {
    #[verifier::external_body] pub fn trim(&self) -> (r: &LineText) ensures *r == *self, { unimplemented!() }
    #[verifier::external_body] pub fn trim_end(&self) -> (r: &LineText) ensures *r == *self, { unimplemented!() }
    #[verifier::external_body]
    pub fn splitn(&self, n: usize, sep: char) -> (r: Split) ensures r.line() == *self, r.k() == 0, r.n() == n, r.sep() == sep, { unimplemented!() }
    #[verifier::external_body] pub fn split(&self, sep: char) -> Split { unimplemented!() }
    #[verifier::external_body] pub fn split_whitespace(&self) -> Split { unimplemented!() }
}
impl Split {
    pub uninterp spec fn line(&self) -> LineText;
    pub uninterp spec fn k(&self) -> int;
    pub uninterp spec fn n(&self) -> int;
    pub uninterp spec fn sep(&self) -> char;
    #[verifier::external_body]
    pub fn next(&mut self) -> (r: OptField)
        ensures r.line() == old(self).line(), r.k() == old(self).k(), r.real() == (old(self).k() + 1 < old(self).n() && old(self).sep() == '\t'),
            final(self).line() == old(self).line(), final(self).k() == old(self).k() + 1, final(self).n() == old(self).n(), final(self).sep() == old(self).sep(),
    { unimplemented!() }
}
impl OptField {
    pub uninterp spec fn line(&self) -> LineText;
    pub uninterp spec fn k(&self) -> int;
    /// a whole tab-separated field (not the unsplit remainder that `splitn` returns last)
    pub uninterp spec fn real(&self) -> bool;
    #[verifier::external_body]
    pub fn expect(self, msg: &str) -> (r: &'static Name) ensures self.real() ==> *r == field(self.line(), self.k()), { unimplemented!() }
    #[verifier::external_body]
    pub fn unwrap(self) -> (r: &'static Name) ensures self.real() ==> *r == field(self.line(), self.k()), { unimplemented!() }
}
impl Name {
    #[verifier::external_body] pub fn parse<T>(&self) -> (r: ParseRes<T>) ensures r.src() == *self, { unimplemented!() }
}
impl<T> ParseRes<T> { pub uninterp spec fn src(&self) -> Name; }
impl ParseRes<u32> {
    #[verifier::external_body] pub fn unwrap(self) -> (r: u32) ensures r == num_of(self.src()), { unimplemented!() }
    #[verifier::external_body] pub fn unwrap_or(self, d: u32) -> u32 { unimplemented!() }
}
/// the region a line names and the ONE query made for it
pub open spec fn region_query(l: LineText) -> Query { Query { name: field(l, 0), start: num_of(field(l, 1)), end: num_of(field(l, 2)) } }
pub open spec fn region_answer<T>(f: FileId, l: LineText) -> Result<Seq<Result<T, BBIReadError>>, BBIReadError> {
    answer::<T>(f, field(l, 0), num_of(field(l, 1)), num_of(field(l, 2)))
}
/// how a region's records are shown
pub trait RegionRec: Sized {
    spec fn shown(name: Name, x: Self, s: u32, e: u32) -> Piece;
}
/// bigWig: as is (the range query already clips values to the region: unit bw_values)
impl RegionRec for Value {
    // (`&&name`: the code passes a `&str` variable, the macro adds one more `&`; Verus keeps reference decorations
    //  in the type argument of piece_spec, so the tuple type is spelled exactly as the code produces it)
    open spec fn shown(name: Name, x: Value, s: u32, e: u32) -> Piece { piece_spec(fmt4(), (&&name, &x.start, &x.end, &ryu_text(x.value))) }
}
/// bigBed: start / end CLIPPED to the region (`val.start.max(start)`, `val.end.min(end)`), rest untouched
pub open spec fn clip(x: BedEntry, s: u32, e: u32) -> BedEntry {
    BedEntry { start: if x.start >= s { x.start } else { s }, end: if x.end <= e { x.end } else { e }, rest: x.rest }
}
impl RegionRec for BedEntry {
    open spec fn shown(name: Name, x: BedEntry, s: u32, e: u32) -> Piece {
        let c = clip(x, s, e);
        if rest_empty(c.rest) { piece_spec(fmt3(), (&&name, &c.start, &c.end)) }
        else { piece_spec(fmt4(), (&&name, &c.start, &c.end, &c.rest)) }
    }
}
pub open spec fn region_lines<T: RegionRec>(l: LineText, items: Seq<Result<T, BBIReadError>>, n: int) -> Seq<Piece>
    decreases n
{
    if n <= 0 { Seq::empty() } else { region_lines(l, items, n - 1).push(T::shown(field(l, 0), items[n - 1]->Ok_0, num_of(field(l, 1)), num_of(field(l, 2)))) }
}
pub open spec fn region_text<T: RegionRec>(f: FileId, l: LineText) -> Seq<Piece> {
    region_lines(l, region_answer::<T>(f, l)->Ok_0, region_answer::<T>(f, l)->Ok_0.len() as int)
}
pub open spec fn region_clean<T>(f: FileId, l: Result<LineText, IoErr>) -> bool {
    l matches Ok(t) && (region_answer::<T>(f, t) matches Ok(items) && items_ok(items, items.len() as int))
}
/// text / queries of the first n region lines, in region-file order (a region repeated or overlapping another one
/// repeats its records: nothing is merged or de-duplicated)
pub open spec fn regions_text<T: RegionRec>(f: FileId, ls: Seq<Result<LineText, IoErr>>, n: int) -> Seq<Piece>
    decreases n
{ if n <= 0 { Seq::empty() } else { regions_text::<T>(f, ls, n - 1) + region_text::<T>(f, ls[n - 1]->Ok_0) } }
pub open spec fn regions_queries(ls: Seq<Result<LineText, IoErr>>, n: int) -> Seq<Query>
    decreases n
{ if n <= 0 { Seq::empty() } else { regions_queries(ls, n - 1).push(region_query(ls[n - 1]->Ok_0)) } }
pub open spec fn regions_clean<T>(f: FileId, ls: Seq<Result<LineText, IoErr>>, n: int) -> bool {
    forall|k: int| 0 <= k < n ==> region_clean::<T>(f, #[trigger] ls[k])
}

#[verifier::loop_isolation(false)]
pub fn write_bg_from_bed(
    bigbed: &mut Reader<Value>,
    out_file: &mut Out,
    bed: Regions,
) -> (r: Result<(), BBIReadError>)
    requires
        bed.pos() == 0,
    ensures
        
        r is Ok ==> final(bigbed).queries() == old(bigbed).queries() + regions_queries(bed.all(), bed.all().len() as int),
        
        r is Ok ==> final(out_file).lines() == old(out_file).lines() + regions_text::<Value>(old(bigbed).file(), bed.all(), bed.all().len() as int),
        
        r is Ok ==> regions_clean::<Value>(old(bigbed).file(), bed.all(), bed.all().len() as int),
{
    let ghost f0 = bigbed.file();
    let ghost q0 = bigbed.queries();
    let ghost l0 = out_file.lines();
    let ghost ls = bed.all();

    let mut bedstream = bed;
    let mut writer = io::BufWriter::new(out_file);

    loop 
        invariant
            
            bigbed.file() == f0, bedstream.all() == ls, bedstream.pos() <= ls.len(),
            
            bigbed.queries() == q0 + regions_queries(ls, bedstream.pos() as int),
            
            writer.lines() == l0 + regions_text::<Value>(f0, ls, bedstream.pos() as int),
            
            regions_clean::<Value>(f0, ls, bedstream.pos() as int),
            
        decreases
            
            ls.len() - bedstream.pos(),
{ let line = match bedstream.read() { Some(x__) => x__, None => break };
        let line = line?;
        let mut split = line.trim().splitn(5, '\t');
        let chrom = split.next().expect("Missing chrom");
        let start = split.next().expect("Missing start").parse::<u32>().unwrap();
        let end = split.next().expect("Missing end").parse::<u32>().unwrap();
        let mut values = bigbed.get_interval(chrom, start, end)?; loop 
            invariant
                
                bigbed.file() == f0, bedstream.all() == ls, 0 < bedstream.pos() <= ls.len(),
                ls[bedstream.pos() - 1] == Ok::<LineText, IoErr>(line),
                *chrom == field(line, 0), start == num_of(field(line, 1)), end == num_of(field(line, 2)),
                values.pos() <= values.all().len(),
                bigbed.queries() == q0 + regions_queries(ls, bedstream.pos() - 1).push(region_query(line)),
                regions_clean::<Value>(f0, ls, bedstream.pos() - 1),
                
                region_answer::<Value>(f0, line) == Ok::<Seq<Result<Value, BBIReadError>>, BBIReadError>(values.all()),
                
                writer.lines() == l0 + regions_text::<Value>(f0, ls, bedstream.pos() - 1) + region_lines(line, values.all(), values.pos() as int),
                items_ok(values.all(), values.pos() as int),
                
            decreases
                
                values.all().len() - values.pos(),
{ let raw_val = match values.next() { Some(x__) => x__, None => break };
            let val = raw_val?;
            let mut buf = Buf::with_capacity(50); // Estimate

            // Using ryu for f32 to string conversion has a ~15% speedup
            uwrite!(
                &mut buf,
                "{}\t{}\t{}\t{}\n",
                chrom,
                val.start,
                val.end,
                ryu::Buffer::new().format(val.value)
            )
            .unwrap();
            writer.write(buf.as_bytes())?;
        }
    }

    Ok(())
}

#[verifier::loop_isolation(false)]
pub fn write_bed_from_bed(
    bigbed: &mut Reader<BedEntry>,
    out_file: &mut Out,
    bed: Regions,
) -> (r: Result<(), BBIReadError>)
    requires
        bed.pos() == 0,
    ensures
        
        r is Ok ==> final(bigbed).queries() == old(bigbed).queries() + regions_queries(bed.all(), bed.all().len() as int),
        
        r is Ok ==> final(out_file).lines() == old(out_file).lines() + regions_text::<BedEntry>(old(bigbed).file(), bed.all(), bed.all().len() as int),
        
        r is Ok ==> regions_clean::<BedEntry>(old(bigbed).file(), bed.all(), bed.all().len() as int),
{
    let ghost f0 = bigbed.file();
    let ghost q0 = bigbed.queries();
    let ghost l0 = out_file.lines();
    let ghost ls = bed.all();

    let mut bedstream = bed;
    let mut writer = io::BufWriter::new(out_file);

    let mut buf = Buf::with_capacity(50); // Estimate
    loop 
        invariant
            
            bigbed.file() == f0, bedstream.all() == ls, bedstream.pos() <= ls.len(),
            
            bigbed.queries() == q0 + regions_queries(ls, bedstream.pos() as int),
            
            writer.lines() == l0 + regions_text::<BedEntry>(f0, ls, bedstream.pos() as int),
            
            regions_clean::<BedEntry>(f0, ls, bedstream.pos() as int),
            buf.text() == Seq::<Piece>::empty(),
        decreases
            
            ls.len() - bedstream.pos(),
{ let line = match bedstream.read() { Some(x__) => x__, None => break };
        let line = line?;
        let mut split = line.trim().splitn(5, '\t');
        let chrom = split.next().expect("Missing chrom");
        let start = split.next().expect("Missing start").parse::<u32>().unwrap();
        let end = split.next().expect("Missing end").parse::<u32>().unwrap();
        let mut values = bigbed.get_interval(chrom, start, end)?; loop 
            invariant
                
                bigbed.file() == f0, bedstream.all() == ls, 0 < bedstream.pos() <= ls.len(),
                ls[bedstream.pos() - 1] == Ok::<LineText, IoErr>(line),
                *chrom == field(line, 0), start == num_of(field(line, 1)), end == num_of(field(line, 2)),
                values.pos() <= values.all().len(),
                bigbed.queries() == q0 + regions_queries(ls, bedstream.pos() - 1).push(region_query(line)),
                regions_clean::<BedEntry>(f0, ls, bedstream.pos() - 1),
                
                region_answer::<BedEntry>(f0, line) == Ok::<Seq<Result<BedEntry, BBIReadError>>, BBIReadError>(values.all()),
                
                writer.lines() == l0 + regions_text::<BedEntry>(f0, ls, bedstream.pos() - 1) + region_lines(line, values.all(), values.pos() as int),
                items_ok(values.all(), values.pos() as int),
                buf.text() == Seq::<Piece>::empty(),
            decreases
                
                values.all().len() - values.pos(),
{ let raw_val = match values.next() { Some(x__) => x__, None => break };
            let mut val = raw_val?;
            val.start = val.start.max(start);
            val.end = val.end.min(end);
            if !val.rest.is_empty() {
                uwrite!(
                    &mut buf,
                    "{}\t{}\t{}\t{}\n",
                    chrom,
                    val.start,
                    val.end,
                    val.rest
                )
                .unwrap();
            } else {
                uwrite!(&mut buf, "{}\t{}\t{}\n", chrom, val.start, val.end).unwrap();
            };
            writer.write(buf.as_bytes())?;
            buf.clear();
        }
    }

    Ok(())
}
} // verus!
fn main() {}

