// Cross-chromosome accumulation of the total summary: the `advance` closures of
// bbiwrite::write_vals and bbiwrite::write_vals_no_zoom (R10 closure lift).
// C06: "... across all chromosomes": the file summary is the field-wise combination of the
// per-chromosome summaries: counts add exactly, sums add, min/max combine; the first
// chromosome initialises.
use vstd::prelude::*;
use vstd::std_specs::ops::*;
use vstd::std_specs::convert::FromSpec;
verus! {
// ---- shared float prelude -------------------------------------------------
// Rust float operators are total; Verus models their results as uninterpreted
// functions (`add_spec`, `mul_spec`, `from_spec`, ...).  The axioms below say
// only (1) the operators have no precondition and (2) the exec operator returns
// the value of its spec function (determinism).  Nothing numerical is assumed.
mod float_ax {
use vstd::prelude::*;
use vstd::std_specs::ops::*;
use vstd::std_specs::convert::FromSpec;
pub broadcast axiom fn ax_f64_mul_total(a: f64, b: f64) ensures #[trigger] a.mul_req(b);
pub broadcast axiom fn ax_f64_add_total(a: f64, b: f64) ensures #[trigger] a.add_req(b);
pub broadcast axiom fn ax_f64_sub_total(a: f64, b: f64) ensures #[trigger] a.sub_req(b);
pub broadcast axiom fn ax_f64_div_total(a: f64, b: f64) ensures #[trigger] a.div_req(b);
pub broadcast axiom fn ax_f32_add_total(a: f32, b: f32) ensures #[trigger] a.add_req(b);
pub broadcast axiom fn ax_f32_sub_total(a: f32, b: f32) ensures #[trigger] a.sub_req(b);
pub broadcast group float_total { ax_f64_mul_total, ax_f64_add_total, ax_f64_sub_total, ax_f64_div_total, ax_f32_add_total, ax_f32_sub_total }
pub axiom fn float_det()
    ensures
        <f64 as AddSpec<f64>>::obeys_add_spec(), <f64 as MulSpec<f64>>::obeys_mul_spec(),
        <f64 as SubSpec<f64>>::obeys_sub_spec(), <f64 as DivSpec<f64>>::obeys_div_spec(),
        <f32 as AddSpec<f32>>::obeys_add_spec(), <f32 as SubSpec<f32>>::obeys_sub_spec(),
        <f64 as FromSpec<u32>>::obeys_from_spec(), <f64 as FromSpec<f32>>::obeys_from_spec();
}
broadcast use float_ax::float_total;
pub uninterp spec fn fmin(a: f64, b: f64) -> f64;
pub uninterp spec fn fmax(a: f64, b: f64) -> f64;
pub assume_specification [f64::min] (a: f64, b: f64) -> (r: f64) ensures r == fmin(a, b);
pub assume_specification [f64::max] (a: f64, b: f64) -> (r: f64) ensures r == fmax(a, b);
// float constants (rule R12c): Verus has no model of core::f64 associated consts; each is an
// uninterpreted spec constant, distinct names so that swapping two of them is visible.
pub uninterp spec fn spec_f64_max() -> f64;
pub uninterp spec fn spec_f64_min() -> f64;
pub uninterp spec fn spec_f64_min_positive() -> f64;
pub uninterp spec fn spec_f64_nan() -> f64;
pub uninterp spec fn spec_f64_infinity() -> f64;
pub uninterp spec fn spec_f64_neg_infinity() -> f64;
pub uninterp spec fn spec_f64_epsilon() -> f64;
#[verifier::external_body] pub fn fconst_f64_max() -> (r: f64) ensures r == spec_f64_max() { f64::MAX }
#[verifier::external_body] pub fn fconst_f64_min() -> (r: f64) ensures r == spec_f64_min() { f64::MIN }
#[verifier::external_body] pub fn fconst_f64_min_positive() -> (r: f64) ensures r == spec_f64_min_positive() { f64::MIN_POSITIVE }
#[verifier::external_body] pub fn fconst_f64_nan() -> (r: f64) ensures r == spec_f64_nan() { f64::NAN }
#[verifier::external_body] pub fn fconst_f64_infinity() -> (r: f64) ensures r == spec_f64_infinity() { f64::INFINITY }
#[verifier::external_body] pub fn fconst_f64_neg_infinity() -> (r: f64) ensures r == spec_f64_neg_infinity() { f64::NEG_INFINITY }
#[verifier::external_body] pub fn fconst_f64_epsilon() -> (r: f64) ensures r == spec_f64_epsilon() { f64::EPSILON }

#[derive(Copy, Clone)]
pub struct Summary {
    pub total_items: u64,
    pub bases_covered: u64,
    pub min_val: f64,
    pub max_val: f64,
    pub sum: f64,
    pub sum_squares: f64,
}

pub struct BBIDataProcessoredData(pub Summary);

/// the combination the property asks for (floats shape-pinned over uninterpreted operators)
pub open spec fn combine(a: Summary, b: Summary) -> Summary {
    Summary {
        total_items: (a.total_items + b.total_items) as u64,
        bases_covered: (a.bases_covered + b.bases_covered) as u64,
        // C06: statistics over the covered bases: a chromosome that covers nothing has no min/max to contribute,
        // and the first chromosome that covers something provides them unchanged
        min_val: if b.bases_covered > 0 { if a.bases_covered == 0 { b.min_val } else { fmin(a.min_val, b.min_val) } } else { a.min_val },
        max_val: if b.bases_covered > 0 { if a.bases_covered == 0 { b.max_val } else { fmax(a.max_val, b.max_val) } } else { a.max_val },
        sum: a.sum.add_spec(b.sum),
        sum_squares: a.sum_squares.add_spec(b.sum_squares),
    }
}

fn advance_write_vals(summary: &mut Option<Summary>, data: BBIDataProcessoredData)
    requires
        
        old(summary).is_some() ==> old(summary).unwrap().total_items + data.0.total_items <= u64::MAX
            && old(summary).unwrap().bases_covered + data.0.bases_covered <= u64::MAX,
    ensures
        
        old(summary).is_none() ==> *final(summary) == Some(data.0),
        
        old(summary).is_some() ==> *final(summary) == Some(combine(old(summary).unwrap(), data.0)),
{
    proof { float_ax::float_det(); }

                let BBIDataProcessoredData(chrom_summary) = data;
        match summary {
            None => { *summary = Some(chrom_summary); }
            Some(summary) => {
                summary.total_items = summary.total_items + (chrom_summary.total_items);
                // A chromosome without any covered base has no minimum or maximum to contribute
                if chrom_summary.bases_covered > 0 {
                    if summary.bases_covered == 0 {
                        summary.min_val = chrom_summary.min_val;
                        summary.max_val = chrom_summary.max_val;
                    } else {
                        summary.min_val = summary.min_val.min(chrom_summary.min_val);
                        summary.max_val = summary.max_val.max(chrom_summary.max_val);
                    }
                }
                summary.bases_covered = summary.bases_covered + (chrom_summary.bases_covered);
                summary.sum = summary.sum + (chrom_summary.sum);
                summary.sum_squares = summary.sum_squares + (chrom_summary.sum_squares);
            }
        }
    }

fn advance_write_vals_no_zoom(summary: &mut Option<Summary>, chrom_summary: Summary)
    requires
        
        old(summary).is_some() ==> old(summary).unwrap().total_items + chrom_summary.total_items <= u64::MAX
            && old(summary).unwrap().bases_covered + chrom_summary.bases_covered <= u64::MAX,
    ensures
        
        old(summary).is_none() ==> *final(summary) == Some(chrom_summary),
        
        old(summary).is_some() ==> *final(summary) == Some(combine(old(summary).unwrap(), chrom_summary)),
{
    proof { float_ax::float_det(); }

        
        match summary {
            None => { *summary = Some(chrom_summary); }
            Some(summary) => {
                summary.total_items = summary.total_items + (chrom_summary.total_items);
                // A chromosome without any covered base has no minimum or maximum to contribute
                if chrom_summary.bases_covered > 0 {
                    if summary.bases_covered == 0 {
                        summary.min_val = chrom_summary.min_val;
                        summary.max_val = chrom_summary.max_val;
                    } else {
                        summary.min_val = summary.min_val.min(chrom_summary.min_val);
                        summary.max_val = summary.max_val.max(chrom_summary.max_val);
                    }
                }
                summary.bases_covered = summary.bases_covered + (chrom_summary.bases_covered);
                summary.sum = summary.sum + (chrom_summary.sum);
                summary.sum_squares = summary.sum_squares + (chrom_summary.sum_squares);
            }
        }

        
    }

} // verus!
fn main() {}

