// bbiwrite::write_blank_headers + write_info: the fixed 64-byte BBI header, the zoom directory,
// the total-summary block, the data count and the trailing magic, written by seeking around in
// the output file.  C09: the bytes an independent decoder finds at the published offsets are the
// published encodings of the values passed in, and nothing else in the file changes.  C06: the
// summary block / item count a reader reports are the `summary` / `data_count` handed to write_info.
use vstd::prelude::*;
use vstd::std_specs::ops::*;
use vstd::std_specs::convert::FromSpec;
verus! {
// ---- shared float prelude -------------------------------------------------
// Rust float operators are total; Verus models their results as uninterpreted
// functions (`add_spec`, `mul_spec`, `from_spec`, ...).  The axioms below say
// only (1) the operators have no precondition and (2) the exec operator returns
// the value of its spec function (determinism).  Nothing numerical is assumed.
mod float_ax {
use vstd::prelude::*;
use vstd::std_specs::ops::*;
use vstd::std_specs::convert::FromSpec;
pub broadcast axiom fn ax_f64_mul_total(a: f64, b: f64) ensures #[trigger] a.mul_req(b);
pub broadcast axiom fn ax_f64_add_total(a: f64, b: f64) ensures #[trigger] a.add_req(b);
pub broadcast axiom fn ax_f64_sub_total(a: f64, b: f64) ensures #[trigger] a.sub_req(b);
pub broadcast axiom fn ax_f64_div_total(a: f64, b: f64) ensures #[trigger] a.div_req(b);
pub broadcast axiom fn ax_f32_add_total(a: f32, b: f32) ensures #[trigger] a.add_req(b);
pub broadcast axiom fn ax_f32_sub_total(a: f32, b: f32) ensures #[trigger] a.sub_req(b);
pub broadcast group float_total { ax_f64_mul_total, ax_f64_add_total, ax_f64_sub_total, ax_f64_div_total, ax_f32_add_total, ax_f32_sub_total }
pub axiom fn float_det()
    ensures
        <f64 as AddSpec<f64>>::obeys_add_spec(), <f64 as MulSpec<f64>>::obeys_mul_spec(),
        <f64 as SubSpec<f64>>::obeys_sub_spec(), <f64 as DivSpec<f64>>::obeys_div_spec(),
        <f32 as AddSpec<f32>>::obeys_add_spec(), <f32 as SubSpec<f32>>::obeys_sub_spec(),
        <f64 as FromSpec<u32>>::obeys_from_spec(), <f64 as FromSpec<f32>>::obeys_from_spec();
}
broadcast use float_ax::float_total;
pub uninterp spec fn fmin(a: f64, b: f64) -> f64;
pub uninterp spec fn fmax(a: f64, b: f64) -> f64;
pub assume_specification [f64::min] (a: f64, b: f64) -> (r: f64) ensures r == fmin(a, b);
pub assume_specification [f64::max] (a: f64, b: f64) -> (r: f64) ensures r == fmax(a, b);
// float constants (rule R12c): Verus has no model of core::f64 associated consts; each is an
// uninterpreted spec constant, distinct names so that swapping two of them is visible.
pub uninterp spec fn spec_f64_max() -> f64;
pub uninterp spec fn spec_f64_min() -> f64;
pub uninterp spec fn spec_f64_min_positive() -> f64;
pub uninterp spec fn spec_f64_nan() -> f64;
pub uninterp spec fn spec_f64_infinity() -> f64;
pub uninterp spec fn spec_f64_neg_infinity() -> f64;
pub uninterp spec fn spec_f64_epsilon() -> f64;
#[verifier::external_body] pub fn fconst_f64_max() -> (r: f64) ensures r == spec_f64_max() { f64::MAX }
#[verifier::external_body] pub fn fconst_f64_min() -> (r: f64) ensures r == spec_f64_min() { f64::MIN }
#[verifier::external_body] pub fn fconst_f64_min_positive() -> (r: f64) ensures r == spec_f64_min_positive() { f64::MIN_POSITIVE }
#[verifier::external_body] pub fn fconst_f64_nan() -> (r: f64) ensures r == spec_f64_nan() { f64::NAN }
#[verifier::external_body] pub fn fconst_f64_infinity() -> (r: f64) ensures r == spec_f64_infinity() { f64::INFINITY }
#[verifier::external_body] pub fn fconst_f64_neg_infinity() -> (r: f64) ensures r == spec_f64_neg_infinity() { f64::NEG_INFINITY }
#[verifier::external_body] pub fn fconst_f64_epsilon() -> (r: f64) ensures r == spec_f64_epsilon() { f64::EPSILON }
// ---- shared byte-level prelude ---------------------------------------------
// Format vocabulary written from the published BBI layout (Kent et al. 2010),
// as arithmetic on byte values - not as calls to from_le_bytes/to_le_bytes.
/// k-th base-256 digit of x (opaque: the div/mod arithmetic is only unfolded inside the codec lemmas)
#[verifier::opaque]
pub open spec fn byte_of(x: int, k: int) -> u8 {
    if k == 0 { (x % 256) as u8 } else if k == 1 { (x / 256 % 256) as u8 } else if k == 2 { (x / 65536 % 256) as u8 }
    else if k == 3 { (x / 16777216 % 256) as u8 } else if k == 4 { (x / 4294967296 % 256) as u8 }
    else if k == 5 { (x / 1099511627776 % 256) as u8 } else if k == 6 { (x / 281474976710656 % 256) as u8 }
    else { (x / 72057594037927936 % 256) as u8 }
}
pub open spec fn le16(x: u16) -> Seq<u8> { seq![byte_of(x as int, 0), byte_of(x as int, 1)] }
pub open spec fn le32(x: u32) -> Seq<u8> { seq![byte_of(x as int, 0), byte_of(x as int, 1), byte_of(x as int, 2), byte_of(x as int, 3)] }
pub open spec fn le64(x: u64) -> Seq<u8> {
    seq![byte_of(x as int, 0), byte_of(x as int, 1), byte_of(x as int, 2), byte_of(x as int, 3),
         byte_of(x as int, 4), byte_of(x as int, 5), byte_of(x as int, 6), byte_of(x as int, 7)]
}
pub open spec fn be16(x: u16) -> Seq<u8> { seq![byte_of(x as int, 1), byte_of(x as int, 0)] }
pub open spec fn be32(x: u32) -> Seq<u8> { seq![byte_of(x as int, 3), byte_of(x as int, 2), byte_of(x as int, 1), byte_of(x as int, 0)] }
pub open spec fn be64(x: u64) -> Seq<u8> {
    seq![byte_of(x as int, 7), byte_of(x as int, 6), byte_of(x as int, 5), byte_of(x as int, 4),
         byte_of(x as int, 3), byte_of(x as int, 2), byte_of(x as int, 1), byte_of(x as int, 0)]
}
// decode: value of the little-/big-endian integer stored at s[i..]
pub open spec fn dle16(s: Seq<u8>, i: int) -> int { s[i] as int + 256 * (s[i + 1] as int) }
pub open spec fn dle32(s: Seq<u8>, i: int) -> int {
    s[i] as int + 256 * (s[i + 1] as int) + 65536 * (s[i + 2] as int) + 16777216 * (s[i + 3] as int)
}
pub open spec fn dle64(s: Seq<u8>, i: int) -> int { dle32(s, i) + 4294967296 * dle32(s, i + 4) }
pub open spec fn dbe16(s: Seq<u8>, i: int) -> int { 256 * (s[i] as int) + s[i + 1] as int }
pub open spec fn dbe32(s: Seq<u8>, i: int) -> int {
    16777216 * (s[i] as int) + 65536 * (s[i + 1] as int) + 256 * (s[i + 2] as int) + s[i + 3] as int
}
pub open spec fn dbe64(s: Seq<u8>, i: int) -> int { 4294967296 * dbe32(s, i) + dbe32(s, i + 4) }
/// integer at s[i..] in byte order `big`
pub open spec fn d16(big: bool, s: Seq<u8>, i: int) -> int { if big { dbe16(s, i) } else { dle16(s, i) } }
pub open spec fn d32(big: bool, s: Seq<u8>, i: int) -> int { if big { dbe32(s, i) } else { dle32(s, i) } }
pub open spec fn d64(big: bool, s: Seq<u8>, i: int) -> int { if big { dbe64(s, i) } else { dle64(s, i) } }
pub open spec fn e16(big: bool, x: u16) -> Seq<u8> { if big { be16(x) } else { le16(x) } }
pub open spec fn e32(big: bool, x: u32) -> Seq<u8> { if big { be32(x) } else { le32(x) } }
pub open spec fn e64(big: bool, x: u64) -> Seq<u8> { if big { be64(x) } else { le64(x) } }

// Floats on disk: IEEE bit patterns.  `to_bits`/`from_bits` are uninterpreted; the only
// assumed fact is that they are inverse (true of Rust's f32::to_bits/from_bits bit-for-bit).
pub uninterp spec fn f32_bits(x: f32) -> u32;
pub uninterp spec fn f32_of_bits(b: u32) -> f32;
pub uninterp spec fn f64_bits(x: f64) -> u64;
pub uninterp spec fn f64_of_bits(b: u64) -> f64;
pub broadcast axiom fn ax_f32_bits_inv(x: f32) ensures #[trigger] f32_of_bits(f32_bits(x)) == x;
pub broadcast axiom fn ax_f64_bits_inv(x: f64) ensures #[trigger] f64_of_bits(f64_bits(x)) == x;

#[verifier::external_body]
#[derive(Debug)]
pub struct IoError { _p: u8 }

#[verifier::external_body]
pub fn vpanic() -> !
    requires false
{ panic!() }

// ---- Sink: append-only in-memory writer (`Vec<u8>` used through byteorder::WriteBytesExt / io::Write).
// Assumed contracts: NativeEndian == LittleEndian (x86-64 / aarch64 targets); writes to a Vec never
// fail, the io::Result plumbing is kept so that `?` in the code typechecks.
pub struct Sink { pub bytes: Vec<u8> }
impl Sink {
    pub open spec fn view(&self) -> Seq<u8> { self.bytes@ }
    #[verifier::external_body]
    pub fn with_capacity(n: usize) -> (r: Sink) ensures r@.len() == 0 { Sink { bytes: Vec::with_capacity(n) } }
    pub fn len(&self) -> (r: usize) ensures r == self@.len() { self.bytes.len() }
    #[verifier::external_body]
    pub fn put_u8(&mut self, v: u8) -> (r: Result<(), IoError>)
        ensures r.is_ok(), final(self)@ == old(self)@.push(v) { unimplemented!() }
    #[verifier::external_body]
    pub fn put_u16(&mut self, v: u16) -> (r: Result<(), IoError>)
        ensures r.is_ok(), final(self)@ == old(self)@ + le16(v) { unimplemented!() }
    #[verifier::external_body]
    pub fn put_u32(&mut self, v: u32) -> (r: Result<(), IoError>)
        ensures r.is_ok(), final(self)@ == old(self)@ + le32(v) { unimplemented!() }
    #[verifier::external_body]
    pub fn put_u64(&mut self, v: u64) -> (r: Result<(), IoError>)
        ensures r.is_ok(), final(self)@ == old(self)@ + le64(v) { unimplemented!() }
    #[verifier::external_body]
    pub fn put_f32(&mut self, v: f32) -> (r: Result<(), IoError>)
        ensures r.is_ok(), final(self)@ == old(self)@ + le32(f32_bits(v)) { unimplemented!() }
    #[verifier::external_body]
    pub fn put_f64(&mut self, v: f64) -> (r: Result<(), IoError>)
        ensures r.is_ok(), final(self)@ == old(self)@ + le64(f64_bits(v)) { unimplemented!() }
    #[verifier::external_body]
    pub fn put_bytes(&mut self, b: &[u8]) -> (r: Result<(), IoError>)
        ensures r.is_ok(), final(self)@ == old(self)@ + b@ { unimplemented!() }
}

// ---- FSink: seekable destination (`BufWriter<W: Write + Seek>`).  Ghost image `data()` and
// position `pos()`.  A put at `pos` overwrites/extends the image; any operation may fail, in
// which case nothing is promised about the image (callers must propagate the error).
#[verifier::external_body]
pub struct FSink { _p: u8 }
pub open spec fn splice(d: Seq<u8>, at: int, b: Seq<u8>) -> Seq<u8>
    recommends 0 <= at <= d.len()
{
    if at + b.len() >= d.len() { d.subrange(0, at) + b } else { d.subrange(0, at) + b + d.subrange(at + b.len(), d.len() as int) }
}
impl FSink {
    pub uninterp spec fn data(&self) -> Seq<u8>;
    pub uninterp spec fn pos(&self) -> int;
    pub open spec fn wf(&self) -> bool { 0 <= self.pos() <= self.data().len() }
    #[verifier::external_body]
    pub fn tell(&mut self) -> (r: Result<u64, IoError>)
        requires old(self).wf(), old(self).pos() <= u64::MAX
        ensures final(self).data() == old(self).data(), final(self).pos() == old(self).pos(), r.is_ok() ==> r.unwrap() == old(self).pos()
    { unimplemented!() }
    #[verifier::external_body]
    pub fn seek_start(&mut self, p: u64) -> (r: Result<u64, IoError>)
        requires old(self).wf(), p <= old(self).data().len()
        ensures final(self).data() == old(self).data(), r.is_ok() ==> (final(self).pos() == p && r.unwrap() == p), final(self).wf()
    { unimplemented!() }
    #[verifier::external_body]
    pub fn seek_end0(&mut self) -> (r: Result<u64, IoError>)
        requires old(self).wf()
        ensures final(self).data() == old(self).data(), r.is_ok() ==> (final(self).pos() == old(self).data().len() && r.unwrap() == old(self).data().len()), final(self).wf()
    { unimplemented!() }
    #[verifier::external_body]
    pub fn put(&mut self, b: &[u8]) -> (r: Result<(), IoError>)
        requires old(self).wf()
        ensures r.is_ok() ==> (final(self).data() == splice(old(self).data(), old(self).pos(), b@) && final(self).pos() == old(self).pos() + b@.len()), final(self).wf()
    { unimplemented!() }
    #[verifier::external_body]
    pub fn put_u8(&mut self, v: u8) -> (r: Result<(), IoError>)
        requires old(self).wf()
        ensures r.is_ok() ==> (final(self).data() == splice(old(self).data(), old(self).pos(), seq![v]) && final(self).pos() == old(self).pos() + 1), final(self).wf()
    { unimplemented!() }
    #[verifier::external_body]
    pub fn put_u16(&mut self, v: u16) -> (r: Result<(), IoError>)
        requires old(self).wf()
        ensures r.is_ok() ==> (final(self).data() == splice(old(self).data(), old(self).pos(), le16(v)) && final(self).pos() == old(self).pos() + 2), final(self).wf()
    { unimplemented!() }
    #[verifier::external_body]
    pub fn put_u32(&mut self, v: u32) -> (r: Result<(), IoError>)
        requires old(self).wf()
        ensures r.is_ok() ==> (final(self).data() == splice(old(self).data(), old(self).pos(), le32(v)) && final(self).pos() == old(self).pos() + 4), final(self).wf()
    { unimplemented!() }
    #[verifier::external_body]
    pub fn put_u64(&mut self, v: u64) -> (r: Result<(), IoError>)
        requires old(self).wf()
        ensures r.is_ok() ==> (final(self).data() == splice(old(self).data(), old(self).pos(), le64(v)) && final(self).pos() == old(self).pos() + 8), final(self).wf()
    { unimplemented!() }
    #[verifier::external_body]
    pub fn put_f64(&mut self, v: f64) -> (r: Result<(), IoError>)
        requires old(self).wf()
        ensures r.is_ok() ==> (final(self).data() == splice(old(self).data(), old(self).pos(), le64(f64_bits(v))) && final(self).pos() == old(self).pos() + 8), final(self).wf()
    { unimplemented!() }
}

// ---- Cur: consuming reader over a byte buffer (`bytes::BytesMut` used through `bytes::Buf`).
// `rem()` = bytes not yet consumed.  The `requires` are the real panics of the `bytes` crate
// (reading past the end / split_to past the end).
#[verifier::external_body]
pub struct Cur { _p: u8 }
impl Cur {
    pub uninterp spec fn rem(&self) -> Seq<u8>;
    #[verifier::external_body]
    pub fn from_vec(v: &Vec<u8>) -> (r: Cur) ensures r.rem() == v@ { unimplemented!() }
    #[verifier::external_body]
    pub fn len(&self) -> (r: usize) ensures r == self.rem().len() { unimplemented!() }
    #[verifier::external_body]
    pub fn split_to(&mut self, n: usize) -> (r: Cur)
        requires n <= old(self).rem().len()
        ensures r.rem() == old(self).rem().subrange(0, n as int), final(self).rem() == old(self).rem().subrange(n as int, old(self).rem().len() as int)
    { unimplemented!() }
    #[verifier::external_body]
    pub fn advance(&mut self, n: usize)
        requires n <= old(self).rem().len()
        ensures final(self).rem() == old(self).rem().subrange(n as int, old(self).rem().len() as int)
    { unimplemented!() }
    #[verifier::external_body]
    pub fn get_u8(&mut self) -> (r: u8)
        requires old(self).rem().len() >= 1
        ensures r == old(self).rem()[0], final(self).rem() == old(self).rem().subrange(1, old(self).rem().len() as int)
    { unimplemented!() }
    #[verifier::external_body]
    pub fn get_u16(&mut self) -> (r: u16)
        requires old(self).rem().len() >= 2
        ensures r == dbe16(old(self).rem(), 0), final(self).rem() == old(self).rem().subrange(2, old(self).rem().len() as int)
    { unimplemented!() }
    #[verifier::external_body]
    pub fn get_u16_le(&mut self) -> (r: u16)
        requires old(self).rem().len() >= 2
        ensures r == dle16(old(self).rem(), 0), final(self).rem() == old(self).rem().subrange(2, old(self).rem().len() as int)
    { unimplemented!() }
    #[verifier::external_body]
    pub fn get_u32(&mut self) -> (r: u32)
        requires old(self).rem().len() >= 4
        ensures r == dbe32(old(self).rem(), 0), final(self).rem() == old(self).rem().subrange(4, old(self).rem().len() as int)
    { unimplemented!() }
    #[verifier::external_body]
    pub fn get_u32_le(&mut self) -> (r: u32)
        requires old(self).rem().len() >= 4
        ensures r == dle32(old(self).rem(), 0), final(self).rem() == old(self).rem().subrange(4, old(self).rem().len() as int)
    { unimplemented!() }
    #[verifier::external_body]
    pub fn get_u64(&mut self) -> (r: u64)
        requires old(self).rem().len() >= 8
        ensures r == dbe64(old(self).rem(), 0), final(self).rem() == old(self).rem().subrange(8, old(self).rem().len() as int)
    { unimplemented!() }
    #[verifier::external_body]
    pub fn get_u64_le(&mut self) -> (r: u64)
        requires old(self).rem().len() >= 8
        ensures r == dle64(old(self).rem(), 0), final(self).rem() == old(self).rem().subrange(8, old(self).rem().len() as int)
    { unimplemented!() }
    #[verifier::external_body]
    pub fn get_f32(&mut self) -> (r: f32)
        requires old(self).rem().len() >= 4
        ensures r == f32_of_bits(dbe32(old(self).rem(), 0) as u32), final(self).rem() == old(self).rem().subrange(4, old(self).rem().len() as int)
    { unimplemented!() }
    #[verifier::external_body]
    pub fn get_f32_le(&mut self) -> (r: f32)
        requires old(self).rem().len() >= 4
        ensures r == f32_of_bits(dle32(old(self).rem(), 0) as u32), final(self).rem() == old(self).rem().subrange(4, old(self).rem().len() as int)
    { unimplemented!() }
}
// `uN::from_{le,be}_bytes([..])` (rule R4) with arithmetic contracts
#[verifier::external_body]
pub fn u32_from_le(b: [u8; 4]) -> (r: u32) ensures r == dle32(b@, 0) { u32::from_le_bytes(b) }
#[verifier::external_body]
pub fn u32_from_be(b: [u8; 4]) -> (r: u32) ensures r == dbe32(b@, 0) { u32::from_be_bytes(b) }
#[verifier::external_body]
pub fn u64_from_le(b: [u8; 8]) -> (r: u64) ensures r == dle64(b@, 0) { u64::from_le_bytes(b) }
#[verifier::external_body]
pub fn u64_from_be(b: [u8; 8]) -> (r: u64) ensures r == dbe64(b@, 0) { u64::from_be_bytes(b) }
#[verifier::external_body]
pub fn f32_from_le(b: [u8; 4]) -> (r: f32) ensures r == f32_of_bits(dle32(b@, 0) as u32) { f32::from_le_bytes(b) }
#[verifier::external_body]
pub fn f32_from_be(b: [u8; 4]) -> (r: f32) ensures r == f32_of_bits(dbe32(b@, 0) as u32) { f32::from_be_bytes(b) }

#[derive(Copy, Clone)]
pub struct Summary {
    pub total_items: u64,
    pub bases_covered: u64,
    pub min_val: f64,
    pub max_val: f64,
    pub sum: f64,
    pub sum_squares: f64,
}
#[derive(Copy, Clone)]
pub struct ZoomHeader {
    pub reduction_level: u32,
    pub data_offset: u64,
    pub index_offset: u64,
    pub index_tree_offset: Option<u64>,
}
const MAX_ZOOM_LEVELS: usize = 10;

// ---- format spec (from the published BBI layout, Kent et al. 2010, Supplementary tables; ----
// ---- shares no code with the reader; left-associated in file order)                      ----
/// common header, 64 bytes: magic u32, version u16 (= 4), zoomLevels u16, chromosomeTreeOffset u64,
/// fullDataOffset u64, fullIndexOffset u64, fieldCount u16, definedFieldCount u16, autoSqlOffset u64,
/// totalSummaryOffset u64, uncompressBufSize u32, reserved u64 (= 0)
pub open spec fn fmt_header(magic: u32, zoom_levels: u16, chrom_tree_off: u64, full_data_off: u64, full_index_off: u64,
    field_count: u16, defined_field_count: u16, auto_sql_off: u64, total_summary_off: u64, uncompress_buf_size: u32) -> Seq<u8>
{
    le32(magic) + le16(4u16) + le16(zoom_levels) + le64(chrom_tree_off) + le64(full_data_off) + le64(full_index_off)
    + le16(field_count) + le16(defined_field_count) + le64(auto_sql_off) + le64(total_summary_off)
    + le32(uncompress_buf_size) + le64(0u64)
}
/// one zoom-directory entry, 24 bytes: reductionLevel u32, reserved u32 (= 0), dataOffset u64, indexOffset u64
pub open spec fn put_zoom_entry(b: Seq<u8>, z: ZoomHeader) -> Seq<u8> {
    b + le32(z.reduction_level) + le32(0u32) + le64(z.data_offset) + le64(z.index_offset)
}
/// `b` followed by the directory entries, in order
pub open spec fn zoom_dir_from(b: Seq<u8>, e: Seq<ZoomHeader>) -> Seq<u8>
    decreases e.len()
{
    if e.len() == 0 { b } else { put_zoom_entry(zoom_dir_from(b, e.drop_last()), e.last()) }
}
pub open spec fn fmt_zoom_dir(e: Seq<ZoomHeader>) -> Seq<u8> { zoom_dir_from(Seq::empty(), e) }
/// total summary, 40 bytes: basesCovered u64, minVal f64, maxVal f64, sumData f64, sumSquares f64
pub open spec fn fmt_summary(s: Summary) -> Seq<u8> {
    le64(s.bases_covered) + le64(f64_bits(s.min_val)) + le64(f64_bits(s.max_val)) + le64(f64_bits(s.sum)) + le64(f64_bits(s.sum_squares))
}
pub open spec fn zeros(n: int) -> Seq<u8> { Seq::new(n as nat, |i: int| 0u8) }

/// the file image write_info leaves: header + directory at 0, summary at tso, data count at fdo,
/// magic at the (old) end
pub open spec fn info_image(d0: Seq<u8>, hz: Seq<u8>, tso: int, s: Seq<u8>, fdo: int, c: Seq<u8>, m: Seq<u8>) -> Seq<u8> {
    let d3 = splice(splice(splice(d0, 0, hz), tso, s), fdo, c);
    splice(d3, d3.len() as int, m)
}

// ---- lemmas ----
/// `img` is `splice` under another name, opaque inside write_info: the proof there is pure rewriting
/// (splice(d, at, x) -> img(d, at, x); splice(img(d, at, x), at + |x|, y) -> img(d, at, x + y)), so a wrong
/// write order fails by syntactic mismatch instead of sending Z3 into sequence arithmetic.
#[verifier::opaque]
pub open spec fn img(d: Seq<u8>, at: int, x: Seq<u8>) -> Seq<u8> { splice(d, at, x) }
pub broadcast proof fn lemma_img_base(d: Seq<u8>, at: int, x: Seq<u8>)
    ensures #[trigger] splice(d, at, x) == img(d, at, x),
{ reveal(img); }
/// two consecutive sequential writes are one write of the concatenation
pub broadcast proof fn lemma_img_append(d: Seq<u8>, at: int, x: Seq<u8>, p: int, y: Seq<u8>)
    requires 0 <= at <= d.len(), p == at + x.len(),
    ensures #[trigger] splice(img(d, at, x), p, y) == img(d, at, x + y),
{
    reveal(img);
    assert(splice(splice(d, at, x), p, y) =~= splice(d, at, x + y));
}
pub broadcast proof fn lemma_img_len(d: Seq<u8>, at: int, x: Seq<u8>)
    requires 0 <= at <= d.len(),
    ensures (#[trigger] img(d, at, x)).len() == (if at + x.len() >= d.len() { at + x.len() } else { d.len() as int }),
{ reveal(img); }
pub proof fn lemma_img_is_image(d0: Seq<u8>, hz: Seq<u8>, tso: int, s: Seq<u8>, fdo: int, c: Seq<u8>, m: Seq<u8>)
    ensures ({ let d3 = img(img(img(d0, 0, hz), tso, s), fdo, c); img(d3, d3.len() as int, m) == info_image(d0, hz, tso, s, fdo, c, m) }),
{ reveal(img); }
pub broadcast group img_rules { lemma_img_base, lemma_img_append, lemma_img_len }
pub proof fn lemma_dir_len(b: Seq<u8>, e: Seq<ZoomHeader>)
    ensures zoom_dir_from(b, e).len() == b.len() + 24 * e.len(),
    decreases e.len()
{
    if e.len() > 0 { lemma_dir_len(b, e.drop_last()); }
}
pub proof fn lemma_dir_from(b: Seq<u8>, e: Seq<ZoomHeader>)
    ensures zoom_dir_from(b, e) == b + fmt_zoom_dir(e),
    decreases e.len()
{
    if e.len() > 0 {
        lemma_dir_from(b, e.drop_last());
        let z = e.last();
        let t = fmt_zoom_dir(e.drop_last());
        assert(put_zoom_entry(b + t, z) =~= b + put_zoom_entry(t, z));
    } else {
        assert(b =~= b + Seq::<u8>::empty());
    }
}
pub proof fn lemma_header_len(magic: u32, zoom_levels: u16, a: u64, b: u64, c: u64, fc: u16, dfc: u16, d: u64, e: u64, u: u32)
    ensures fmt_header(magic, zoom_levels, a, b, c, fc, dfc, d, e, u).len() == 64
{}
/// what an independent decoder sees in the final image: each region holds its encoding, nothing else moved
pub proof fn lemma_info_image(d0: Seq<u8>, h: Seq<u8>, z: Seq<u8>, tso: int, s: Seq<u8>, fdo: int, c: Seq<u8>, m: Seq<u8>)
    requires
        h.len() + z.len() <= tso, h.len() + z.len() <= fdo,
        tso + s.len() <= d0.len(), fdo + c.len() <= d0.len(),
        tso + s.len() <= fdo || fdo + c.len() <= tso,
    ensures ({
        let f = info_image(d0, h + z, tso, s, fdo, c, m);
        &&& f.len() == d0.len() + m.len()
        &&& f.subrange(0, h.len() as int) == h
        &&& f.subrange(h.len() as int, (h.len() + z.len()) as int) == z
        &&& f.subrange(tso, tso + s.len()) == s
        &&& f.subrange(fdo, fdo + c.len()) == c
        &&& f.subrange(d0.len() as int, (d0.len() + m.len()) as int) == m
        &&& forall|i: int| 0 <= i < d0.len() && !(i < h.len() + z.len()) && !(tso <= i < tso + s.len()) && !(fdo <= i < fdo + c.len())
                ==> #[trigger] f[i] == d0[i]
    }),
{
    let f = info_image(d0, h + z, tso, s, fdo, c, m);
    assert(f.subrange(0, h.len() as int) =~= h);
    assert(f.subrange(h.len() as int, (h.len() + z.len()) as int) =~= z);
    assert(f.subrange(tso, tso + s.len()) =~= s);
    assert(f.subrange(fdo, fdo + c.len()) =~= c);
    assert(f.subrange(d0.len() as int, (d0.len() + m.len()) as int) =~= m);
}

pub fn write_blank_headers(file: &mut FSink,
) -> (r: Result<(), IoError>)
    requires
        
        old(file).wf(),
    ensures
        
        r is Ok ==> final(file).data() == splice(old(file).data(), 0, zeros(64) + zeros(240)),
        
        r is Ok ==> final(file).data().len() >= 304 && forall|i: int| 0 <= i < 304 ==> #[trigger] final(file).data()[i] == 0u8,
        
        r is Ok ==> final(file).pos() == 304,
        
        r is Ok ==> (final(file).data().len() == (if old(file).data().len() >= 304 { old(file).data().len() } else { 304 })
            && forall|i: int| 304 <= i < old(file).data().len() ==> #[trigger] final(file).data()[i] == old(file).data()[i]),
        final(file).wf(),
{
    let ghost d0 = file.data();

    file.seek_start((0))?;
    // Common header
    file.put(&[0; 64])?;
    // Zoom levels
    file.put(&[0; MAX_ZOOM_LEVELS * 24])?;


    proof {
        
        assert(file.data() =~= splice(d0, 0, zeros(64) + zeros(240)));
    }
    Ok(())
}

pub fn write_info(file: &mut FSink,
    magic: u32,
    num_zooms: u16,
    chrom_index_start: u64,
    full_data_offset: u64,
    index_start: u64,
    field_count: u16,
    defined_field_count: u16,
    auto_sql_offset: u64,
    total_summary_offset: u64,
    uncompress_buf_size: usize,
    zoom_entries: Vec<ZoomHeader>,
    summary: Summary,
    data_count: u64,
) -> (r: Result<(), IoError>)
    requires
        
        old(file).wf(),
        
        old(file).data().len() >= 304,
        
        num_zooms == zoom_entries@.len(), zoom_entries@.len() <= 10,
        
        304 <= total_summary_offset, total_summary_offset + 40 <= old(file).data().len(),
        304 <= full_data_offset, full_data_offset + 8 <= old(file).data().len(),
        total_summary_offset + 40 <= full_data_offset || full_data_offset + 8 <= total_summary_offset,
        
        uncompress_buf_size <= u32::MAX,
    ensures
        
        r is Ok ==> final(file).data() == info_image(old(file).data(),
            fmt_header(magic, num_zooms, chrom_index_start, full_data_offset, index_start, field_count, defined_field_count,
                auto_sql_offset, total_summary_offset, uncompress_buf_size as u32) + fmt_zoom_dir(zoom_entries@),
            total_summary_offset as int, fmt_summary(summary), full_data_offset as int, le64(data_count), le32(magic)),
        
        r is Ok ==> final(file).data().subrange(0, 64) == fmt_header(magic, num_zooms, chrom_index_start, full_data_offset, index_start,
            field_count, defined_field_count, auto_sql_offset, total_summary_offset, uncompress_buf_size as u32),
        
        r is Ok ==> final(file).data().subrange(64, 64 + 24 * (zoom_entries@.len() as int)) == fmt_zoom_dir(zoom_entries@),
        
        r is Ok ==> final(file).data().subrange(total_summary_offset as int, total_summary_offset + 40) == fmt_summary(summary),
        
        r is Ok ==> final(file).data().subrange(full_data_offset as int, full_data_offset + 8) == le64(data_count),
        
        r is Ok ==> final(file).data().len() == old(file).data().len() + 4
            && final(file).data().subrange(old(file).data().len() as int, old(file).data().len() as int + 4) == le32(magic),
        
        r is Ok ==> forall|i: int| 0 <= i < old(file).data().len() && !(i < 64 + 24 * zoom_entries@.len())
            && !(total_summary_offset <= i < total_summary_offset + 40) && !(full_data_offset <= i < full_data_offset + 8)
            ==> #[trigger] final(file).data()[i] == old(file).data()[i],
        
        r is Ok ==> final(file).pos() == final(file).data().len(),
        final(file).wf(),
{
    let ghost d0 = file.data();
    let ghost hdr = fmt_header(magic, num_zooms, chrom_index_start, full_data_offset, index_start, field_count, defined_field_count,
        auto_sql_offset, total_summary_offset, uncompress_buf_size as u32);
    proof {
        broadcast use img_rules;
        lemma_header_len(magic, num_zooms, chrom_index_start, full_data_offset, index_start, field_count, defined_field_count,
            auto_sql_offset, total_summary_offset, uncompress_buf_size as u32);
    }

    file.seek_start((0))?;
    file.put_u32(magic)?;
    file.put_u16(4)?;
    file.put_u16(num_zooms)?;
    file.put_u64(chrom_index_start)?;
    file.put_u64(full_data_offset)?;
    file.put_u64(index_start)?;
    file.put_u16(field_count)?; // fieldCount
    file.put_u16(defined_field_count)?; // definedFieldCount
    file.put_u64(auto_sql_offset)?; // autoSQLOffset
    file.put_u64(total_summary_offset)?;
    file.put_u32(uncompress_buf_size as u32)?;
    file.put_u64(0)?; // reserved


    proof {
        
        assert(file.data() == img(d0, 0, hdr));
    }
    let pos__ = file.tell()?; assert(pos__ == 64);

    proof {
        assert(file.data() == img(d0, 0, zoom_dir_from(hdr, zoom_entries@.subrange(0, 0))));
    }

    for i__1 in 0..zoom_entries.len() 
        invariant
            
            file.wf(), d0 == old(file).data(), d0.len() >= 304, zoom_entries@.len() <= 10, hdr.len() == 64,
            
            file.pos() == 64 + 24 * i__1,
            
            file.data() == img(d0, 0, zoom_dir_from(hdr, zoom_entries@.subrange(0, i__1 as int))),
{ let zoom_entry = &zoom_entries[i__1];

        proof {
            broadcast use img_rules;
                assert(zoom_entries@.subrange(0, i__1 + 1).drop_last() =~= zoom_entries@.subrange(0, i__1 as int));
            lemma_dir_len(hdr, zoom_entries@.subrange(0, i__1 as int));
        }
        let ghost prev = zoom_dir_from(hdr, zoom_entries@.subrange(0, i__1 as int));
        file.put_u32(zoom_entry.reduction_level)?;
        file.put_u32(0)?;
        file.put_u64(zoom_entry.data_offset)?;
        file.put_u64(zoom_entry.index_offset)?;
    }

    file.seek_start((total_summary_offset))?;

    let ghost hz = zoom_dir_from(hdr, zoom_entries@);
    proof {
        assert(zoom_entries@.subrange(0, zoom_entries@.len() as int) =~= zoom_entries@);
        lemma_dir_len(hdr, zoom_entries@);
        assert(file.data() == img(d0, 0, hz));
    }
    file.put_u64(summary.bases_covered)?;
    file.put_f64(summary.min_val)?;
    file.put_f64(summary.max_val)?;
    file.put_f64(summary.sum)?;
    file.put_f64(summary.sum_squares)?;

    file.seek_start((full_data_offset))?;

    proof {
        
        assert(file.data() == img(img(d0, 0, hz), total_summary_offset as int, fmt_summary(summary)));
    }
    file.put_u64(data_count)?;

    file.seek_end0()?;
    file.put_u32(magic)?;


    proof {
        lemma_dir_from(hdr, zoom_entries@);
        
        let ghost d3 = img(img(img(d0, 0, hz), total_summary_offset as int, fmt_summary(summary)), full_data_offset as int, le64(data_count));
        assert(file.data() == img(d3, d3.len() as int, le32(magic)));
        lemma_img_is_image(d0, hz, total_summary_offset as int, fmt_summary(summary), full_data_offset as int, le64(data_count), le32(magic));
        assert(file.data() == info_image(d0, hdr + fmt_zoom_dir(zoom_entries@), total_summary_offset as int, fmt_summary(summary),
            full_data_offset as int, le64(data_count), le32(magic)));
        lemma_dir_len(Seq::empty(), zoom_entries@);
        lemma_info_image(d0, hdr, fmt_zoom_dir(zoom_entries@), total_summary_offset as int, fmt_summary(summary),
            full_data_offset as int, le64(data_count), le32(magic));
    }
    Ok(())
}

} // verus!
fn main() {}

