// autoSql schema parser (bed::autosql::parse): grammar-level functions over a trusted tokenizer.
// Property clause (C19): "The schema parser terminates on every string, returning declarations
// or an error, without panicking, hanging or growing without bound."
//   terminates / no hang : every loop carries `decreases len - pos`; the call graph
//                          parse_autosql -> parse_declaration_list -> parse_declaration ->
//                          parse_field_list -> FieldType::try_parse -> DeclareName::parse is acyclic
//   no panic             : R6 turns any assert!/panic!/unreachable! into an obligation (none today);
//                          no unwrap/indexing occurs in these functions
//   no unbounded growth  : every Vec returned is no longer than the number of input bytes consumed
use vstd::prelude::*;
verus! {

/// R6 target: panic!/unreachable!/unimplemented!/todo! become a call that must be proved unreachable.
/// (No such macro occurs in the extracted functions today: R6 reports 0 hits.)
#[verifier::external_body]
pub fn vpanic() -> !
    requires false
{ panic!() }

// ---------------------------------------------------------------------------------------------
// Tok: opaque stand-in for the `&'a str` tokens handed out by the tokenizer.  String *content* is
// outside Verus; the only facts kept are "is it empty" and "which literal of the grammar is it".
// ---------------------------------------------------------------------------------------------
#[allow(non_camel_case_types)]
#[derive(Clone, Copy, PartialEq, Eq)]
pub enum Lit {
    Empty, LParen, RParen, LBracket, RBracket, Semi, Comma,
    W_primary, W_index, W_unique, W_auto,
    W_int, W_uint, W_short, W_ushort, W_byte, W_ubyte, W_float, W_double, W_char, W_string,
    W_lstring, W_bigint, W_enum, W_set, W_simple, W_object, W_table,
    Other,
}

#[derive(Clone, Copy)]
pub struct Tok { pub id: usize }

impl Tok {
    /// text == ""
    pub uninterp spec fn empty(&self) -> bool;
    /// the literal of the grammar the text is equal to (Other if none)
    pub uninterp spec fn lit(&self) -> Lit;
    /// str::to_lowercase
    pub uninterp spec fn lower(&self) -> Tok;

    /// `s.is_empty()`
    #[verifier::external_body]
    fn is_empty(&self) -> (b: bool)
        ensures b == self.empty(),
    { unimplemented!() }
    /// `s == "<literal>"`; the literal "" is the only empty one
    #[verifier::external_body]
    fn eq_lit(&self, l: Lit) -> (b: bool)
        ensures b == (self.lit() == l), (self.lit() == Lit::Empty) == self.empty(),
    { unimplemented!() }
    /// comparison with a string literal the grammar units do not name: unknown result (so that an edit that
    /// introduces one is judged by the contracts instead of being rejected by the front end)
    #[verifier::external_body]
    fn eq_other(&self) -> (b: bool) { unimplemented!() }
    /// `s != "<literal>"`
    #[verifier::external_body]
    fn ne_lit(&self, l: Lit) -> (b: bool)
        ensures b == (self.lit() != l), (self.lit() == Lit::Empty) == self.empty(),
    { unimplemented!() }
    /// scrutinee of `match s { "<literal>" => .., _ => .. }`
    #[verifier::external_body]
    fn kind(&self) -> (k: Lit)
        ensures k == self.lit(), (k == Lit::Empty) == self.empty(),
    { unimplemented!() }
    /// `s.to_string()`: the owned copy is the same text
    #[verifier::external_body]
    fn to_string(&self) -> (r: Tok)
        ensures r == *self,
    { unimplemented!() }
    /// `s.to_lowercase()`: "" is the only string whose lower-casing is ""
    #[verifier::external_body]
    fn to_lowercase(&self) -> (r: Tok)
        ensures r == self.lower(), r.empty() == self.empty(),
    { unimplemented!() }
    /// `s.as_bytes()[i]` (not used by the code today; present so that an edit validating names byte-wise is judged):
    /// indexing PANICS past the end -- in particular `[0]` on the empty token the parser returns at end of input
    #[verifier::external_body]
    fn byte_at(&self, i: usize) -> (r: u8)
        requires !self.empty(), i == 0,
    { unimplemented!() }
    /// `s.bytes().any(..)` / `s.bytes().all(..)` with some predicate: nothing known about the answer
    #[verifier::external_body]
    fn any_char_unknown(&self) -> (b: bool) { unimplemented!() }
    /// the characters of the text, in order (`s.chars()`)
    pub uninterp spec fn text(&self) -> Seq<char>;
    /// `s.chars().collect::<Vec<char>>()`: the characters; "" is the text without characters
    #[verifier::external_body]
    fn char_vec(&self) -> (v: Vec<char>)
        ensures v@ == self.text(), self.empty() == (self.text().len() == 0),
    { unimplemented!() }
}

// ---------------------------------------------------------------------------------------------
// `s.chars()` idioms (real contracts, VERIFIED over `char_vec`) and the `char` classification methods
// (uninterpreted predicates + the facts of Unicode that matter here, see `char_facts`).
// ---------------------------------------------------------------------------------------------
/// `s.chars().next()`: the first character, None for ""
fn chars_first(t: &Tok) -> (r: Option<char>)
    ensures
        t.empty() == (t.text().len() == 0),
        t.text().len() == 0 ==> r is None,
        t.text().len() > 0 ==> r == Some(t.text()[0]),
{
    let v = t.char_vec();
    if v.len() > 0 { Some(v[0]) } else { None }
}
/// `s.chars().any(f)`: true iff f answers true for some character (std stops at the first such character; f has no
/// effects here, so the calls it does not make cannot be told apart)
fn chars_any<F: Fn(char) -> bool>(t: &Tok, f: F) -> (r: bool)
    requires forall|c: char| f.requires((c,)),
    ensures
        t.empty() == (t.text().len() == 0),
        r ==> exists|i: int| 0 <= i < t.text().len() && f.ensures((#[trigger] t.text()[i],), true),
        !r ==> forall|i: int| 0 <= i < t.text().len() ==> f.ensures((#[trigger] t.text()[i],), false),
{
    let v = t.char_vec();
    let mut k: usize = 0;
    while k < v.len()
        invariant k <= v.len(), v@ == t.text(), t.empty() == (t.text().len() == 0),
            forall|i: int| 0 <= i < k ==> f.ensures((#[trigger] t.text()[i],), false),
            forall|c: char| f.requires((c,)),
        decreases v.len() - k,
    {
        if f(v[k]) { return true; }
        k = k + 1;
    }
    false
}
/// `s.chars().all(f)`: true iff f answers true for every character (true for "")
fn chars_all<F: Fn(char) -> bool>(t: &Tok, f: F) -> (r: bool)
    requires forall|c: char| f.requires((c,)),
    ensures
        t.empty() == (t.text().len() == 0),
        r ==> forall|i: int| 0 <= i < t.text().len() ==> f.ensures((#[trigger] t.text()[i],), true),
        !r ==> exists|i: int| 0 <= i < t.text().len() && f.ensures((#[trigger] t.text()[i],), false),
{
    let v = t.char_vec();
    let mut k: usize = 0;
    while k < v.len()
        invariant k <= v.len(), v@ == t.text(), t.empty() == (t.text().len() == 0),
            forall|i: int| 0 <= i < k ==> f.ensures((#[trigger] t.text()[i],), true),
            forall|c: char| f.requires((c,)),
        decreases v.len() - k,
    {
        if !f(v[k]) { return false; }
        k = k + 1;
    }
    true
}
/// Unicode `Alphabetic` / numeric (Nd, Nl, No) properties: uninterpreted
pub uninterp spec fn is_alpha(c: char) -> bool;
pub uninterp spec fn is_numeric(c: char) -> bool;
pub open spec fn is_alnum(c: char) -> bool { is_alpha(c) || is_numeric(c) }
pub open spec fn ascii_letter(c: char) -> bool { ('a' <= c && c <= 'z') || ('A' <= c && c <= 'Z') }
pub open spec fn ascii_digit(c: char) -> bool { '0' <= c && c <= '9' }
pub open spec fn ascii_letter_r(c: &char) -> bool { ascii_letter(*c) }
pub open spec fn ascii_digit_r(c: &char) -> bool { ascii_digit(*c) }
pub open spec fn ascii_alnum_r(c: &char) -> bool { ascii_letter(*c) || ascii_digit(*c) }
#[verifier::when_used_as_spec(is_alpha)]
pub assume_specification [char::is_alphabetic] (c: char) -> (b: bool) ensures b == is_alpha(c);
#[verifier::when_used_as_spec(is_numeric)]
pub assume_specification [char::is_numeric] (c: char) -> (b: bool) ensures b == is_numeric(c);
/// std: `self.is_alphabetic() || self.is_numeric()`
#[verifier::when_used_as_spec(is_alnum)]
pub assume_specification [char::is_alphanumeric] (c: char) -> (b: bool) ensures b == is_alnum(c);
#[verifier::when_used_as_spec(ascii_digit_r)]
pub assume_specification [char::is_ascii_digit] (c: &char) -> (b: bool) ensures b == ascii_digit(*c);
#[verifier::when_used_as_spec(ascii_letter_r)]
pub assume_specification [char::is_ascii_alphabetic] (c: &char) -> (b: bool) ensures b == ascii_letter(*c);
#[verifier::when_used_as_spec(ascii_alnum_r)]
pub assume_specification [char::is_ascii_alphanumeric] (c: &char) -> (b: bool) ensures b == (ascii_letter(*c) || ascii_digit(*c));
/// the facts about the uninterpreted classes that matter (all true of Unicode): an ASCII letter is alphabetic (hence
/// alphanumeric) and not numeric; an ASCII digit is numeric (hence alphanumeric) and NOT alphabetic; the blank and the
/// underscore are neither
pub open spec fn char_facts() -> bool {
    &&& forall|c: char| ascii_letter(c) ==> #[trigger] is_alpha(c)
    &&& forall|c: char| ascii_letter(c) ==> !#[trigger] is_numeric(c)
    &&& forall|c: char| ascii_digit(c) ==> #[trigger] is_numeric(c)
    &&& forall|c: char| ascii_digit(c) ==> !#[trigger] is_alpha(c)
    &&& !is_alpha(' ') && !is_numeric(' ') && !is_alpha('_') && !is_numeric('_')
}
#[verifier::external_body]
pub proof fn char_class_facts() ensures char_facts() { }

/// the names the schema generator emits (unit asql_gen `extra_columns_named_standard_then_numbered`: `table bed`, the
/// standard BED names `name`, `thickStart`, .. then `field16`, `field17`, ..) and UCSC-style `name2`: an ASCII letter,
/// then ASCII letters and digits.  C19 "parses every schema the generator emits": `InvalidDeclareName` -- the one error
/// the parser has for a NAME -- is never reported for such a name, be it a table name, a type name or a field name.
/// (The underscore is left out: the declaration-name rule of /repo refuses it, and the generator never emits it.)
pub open spec fn generator_style_name(s: Seq<char>) -> bool {
    &&& s.len() > 0 && ascii_letter(s[0])
    &&& forall|i: int| 0 <= i < s.len() ==> ascii_letter(#[trigger] s[i]) || ascii_digit(s[i])
}

// ---------------------------------------------------------------------------------------------
// VParser: stand-in for parse::parser::Parser<'a> {data, start_cursor, end_cursor}.
//   pos() = start_cursor, end() = end_cursor (end of the last peeked token), len() = data.len().
// TRUSTED TOKENIZER CONTRACT (argued from the real code in NOTES.md; to be checked by the planned
// bounded Kani unit asql_tok):
//   * wf: 0 <= pos <= end <= len is preserved by every public method; len never changes
//   * pos never decreases
//   * peek_*: may skip whitespace (pos' >= pos); the token is data[pos'..end'], so it is
//     non-empty  <=>  end' > pos'
//   * take(): pos' = end' = old end; the token is empty <=> old pos == old end
//   * eat_X = peek_X; take  =>  a non-empty token strictly advances pos
//   * peek_word/eat_word/peek_one/eat_one return "" ONLY at end of input (pos' == len);
//     the quoted-string variants also return "" when the next character is not a quote.
// ---------------------------------------------------------------------------------------------
pub uninterp spec fn str_len(s: &str) -> int;

#[verifier::external_body]
pub struct VParser { _p: u8 }

impl VParser {
    pub uninterp spec fn pos(&self) -> int;
    pub uninterp spec fn end(&self) -> int;
    pub uninterp spec fn len(&self) -> int;
    pub open spec fn wf(&self) -> bool { 0 <= self.pos() <= self.end() <= self.len() }

    #[verifier::external_body]
    fn of(data: &str) -> (p: VParser)
        ensures p.wf(), p.pos() == 0, p.len() == str_len(data), str_len(data) >= 0,
    { unimplemented!() }

    #[verifier::external_body]
    fn take(&mut self) -> (t: Tok)
        requires old(self).wf(),
        ensures final(self).wf(), final(self).len() == old(self).len(),
            final(self).pos() == old(self).end(), final(self).end() == old(self).end(),
            t.empty() == (old(self).pos() == old(self).end()),
    { unimplemented!() }

    #[verifier::external_body]
    fn peek_word(&mut self) -> (t: Tok)
        requires old(self).wf(),
        ensures final(self).wf(), final(self).len() == old(self).len(),
            final(self).pos() >= old(self).pos(),
            t.empty() == (final(self).end() == final(self).pos()),
            t.empty() ==> final(self).pos() == final(self).len(),
    { unimplemented!() }

    #[verifier::external_body]
    fn eat_word(&mut self) -> (t: Tok)
        requires old(self).wf(),
        ensures final(self).wf(), final(self).len() == old(self).len(),
            final(self).pos() >= old(self).pos(), final(self).end() == final(self).pos(),
            !t.empty() ==> final(self).pos() > old(self).pos(),
            t.empty() ==> final(self).pos() == final(self).len(),
    { unimplemented!() }

    #[verifier::external_body]
    fn peek_one(&mut self) -> (t: Tok)
        requires old(self).wf(),
        ensures final(self).wf(), final(self).len() == old(self).len(),
            final(self).pos() >= old(self).pos(),
            t.empty() == (final(self).end() == final(self).pos()),
            t.empty() ==> final(self).pos() == final(self).len(),
    { unimplemented!() }

    #[verifier::external_body]
    fn eat_one(&mut self) -> (t: Tok)
        requires old(self).wf(),
        ensures final(self).wf(), final(self).len() == old(self).len(),
            final(self).pos() >= old(self).pos(), final(self).end() == final(self).pos(),
            !t.empty() ==> final(self).pos() > old(self).pos(),
            t.empty() ==> final(self).pos() == final(self).len(),
    { unimplemented!() }

    #[verifier::external_body]
    fn peek_quoted_string(&mut self) -> (t: Tok)
        requires old(self).wf(),
        ensures final(self).wf(), final(self).len() == old(self).len(),
            final(self).pos() >= old(self).pos(),
            t.empty() == (final(self).end() == final(self).pos()),
    { unimplemented!() }

    #[verifier::external_body]
    fn eat_quoted_string(&mut self) -> (t: Tok)
        requires old(self).wf(),
        ensures final(self).wf(), final(self).len() == old(self).len(),
            final(self).pos() >= old(self).pos(), final(self).end() == final(self).pos(),
            !t.empty() ==> final(self).pos() > old(self).pos(),
    { unimplemented!() }
}

// ---------------------------------------------------------------------------------------------
// Data types of bed::autosql::parse (extracted; String -> Tok; Debug derives dropped by R8).
// ---------------------------------------------------------------------------------------------
    pub enum ParseError {
        InvalidDeclareType(Tok),
        InvalidDeclareName(Tok),
        InvalidDeclareBrackets(Tok),
        InvalidFieldSizeClose(Tok),
        InvalidFieldCommentSeparater(Tok),
        InvalidFieldValuesBrackets(Tok),
        InvalidIndexSizeBrackets(Tok),
    }
    #[derive(Copy, Clone)]
    pub enum DeclarationType {
        Simple,
        Object,
        Table,
    }
    pub enum IndexType {
        Primary,
        Index(Option<Tok>),
        Unique,
    }
    pub struct DeclareName {
        pub name: Tok,
        pub index_type: Option<IndexType>,
        pub auto: bool,
    }
    pub struct Declaration {
        pub declaration_type: DeclarationType,
        pub name: DeclareName,
        pub comment: Tok,
        pub fields: Vec<Field>,
    }
    pub enum FieldType {
        Int,
        Uint,
        Short,
        Ushort,
        Byte,
        Ubyte,
        Float,
        Double,
        Char,
        String,
        Lstring,
        Bigint,
        Enum(Vec<Tok>),
        Set(Vec<Tok>),
        Declaration(DeclarationType, DeclareName),
    }
    pub struct Field {
        pub field_type: FieldType,
        pub field_size: Option<Tok>,
        pub name: Tok,
        pub index_type: Option<IndexType>,
        pub auto: bool,
        pub comment: Tok,
    }

/// number of symbolic values of an enum/set field type (0 for the others)
pub open spec fn n_values(ft: FieldType) -> int {
    match ft {
        FieldType::Enum(v) => v@.len() as int,
        FieldType::Set(v) => v@.len() as int,
        _ => 0,
    }
}

/// `u8::is_ascii_alphabetic` and friends: nothing known about the answer
#[verifier::external_body]
fn u8_class(b: u8) -> (r: bool) { unimplemented!() }

impl DeclareName {
fn parse(parser: &mut VParser) -> (r: Result<Self, ParseError>)
        requires
            
            old(parser).wf(),
        ensures
            
            final(parser).wf(), final(parser).len() == old(parser).len(),
            final(parser).pos() >= old(parser).pos(),
            
            r is Ok ==> final(parser).pos() > old(parser).pos(),
            
            r matches Err(ParseError::InvalidDeclareName(t)) ==> !generator_style_name(t.text()),
{
            proof { char_class_facts(); }

            let declare_name = parser.eat_word();
            if !chars_first(&declare_name).unwrap_or(' ').is_alphabetic()
                || chars_any(&declare_name, |c: char| -> (b__: bool) ensures b__ == (!c.is_alphanumeric()) { !c.is_alphanumeric() })
            {
                return Err(ParseError::InvalidDeclareName(declare_name.to_string()));
            }
            let declare_name = declare_name.to_string();

            let next_word = parser.peek_word();
            let index_type = match next_word.kind() {
                Lit::W_primary => {
                    parser.eat_word();
                    Some(IndexType::Primary)
                }
                Lit::W_index => {
                    parser.eat_word();

                    let next = parser.peek_one();
                    let size = if next.eq_lit(Lit::LBracket) {
                        parser.eat_one();
                        let size = parser.eat_word().to_string();
                        let close = parser.eat_one();
                        if close.ne_lit(Lit::RBracket) {
                            return Err(ParseError::InvalidIndexSizeBrackets(close.to_string()));
                        }
                        Some(size)
                    } else {
                        None
                    };
                    Some(IndexType::Index(size))
                }
                Lit::W_unique => {
                    parser.eat_word();
                    Some(IndexType::Unique)
                }
                Lit::W_auto => None,
                _ => None,
            };

            let next_word = parser.peek_word();
            let auto = if next_word.eq_lit(Lit::W_auto) {
                parser.eat_word();
                true
            } else {
                false
            };
            Ok(DeclareName {
                name: declare_name,
                index_type,
                auto,
            })
        }
}

impl FieldType {
fn try_parse(parser: &mut VParser) -> (r: Result<Option<Self>, ParseError>)
        requires
            
            old(parser).wf(),
        ensures
            
            final(parser).wf(), final(parser).len() == old(parser).len(),
            final(parser).pos() >= old(parser).pos(),
            
            (r is Ok && r->Ok_0 is Some) ==> final(parser).pos() > old(parser).pos(),
            
            (r is Ok && r->Ok_0 is Some) ==> n_values(r->Ok_0->Some_0) <= final(parser).pos() - old(parser).pos(),
            
            r matches Err(ParseError::InvalidDeclareName(t)) ==> !generator_style_name(t.text()),
{
            let field_type= parser.peek_word().to_lowercase();
            let field_type = match field_type.kind() {
                Lit::W_int => FieldType::Int,
                Lit::W_uint => FieldType::Uint,
                Lit::W_short => FieldType::Short,
                Lit::W_ushort => FieldType::Ushort,
                Lit::W_byte => FieldType::Byte,
                Lit::W_ubyte => FieldType::Ubyte,
                Lit::W_float => FieldType::Float,
                Lit::W_double => FieldType::Double,
                Lit::W_char => FieldType::Char,
                Lit::W_string => FieldType::String,
                Lit::W_lstring => FieldType::Lstring,
                Lit::W_bigint => FieldType::Bigint,
                Lit::W_enum => {
                    parser.take();
                    let open_bracket = parser.eat_one();
                    if open_bracket.ne_lit(Lit::LParen) {
                        return Err(ParseError::InvalidFieldValuesBrackets(
                            open_bracket.to_string(),
                        ));
                    }
                    let mut values = Vec::<Tok>::new();

                    let ghost p0 = parser.pos();
                    loop 
                        invariant
                            
                            parser.wf(), parser.len() == old(parser).len(),
                            old(parser).pos() < p0 <= parser.pos(),
                            
                            values@.len() <= parser.pos() - p0,
                        decreases
                            
                            parser.len() - parser.pos(),
{
                        let value = parser.eat_word();
                        if value.eq_lit(Lit::RParen) {
                            break;
                        }
                        values.push(value.to_string());
                        let close = parser.eat_one();
                        if close.eq_lit(Lit::RParen) {
                            break;
                        }
                        if close.is_empty() {
                            return Err(ParseError::InvalidFieldValuesBrackets(close.to_string()));
                        }
                    }
                    return Ok(Some(FieldType::Enum(values)));
                }
                Lit::W_set => {
                    parser.take();
                    let open_bracket = parser.eat_one();
                    if open_bracket.ne_lit(Lit::LParen) {
                        return Err(ParseError::InvalidFieldValuesBrackets(
                            open_bracket.to_string(),
                        ));
                    }
                    let mut values = Vec::<Tok>::new();

                    let ghost p0 = parser.pos();
                    loop 
                        invariant
                            
                            parser.wf(), parser.len() == old(parser).len(),
                            old(parser).pos() < p0 <= parser.pos(),
                            
                            values@.len() <= parser.pos() - p0,
                        decreases
                            
                            parser.len() - parser.pos(),
{
                        let value = parser.eat_word();
                        if value.eq_lit(Lit::RParen) {
                            break;
                        }
                        values.push(value.to_string());
                        let close = parser.eat_one();
                        if close.eq_lit(Lit::RParen) {
                            break;
                        }
                        if close.is_empty() {
                            return Err(ParseError::InvalidFieldValuesBrackets(close.to_string()));
                        }
                    }
                    return Ok(Some(FieldType::Set(values)));
                }
                Lit::W_simple => {
                    parser.take();
                    let declare_name = DeclareName::parse(parser)?;
                    return Ok(Some(FieldType::Declaration(
                        DeclarationType::Simple,
                        declare_name,
                    )));
                }
                Lit::W_object => {
                    parser.take();
                    let declare_name = DeclareName::parse(parser)?;
                    return Ok(Some(FieldType::Declaration(
                        DeclarationType::Object,
                        declare_name,
                    )));
                }
                Lit::W_table => {
                    parser.take();
                    let declare_name = DeclareName::parse(parser)?;
                    return Ok(Some(FieldType::Declaration(
                        DeclarationType::Object,
                        declare_name,
                    )));
                }
                _ => return Ok(None),
            };
            parser.take();
            return Ok(Some(field_type));
        }
}

fn parse_field_list(parser: &mut VParser) -> (r: Result<Vec<Field>, ParseError>)
    requires
        
        old(parser).wf(),
    ensures
        
        final(parser).wf(), final(parser).len() == old(parser).len(),
        final(parser).pos() >= old(parser).pos(),
        
        r is Ok ==> r->Ok_0@.len() <= final(parser).pos() - old(parser).pos(),
        
        r matches Err(ParseError::InvalidDeclareName(t)) ==> !generator_style_name(t.text()),
{
        proof { char_class_facts(); }

        let mut fields = Vec::<Field>::new();
        loop 
            invariant
                
                parser.wf(), parser.len() == old(parser).len(),
                parser.pos() >= old(parser).pos(), char_facts(),
                
                fields@.len() <= parser.pos() - old(parser).pos(),
            decreases
                
                parser.len() - parser.pos(),
{
            let field_type = match FieldType::try_parse(parser)? {
                Some(field_type) => field_type,
                None => break,
            };

            let next_word = parser.peek_one();

            let (field_size, field_name) = if next_word.eq_lit(Lit::LBracket) {
                parser.eat_one();
                let size = parser.eat_word();
                let close = parser.eat_one();
                if close.ne_lit(Lit::RBracket) {
                    return Err(ParseError::InvalidFieldSizeClose(close.to_string()));
                }
                (Some(size.to_string()), parser.eat_word())
            } else {
                let next_word = parser.eat_word();
                (None, next_word)
            };
            let field_name = field_name.to_string();

            let next_word = parser.peek_word();
            let index_type = match next_word.kind() {
                Lit::W_primary => {
                    parser.eat_word();
                    Some(IndexType::Primary)
                }
                Lit::W_index => {
                    parser.eat_word();

                    let next = parser.peek_one();
                    let size = if next.eq_lit(Lit::LBracket) {
                        parser.eat_one();
                        let size = parser.eat_word().to_string();
                        let close = parser.eat_one();
                        if close.ne_lit(Lit::RBracket) {
                            return Err(ParseError::InvalidIndexSizeBrackets(close.to_string()));
                        }
                        Some(size)
                    } else {
                        None
                    };
                    Some(IndexType::Index(size))
                }
                Lit::W_unique => {
                    parser.eat_word();
                    Some(IndexType::Unique)
                }
                Lit::W_auto => None,
                _ => None,
            };

            let next_word = parser.peek_word();
            let auto = if next_word.eq_lit(Lit::W_auto) {
                parser.eat_word();
                true
            } else {
                false
            };


            let ghost p_sep = parser.pos();
            let semicolon = parser.eat_one();
            if semicolon.ne_lit(Lit::Semi) {
                return Err(ParseError::InvalidFieldCommentSeparater(
                    semicolon.to_string(),
                ));
            }


            assert(parser.pos() > p_sep); 
            let comment = parser.eat_quoted_string().to_string();

            fields.push(Field {
                field_type,
                field_size,
                name: field_name,
                index_type,
                auto,
                comment,
            });

            if parser.peek_one().eq_lit(Lit::RParen) {
                break;
            }
        }
        return Ok(fields);
    }

fn parse_declaration(
        parser: &mut VParser,
    ) -> (r: Result<Option<Declaration>, ParseError>)
    requires
        
        old(parser).wf(),
    ensures
        
        final(parser).wf(), final(parser).len() == old(parser).len(),
        final(parser).pos() >= old(parser).pos(),
        
        (r is Ok && r->Ok_0 is Some) ==> final(parser).pos() > old(parser).pos(),
        
        (r is Ok && r->Ok_0 is Some) ==> r->Ok_0->Some_0.fields@.len() <= final(parser).pos() - old(parser).pos(),
        
        (r is Ok && r->Ok_0 is None) ==> final(parser).pos() == final(parser).len(),
{
        let declare_type = parser.eat_word();
        let declaration_type = match declare_type.kind() {
            Lit::W_simple => DeclarationType::Simple,
            Lit::W_object => DeclarationType::Object,
            Lit::W_table => DeclarationType::Table,
            Lit::Empty => return Ok(None),
            _ => return Err(ParseError::InvalidDeclareType(declare_type.to_string())),
        };

        let declare_name = DeclareName::parse(parser)?;

        let comment = parser.eat_quoted_string().to_string();

        let opening_bracket = parser.eat_one();

        if opening_bracket.ne_lit(Lit::LParen) {
            return Err(ParseError::InvalidDeclareBrackets(
                opening_bracket.to_string(),
            ));
        }

        let fields = parse_field_list(parser)?;

        let closing_bracket = parser.eat_one();

        if closing_bracket.ne_lit(Lit::RParen) {
            return Err(ParseError::InvalidDeclareBrackets(
                closing_bracket.to_string(),
            ));
        }

        Ok(Some(Declaration {
            declaration_type,
            name: declare_name,
            comment,
            fields,
        }))
    }

fn parse_declaration_list(
        parser: &mut VParser,
    ) -> (r: Result<Vec<Declaration>, ParseError>)
    requires
        
        old(parser).wf(),
    ensures
        
        final(parser).wf(), final(parser).len() == old(parser).len(),
        final(parser).pos() >= old(parser).pos(),
        
        r is Ok ==> r->Ok_0@.len() <= final(parser).pos() - old(parser).pos(),
        
        r is Ok ==> (final(parser).pos() == final(parser).len() || r->Ok_0@.len() == 4),
{
        let mut declarations = Vec::<Declaration>::new();

        let mut i = 0;
        loop 
            invariant_except_break
                
                declarations@.len() == i || parser.pos() == parser.len(),
            invariant
                
                parser.wf(), parser.len() == old(parser).len(),
                parser.pos() >= old(parser).pos(),
                
                0 <= i <= 4,
                
                declarations@.len() <= parser.pos() - old(parser).pos(),
            ensures
                
                parser.pos() == parser.len() || declarations@.len() == 4,
            decreases
                
                parser.len() - parser.pos(), 4 - i,
{
            if i > 3 {
                break;
            }
            i += 1;
            let dec = parse_declaration(parser)?;
            match dec {
                Some(d) => declarations.push(d),
                None => break,
            }
        }

        Ok(declarations)
    }

pub fn parse_autosql(data: &str) -> (r: Result<Vec<Declaration>, ParseError>)
    ensures
        
        r is Ok ==> r->Ok_0@.len() <= str_len(data),
{
        let mut parser = VParser::of(data);

        parse_declaration_list(&mut parser)
    }

} // verus!
fn main() {}

