// ================= lemmas of unit rt_tree (all verified) =================

// ---------------- groups and their concatenation (generic, linear arithmetic only) ----------------
proof fn lemma_flat_prefix<T>(gs: Seq<Seq<T>>, g: int, n: int)
    requires 0 <= g <= n <= gs.len(),
    ensures
        flat(gs, g).len() <= flat(gs, n).len(),
        forall|i: int| 0 <= i < flat(gs, g).len() ==> flat(gs, n)[i] == flat(gs, g)[i],
    decreases n - g
{
    if g < n { lemma_flat_prefix(gs, g, n - 1); }
}
/// member k of group g sits at position (members of the earlier groups) + k of the concatenation
proof fn lemma_flat_index<T>(gs: Seq<Seq<T>>, n: int, g: int, k: int)
    requires 0 <= g < n <= gs.len(), 0 <= k < gs[g].len(),
    ensures
        flat(gs, g).len() + k < flat(gs, g + 1).len() <= flat(gs, n).len(),
        flat(gs, n)[flat(gs, g).len() + k] == gs[g][k],
{
    lemma_flat_prefix(gs, g + 1, n);
    assert(flat(gs, g + 1) == flat(gs, g) + gs[g]);
    assert(flat(gs, g + 1)[flat(gs, g).len() + k] == gs[g][k]);
}
proof fn lemma_flat_len<T>(gs: Seq<Seq<T>>, n: int, b: int)
    requires
        0 <= n <= gs.len(), b >= 2,
        forall|g: int| 0 <= g < gs.len() ==> 1 <= (#[trigger] gs[g]).len(),
        forall|g: int| 0 <= g < gs.len() - 1 ==> (#[trigger] gs[g]).len() == b,
    ensures
        flat(gs, n).len() >= n,
        n <= gs.len() - 1 ==> flat(gs, n).len() >= 2 * n,
    decreases n
{
    if n > 0 {
        lemma_flat_len(gs, n - 1, b);
        assert(flat(gs, n).len() == flat(gs, n - 1).len() + gs[n - 1].len());
    }
}
/// how many groups: none for an empty input, at least one otherwise, never more than members, and STRICTLY fewer
/// than members once there are two members and groups of two or more (ceil(len / b) < len for len >= 2, b >= 2) --
/// the progress argument of the level loop
proof fn lemma_count<T>(gs: Seq<Seq<T>>, v: Seq<T>, b: int)
    requires
        [[L: lemma_count/pre_groups_are_chunks_of_exactly_block_size]]
        chunked(gs, v, b),
        b >= 2,
    ensures
        gs.len() <= v.len(),
        v.len() == 0 ==> gs.len() == 0,
        v.len() >= 1 ==> gs.len() >= 1,
        v.len() >= 2 ==> gs.len() < v.len(),
{
    reveal(chunked);
    let k = gs.len() as int;
    lemma_flat_len(gs, k, b);
    if k >= 1 {
        lemma_flat_len(gs, k - 1, b);
        assert(flat(gs, k).len() == flat(gs, k - 1).len() + gs[k - 1].len());
    }
}

// ---------------- well-formedness ----------------
/// "full" is the stronger reading of the fullness flag
proof fn lemma_wf_mono(t: RTreeChildren, lvl: int, b: int)
    requires wf(t, lvl, b, false),
    ensures wf(t, lvl, b, true),
    decreases lvl
{
    match t {
        RTreeChildren::DataSections(v) => {}
        RTreeChildren::Nodes(v) => {
            assert(kids_wf(v@, lvl - 1, b, false));
            assert forall|i: int| 0 <= i < v@.len() implies wf((#[trigger] v@[i]).children, lvl - 1, b, true && i == v@.len() - 1) by {
                assert(wf(v@[i].children, lvl - 1, b, false && i == v@.len() - 1));
                if i == v@.len() - 1 { lemma_wf_mono(v@[i].children, lvl - 1, b); }
            }
            assert(kids_wf(v@, lvl - 1, b, true));
        }
    }
}

// ---------------- leaves ----------------
proof fn lemma_cat_prefix(a: Seq<RTreeChildren>, c: Seq<RTreeChildren>, n: int)
    requires 0 <= n <= a.len(),
    ensures cat_leaves(a + c, n) == cat_leaves(a, n),
    decreases n
{
    if n > 0 {
        lemma_cat_prefix(a, c, n - 1);
        assert((a + c)[n - 1] == a[n - 1]);
    }
}
proof fn lemma_cat_concat(a: Seq<RTreeChildren>, c: Seq<RTreeChildren>, m: int)
    requires 0 <= m <= c.len(),
    ensures cat_leaves(a + c, a.len() + m) == cat_leaves(a, a.len() as int) + cat_leaves(c, m),
    decreases m
{
    if m == 0 {
        lemma_cat_prefix(a, c, a.len() as int);
        assert(cat_leaves(a, a.len() as int) + cat_leaves(c, 0) =~= cat_leaves(a, a.len() as int));
    } else {
        lemma_cat_concat(a, c, m - 1);
        assert((a + c)[a.len() + m - 1] == c[m - 1]);
        assert(cat_leaves(a + c, a.len() + m) =~= cat_leaves(a, a.len() as int) + cat_leaves(c, m));
    }
}
/// the leaves beneath a node built from a group are the leaves beneath the group's members
proof fn lemma_kids_leaves(v: Seq<RTreeNode>, grp: Seq<RTreeChildren>, n: int)
    requires
        0 <= n <= v.len(), v.len() == grp.len(),
        forall|k: int| 0 <= k < grp.len() ==> (#[trigger] v[k]).children == grp[k],
    ensures leaves_of_kids(v, n) == cat_leaves(grp, n),
    decreases n
{
    if n > 0 { lemma_kids_leaves(v, grp, n - 1); }
}
/// grouping does not change the leaves
proof fn lemma_cat_flat(gs: Seq<Seq<RTreeChildren>>, out: Seq<RTreeChildren>, n: int)
    requires
        0 <= n <= gs.len(), out.len() == gs.len(),
        forall|g: int| 0 <= g < gs.len() ==> leaves_of(#[trigger] out[g]) == cat_leaves(gs[g], gs[g].len() as int),
    ensures cat_leaves(out, n) == cat_leaves(flat(gs, n), flat(gs, n).len() as int),
    decreases n
{
    if n > 0 {
        lemma_cat_flat(gs, out, n - 1);
        lemma_cat_concat(flat(gs, n - 1), gs[n - 1], gs[n - 1].len() as int);
        assert(flat(gs, n) == flat(gs, n - 1) + gs[n - 1]);
    }
}
proof fn lemma_cat_leaf_level(gs: Seq<Seq<Section>>, cur: Seq<RTreeChildren>, n: int)
    requires
        0 <= n <= gs.len(), cur.len() == gs.len(),
        forall|g: int| 0 <= g < gs.len() ==> leaf_of(#[trigger] cur[g], gs[g]),
    ensures cat_leaves(cur, n) == flat(gs, n),
    decreases n
{
    if n > 0 {
        lemma_cat_leaf_level(gs, cur, n - 1);
        assert(leaf_of(cur[n - 1], gs[n - 1]));
    }
}

// ---------------- the leaf level ----------------
/// chunks of the input, each wrapped in DataSections, are a good level 0
proof fn lemma_leaf_level(secs: Seq<Section>, gs: Seq<Seq<Section>>, cur: Seq<RTreeChildren>, b: int)
    requires
        [[L: lemma_leaf_level/pre_leaf_groups_are_chunks_of_exactly_block_size]]
        chunked(gs, secs, b),
        b >= 2,
        [[L: lemma_leaf_level/pre_one_leaf_per_group_holding_exactly_the_group]]
        cur.len() == gs.len(),
        forall|g: int| 0 <= g < gs.len() ==> leaf_of(#[trigger] cur[g], gs[g]),
    ensures level_ok(cur, 0, b, secs),
{
    reveal(chunked);
    reveal(level_ok);
    let n = gs.len() as int;
    assert forall|i: int| 0 <= i < cur.len() implies
        wf(#[trigger] cur[i], 0, b, i == cur.len() - 1) && nonempty_all(cur[i]) && height(cur[i]) == 0 && cover_all(cur[i])
        && lo_of(cur[i]) == (secs[flat(gs, i).len() as int].chrom, secs[flat(gs, i).len() as int].start)
    by {
        assert(leaf_of(cur[i], gs[i]));
        assert(1 <= gs[i].len() <= b);
        if i < n - 1 { assert(gs[i].len() == b); }
        lemma_flat_index(gs, n, i, 0);
    }
    lemma_cat_leaf_level(gs, cur, n);
    if secs_sorted(secs) {
        assert forall|i: int| 0 <= i < cur.len() implies child_ok(#[trigger] cur[i]) by {
            assert(leaf_of(cur[i], gs[i]));
            let s = cur[i]->DataSections_0@;
            assert(1 <= gs[i].len());
            assert forall|p: int, q: int| 0 <= p <= q < s.len() implies
                pos_le((#[trigger] s[p].chrom, s[p].start), (#[trigger] s[q].chrom, s[q].start)) by {
                lemma_flat_index(gs, n, i, p);
                lemma_flat_index(gs, n, i, q);
            }
        }
        assert forall|i: int, j: int| 0 <= i <= j < cur.len() implies pos_le(lo_of(#[trigger] cur[i]), lo_of(#[trigger] cur[j])) by {
            lemma_flat_prefix(gs, i, j);
            lemma_flat_index(gs, n, i, 0);
            lemma_flat_index(gs, n, j, 0);
        }
        assert(span_ok(cur));
    }
}

// ---------------- from one level to the next ----------------
/// the members of the groups are members of the level: none is empty, each may be handed to the node constructor
proof fn lemma_groups_nonempty(cur: Seq<RTreeChildren>, gs: Seq<Seq<RTreeChildren>>, lvl: int, b: int, secs: Seq<Section>)
    requires level_ok(cur, lvl, b, secs), flat(gs, gs.len() as int) == cur,
    ensures groups_nonempty(gs),
{
    reveal(level_ok);
    assert forall|g: int, k: int| 0 <= g < gs.len() && 0 <= k < gs[g].len() implies child_nonempty(#[trigger] gs[g][k]) by {
        lemma_flat_index(gs, gs.len() as int, g, k);
        assert(nonempty_all(cur[flat(gs, g).len() + k]));
    }
}
/// groups of exactly block_size nodes of a good level lvl, each turned into one `Nodes(..)` by the node constructor,
/// are a good level lvl + 1
proof fn lemma_next_level(cur: Seq<RTreeChildren>, gs: Seq<Seq<RTreeChildren>>, out: Seq<RTreeChildren>, lvl: int, b: int, secs: Seq<Section>)
    requires
        level_ok(cur, lvl, b, secs),
        [[L: lemma_next_level/pre_node_groups_are_chunks_of_exactly_block_size]]
        chunked(gs, cur, b),
        b >= 2,
        [[L: lemma_next_level/pre_one_node_per_group_built_by_the_node_constructor]]
        out.len() == gs.len(),
        forall|g: int| 0 <= g < gs.len() ==> built_from(#[trigger] out[g], gs[g]),
    ensures level_ok(out, lvl + 1, b, secs),
{
    reveal(chunked);
    reveal(level_ok);
    let n = gs.len() as int;
    assert(flat(gs, n) == cur);
    // structure: per new node
    assert forall|g: int| 0 <= g < out.len() implies
        wf(#[trigger] out[g], lvl + 1, b, g == out.len() - 1) && nonempty_all(out[g]) && height(out[g]) == lvl + 1
        && lo_of(out[g]) == lo_of(cur[flat(gs, g).len() as int])
        && leaves_of(out[g]) == cat_leaves(gs[g], gs[g].len() as int)
    by {
        assert(built_from(out[g], gs[g]));
        let v = out[g]->Nodes_0@;
        let off = flat(gs, g).len() as int;
        assert(1 <= gs[g].len() <= b);
        if g < n - 1 { assert(gs[g].len() == b); }
        assert forall|k: int| 0 <= k < v.len() implies
            wf((#[trigger] v[k]).children, lvl, b, (g == out.len() - 1) && k == v.len() - 1)
            && nonempty_all(v[k].children) && node_lo(v[k]) == lo_of(cur[off + k]) && v[k].children == cur[off + k]
        by {
            lemma_flat_index(gs, n, g, k);
            assert(item_of(v[k], gs[g][k]));
            assert(gs[g][k] == cur[off + k]);
            assert(nonempty_all(cur[off + k]));
            assert(wf(cur[off + k], lvl, b, off + k == cur.len() - 1));
            if off + k == cur.len() - 1 {
                // the last member of the level is the last member of the last group
                if g < n - 1 {
                    lemma_flat_prefix(gs, g + 1, n - 1);
                    lemma_flat_index(gs, n, n - 1, 0);
                }
                assert(g == n - 1);
                assert(flat(gs, n) == flat(gs, n - 1) + gs[n - 1]);
            } else {
                if (g == out.len() - 1) && k == v.len() - 1 { lemma_wf_mono(cur[off + k], lvl, b); }
            }
        }
        assert(kids_wf(v, lvl, b, g == out.len() - 1));
        lemma_flat_index(gs, n, g, 0);
        assert(v[0].children == cur[off + 0]);
        assert(height(cur[off]) == lvl);
        assert(height(v[0].children) == lvl);
        lemma_kids_leaves(v, gs[g], v.len() as int);
    }
    lemma_cat_flat(gs, out, n);
    // spans: only for a sorted input
    if secs_sorted(secs) {
        assert(span_ok(cur));
        assert forall|g: int| 0 <= g < out.len() implies cover_all(#[trigger] out[g]) && child_ok(out[g]) by {
            assert(built_from(out[g], gs[g]));
            let v = out[g]->Nodes_0@;
            let off = flat(gs, g).len() as int;
            assert(1 <= gs[g].len());
            assert forall|k: int| 0 <= k < v.len() implies
                covers(#[trigger] v[k]) && cover_all(v[k].children) && node_lo(v[k]) == lo_of(cur[off + k])
            by {
                lemma_flat_index(gs, n, g, k);
                assert(item_of(v[k], gs[g][k]));
                assert(gs[g][k] == cur[off + k]);
                assert(child_ok(cur[off + k]) && cover_all(cur[off + k]));
            }
            assert forall|p: int, q: int| 0 <= p <= q < v.len() implies pos_le(node_lo(#[trigger] v[p]), node_lo(#[trigger] v[q])) by {
                lemma_flat_index(gs, n, g, p);
                lemma_flat_index(gs, n, g, q);
            }
        }
        assert forall|i: int, j: int| 0 <= i <= j < out.len() implies pos_le(lo_of(#[trigger] out[i]), lo_of(#[trigger] out[j])) by {
            lemma_flat_prefix(gs, i, j);
            lemma_flat_index(gs, n, i, 0);
            lemma_flat_index(gs, n, j, 0);
        }
        assert(span_ok(out));
    }
}
/// the level loop stops with at most one node: that node is the whole tree
proof fn lemma_root(cur: Seq<RTreeChildren>, lvl: int, b: int, secs: Seq<Section>)
    requires level_ok(cur, lvl, b, secs),
    ensures
        lvl >= 0,
        cur.len() == 0 ==> secs.len() == 0,
        cur.len() == 1 ==> wf(cur[0], lvl, b, true) && leaves_of(cur[0]) == secs && height(cur[0]) == lvl && nonempty_all(cur[0]),
        cur.len() == 1 && secs_sorted(secs) ==> cover_all(cur[0]),
{
    reveal(level_ok);
    if cur.len() == 1 {
        assert(cat_leaves(cur, 1) == cat_leaves(cur, 0) + leaves_of(cur[0]));
        assert(cat_leaves(cur, 0) + leaves_of(cur[0]) =~= leaves_of(cur[0]));
    }
}

// ---------------- corollary: one-level coverage everywhere == deep coverage ----------------
proof fn lemma_pos_le_trans(a: (u32, u32), b: (u32, u32), c: (u32, u32))
    requires pos_le(a, b), pos_le(b, c),
    ensures pos_le(a, c),
{
}
proof fn lemma_inside_concat(a: Seq<Section>, c: Seq<Section>, lo: (u32, u32), hi: (u32, u32))
    requires secs_inside(a, lo, hi), secs_inside(c, lo, hi),
    ensures secs_inside(a + c, lo, hi),
{
    assert forall|i: int| 0 <= i < (a + c).len() implies contains(lo, hi, ((#[trigger] (a + c)[i]).chrom, (a + c)[i].start), ((a + c)[i].chrom, (a + c)[i].end)) by {
        if i < a.len() { assert((a + c)[i] == a[i]); } else { assert((a + c)[i] == c[i - a.len()]); }
    }
}
proof fn lemma_inside_widen(s: Seq<Section>, lo: (u32, u32), hi: (u32, u32), lo2: (u32, u32), hi2: (u32, u32))
    requires secs_inside(s, lo, hi), pos_le(lo2, lo), pos_le(hi, hi2),
    ensures secs_inside(s, lo2, hi2),
{
    assert forall|i: int| 0 <= i < s.len() implies contains(lo2, hi2, ((#[trigger] s[i]).chrom, s[i].start), (s[i].chrom, s[i].end)) by {
        lemma_pos_le_trans(lo2, lo, (s[i].chrom, s[i].start));
        lemma_pos_le_trans((s[i].chrom, s[i].end), hi, hi2);
    }
}
/// the sections beneath the first n items of a node lie inside [lo, hi] when every item's span does and every item's
/// span contains the sections beneath it
proof fn lemma_kids_inside(k: Seq<RTreeNode>, n: int, lo: (u32, u32), hi: (u32, u32))
    requires
        0 <= n <= k.len(),
        forall|j: int| 0 <= j < k.len() ==> contains(lo, hi, node_lo(#[trigger] k[j]), node_hi(k[j])),
        forall|j: int| 0 <= j < k.len() ==> secs_inside(leaves_of((#[trigger] k[j]).children), node_lo(k[j]), node_hi(k[j])),
    ensures secs_inside(leaves_of_kids(k, n), lo, hi),
    decreases n
{
    if n > 0 {
        lemma_kids_inside(k, n - 1, lo, hi);
        assert(contains(lo, hi, node_lo(k[n - 1]), node_hi(k[n - 1])));
        lemma_inside_widen(leaves_of(k[n - 1].children), node_lo(k[n - 1]), node_hi(k[n - 1]), lo, hi);
        lemma_inside_concat(leaves_of_kids(k, n - 1), leaves_of(k[n - 1].children), lo, hi);
    }
}
proof fn corollary_deep_cover(t: RTreeChildren)
    requires cover_all(t),
    ensures
        [[L: corollary/every_section_lies_inside_the_span_of_every_node_above_it]]
        deep_cover(t),
    decreases t
{
    match t {
        RTreeChildren::DataSections(_) => {}
        RTreeChildren::Nodes(v) => {
            assert forall|i: int| 0 <= i < v@.len() implies
                secs_inside(leaves_of((#[trigger] v@[i]).children), node_lo(v@[i]), node_hi(v@[i])) && deep_cover(v@[i].children)
            by {
                let n = v@[i];
                assert(covers(n) && cover_all(n.children));
                corollary_deep_cover(n.children);
                match n.children {
                    RTreeChildren::DataSections(s) => {}
                    RTreeChildren::Nodes(k) => {
                        lemma_kids_inside(k@, k@.len() as int, node_lo(n), node_hi(n));
                    }
                }
            }
        }
    }
}
