//@unit cli_dispatch
//@serves C16 C17
//@backend verus
// The TOP-LEVEL functions of the four READING tools: bigbedtobed, bigwigtobedgraph (C16), bigwigaverageoverbed,
// bigwigvaluesoverbed (C17) -- the text that units conv_out / cli_loops / avg_names / avg_rows / vob / stats leave
// uncovered: opening the input, creating the output, the refusals, the choice of the writer entry point and the
// arguments it is called with; the `--namecol` decoding, `--min-max`, `-t`; the `\t` spelling of `--delimiter`.
//   C16: "... This holds for any thread count ...; restricting the output by chromosome, start and end yields
//         exactly the corresponding range-query result."
//   C17: "... There is one output row per input row in input order with the requested name column, identical for any
//         number of threads ..."
// Every function is cut WHOLE from /repo on every run.  bigwigaverageoverbed: the statements from
// `let parallel = ..;` to the end are unit cli_loops' `avg_dispatch` (same cut point, the complement) and are
// replaced by ONE call of a shim with cli_loops' signature.
// Device (as unit conv_opts): the file system and the callees are shims over an environment `Env` that logs
//   fs():    which path was opened / created by the tool function itself, in order;
//   calls(): which entry point was called with exactly which argument values, and whether it returned Ok.
// NOT covered: clap parsing (defaults, `-t`, UCSC `compat_args`), the callees themselves (conv_out, cli_loops, ...).
use vstd::prelude::*;
// messages on stderr are not modelled
#[allow(unused_macros)]
macro_rules! eprintln {
    ($($t:tt)*) => { () };
}
verus! {

// =====================================================================================
// opaque stand-ins (R11)
// =====================================================================================
/// `String` (paths, option values): opaque; `text()` is its content
#[verifier::external_body] pub struct Str { _p: u8 }
impl Str {
    pub uninterp spec fn text(&self) -> &str;
    #[verifier::external_body] pub fn as_ref(&self) -> (r: &str) ensures r == self.text(), { unimplemented!() }
    #[verifier::external_body] pub fn as_str(&self) -> (r: &str) ensures r == self.text(), { unimplemented!() }
    /// `s == "literal"`
    #[verifier::external_body] pub fn eq_lit(&self, lit: &str) -> (r: bool) ensures r == (self.text() == lit), { unimplemented!() }
    /// `String::from("literal")`
    #[verifier::external_body] pub fn from(lit: &str) -> (r: Str) ensures r.text() == lit, { unimplemented!() }
    /// `path.into()` (String -> PathBuf): the same path
    #[verifier::external_body] pub fn into(self) -> (r: Str) ensures r == self, { unimplemented!() }
    #[verifier::external_body] pub fn to_string(&self) -> (r: Str) ensures r == *self, { unimplemented!() }
    #[verifier::external_body] pub fn to_owned(&self) -> (r: Str) ensures r == *self, { unimplemented!() }
    /// `s.starts_with("literal")`
    #[verifier::external_body] pub fn starts_with(&self, lit: &str) -> (r: bool) ensures r == has_prefix(self.text(), lit), { unimplemented!() }
    // plausible foreign calls: nothing promised
    #[verifier::external_body] pub fn is_empty(&self) -> bool { unimplemented!() }
    #[verifier::external_body] pub fn len(&self) -> usize { unimplemented!() }
    #[verifier::external_body] pub fn to_lowercase(&self) -> Str { unimplemented!() }
    #[verifier::external_body] pub fn trim(&self) -> &str { unimplemented!() }
    #[verifier::external_body] pub fn ends_with(&self, lit: &str) -> bool { unimplemented!() }
    #[verifier::external_body] pub fn contains(&self, lit: &str) -> bool { unimplemented!() }
}
impl Clone for Str {
    #[verifier::external_body] fn clone(&self) -> (r: Str) ensures r == *self, { unimplemented!() }
}
/// `s.starts_with(p)`
pub uninterp spec fn has_prefix(s: &str, p: &str) -> bool;
/// `Option<String>::as_deref()`
#[verifier::external_body]
pub fn opt_as_deref(o: &Option<Str>) -> (r: Option<&str>)
    ensures o is None <==> r is None, o matches Some(s) ==> r == Some(s.text()),
{ unimplemented!() }
/// the number a decimal text spells (`str::parse::<usize>`), None when it is not one (empty, sign, letters, too big)
pub uninterp spec fn usize_of(s: &str) -> Option<usize>;
#[verifier::external_body] pub struct ParseIntError { _p: u8 }
#[verifier::external_body]
pub fn parse_usize(s: &str) -> (r: Result<usize, ParseIntError>)
    ensures r is Ok <==> usize_of(s) is Some, r matches Ok(n) ==> usize_of(s) == Some(n),
{ unimplemented!() }
/// `return Err(e)` -> `return ret_err(env, e)`: the same value; `env` is mentioned at the exit.  (Verus 0.2026.09.13 loses
/// the final value of a `&mut` parameter at a `return` inside a `match` that has a guarded arm when the parameter is
/// used again later; naming it at the exit avoids that.  Verified, not assumed.)
pub fn ret_err<T>(env: &mut Env, e: AnyErr) -> (r: Result<T, AnyErr>)
    ensures r == Err::<T, AnyErr>(e), *final(env) == *old(env),
{ Err(e) }
/// `a - b` on usize (verified; the overflow check gets a name)
pub fn sub_usize(a: usize, b: usize) -> (r: usize)
    requires
        [[L: arith/usize_subtraction_does_not_underflow]]
        a >= b,
    ensures r == a - b,
{ a - b }

/// io::Error
#[verifier::external_body] pub struct IoErr { _p: u8 }
/// BigBedReadOpenError / BigWigReadOpenError
#[verifier::external_body] pub struct OpenErr { _p: u8 }
/// BBIReadError (the record writers)
#[verifier::external_body] pub struct BBIReadError { _p: u8 }
/// Box<dyn Error [+ Send + Sync]> (which error: lost behind `?`)
#[verifier::external_body] pub struct AnyErr { _p: u8 }
impl From<IoErr> for AnyErr { #[verifier::external_body] fn from(e: IoErr) -> AnyErr { unimplemented!() } }
impl From<OpenErr> for AnyErr { #[verifier::external_body] fn from(e: OpenErr) -> AnyErr { unimplemented!() } }
impl From<BBIReadError> for AnyErr { #[verifier::external_body] fn from(e: BBIReadError) -> AnyErr { unimplemented!() } }
impl IoErr { #[verifier::external_body] pub fn into(self) -> AnyErr { unimplemented!() } }
impl OpenErr { #[verifier::external_body] pub fn into(self) -> AnyErr { unimplemented!() } }
impl BBIReadError { #[verifier::external_body] pub fn into(self) -> AnyErr { unimplemented!() } }
/// `io::Error::new(io::ErrorKind::X, "message")` (message dropped)
pub mod io {
    pub enum ErrorKind { InvalidData, InvalidInput, NotFound, Other, Unsupported }
    pub struct Error {}
    impl Error {
        #[verifier::external_body] pub fn new(kind: ErrorKind, msg: &str) -> super::IoErr { unimplemented!() }
    }
}

// =====================================================================================
// the file system as far as these functions see it
// =====================================================================================
/// deterministic file system (ASSUMED: nothing but the call itself changes it while the call runs)
pub uninterp spec fn fs_exists(p: Str) -> bool;
/// the existing file p may be read by this process
pub uninterp spec fn fs_readable(p: Str) -> bool;
/// `File::open(p)` succeeds: only on a file that exists
pub open spec fn fs_can_open(p: Str) -> bool { fs_exists(p) && fs_readable(p) }
/// `File::create(p)` succeeds (creates or TRUNCATES)
pub uninterp spec fn fs_can_create(p: Str) -> bool;
/// `BigBedRead::open_file(p)` succeeds: p can be opened and holds a bigBed header
pub uninterp spec fn fs_bigbed_opens(p: Str) -> bool;
/// `BigWigRead::open(source)` succeeds: the source holds a bigWig header
pub uninterp spec fn holds_bigwig(src: Str, remote: bool) -> bool;
/// `BigWigRead::open_file(p)` succeeds
pub open spec fn fs_bigwig_opens(p: Str) -> bool { fs_can_open(p) && holds_bigwig(p, false) }

/// what the tool function itself opens / creates (attempts, in order).  Files opened INSIDE the callees (temp files,
/// reopen, the BED file of the row loops) are the callees' business and not logged here.
pub ghost enum FsEv { Open(Str), Create(Str), OpenBigBed(Str), OpenBigWig(Str) }

/// `impl AsRef<Path>` arguments: a String, a `Path`, or a reference to one
pub trait PathArg: Sized { spec fn name(&self) -> Str; }
impl PathArg for Str { open spec fn name(&self) -> Str { *self } }
impl PathArg for &Str { open spec fn name(&self) -> Str { **self } }
impl PathArg for Path { open spec fn name(&self) -> Str { self.of() } }
impl PathArg for &Path { open spec fn name(&self) -> Str { (**self).of() } }
impl PathArg for &&Path { open spec fn name(&self) -> Str { (***self).of() } }
/// `std::path::Path` (`Path::new(&s)` is `&Path` in the repository; here a value)
#[verifier::external_body] pub struct Path { _p: u8 }
impl Path {
    pub uninterp spec fn of(&self) -> Str;
    #[verifier::external_body] pub fn new(s: &Str) -> (r: Path) ensures r.of() == *s, { unimplemented!() }
    #[verifier::external_body] pub fn exists(&self) -> (r: bool) ensures r == fs_exists(self.of()), { unimplemented!() }
    // plausible foreign calls: nothing promised
    #[verifier::external_body] pub fn is_file(&self) -> bool { unimplemented!() }
    #[verifier::external_body] pub fn is_dir(&self) -> bool { unimplemented!() }
}
/// `File` opened for reading
#[verifier::external_body] pub struct InFile { _p: u8 }
impl InFile { pub uninterp spec fn path(&self) -> Str; }
/// `File` created for writing (also behind a `BufWriter`: buffering is not modelled)
#[verifier::external_body] pub struct OutFile { _p: u8 }
impl OutFile { pub uninterp spec fn path(&self) -> Str; }
pub struct BufWriter {}
impl BufWriter {
    pub fn new(f: OutFile) -> (r: OutFile) ensures r == f, { f }
    pub fn with_capacity(n: usize, f: OutFile) -> (r: OutFile) ensures r == f, { f }
}
//@extract struct bigtools/src/utils/file/reopen.rs ReopenableFile
//@rule R8
//@sub /\bPathBuf\b/ => Str min=1
//@sub /\bFile\b/ => InFile min=1
//@end
/// `RemoteFile::new(url)` (feature `remote`): nothing is fetched yet
#[verifier::external_body] pub struct RemoteFile { _p: u8 }
impl RemoteFile {
    pub uninterp spec fn url(&self) -> Str;
    #[verifier::external_body] pub fn new(url: &Str) -> (r: RemoteFile) ensures r.url() == *url, { unimplemented!() }
}

/// what a reader reads: `src` = the path its file handle was opened from (or the URL), `reopen` = the path every
/// `reopen()` (one per worker thread / per chromosome task) opens again, `cached` = `.cached()` was applied
pub ghost struct ReaderDesc { pub src: Str, pub reopen: Str, pub cached: bool, pub remote: bool }
pub trait BigSource: Sized { spec fn desc(&self) -> ReaderDesc; }
impl BigSource for ReopenableFile {
    open spec fn desc(&self) -> ReaderDesc { ReaderDesc { src: self.file.path(), reopen: self.path, cached: false, remote: false } }
}
impl BigSource for RemoteFile {
    open spec fn desc(&self) -> ReaderDesc { ReaderDesc { src: self.url(), reopen: self.url(), cached: false, remote: true } }
}
#[verifier::external_body] pub struct BigBedRead { _p: u8 }
impl BigBedRead { pub uninterp spec fn desc(&self) -> ReaderDesc; }
#[verifier::external_body] pub struct BigWigRead { _p: u8 }
impl BigWigRead {
    pub uninterp spec fn desc(&self) -> ReaderDesc;
    /// `BigWigRead::open(read)`: reads the header from the given source (opens no file itself)
    #[verifier::external_body]
    pub fn open<S: BigSource>(read: S) -> (r: Result<BigWigRead, OpenErr>)
        ensures r is Ok <==> holds_bigwig(read.desc().src, read.desc().remote), r matches Ok(b) ==> b.desc() == read.desc(),
    { unimplemented!() }
    /// `.cached()`: the same file behind a block cache
    #[verifier::external_body]
    pub fn cached(self) -> (r: BigWigRead)
        ensures r.desc() == (ReaderDesc { cached: true, ..self.desc() }),
    { unimplemented!() }
}

//@extract enum bigtools/src/utils/misc.rs Name
//@rule R8
//@end
//@extract struct bigtools/src/utils/cli/bigwigvaluesoverbed.rs Options
//@rule R8
//@sub /^struct Options/ => pub struct Options min=1
//@sub /delimiter: String/ => pub delimiter: Str min=1
//@sub /withnames: bool/ => pub withnames: bool min=1
//@end
// the tools' arguments (clap attributes dropped: parsing, defaults and help texts are outside)
//@extract struct bigtools/src/utils/cli/bigbedtobed.rs BigBedToBedArgs
//@rule R8
//@sub /#\[derive\(Clone\)\]\n/ => "" min=0
//@sub /#\[command\(.*?\n\)\]\n/ => "" min=0
//@sub /[ \t]*#\[(?:arg|command)\([^\n]*\)\]\n/ => "" min=0
//@sub /\bString\b/ => Str min=0
//@end
//@extract struct bigtools/src/utils/cli/bigwigtobedgraph.rs BigWigToBedGraphArgs
//@rule R8
//@sub /#\[derive\(Clone\)\]\n/ => "" min=0
//@sub /#\[command\(.*?\n\)\]\n/ => "" min=0
//@sub /[ \t]*#\[(?:arg|command)\([^\n]*\)\]\n/ => "" min=0
//@sub /\bString\b/ => Str min=0
//@end
//@extract struct bigtools/src/utils/cli/bigwigaverageoverbed.rs BigWigAverageOverBedArgs
//@rule R8
//@sub /#\[derive\(Clone\)\]\n/ => "" min=0
//@sub /#\[command\(.*?\n\)\]\n/ => "" min=0
//@sub /[ \t]*#\[(?:arg|command)\([^\n]*\)\]\n/ => "" min=0
//@sub /\bString\b/ => Str min=0
//@end
//@extract struct bigtools/src/utils/cli/bigwigvaluesoverbed.rs BigWigValuesOverBedArgs
//@rule R8
//@sub /#\[derive\(Clone\)\]\n/ => "" min=0
//@sub /#\[command\(.*?\n\)\]\n/ => "" min=0
//@sub /[ \t]*#\[(?:arg|command)\([^\n]*\)\]\n/ => "" min=0
//@sub /\bString\b/ => Str min=0
//@end

// =====================================================================================
// the callees: every call is logged with the values it was given
// =====================================================================================
pub ghost enum Tool { BigBedToBed, BigWigToBedGraph }
pub ghost enum Entry { SingleThreaded, MultiThreaded, FromBed }
/// one call of a record writer of unit conv_out
pub ghost struct WCall {
    pub tool: Tool,
    pub entry: Entry,
    pub reader: ReaderDesc,
    /// the path the output file was created from
    pub out: Str,
    /// SingleThreaded only (else None)
    pub chrom: Option<Str>, pub start: Option<u32>, pub end: Option<u32>, pub zoom: Option<u32>,
    /// MultiThreaded only (else false / 0)
    pub inmemory: bool, pub nthreads: usize,
    /// FromBed only: the path the regions file was opened from
    pub regions: Option<Str>,
    pub ok: bool,
}
/// the row loops of bigwigaverageoverbed (unit cli_loops `avg_dispatch`)
pub ghost struct AvgCall { pub bed: Str, pub name: Name, pub add_min_max: bool, pub nthreads: usize, pub reader: ReaderDesc, pub out: Str, pub ok: bool }
/// `write` of bigwigvaluesoverbed (unit cli_loops `vob`)
pub ghost struct VobCall { pub bed: Str, pub reader: ReaderDesc, pub out: Str, pub withnames: bool, pub delimiter: Str, pub ok: bool }
pub ghost enum Call { W(WCall), Avg(AvgCall), Vob(VobCall) }

#[verifier::external_body] pub struct Env { _p: u8 }
impl Env {
    pub uninterp spec fn fs(&self) -> Seq<FsEv>;
    pub uninterp spec fn calls(&self) -> Seq<Call>;
    /// `File::open(p)`
    #[verifier::external_body]
    pub fn open<P: PathArg>(&mut self, p: P) -> (r: Result<InFile, IoErr>)
        ensures final(self).calls() == old(self).calls(), final(self).fs() == old(self).fs().push(FsEv::Open(p.name())),
            r is Ok <==> fs_can_open(p.name()), r matches Ok(f) ==> f.path() == p.name(),
    { unimplemented!() }
    /// `File::create(p)`
    #[verifier::external_body]
    pub fn create<P: PathArg>(&mut self, p: P) -> (r: Result<OutFile, IoErr>)
        ensures final(self).calls() == old(self).calls(), final(self).fs() == old(self).fs().push(FsEv::Create(p.name())),
            r is Ok <==> fs_can_create(p.name()), r matches Ok(f) ==> f.path() == p.name(),
    { unimplemented!() }
    /// `BigBedRead::open_file(p)`
    #[verifier::external_body]
    pub fn open_bigbed_file<P: PathArg>(&mut self, p: P) -> (r: Result<BigBedRead, OpenErr>)
        ensures final(self).calls() == old(self).calls(), final(self).fs() == old(self).fs().push(FsEv::OpenBigBed(p.name())),
            r is Ok <==> fs_bigbed_opens(p.name()),
            r matches Ok(b) ==> b.desc() == (ReaderDesc { src: p.name(), reopen: p.name(), cached: false, remote: false }),
    { unimplemented!() }
    /// `BigWigRead::open_file(p)`
    #[verifier::external_body]
    pub fn open_bigwig_file<P: PathArg>(&mut self, p: P) -> (r: Result<BigWigRead, OpenErr>)
        ensures final(self).calls() == old(self).calls(), final(self).fs() == old(self).fs().push(FsEv::OpenBigWig(p.name())),
            r is Ok <==> fs_bigwig_opens(p.name()),
            r matches Ok(b) ==> b.desc() == (ReaderDesc { src: p.name(), reopen: p.name(), cached: false, remote: false }),
    { unimplemented!() }
}

// ---- unit conv_out: the six record writers (contracts there: `bed_st/*`, `bg_st/*`, `bed_mt/*`, `bg_mt/*`,
// `mt/same_per_chromosome_lines_in_file_order_give_the_single_threaded_text`, `doc/bed_regions/*`, `doc/bg_regions/*`).
// What matters HERE is conv_out's reading of the arguments:
//   single-threaded(reader, out, chrom, start, end[, zoom]): the range query (chrom, start.unwrap_or(0), end.unwrap_or(len))
//     of the named chromosome -- `start`/`end` are IGNORED without `chrom` (`*_st/start_and_end_count_only_with_chrom`);
//   multi-threaded(reader, out, inmemory, nthreads): every chromosome whole; it has NO restriction parameters;
//   from_bed(reader, out, regions): one range query per line of the regions file.
#[verifier::external_body]
pub fn write_bed_singlethreaded(env: &mut Env, bigbed: BigBedRead, out_file: OutFile, chrom: Option<Str>, start: Option<u32>, end: Option<u32>, zoom: Option<u32>) -> (r: Result<(), AnyErr>)
    ensures final(env).fs() == old(env).fs(),
        final(env).calls() == old(env).calls().push(Call::W(WCall { tool: Tool::BigBedToBed, entry: Entry::SingleThreaded, reader: bigbed.desc(), out: out_file.path(),
            chrom, start, end, zoom, inmemory: false, nthreads: 0, regions: None, ok: r is Ok })),
{ unimplemented!() }
#[verifier::external_body]
pub fn write_bed(env: &mut Env, bigbed: BigBedRead, out_file: OutFile, inmemory: bool, nthreads: usize) -> (r: Result<(), BBIReadError>)
    ensures final(env).fs() == old(env).fs(),
        final(env).calls() == old(env).calls().push(Call::W(WCall { tool: Tool::BigBedToBed, entry: Entry::MultiThreaded, reader: bigbed.desc(), out: out_file.path(),
            chrom: None, start: None, end: None, zoom: None, inmemory, nthreads, regions: None, ok: r is Ok })),
{ unimplemented!() }
#[verifier::external_body]
pub fn write_bed_from_bed(env: &mut Env, bigbed: BigBedRead, out_file: OutFile, bed: InFile) -> (r: Result<(), BBIReadError>)
    ensures final(env).fs() == old(env).fs(),
        final(env).calls() == old(env).calls().push(Call::W(WCall { tool: Tool::BigBedToBed, entry: Entry::FromBed, reader: bigbed.desc(), out: out_file.path(),
            chrom: None, start: None, end: None, zoom: None, inmemory: false, nthreads: 0, regions: Some(bed.path()), ok: r is Ok })),
{ unimplemented!() }
#[verifier::external_body]
pub fn write_bg_singlethreaded(env: &mut Env, bigwig: BigWigRead, out_file: OutFile, chrom: Option<Str>, start: Option<u32>, end: Option<u32>) -> (r: Result<(), BBIReadError>)
    ensures final(env).fs() == old(env).fs(),
        final(env).calls() == old(env).calls().push(Call::W(WCall { tool: Tool::BigWigToBedGraph, entry: Entry::SingleThreaded, reader: bigwig.desc(), out: out_file.path(),
            chrom, start, end, zoom: None, inmemory: false, nthreads: 0, regions: None, ok: r is Ok })),
{ unimplemented!() }
#[verifier::external_body]
pub fn write_bg(env: &mut Env, bigwig: BigWigRead, out_file: OutFile, inmemory: bool, nthreads: usize) -> (r: Result<(), BBIReadError>)
    ensures final(env).fs() == old(env).fs(),
        final(env).calls() == old(env).calls().push(Call::W(WCall { tool: Tool::BigWigToBedGraph, entry: Entry::MultiThreaded, reader: bigwig.desc(), out: out_file.path(),
            chrom: None, start: None, end: None, zoom: None, inmemory, nthreads, regions: None, ok: r is Ok })),
{ unimplemented!() }
#[verifier::external_body]
pub fn write_bg_from_bed(env: &mut Env, bigwig: BigWigRead, out_file: OutFile, bed: InFile) -> (r: Result<(), BBIReadError>)
    ensures final(env).fs() == old(env).fs(),
        final(env).calls() == old(env).calls().push(Call::W(WCall { tool: Tool::BigWigToBedGraph, entry: Entry::FromBed, reader: bigwig.desc(), out: out_file.path(),
            chrom: None, start: None, end: None, zoom: None, inmemory: false, nthreads: 0, regions: Some(bed.path()), ok: r is Ok })),
{ unimplemented!() }

// ---- unit cli_loops: `avg_dispatch` = bigwigaverageoverbed from `let parallel = nthreads > 1;` to the end, and `write`
// of bigwigvaluesoverbed.  Their preconditions speak about the CONTENT of the BED file (not checked by the tools:
// cli_loops `avg/pre_no_inverted_region`, `avg/pre_twice_the_bed_file_size_fits_u64`, `vob/pre_no_inverted_region`);
// here uninterpreted predicates of the path, handed up to the caller.
pub uninterp spec fn bed_has_no_inverted_region(bed: Str) -> bool;
pub uninterp spec fn twice_the_bed_file_size_fits_u64(bed: Str) -> bool;
/// cli_loops / avg_names `name_ok`: `Name::Column(c)` needs c < usize::MAX (the error message computes c + 1)
pub open spec fn name_ok(name: Name) -> bool { name matches Name::Column(c) ==> c < usize::MAX }
/// cli_loops `avg/one_row_per_input_line_in_input_order_for_any_number_of_threads`: Ok ==> the output is the rows of ALL
/// lines of `bedinpath` in input order, each `name_spec(name, line) \t stats_row(statistics of the line's region in
/// inbigwig, add_min_max)`, built by the threaded or the single-threaded copy of the row code -- a function of
/// (bigWig, name, add_min_max, BED file) in which `nthreads` only selects the copy;
/// `avg/an_error_on_any_line_is_returned_no_silent_truncation`; `avg/reader_serves_the_same_file`.
#[verifier::external_body]
pub fn avg_dispatch(env: &mut Env, bedinpath: Str, name: Name, add_min_max: bool, nthreads: usize, inbigwig: &mut BigWigRead, bedoutwriter: &mut OutFile) -> (r: Result<(), AnyErr>)
    requires
        [[L: loops/avg_pre_column_number_below_usize_max]]
        name_ok(name),
        [[L: loops/avg_pre_no_inverted_region]]
        bed_has_no_inverted_region(bedinpath),
        [[L: loops/avg_pre_twice_the_bed_file_size_fits_u64]]
        twice_the_bed_file_size_fits_u64(bedinpath),
    ensures final(env).fs() == old(env).fs(), final(inbigwig).desc() == old(inbigwig).desc(), final(bedoutwriter).path() == old(bedoutwriter).path(),
        final(env).calls() == old(env).calls().push(Call::Avg(AvgCall { bed: bedinpath, name, add_min_max, nthreads, reader: old(inbigwig).desc(),
            out: old(bedoutwriter).path(), ok: r is Ok })),
{ unimplemented!() }
/// cli_loops `vob/rows_are_the_rows_of_the_lines_before_the_first_failing_line_in_input_order`,
/// `vob/one_query_per_line_with_the_lines_own_chrom_start_end`, `vob/a_read_error_or_query_error_is_returned`
#[verifier::external_body]
pub fn write<P: PathArg>(env: &mut Env, bedinpath: P, bigwigin: BigWigRead, out: OutFile, options: Options) -> (r: Result<(), BBIReadError>)
    requires
        [[L: loops/vob_pre_no_inverted_region]]
        bed_has_no_inverted_region(bedinpath.name()),
        // `write` opens the BED file with `File::open(bedinpath).unwrap()`: a missing file PANICS there (cli_loops NOTES,
        // observation 2).  (The real precondition is "can be opened"; the head only tests `exists()`: see NOTES.)
        [[L: loops/vob_pre_bed_file_exists_else_the_row_loop_panics]]
        fs_exists(bedinpath.name()),
    ensures final(env).fs() == old(env).fs(),
        final(env).calls() == old(env).calls().push(Call::Vob(VobCall { bed: bedinpath.name(), reader: bigwigin.desc(), out: out.path(),
            withnames: options.withnames, delimiter: options.delimiter, ok: r is Ok })),
{ unimplemented!() }
/// conditional compilation `#[cfg(feature = "remote")] { A } #[cfg(not(feature = "remote"))] { B }` is read as
/// `if BUILD { A } else { B }` over an unknown build constant (default features: remote ON)
pub uninterp spec fn feature_remote() -> bool;
#[verifier::external_body]
pub fn cfg_feature_remote() -> (r: bool) ensures r == feature_remote(), { unimplemented!() }

// =====================================================================================
// specification vocabulary
// =====================================================================================
/// exactly one more call than before
pub open spec fn one_more(e0: Env, e1: Env) -> bool { e1.calls().len() == e0.calls().len() + 1 && e1.calls().drop_last() =~= e0.calls() }
pub open spec fn lw(e: Env) -> WCall { e.calls().last()->W_0 }
pub open spec fn la(e: Env) -> AvgCall { e.calls().last()->Avg_0 }
pub open spec fn lv(e: Env) -> VobCall { e.calls().last()->Vob_0 }
/// the reader `X::open_file(p)` gives
pub open spec fn file_reader(p: Str) -> ReaderDesc { ReaderDesc { src: p, reopen: p, cached: false, remote: false } }
/// `--start` / `--end` refer to a chromosome: without `--chrom` they are refused
pub open spec fn range_without_chrom(chrom: Option<Str>, start: Option<u32>, end: Option<u32>) -> bool { (start is Some || end is Some) && chrom is None }
/// an interval AND a regions file: refused
pub open spec fn chrom_with_overlap(chrom: Option<Str>, overlap: Option<Str>) -> bool { chrom is Some && overlap is Some }
pub open spec fn overlap_missing(overlap: Option<Str>) -> bool { overlap matches Some(p) && !fs_exists(p) }
pub open spec fn refused(chrom: Option<Str>, start: Option<u32>, end: Option<u32>, overlap: Option<Str>) -> bool {
    range_without_chrom(chrom, start, end) || chrom_with_overlap(chrom, overlap) || overlap_missing(overlap)
}
pub open spec fn overlap_opens(overlap: Option<Str>) -> bool { overlap matches Some(p) ==> fs_can_open(p) }
/// `--namecol`: `interval`, `none`, or a ONE-indexed column number n > 0 (-> 0-based n - 1); absent: the 4th column;
/// 0 or anything that is not a number: refused
pub open spec fn name_of(namecol: Option<Str>) -> Option<Name> {
    match namecol {
        None => Some(Name::Column(3)),
        Some(s) =>
            if s.text() == "interval" { Some(Name::Interval) }
            else if s.text() == "none" { Some(Name::None) }
            else {
                match usize_of(s.text()) {
                    Some(n) => if n > 0 { Some(Name::Column((n - 1) as usize)) } else { None },
                    None => None,
                }
            },
    }
}
/// `--delimiter`: the two characters backslash + t stand for a tab; anything else is taken as it is
pub open spec fn delim_text(s: &str) -> &str { if s == "\\t" { "\t" } else { s } }

// =====================================================================================
// (1) bigbedtobed
// =====================================================================================
//@extract fn bigtools/src/utils/cli/bigbedtobed.rs bigbedtobed
//@rule R16
//@rule R15
//@sub /Box<dyn Error(?:\s*\+\s*\w+)*>/ => AnyErr min=1
//@sub /args: BigBedToBedArgs/ => args: BigBedToBedArgs, env: &mut Env min=1
//@sub /\bFile::open\(/ => env.open( min=0
//@sub /\bFile::create\(/ => env.create( min=0
//@sub /\bBigBedRead::open_file\(/ => env.open_bigbed_file( min=0
//@sub /\b(write_\w+)\(/ => \1(env, min=0
//@sub /(\w+) == ("(?:[^"\\]|\\.)*")/ => \1.eq_lit(\2) min=0
//@sub /\breturn Err\(/ => return ret_err(env, min=0
//@ret r
//@sig
    ensures
        [[L: at_most_one_writer_call_earlier_calls_untouched]]
        final(env).calls() == old(env).calls() || (one_more(*old(env), *final(env)) && final(env).calls().last() is W && lw(*final(env)).tool == Tool::BigBedToBed),
        [[L: exactly_one_writer_call_unless_refused_or_a_file_cannot_be_opened]]
        fs_bigbed_opens(args.big_bed) && fs_can_create(args.bed) && !refused(args.chrom, args.start, args.end, args.overlap_bed) && overlap_opens(args.overlap_bed)
            ==> one_more(*old(env), *final(env)),
        [[L: refusal/start_or_end_without_chrom_calls_no_writer]]
        range_without_chrom(args.chrom, args.start, args.end) ==> final(env).calls() == old(env).calls(),
        [[L: refusal/chrom_together_with_overlap_bed_calls_no_writer]]
        chrom_with_overlap(args.chrom, args.overlap_bed) ==> final(env).calls() == old(env).calls(),
        [[L: refusal/missing_overlap_file_calls_no_writer]]
        overlap_missing(args.overlap_bed) ==> final(env).calls() == old(env).calls(),
        [[L: restrict/start_and_end_never_reach_a_writer_without_the_chromosome_they_refer_to]]
        one_more(*old(env), *final(env)) ==> ((lw(*final(env)).start is Some || lw(*final(env)).end is Some) ==> lw(*final(env)).chrom is Some),
        [[L: restrict/chrom_or_zoom_given_means_the_single_threaded_writer_whatever_the_thread_count]]
        one_more(*old(env), *final(env)) && args.overlap_bed is None && (args.chrom is Some || args.zoom is Some) ==> lw(*final(env)).entry is SingleThreaded,
        [[L: restrict/the_multi_threaded_writer_is_only_used_without_any_restriction]]
        one_more(*old(env), *final(env)) && lw(*final(env)).entry is MultiThreaded
            ==> args.chrom is None && args.start is None && args.end is None && args.zoom is None && args.overlap_bed is None,
        [[L: restrict/single_threaded_writer_gets_exactly_the_users_chrom]]
        one_more(*old(env), *final(env)) && lw(*final(env)).entry is SingleThreaded ==> lw(*final(env)).chrom == args.chrom,
        [[L: restrict/single_threaded_writer_gets_exactly_the_users_start]]
        one_more(*old(env), *final(env)) && lw(*final(env)).entry is SingleThreaded ==> lw(*final(env)).start == args.start,
        [[L: restrict/single_threaded_writer_gets_exactly_the_users_end]]
        one_more(*old(env), *final(env)) && lw(*final(env)).entry is SingleThreaded ==> lw(*final(env)).end == args.end,
        [[L: restrict/single_threaded_writer_gets_exactly_the_users_zoom]]
        one_more(*old(env), *final(env)) && lw(*final(env)).entry is SingleThreaded ==> lw(*final(env)).zoom == args.zoom,
        [[L: threads/multi_threaded_writer_gets_the_users_inmemory_and_nthreads]]
        one_more(*old(env), *final(env)) && lw(*final(env)).entry is MultiThreaded ==> lw(*final(env)).inmemory == args.inmemory && lw(*final(env)).nthreads == args.nthreads,
        [[L: overlap/an_overlap_file_means_the_regions_writer_and_only_then]]
        one_more(*old(env), *final(env)) ==> (lw(*final(env)).entry is FromBed <==> args.overlap_bed is Some),
        [[L: overlap/regions_are_read_from_the_overlap_bed_argument]]
        one_more(*old(env), *final(env)) && lw(*final(env)).entry is FromBed ==> lw(*final(env)).regions == args.overlap_bed,
        [[L: io/reader_is_opened_from_the_first_argument_output_is_created_from_the_second]]
        one_more(*old(env), *final(env)) ==> lw(*final(env)).reader == file_reader(args.big_bed) && lw(*final(env)).out == args.bed,
        [[L: io/input_open_error_is_returned_nothing_created_no_writer_called]]
        !fs_bigbed_opens(args.big_bed) ==> final(env).calls() == old(env).calls()
            && (final(env).fs() == old(env).fs() || final(env).fs() == old(env).fs().push(FsEv::OpenBigBed(args.big_bed)))
            && (!refused(args.chrom, args.start, args.end, args.overlap_bed) ==> r is Err),
        [[L: io/output_create_error_is_returned_no_writer_called]]
        !fs_can_create(args.bed) ==> final(env).calls() == old(env).calls() && (!refused(args.chrom, args.start, args.end, args.overlap_bed) ==> r is Err),
        [[L: io/overlap_open_error_is_returned_no_writer_called]]
        !overlap_opens(args.overlap_bed) ==> final(env).calls() == old(env).calls()
            && (fs_bigbed_opens(args.big_bed) && fs_can_create(args.bed) && !refused(args.chrom, args.start, args.end, args.overlap_bed) ==> r is Err),
        [[L: io/only_the_input_then_the_output_then_the_overlap_file_are_touched]]
        final(env).fs() == old(env).fs()
            || final(env).fs() == old(env).fs().push(FsEv::OpenBigBed(args.big_bed))
            || final(env).fs() == old(env).fs().push(FsEv::OpenBigBed(args.big_bed)).push(FsEv::Create(args.bed))
            || (args.overlap_bed is Some && final(env).fs() == old(env).fs().push(FsEv::OpenBigBed(args.big_bed)).push(FsEv::Create(args.bed)).push(FsEv::Open(args.overlap_bed->Some_0))),
        [[L: result_is_the_writers_result]]
        one_more(*old(env), *final(env)) ==> (r is Ok <==> lw(*final(env)).ok),
        [[L: doc/threads/without_restriction_one_thread_is_the_single_threaded_writer_any_other_count_the_multi_threaded_one]]
        one_more(*old(env), *final(env)) && args.overlap_bed is None && args.chrom is None && args.zoom is None
            ==> (lw(*final(env)).entry is SingleThreaded <==> args.nthreads == 1) && (lw(*final(env)).entry is MultiThreaded <==> args.nthreads != 1),
        [[L: doc/overlap/zoom_is_silently_ignored_with_an_overlap_file]]
        one_more(*old(env), *final(env)) && args.overlap_bed is Some && args.zoom is Some ==> lw(*final(env)).entry is FromBed && lw(*final(env)).zoom is None,
        [[L: doc/refusal/is_a_message_and_Ok_exit_status_0]]
        fs_bigbed_opens(args.big_bed) && fs_can_create(args.bed) && refused(args.chrom, args.start, args.end, args.overlap_bed) ==> r is Ok,
        [[L: doc/refusal/comes_after_the_output_file_was_created_truncated]]
        fs_bigbed_opens(args.big_bed) && refused(args.chrom, args.start, args.end, args.overlap_bed)
            ==> final(env).fs() == old(env).fs().push(FsEv::OpenBigBed(args.big_bed)).push(FsEv::Create(args.bed)),
//@end

// =====================================================================================
// (2) bigwigtobedgraph (no --zoom)
// =====================================================================================
//@extract fn bigtools/src/utils/cli/bigwigtobedgraph.rs bigwigtobedgraph
//@rule R16
//@rule R15
//@sub /Box<dyn Error(?:\s*\+\s*\w+)*>/ => AnyErr min=1
//@sub /args: BigWigToBedGraphArgs/ => args: BigWigToBedGraphArgs, env: &mut Env min=1
//@sub /\bFile::open\(/ => env.open( min=0
//@sub /\bFile::create\(/ => env.create( min=0
//@sub /\bBigWigRead::open_file\(/ => env.open_bigwig_file( min=0
//@sub /\b(write_\w+)\(/ => \1(env, min=0
//@sub /(\w+) == ("(?:[^"\\]|\\.)*")/ => \1.eq_lit(\2) min=0
//@sub /\breturn Err\(/ => return ret_err(env, min=0
//@ret r
//@sig
    ensures
        [[L: at_most_one_writer_call_earlier_calls_untouched]]
        final(env).calls() == old(env).calls() || (one_more(*old(env), *final(env)) && final(env).calls().last() is W && lw(*final(env)).tool == Tool::BigWigToBedGraph),
        [[L: exactly_one_writer_call_unless_refused_or_a_file_cannot_be_opened]]
        fs_bigwig_opens(args.bigwig) && fs_can_create(args.bedgraph) && !refused(args.chrom, args.start, args.end, args.overlap_bed) && overlap_opens(args.overlap_bed)
            ==> one_more(*old(env), *final(env)),
        [[L: refusal/start_or_end_without_chrom_calls_no_writer]]
        range_without_chrom(args.chrom, args.start, args.end) ==> final(env).calls() == old(env).calls(),
        [[L: refusal/chrom_together_with_overlap_bed_calls_no_writer]]
        chrom_with_overlap(args.chrom, args.overlap_bed) ==> final(env).calls() == old(env).calls(),
        [[L: refusal/missing_overlap_file_calls_no_writer]]
        overlap_missing(args.overlap_bed) ==> final(env).calls() == old(env).calls(),
        [[L: restrict/start_and_end_never_reach_a_writer_without_the_chromosome_they_refer_to]]
        one_more(*old(env), *final(env)) ==> ((lw(*final(env)).start is Some || lw(*final(env)).end is Some) ==> lw(*final(env)).chrom is Some),
        [[L: restrict/chrom_given_means_the_single_threaded_writer_whatever_the_thread_count]]
        one_more(*old(env), *final(env)) && args.overlap_bed is None && args.chrom is Some ==> lw(*final(env)).entry is SingleThreaded,
        [[L: restrict/the_multi_threaded_writer_is_only_used_without_any_restriction]]
        one_more(*old(env), *final(env)) && lw(*final(env)).entry is MultiThreaded
            ==> args.chrom is None && args.start is None && args.end is None && args.overlap_bed is None,
        [[L: restrict/single_threaded_writer_gets_exactly_the_users_chrom]]
        one_more(*old(env), *final(env)) && lw(*final(env)).entry is SingleThreaded ==> lw(*final(env)).chrom == args.chrom,
        [[L: restrict/single_threaded_writer_gets_exactly_the_users_start]]
        one_more(*old(env), *final(env)) && lw(*final(env)).entry is SingleThreaded ==> lw(*final(env)).start == args.start,
        [[L: restrict/single_threaded_writer_gets_exactly_the_users_end]]
        one_more(*old(env), *final(env)) && lw(*final(env)).entry is SingleThreaded ==> lw(*final(env)).end == args.end,
        [[L: threads/multi_threaded_writer_gets_the_users_inmemory_and_nthreads]]
        one_more(*old(env), *final(env)) && lw(*final(env)).entry is MultiThreaded ==> lw(*final(env)).inmemory == args.inmemory && lw(*final(env)).nthreads == args.nthreads,
        [[L: overlap/an_overlap_file_means_the_regions_writer_and_only_then]]
        one_more(*old(env), *final(env)) ==> (lw(*final(env)).entry is FromBed <==> args.overlap_bed is Some),
        [[L: overlap/regions_are_read_from_the_overlap_bed_argument]]
        one_more(*old(env), *final(env)) && lw(*final(env)).entry is FromBed ==> lw(*final(env)).regions == args.overlap_bed,
        [[L: io/reader_is_opened_from_the_first_argument_output_is_created_from_the_second]]
        one_more(*old(env), *final(env)) ==> lw(*final(env)).reader == file_reader(args.bigwig) && lw(*final(env)).out == args.bedgraph,
        [[L: io/input_open_error_is_returned_nothing_created_no_writer_called]]
        !fs_bigwig_opens(args.bigwig) ==> final(env).calls() == old(env).calls()
            && (final(env).fs() == old(env).fs() || final(env).fs() == old(env).fs().push(FsEv::OpenBigWig(args.bigwig)))
            && (!refused(args.chrom, args.start, args.end, args.overlap_bed) ==> r is Err),
        [[L: io/output_create_error_is_returned_no_writer_called]]
        !fs_can_create(args.bedgraph) ==> final(env).calls() == old(env).calls() && (!refused(args.chrom, args.start, args.end, args.overlap_bed) ==> r is Err),
        [[L: io/overlap_open_error_is_returned_no_writer_called]]
        !overlap_opens(args.overlap_bed) ==> final(env).calls() == old(env).calls()
            && (fs_bigwig_opens(args.bigwig) && fs_can_create(args.bedgraph) && !refused(args.chrom, args.start, args.end, args.overlap_bed) ==> r is Err),
        [[L: io/only_the_input_then_the_output_then_the_overlap_file_are_touched]]
        final(env).fs() == old(env).fs()
            || final(env).fs() == old(env).fs().push(FsEv::OpenBigWig(args.bigwig))
            || final(env).fs() == old(env).fs().push(FsEv::OpenBigWig(args.bigwig)).push(FsEv::Create(args.bedgraph))
            || (args.overlap_bed is Some && final(env).fs() == old(env).fs().push(FsEv::OpenBigWig(args.bigwig)).push(FsEv::Create(args.bedgraph)).push(FsEv::Open(args.overlap_bed->Some_0))),
        [[L: result_is_the_writers_result]]
        one_more(*old(env), *final(env)) ==> (r is Ok <==> lw(*final(env)).ok),
        [[L: doc/threads/without_restriction_one_thread_is_the_single_threaded_writer_any_other_count_the_multi_threaded_one]]
        one_more(*old(env), *final(env)) && args.overlap_bed is None && args.chrom is None
            ==> (lw(*final(env)).entry is SingleThreaded <==> args.nthreads == 1) && (lw(*final(env)).entry is MultiThreaded <==> args.nthreads != 1),
        [[L: doc/refusal/is_a_message_and_Ok_exit_status_0]]
        fs_bigwig_opens(args.bigwig) && fs_can_create(args.bedgraph) && refused(args.chrom, args.start, args.end, args.overlap_bed) ==> r is Ok,
        [[L: doc/refusal/comes_after_the_output_file_was_created_truncated]]
        fs_bigwig_opens(args.bigwig) && refused(args.chrom, args.start, args.end, args.overlap_bed)
            ==> final(env).fs() == old(env).fs().push(FsEv::OpenBigWig(args.bigwig)).push(FsEv::Create(args.bedgraph)),
//@end

// =====================================================================================
// (3) bigwigaverageoverbed: the head, up to and including `let nthreads: usize = args.nthreads;`.
//     From `let parallel = nthreads > 1;` on the text is unit cli_loops' `avg_dispatch` (its presub
//     `/\A.*?\n(    let parallel = [^\n]*\n.*)\Z/` keeps exactly what the presub below drops); the free variables of
//     that tail are the six arguments of the call that replaces it.
// =====================================================================================
//@extract fn bigtools/src/utils/cli/bigwigaverageoverbed.rs bigwigaverageoverbed
//@rule R16
//@rule R15
//@presub /\blet parallel\b[^;]*;.*\Z/ => return avg_dispatch(env, bedinpath, name, add_min_max, nthreads, &mut inbigwig, &mut bedoutwriter);\n} min=1 count=1
//@sub /Box<dyn Error(?:\s*\+\s*\w+)*>/ => AnyErr min=1
//@sub /args: BigWigAverageOverBedArgs,?/ => args: BigWigAverageOverBedArgs, env: &mut Env min=1
//@sub /\bFile::open\(/ => env.open( min=0
//@sub /\bFile::create\(/ => env.create( min=0
//@sub /\bBigWigRead::open_file\(/ => env.open_bigwig_file( min=0
//@sub /: BufWriter<File>/ => "" min=0
//@sub /((?:\w+\.)*\w+)\.as_deref\(\)/ => opt_as_deref(&\1) min=0
//@sub /(\w+)\.parse::<usize>\(\)/ => parse_usize(\1) min=0
//@sub /\b(\w+) - (\w+)\b/ => sub_usize(\1, \2) min=0
//@sub /(\w+) == ("(?:[^"\\]|\\.)*")/ => \1.eq_lit(\2) min=0
//@sub /\breturn Err\(/ => return ret_err(env, min=0
//@ret r
//@sig
    requires
        [[L: pre_no_inverted_region]]
        bed_has_no_inverted_region(args.bedin),
        [[L: pre_twice_the_bed_file_size_fits_u64]]
        twice_the_bed_file_size_fits_u64(args.bedin),
    ensures
        [[L: at_most_one_run_of_the_row_loops_earlier_calls_untouched]]
        final(env).calls() == old(env).calls() || (one_more(*old(env), *final(env)) && final(env).calls().last() is Avg),
        [[L: rows_are_produced_when_the_files_open_and_namecol_is_valid]]
        fs_can_open(args.bigwig) && holds_bigwig(args.bigwig, false) && fs_can_create(args.output) && name_of(args.namecol) is Some ==> one_more(*old(env), *final(env)),
        [[L: namecol/name_mode_is_interval_none_or_the_one_indexed_column_minus_one_default_fourth_column]]
        one_more(*old(env), *final(env)) ==> name_of(args.namecol) == Some(la(*final(env)).name),
        [[L: namecol/zero_or_a_non_number_is_an_error_and_no_rows_are_produced]]
        name_of(args.namecol) is None ==> r is Err && final(env).calls() == old(env).calls(),
        [[L: min_max_flag_reaches_the_row_loops]]
        one_more(*old(env), *final(env)) ==> la(*final(env)).add_min_max == args.min_max,
        [[L: thread_count_reaches_the_row_loops]]
        one_more(*old(env), *final(env)) ==> la(*final(env)).nthreads == args.nthreads,
        [[L: io/bigwig_is_the_first_argument_also_when_reopened_by_the_worker_threads]]
        one_more(*old(env), *final(env)) ==> la(*final(env)).reader.src == args.bigwig && la(*final(env)).reader.reopen == args.bigwig && !la(*final(env)).reader.remote,
        [[L: io/regions_are_the_second_argument_rows_go_to_the_file_created_from_the_third]]
        one_more(*old(env), *final(env)) ==> la(*final(env)).bed == args.bedin && la(*final(env)).out == args.output,
        [[L: io/bigwig_open_error_is_returned_nothing_created_no_rows]]
        !(fs_can_open(args.bigwig) && holds_bigwig(args.bigwig, false)) ==> r is Err && final(env).calls() == old(env).calls()
            && (final(env).fs() == old(env).fs() || final(env).fs() == old(env).fs().push(FsEv::Open(args.bigwig))),
        [[L: io/output_create_error_is_returned_no_rows]]
        !fs_can_create(args.output) ==> r is Err && final(env).calls() == old(env).calls(),
        [[L: io/only_the_bigwig_then_the_output_are_touched]]
        final(env).fs() == old(env).fs()
            || final(env).fs() == old(env).fs().push(FsEv::Open(args.bigwig))
            || final(env).fs() == old(env).fs().push(FsEv::Open(args.bigwig)).push(FsEv::Create(args.output)),
        [[L: result_is_the_row_loops_result]]
        one_more(*old(env), *final(env)) ==> (r is Ok <==> la(*final(env)).ok),
        [[L: doc/bigwig_is_read_through_the_block_cache]]
        one_more(*old(env), *final(env)) ==> la(*final(env)).reader.cached,
        // the whole call is a function of bigwig, bedin, output, --namecol, --min-max, -t: the declared options
        // --chrom / --start / --end ("If set, restrict output to ...") are never read (NOTES, observation 4)
        [[L: doc/the_declared_restriction_options_chrom_start_end_reach_nothing]]
        one_more(*old(env), *final(env)) ==> la(*final(env)) == (AvgCall { bed: args.bedin, name: name_of(args.namecol)->Some_0, add_min_max: args.min_max,
            nthreads: args.nthreads, reader: ReaderDesc { src: args.bigwig, reopen: args.bigwig, cached: true, remote: false }, out: args.output, ok: r is Ok }),
        [[L: doc/namecol/the_error_comes_after_the_output_file_was_created_truncated]]
        fs_can_open(args.bigwig) && holds_bigwig(args.bigwig, false) && name_of(args.namecol) is None
            ==> final(env).fs() == old(env).fs().push(FsEv::Open(args.bigwig)).push(FsEv::Create(args.output)),
//@end

// =====================================================================================
// (4) bigwigvaluesoverbed (both builds: `remote` on / off)
// =====================================================================================
//@extract fn bigtools/src/utils/cli/bigwigvaluesoverbed.rs bigwigvaluesoverbed
//@rule R16
//@rule R15
//@presub /#\[cfg\(feature = "remote"\)\]\s*\{/ => if cfg_feature_remote() { min=0
//@presub /\}\s*#\[cfg\(not\(feature = "remote"\)\)\]\s*\{/ => } else { min=0
//@sub /[ \t]*use crate::utils::remote_file::RemoteFile;\n/ => "" min=0
//@sub /Box<dyn Error(?:\s*\+\s*\w+)*>/ => AnyErr min=1
//@sub /args: BigWigValuesOverBedArgs/ => args: BigWigValuesOverBedArgs, env: &mut Env min=1
//@sub /\bFile::open\(/ => env.open( min=0
//@sub /\bFile::create\(/ => env.create( min=0
//@sub /\bBigWigRead::open_file\(/ => env.open_bigwig_file( min=0
//@sub /\bwrite\(/ => write(env, min=0
//@sub /\bString::from\(/ => Str::from( min=0
//@sub /(\w+) == ("(?:[^"\\]|\\.)*")/ => \1.eq_lit(\2) min=0
//@sub /\breturn Err\(/ => return ret_err(env, min=0
//@ret r
//@sig
    requires
        [[L: pre_no_inverted_region]]
        bed_has_no_inverted_region(args.bedin),
    ensures
        [[L: at_most_one_run_of_the_row_loop_earlier_calls_untouched]]
        final(env).calls() == old(env).calls() || (one_more(*old(env), *final(env)) && final(env).calls().last() is Vob),
        [[L: rows_are_produced_when_the_files_exist_and_open]]
        fs_exists(args.bedin) && fs_can_create(args.output)
            && (if feature_remote() && has_prefix(args.bigwig.text(), "http") { holds_bigwig(args.bigwig, true) } else { fs_bigwig_opens(args.bigwig) })
            ==> one_more(*old(env), *final(env)),
        [[L: names_flag_reaches_the_row_loop]]
        one_more(*old(env), *final(env)) ==> lv(*final(env)).withnames == args.names,
        [[L: delimiter/backslash_t_means_a_tab_anything_else_is_taken_as_it_is]]
        one_more(*old(env), *final(env)) ==> lv(*final(env)).delimiter.text() == delim_text(args.delimiter.text()),
        [[L: io/bigwig_is_the_first_argument_regions_the_second_rows_go_to_the_file_created_from_the_third]]
        one_more(*old(env), *final(env)) ==> lv(*final(env)).reader.src == args.bigwig && lv(*final(env)).bed == args.bedin && lv(*final(env)).out == args.output,
        [[L: io/output_create_error_is_returned_no_rows]]
        fs_exists(args.bedin) && !fs_can_create(args.output) ==> r is Err && final(env).calls() == old(env).calls(),
        [[L: io/bigwig_open_error_is_returned_no_rows]]
        fs_exists(args.bedin) && !(if feature_remote() && has_prefix(args.bigwig.text(), "http") { holds_bigwig(args.bigwig, true) } else { fs_bigwig_opens(args.bigwig) })
            ==> r is Err && final(env).calls() == old(env).calls(),
        [[L: io/only_the_output_then_the_bigwig_are_touched]]
        final(env).fs() == old(env).fs()
            || final(env).fs() == old(env).fs().push(FsEv::Create(args.output))
            || final(env).fs() == old(env).fs().push(FsEv::Create(args.output)).push(FsEv::OpenBigWig(args.bigwig)),
        [[L: result_is_the_row_loops_result]]
        one_more(*old(env), *final(env)) ==> (r is Ok <==> lv(*final(env)).ok),
        [[L: doc/missing_bed_file_is_a_message_and_Ok_nothing_created_no_rows]]
        !fs_exists(args.bedin) ==> r is Ok && final(env).calls() == old(env).calls() && final(env).fs() == old(env).fs(),
        [[L: doc/bigwig_open_error_comes_after_the_output_file_was_created_truncated]]
        fs_exists(args.bedin) && fs_can_create(args.output) && !feature_remote() && !fs_bigwig_opens(args.bigwig)
            ==> final(env).fs() == old(env).fs().push(FsEv::Create(args.output)).push(FsEv::OpenBigWig(args.bigwig)),
        [[L: doc/local_bigwig_is_read_through_the_block_cache]]
        one_more(*old(env), *final(env)) && !lv(*final(env)).reader.remote ==> lv(*final(env)).reader.cached,
        [[L: doc/remote/with_feature_remote_a_first_argument_starting_with_http_is_fetched_as_url_uncached]]
        one_more(*old(env), *final(env)) ==> (lv(*final(env)).reader.remote <==> feature_remote() && has_prefix(args.bigwig.text(), "http"))
            && (lv(*final(env)).reader.remote ==> !lv(*final(env)).reader.cached),
//@end

} // verus!
fn main() {}
