// bbiread::compare_position, overlaps, nodes_overlapping: the per-node filter of the R-tree search.
// Property (C05): "finds every block whose span intersects the query and returns the blocks in
// file order" -- per node: output == order-preserving filter of the node's items by `overlaps`;
// leaf items become blocks (offset, size) unchanged.  (C04): a data interval that lies inside a
// span and intersects the query makes `overlaps` true at that span and at every covering span.
use vstd::prelude::*;
verus! {

#[derive(Copy, Clone)]
pub struct Block {
    pub offset: u64,
    pub size: u64,
}
#[derive(Copy, Clone)]
pub struct CirTreeNodeLeaf {
    start_chrom_ix: u32,
    start_base: u32,
    end_chrom_ix: u32,
    end_base: u32,
    data_offset: u64,
    data_size: u64,
}
#[derive(Copy, Clone)]
pub struct CirTreeNodeNonLeaf {
    start_chrom_ix: u32,
    start_base: u32,
    end_chrom_ix: u32,
    end_base: u32,
    node_offset: u64,
}
// ---------------- specification vocabulary shared by rt_nodes and rt_search ----------------
// Written from the property texts (C05: "finds every block whose span intersects the query and
// returns the blocks in file order"; C04: "every stored entry whose span overlaps the range").
// Included AFTER the extracted structs CirTreeNodeLeaf, CirTreeNodeNonLeaf, Block.

/// strict lexicographic order on (chromosome index, base)
spec fn pos_lt(a: (u32, u32), b: (u32, u32)) -> bool {
    a.0 < b.0 || (a.0 == b.0 && a.1 < b.1)
}
/// non-strict lexicographic order on (chromosome index, base)
spec fn pos_le(a: (u32, u32), b: (u32, u32)) -> bool {
    a.0 < b.0 || (a.0 == b.0 && a.1 <= b.1)
}
/// A span is the closed range of positions from (b1, b1s) to (b2, b2e) in (chrom, base) order; the
/// query is chromosome q, bases [qs, qe].  They intersect iff neither lies wholly before the other.
spec fn overlaps_spec(q: u32, qs: u32, qe: u32, b1: u32, b1s: u32, b2: u32, b2e: u32) -> bool {
    pos_le((q, qs), (b2, b2e)) && pos_le((b1, b1s), (q, qe))
}
spec fn leaf_hit(c: CirTreeNodeLeaf, q: u32, qs: u32, qe: u32) -> bool {
    overlaps_spec(q, qs, qe, c.start_chrom_ix, c.start_base, c.end_chrom_ix, c.end_base)
}
spec fn nonleaf_hit(c: CirTreeNodeNonLeaf, q: u32, qs: u32, qe: u32) -> bool {
    overlaps_spec(q, qs, qe, c.start_chrom_ix, c.start_base, c.end_chrom_ix, c.end_base)
}
spec fn leaf_block(c: CirTreeNodeLeaf) -> Block {
    Block { offset: c.data_offset, size: c.data_size }
}
/// order-preserving filter+map of the first n leaf items: the blocks (offset, size) of the items
/// whose span intersects the query, in stored order
spec fn filter_blocks(items: Seq<CirTreeNodeLeaf>, q: u32, qs: u32, qe: u32, n: int) -> Seq<Block>
    decreases n
{
    if n <= 0 { Seq::empty() }
    else {
        let prev = filter_blocks(items, q, qs, qe, n - 1);
        if leaf_hit(items[n - 1], q, qs, qe) { prev.push(leaf_block(items[n - 1])) } else { prev }
    }
}
/// order-preserving filter+map of the first n non-leaf items: the child node offsets of the items
/// whose span intersects the query, in stored order
spec fn filter_children(items: Seq<CirTreeNodeNonLeaf>, q: u32, qs: u32, qe: u32, n: int) -> Seq<u64>
    decreases n
{
    if n <= 0 { Seq::empty() }
    else {
        let prev = filter_children(items, q, qs, qe, n - 1);
        if nonleaf_hit(items[n - 1], q, qs, qe) { prev.push(items[n - 1].node_offset) } else { prev }
    }
}

// ---- shared by rt_nodes and rt_search (included): CirTreeNodeIterator, compare_position, overlaps,
// ---- nodes_overlapping with their contracts.  Needs spec.rs and the three structs before it.
// iterator -> Vec: the two generic parameters lose their `Iterator` bound and default; the unit
// instantiates them with Vec<CirTreeNodeLeaf> / Vec<CirTreeNodeNonLeaf> (drops laziness only).
pub enum CirTreeNodeIterator<
    L,
    N,
> {
    Leaf(L),
    NonLeaf(N),
}

// std methods a "branchless" rewrite of compare_position reaches for (0 hits on /repo), with their REAL
// contracts, so that such an edit is judged by the labels below instead of being refused by the front end:
// `iN::signum` = -1 / 0 / 1 by sign (total, no overflow); `u32::wrapping_sub` has a vstd specification
// (difference mod 2^32); `X.wrapping_sub(Y) as i32` is the two's-complement reinterpretation of the u32
// (Verus leaves an out-of-range exec cast unspecified, so the cast is routed through `u32_as_i32`).
pub assume_specification[i8::signum](x: i8) -> (r: i8)
    ensures r == (if x > 0 { 1i8 } else if x < 0 { -1i8 } else { 0i8 });
pub assume_specification[i32::signum](x: i32) -> (r: i32)
    ensures r == (if x > 0 { 1i32 } else if x < 0 { -1i32 } else { 0i32 });
pub assume_specification[i64::signum](x: i64) -> (r: i64)
    ensures r == (if x > 0 { 1i64 } else if x < 0 { -1i64 } else { 0i64 });
/// `x as i32` for `x: u32` (Rust reference: integer casts between same-size types are a no-op on the bits)
#[verifier::external_body]
fn u32_as_i32(x: u32) -> (r: i32)
    ensures r as int == (if x < 0x8000_0000u32 { x as int } else { x as int - 0x1_0000_0000 }),
{ x as i32 }

fn compare_position(chrom1: u32, chrom1_base: u32, chrom2: u32, chrom2_base: u32) -> (r: i8)
    ensures
        
        r == -1 || r == 0 || r == 1,
        
        r == -1 <==> pos_lt((chrom1, chrom1_base), (chrom2, chrom2_base)),
        
        r == 0 <==> (chrom1 == chrom2 && chrom1_base == chrom2_base),
        
        r == 1 <==> pos_lt((chrom2, chrom2_base), (chrom1, chrom1_base)),
{
    if chrom1 < chrom2 {
        -1
    } else if chrom1 > chrom2 {
        1
    } else if chrom1_base < chrom2_base {
        -1
    } else if chrom1_base > chrom2_base {
        1
    } else {
        0
    }
}

fn overlaps(
    chromq: u32,
    chromq_start: u32,
    chromq_end: u32,
    chromb1: u32,
    chromb1_start: u32,
    chromb2: u32,
    chromb2_end: u32,
) -> (r: bool)
    ensures
        
        r == overlaps_spec(chromq, chromq_start, chromq_end, chromb1, chromb1_start, chromb2, chromb2_end),
{
    compare_position(chromq, chromq_start, chromb2, chromb2_end) <= 0
        && compare_position(chromq, chromq_end, chromb1, chromb1_start) >= 0
}

// nodes_overlapping: iterator parameters -> Vec (R11, drops laziness only); SmallVec<[T; 4]> -> Vec<T>,
// smallvec![] -> Vec::new(); `for child in iter` -> index loop (R7).
fn nodes_overlapping(
    iter: CirTreeNodeIterator<Vec<CirTreeNodeLeaf>, Vec<CirTreeNodeNonLeaf>>,
    chrom_ix: u32,
    start: u32,
    end: u32,
) -> (r: (Vec<u64>, Vec<Block>))
    ensures
        
        iter matches CirTreeNodeIterator::Leaf(items) ==>
            r.1@ == filter_blocks(items@, chrom_ix, start, end, items@.len() as int),
        
        iter matches CirTreeNodeIterator::Leaf(items) ==> r.0@.len() == 0,
        
        iter matches CirTreeNodeIterator::NonLeaf(items) ==>
            r.0@ == filter_children(items@, chrom_ix, start, end, items@.len() as int),
        
        iter matches CirTreeNodeIterator::NonLeaf(items) ==> r.1@.len() == 0,
{
    match iter {
        CirTreeNodeIterator::Leaf(iter) => {
            let mut blocks: Vec<_> = Vec::new();
            for i__1 in 0..iter.len() 
                invariant
                    
                    blocks@ == filter_blocks(iter@, chrom_ix, start, end, i__1 as int),
                decreases
                    
                    iter.len() - i__1,
{ let child = &iter[i__1];
                let block_overlaps = overlaps(
                    chrom_ix,
                    start,
                    end,
                    child.start_chrom_ix,
                    child.start_base,
                    child.end_chrom_ix,
                    child.end_base,
                );
                if block_overlaps {
                    blocks.push(Block {
                        offset: child.data_offset,
                        size: child.data_size,
                    });
                }
            }
            (Vec::new(), blocks)
        }
        CirTreeNodeIterator::NonLeaf(iter) => {
            let mut new_childblocks: Vec<_> = Vec::new();
            for i__2 in 0..iter.len() 
                invariant
                    
                    new_childblocks@ == filter_children(iter@, chrom_ix, start, end, i__2 as int),
                decreases
                    
                    iter.len() - i__2,
{ let child = &iter[i__2];
                let block_overlaps = overlaps(
                    chrom_ix,
                    start,
                    end,
                    child.start_chrom_ix,
                    child.start_base,
                    child.end_chrom_ix,
                    child.end_base,
                );
                if block_overlaps {
                    new_childblocks.push(child.node_offset);
                }
            }
            (new_childblocks, Vec::new())
        }
    }
}

// ---------------- lemmas (C04 / C05 completeness and soundness arguments) ----------------
/// pos_le / pos_lt form a total order (used by the nesting lemma and by callers)
proof fn lemma_pos_order(a: (u32, u32), b: (u32, u32), c: (u32, u32))
    ensures
        
        pos_le(a, a),
        pos_le(a, b) || pos_le(b, a),
        pos_le(a, b) && pos_le(b, a) ==> a == b,
        pos_le(a, b) && pos_le(b, c) ==> pos_le(a, c),
        pos_lt(a, b) <==> !pos_le(b, a),
        pos_le(a, b) <==> (pos_lt(a, b) || a == b),
{
}
/// C04 `bb_no_miss`, first step: a non-empty half-open data interval [s,e) on chromosome c that lies
/// inside a span and intersects the half-open query [qs,qe) on c makes `overlaps` true for the span.
proof fn lemma_data_in_span_overlaps(c: u32, s: u32, e: u32, qs: u32, qe: u32, c1: u32, s1: u32, c2: u32, e2: u32)
    requires
        s < e,
        pos_le((c1, s1), (c, s)),
        pos_le((c, e), (c2, e2)),
        s < qe && e > qs,
    ensures
        
        overlaps_spec(c, qs, qe, c1, s1, c2, e2),
{
}
/// nesting: if span A covers span B and the query intersects B, it intersects A
/// (so a block that must be returned is reachable through every covering ancestor).
proof fn lemma_overlaps_nesting(q: u32, qs: u32, qe: u32, a1: u32, a1s: u32, a2: u32, a2e: u32, b1: u32, b1s: u32, b2: u32, b2e: u32)
    requires
        pos_le((a1, a1s), (b1, b1s)),
        pos_le((b2, b2e), (a2, a2e)),
        overlaps_spec(q, qs, qe, b1, b1s, b2, b2e),
    ensures
        
        overlaps_spec(q, qs, qe, a1, a1s, a2, a2e),
{
}
/// soundness reading of `overlaps`: when it is false the span lies wholly before or wholly after
/// the query (so nothing inside the span can intersect the query)
proof fn lemma_not_overlaps_disjoint(q: u32, qs: u32, qe: u32, b1: u32, b1s: u32, b2: u32, b2e: u32)
    ensures
        
        !overlaps_spec(q, qs, qe, b1, b1s, b2, b2e) <==> (pos_lt((b2, b2e), (q, qs)) || pos_lt((q, qe), (b1, b1s))),
{
}
/// `filter_blocks` is the standard library's filter-then-map
proof fn lemma_filter_blocks_is_filter_map(items: Seq<CirTreeNodeLeaf>, q: u32, qs: u32, qe: u32, n: int)
    requires 0 <= n <= items.len(),
    ensures
        filter_blocks(items, q, qs, qe, n)
            == items.take(n).filter(|c: CirTreeNodeLeaf| leaf_hit(c, q, qs, qe)).map_values(|c: CirTreeNodeLeaf| leaf_block(c)),
    decreases n,
{
    let p = |c: CirTreeNodeLeaf| leaf_hit(c, q, qs, qe);
    let f = |c: CirTreeNodeLeaf| leaf_block(c);
    reveal(Seq::filter);
    if n > 0 {
        lemma_filter_blocks_is_filter_map(items, q, qs, qe, n - 1);
        assert(items.take(n).drop_last() =~= items.take(n - 1));
        assert(items.take(n).last() == items[n - 1]);
        let rest = items.take(n - 1).filter(p);
        if leaf_hit(items[n - 1], q, qs, qe) {
            assert(items.take(n).filter(p) == rest.push(items[n - 1]));
            assert(rest.push(items[n - 1]).map_values(f) =~= rest.map_values(f).push(leaf_block(items[n - 1])));
        } else {
            assert(items.take(n).filter(p) == rest);
        }
    } else {
        assert(items.take(0).filter(p) =~= Seq::<CirTreeNodeLeaf>::empty());
        assert(Seq::<CirTreeNodeLeaf>::empty().map_values(f) =~= Seq::<Block>::empty());
    }
}
proof fn lemma_filter_children_is_filter_map(items: Seq<CirTreeNodeNonLeaf>, q: u32, qs: u32, qe: u32, n: int)
    requires 0 <= n <= items.len(),
    ensures
        filter_children(items, q, qs, qe, n)
            == items.take(n).filter(|c: CirTreeNodeNonLeaf| nonleaf_hit(c, q, qs, qe)).map_values(|c: CirTreeNodeNonLeaf| c.node_offset),
    decreases n,
{
    let p = |c: CirTreeNodeNonLeaf| nonleaf_hit(c, q, qs, qe);
    let f = |c: CirTreeNodeNonLeaf| c.node_offset;
    reveal(Seq::filter);
    if n > 0 {
        lemma_filter_children_is_filter_map(items, q, qs, qe, n - 1);
        assert(items.take(n).drop_last() =~= items.take(n - 1));
        assert(items.take(n).last() == items[n - 1]);
        let rest = items.take(n - 1).filter(p);
        if nonleaf_hit(items[n - 1], q, qs, qe) {
            assert(items.take(n).filter(p) == rest.push(items[n - 1]));
            assert(rest.push(items[n - 1]).map_values(f) =~= rest.map_values(f).push(items[n - 1].node_offset));
        } else {
            assert(items.take(n).filter(p) == rest);
        }
    } else {
        assert(items.take(0).filter(p) =~= Seq::<CirTreeNodeNonLeaf>::empty());
        assert(Seq::<CirTreeNodeNonLeaf>::empty().map_values(f) =~= Seq::<u64>::empty());
    }
}

// the result, restated with the standard library's filter/map (what the task statement calls
// `items.filter(overlaps).map(block)`), as a corollary of the contract above
proof fn corollary_filter_map(items: Seq<CirTreeNodeLeaf>, kids: Seq<CirTreeNodeNonLeaf>, q: u32, qs: u32, qe: u32)
    ensures
        
        filter_blocks(items, q, qs, qe, items.len() as int)
            == items.filter(|c: CirTreeNodeLeaf| leaf_hit(c, q, qs, qe)).map_values(|c: CirTreeNodeLeaf| leaf_block(c)),
        
        filter_children(kids, q, qs, qe, kids.len() as int)
            == kids.filter(|c: CirTreeNodeNonLeaf| nonleaf_hit(c, q, qs, qe)).map_values(|c: CirTreeNodeNonLeaf| c.node_offset),
{
    lemma_filter_blocks_is_filter_map(items, q, qs, qe, items.len() as int);
    lemma_filter_children_is_filter_map(kids, q, qs, qe, kids.len() as int);
    assert(items.take(items.len() as int) =~= items);
    assert(kids.take(kids.len() as int) =~= kids);
}

} // verus!
fn main() {}

