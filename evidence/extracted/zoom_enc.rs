// bbiwrite::encode_zoom_section: a batch of zoom records -> one on-disk zoom block.
// C07/C08/C09: block bytes == published zoom-record layout (32 bytes per record), block span
// covers every record in it, one chromosome, advertised uncompressed size == real size.
// Round 6 (this unit has no NOTES.md): the template does not depend on the `(out_bytes, size)` tuple any more -- the
// type shim `(bytes, 0)` -> `(bytes.bytes, 0)` is min=0 with a twin for a bare `} else { bytes }`, the proof splice
// anchors on `let .. = if compress {`, the libdeflater cluster accepts `truncate(actual_sz)` for `resize(actual_sz, 0)`.
// The "tidied" `let uncompressed_buf_size = bytes.len(); let out_bytes = if compress {..} else { bytes };` is judged:
// VIOLATION advertised_uncompressed_size (0 iff not compressed); it used to end as "anchor lost".
// Mutation sweep follow-up: `Vec::with_capacity(EXPR)` accepts any arithmetic over literals and `items_in_section.len()`
// (`+`/`*` only: pure hint, dropped, stays OK; with `-`: `assert((EXPR over int) >= 0)` is added, the code's own overflow/
// capacity panic; `/`, calls, other names: not guessed, exit 2); `(bytes, N)` keeps its literal: `(bytes, 1)` is VIOLATION
// advertised_uncompressed_size.
use vstd::prelude::*;
use vstd::std_specs::ops::*;
use vstd::std_specs::convert::FromSpec;
verus! {
// ---- shared float prelude -------------------------------------------------
// Rust float operators are total; Verus models their results as uninterpreted
// functions (`add_spec`, `mul_spec`, `from_spec`, ...).  The axioms below say
// only (1) the operators have no precondition and (2) the exec operator returns
// the value of its spec function (determinism).  Nothing numerical is assumed.
mod float_ax {
use vstd::prelude::*;
use vstd::std_specs::ops::*;
use vstd::std_specs::convert::FromSpec;
pub broadcast axiom fn ax_f64_mul_total(a: f64, b: f64) ensures #[trigger] a.mul_req(b);
pub broadcast axiom fn ax_f64_add_total(a: f64, b: f64) ensures #[trigger] a.add_req(b);
pub broadcast axiom fn ax_f64_sub_total(a: f64, b: f64) ensures #[trigger] a.sub_req(b);
pub broadcast axiom fn ax_f64_div_total(a: f64, b: f64) ensures #[trigger] a.div_req(b);
pub broadcast axiom fn ax_f32_add_total(a: f32, b: f32) ensures #[trigger] a.add_req(b);
pub broadcast axiom fn ax_f32_sub_total(a: f32, b: f32) ensures #[trigger] a.sub_req(b);
pub broadcast group float_total { ax_f64_mul_total, ax_f64_add_total, ax_f64_sub_total, ax_f64_div_total, ax_f32_add_total, ax_f32_sub_total }
pub axiom fn float_det()
    ensures
        <f64 as AddSpec<f64>>::obeys_add_spec(), <f64 as MulSpec<f64>>::obeys_mul_spec(),
        <f64 as SubSpec<f64>>::obeys_sub_spec(), <f64 as DivSpec<f64>>::obeys_div_spec(),
        <f32 as AddSpec<f32>>::obeys_add_spec(), <f32 as SubSpec<f32>>::obeys_sub_spec(),
        <f64 as FromSpec<u32>>::obeys_from_spec(), <f64 as FromSpec<f32>>::obeys_from_spec();
}
broadcast use float_ax::float_total;
pub uninterp spec fn fmin(a: f64, b: f64) -> f64;
pub uninterp spec fn fmax(a: f64, b: f64) -> f64;
pub assume_specification [f64::min] (a: f64, b: f64) -> (r: f64) ensures r == fmin(a, b);
pub assume_specification [f64::max] (a: f64, b: f64) -> (r: f64) ensures r == fmax(a, b);
// float constants (rule R12c): Verus has no model of core::f64 associated consts; each is an
// uninterpreted spec constant, distinct names so that swapping two of them is visible.
pub uninterp spec fn spec_f64_max() -> f64;
pub uninterp spec fn spec_f64_min() -> f64;
pub uninterp spec fn spec_f64_min_positive() -> f64;
pub uninterp spec fn spec_f64_nan() -> f64;
pub uninterp spec fn spec_f64_infinity() -> f64;
pub uninterp spec fn spec_f64_neg_infinity() -> f64;
pub uninterp spec fn spec_f64_epsilon() -> f64;
#[verifier::external_body] pub fn fconst_f64_max() -> (r: f64) ensures r == spec_f64_max() { f64::MAX }
#[verifier::external_body] pub fn fconst_f64_min() -> (r: f64) ensures r == spec_f64_min() { f64::MIN }
#[verifier::external_body] pub fn fconst_f64_min_positive() -> (r: f64) ensures r == spec_f64_min_positive() { f64::MIN_POSITIVE }
#[verifier::external_body] pub fn fconst_f64_nan() -> (r: f64) ensures r == spec_f64_nan() { f64::NAN }
#[verifier::external_body] pub fn fconst_f64_infinity() -> (r: f64) ensures r == spec_f64_infinity() { f64::INFINITY }
#[verifier::external_body] pub fn fconst_f64_neg_infinity() -> (r: f64) ensures r == spec_f64_neg_infinity() { f64::NEG_INFINITY }
#[verifier::external_body] pub fn fconst_f64_epsilon() -> (r: f64) ensures r == spec_f64_epsilon() { f64::EPSILON }
// ---- shared byte-level prelude ---------------------------------------------
// Format vocabulary written from the published BBI layout (Kent et al. 2010),
// as arithmetic on byte values - not as calls to from_le_bytes/to_le_bytes.
/// k-th base-256 digit of x (opaque: the div/mod arithmetic is only unfolded inside the codec lemmas)
#[verifier::opaque]
pub open spec fn byte_of(x: int, k: int) -> u8 {
    if k == 0 { (x % 256) as u8 } else if k == 1 { (x / 256 % 256) as u8 } else if k == 2 { (x / 65536 % 256) as u8 }
    else if k == 3 { (x / 16777216 % 256) as u8 } else if k == 4 { (x / 4294967296 % 256) as u8 }
    else if k == 5 { (x / 1099511627776 % 256) as u8 } else if k == 6 { (x / 281474976710656 % 256) as u8 }
    else { (x / 72057594037927936 % 256) as u8 }
}
pub open spec fn le16(x: u16) -> Seq<u8> { seq![byte_of(x as int, 0), byte_of(x as int, 1)] }
pub open spec fn le32(x: u32) -> Seq<u8> { seq![byte_of(x as int, 0), byte_of(x as int, 1), byte_of(x as int, 2), byte_of(x as int, 3)] }
pub open spec fn le64(x: u64) -> Seq<u8> {
    seq![byte_of(x as int, 0), byte_of(x as int, 1), byte_of(x as int, 2), byte_of(x as int, 3),
         byte_of(x as int, 4), byte_of(x as int, 5), byte_of(x as int, 6), byte_of(x as int, 7)]
}
pub open spec fn be16(x: u16) -> Seq<u8> { seq![byte_of(x as int, 1), byte_of(x as int, 0)] }
pub open spec fn be32(x: u32) -> Seq<u8> { seq![byte_of(x as int, 3), byte_of(x as int, 2), byte_of(x as int, 1), byte_of(x as int, 0)] }
pub open spec fn be64(x: u64) -> Seq<u8> {
    seq![byte_of(x as int, 7), byte_of(x as int, 6), byte_of(x as int, 5), byte_of(x as int, 4),
         byte_of(x as int, 3), byte_of(x as int, 2), byte_of(x as int, 1), byte_of(x as int, 0)]
}
// decode: value of the little-/big-endian integer stored at s[i..]
pub open spec fn dle16(s: Seq<u8>, i: int) -> int { s[i] as int + 256 * (s[i + 1] as int) }
pub open spec fn dle32(s: Seq<u8>, i: int) -> int {
    s[i] as int + 256 * (s[i + 1] as int) + 65536 * (s[i + 2] as int) + 16777216 * (s[i + 3] as int)
}
pub open spec fn dle64(s: Seq<u8>, i: int) -> int { dle32(s, i) + 4294967296 * dle32(s, i + 4) }
pub open spec fn dbe16(s: Seq<u8>, i: int) -> int { 256 * (s[i] as int) + s[i + 1] as int }
pub open spec fn dbe32(s: Seq<u8>, i: int) -> int {
    16777216 * (s[i] as int) + 65536 * (s[i + 1] as int) + 256 * (s[i + 2] as int) + s[i + 3] as int
}
pub open spec fn dbe64(s: Seq<u8>, i: int) -> int { 4294967296 * dbe32(s, i) + dbe32(s, i + 4) }
/// integer at s[i..] in byte order `big`
pub open spec fn d16(big: bool, s: Seq<u8>, i: int) -> int { if big { dbe16(s, i) } else { dle16(s, i) } }
pub open spec fn d32(big: bool, s: Seq<u8>, i: int) -> int { if big { dbe32(s, i) } else { dle32(s, i) } }
pub open spec fn d64(big: bool, s: Seq<u8>, i: int) -> int { if big { dbe64(s, i) } else { dle64(s, i) } }
pub open spec fn e16(big: bool, x: u16) -> Seq<u8> { if big { be16(x) } else { le16(x) } }
pub open spec fn e32(big: bool, x: u32) -> Seq<u8> { if big { be32(x) } else { le32(x) } }
pub open spec fn e64(big: bool, x: u64) -> Seq<u8> { if big { be64(x) } else { le64(x) } }

// Floats on disk: IEEE bit patterns.  `to_bits`/`from_bits` are uninterpreted; the only
// assumed fact is that they are inverse (true of Rust's f32::to_bits/from_bits bit-for-bit).
pub uninterp spec fn f32_bits(x: f32) -> u32;
pub uninterp spec fn f32_of_bits(b: u32) -> f32;
pub uninterp spec fn f64_bits(x: f64) -> u64;
pub uninterp spec fn f64_of_bits(b: u64) -> f64;
pub broadcast axiom fn ax_f32_bits_inv(x: f32) ensures #[trigger] f32_of_bits(f32_bits(x)) == x;
pub broadcast axiom fn ax_f64_bits_inv(x: f64) ensures #[trigger] f64_of_bits(f64_bits(x)) == x;

#[verifier::external_body]
#[derive(Debug)]
pub struct IoError { _p: u8 }

#[verifier::external_body]
pub fn vpanic() -> !
    requires false
{ panic!() }

// ---- Sink: append-only in-memory writer (`Vec<u8>` used through byteorder::WriteBytesExt / io::Write).
// Assumed contracts: NativeEndian == LittleEndian (x86-64 / aarch64 targets); writes to a Vec never
// fail, the io::Result plumbing is kept so that `?` in the code typechecks.
pub struct Sink { pub bytes: Vec<u8> }
impl Sink {
    pub open spec fn view(&self) -> Seq<u8> { self.bytes@ }
    #[verifier::external_body]
    pub fn with_capacity(n: usize) -> (r: Sink) ensures r@.len() == 0 { Sink { bytes: Vec::with_capacity(n) } }
    pub fn len(&self) -> (r: usize) ensures r == self@.len() { self.bytes.len() }
    #[verifier::external_body]
    pub fn put_u8(&mut self, v: u8) -> (r: Result<(), IoError>)
        ensures r.is_ok(), final(self)@ == old(self)@.push(v) { unimplemented!() }
    #[verifier::external_body]
    pub fn put_u16(&mut self, v: u16) -> (r: Result<(), IoError>)
        ensures r.is_ok(), final(self)@ == old(self)@ + le16(v) { unimplemented!() }
    #[verifier::external_body]
    pub fn put_u32(&mut self, v: u32) -> (r: Result<(), IoError>)
        ensures r.is_ok(), final(self)@ == old(self)@ + le32(v) { unimplemented!() }
    #[verifier::external_body]
    pub fn put_u64(&mut self, v: u64) -> (r: Result<(), IoError>)
        ensures r.is_ok(), final(self)@ == old(self)@ + le64(v) { unimplemented!() }
    #[verifier::external_body]
    pub fn put_f32(&mut self, v: f32) -> (r: Result<(), IoError>)
        ensures r.is_ok(), final(self)@ == old(self)@ + le32(f32_bits(v)) { unimplemented!() }
    #[verifier::external_body]
    pub fn put_f64(&mut self, v: f64) -> (r: Result<(), IoError>)
        ensures r.is_ok(), final(self)@ == old(self)@ + le64(f64_bits(v)) { unimplemented!() }
    #[verifier::external_body]
    pub fn put_bytes(&mut self, b: &[u8]) -> (r: Result<(), IoError>)
        ensures r.is_ok(), final(self)@ == old(self)@ + b@ { unimplemented!() }
}

// ---- FSink: seekable destination (`BufWriter<W: Write + Seek>`).  Ghost image `data()` and
// position `pos()`.  A put at `pos` overwrites/extends the image; any operation may fail, in
// which case nothing is promised about the image (callers must propagate the error).
#[verifier::external_body]
pub struct FSink { _p: u8 }
pub open spec fn splice(d: Seq<u8>, at: int, b: Seq<u8>) -> Seq<u8>
    recommends 0 <= at <= d.len()
{
    if at + b.len() >= d.len() { d.subrange(0, at) + b } else { d.subrange(0, at) + b + d.subrange(at + b.len(), d.len() as int) }
}
impl FSink {
    pub uninterp spec fn data(&self) -> Seq<u8>;
    pub uninterp spec fn pos(&self) -> int;
    pub open spec fn wf(&self) -> bool { 0 <= self.pos() <= self.data().len() }
    #[verifier::external_body]
    pub fn tell(&mut self) -> (r: Result<u64, IoError>)
        requires old(self).wf(), old(self).pos() <= u64::MAX
        ensures final(self).data() == old(self).data(), final(self).pos() == old(self).pos(), r.is_ok() ==> r.unwrap() == old(self).pos()
    { unimplemented!() }
    #[verifier::external_body]
    pub fn seek_start(&mut self, p: u64) -> (r: Result<u64, IoError>)
        requires old(self).wf(), p <= old(self).data().len()
        ensures final(self).data() == old(self).data(), r.is_ok() ==> (final(self).pos() == p && r.unwrap() == p), final(self).wf()
    { unimplemented!() }
    #[verifier::external_body]
    pub fn seek_end0(&mut self) -> (r: Result<u64, IoError>)
        requires old(self).wf()
        ensures final(self).data() == old(self).data(), r.is_ok() ==> (final(self).pos() == old(self).data().len() && r.unwrap() == old(self).data().len()), final(self).wf()
    { unimplemented!() }
    #[verifier::external_body]
    pub fn put(&mut self, b: &[u8]) -> (r: Result<(), IoError>)
        requires old(self).wf()
        ensures r.is_ok() ==> (final(self).data() == splice(old(self).data(), old(self).pos(), b@) && final(self).pos() == old(self).pos() + b@.len()), final(self).wf()
    { unimplemented!() }
    #[verifier::external_body]
    pub fn put_u8(&mut self, v: u8) -> (r: Result<(), IoError>)
        requires old(self).wf()
        ensures r.is_ok() ==> (final(self).data() == splice(old(self).data(), old(self).pos(), seq![v]) && final(self).pos() == old(self).pos() + 1), final(self).wf()
    { unimplemented!() }
    #[verifier::external_body]
    pub fn put_u16(&mut self, v: u16) -> (r: Result<(), IoError>)
        requires old(self).wf()
        ensures r.is_ok() ==> (final(self).data() == splice(old(self).data(), old(self).pos(), le16(v)) && final(self).pos() == old(self).pos() + 2), final(self).wf()
    { unimplemented!() }
    #[verifier::external_body]
    pub fn put_u32(&mut self, v: u32) -> (r: Result<(), IoError>)
        requires old(self).wf()
        ensures r.is_ok() ==> (final(self).data() == splice(old(self).data(), old(self).pos(), le32(v)) && final(self).pos() == old(self).pos() + 4), final(self).wf()
    { unimplemented!() }
    #[verifier::external_body]
    pub fn put_u64(&mut self, v: u64) -> (r: Result<(), IoError>)
        requires old(self).wf()
        ensures r.is_ok() ==> (final(self).data() == splice(old(self).data(), old(self).pos(), le64(v)) && final(self).pos() == old(self).pos() + 8), final(self).wf()
    { unimplemented!() }
    #[verifier::external_body]
    pub fn put_f64(&mut self, v: f64) -> (r: Result<(), IoError>)
        requires old(self).wf()
        ensures r.is_ok() ==> (final(self).data() == splice(old(self).data(), old(self).pos(), le64(f64_bits(v))) && final(self).pos() == old(self).pos() + 8), final(self).wf()
    { unimplemented!() }
}

// ---- Cur: consuming reader over a byte buffer (`bytes::BytesMut` used through `bytes::Buf`).
// `rem()` = bytes not yet consumed.  The `requires` are the real panics of the `bytes` crate
// (reading past the end / split_to past the end).
#[verifier::external_body]
pub struct Cur { _p: u8 }
impl Cur {
    pub uninterp spec fn rem(&self) -> Seq<u8>;
    #[verifier::external_body]
    pub fn from_vec(v: &Vec<u8>) -> (r: Cur) ensures r.rem() == v@ { unimplemented!() }
    #[verifier::external_body]
    pub fn len(&self) -> (r: usize) ensures r == self.rem().len() { unimplemented!() }
    #[verifier::external_body]
    pub fn split_to(&mut self, n: usize) -> (r: Cur)
        requires n <= old(self).rem().len()
        ensures r.rem() == old(self).rem().subrange(0, n as int), final(self).rem() == old(self).rem().subrange(n as int, old(self).rem().len() as int)
    { unimplemented!() }
    #[verifier::external_body]
    pub fn advance(&mut self, n: usize)
        requires n <= old(self).rem().len()
        ensures final(self).rem() == old(self).rem().subrange(n as int, old(self).rem().len() as int)
    { unimplemented!() }
    #[verifier::external_body]
    pub fn get_u8(&mut self) -> (r: u8)
        requires old(self).rem().len() >= 1
        ensures r == old(self).rem()[0], final(self).rem() == old(self).rem().subrange(1, old(self).rem().len() as int)
    { unimplemented!() }
    #[verifier::external_body]
    pub fn get_u16(&mut self) -> (r: u16)
        requires old(self).rem().len() >= 2
        ensures r == dbe16(old(self).rem(), 0), final(self).rem() == old(self).rem().subrange(2, old(self).rem().len() as int)
    { unimplemented!() }
    #[verifier::external_body]
    pub fn get_u16_le(&mut self) -> (r: u16)
        requires old(self).rem().len() >= 2
        ensures r == dle16(old(self).rem(), 0), final(self).rem() == old(self).rem().subrange(2, old(self).rem().len() as int)
    { unimplemented!() }
    #[verifier::external_body]
    pub fn get_u32(&mut self) -> (r: u32)
        requires old(self).rem().len() >= 4
        ensures r == dbe32(old(self).rem(), 0), final(self).rem() == old(self).rem().subrange(4, old(self).rem().len() as int)
    { unimplemented!() }
    #[verifier::external_body]
    pub fn get_u32_le(&mut self) -> (r: u32)
        requires old(self).rem().len() >= 4
        ensures r == dle32(old(self).rem(), 0), final(self).rem() == old(self).rem().subrange(4, old(self).rem().len() as int)
    { unimplemented!() }
    #[verifier::external_body]
    pub fn get_u64(&mut self) -> (r: u64)
        requires old(self).rem().len() >= 8
        ensures r == dbe64(old(self).rem(), 0), final(self).rem() == old(self).rem().subrange(8, old(self).rem().len() as int)
    { unimplemented!() }
    #[verifier::external_body]
    pub fn get_u64_le(&mut self) -> (r: u64)
        requires old(self).rem().len() >= 8
        ensures r == dle64(old(self).rem(), 0), final(self).rem() == old(self).rem().subrange(8, old(self).rem().len() as int)
    { unimplemented!() }
    #[verifier::external_body]
    pub fn get_f32(&mut self) -> (r: f32)
        requires old(self).rem().len() >= 4
        ensures r == f32_of_bits(dbe32(old(self).rem(), 0) as u32), final(self).rem() == old(self).rem().subrange(4, old(self).rem().len() as int)
    { unimplemented!() }
    #[verifier::external_body]
    pub fn get_f32_le(&mut self) -> (r: f32)
        requires old(self).rem().len() >= 4
        ensures r == f32_of_bits(dle32(old(self).rem(), 0) as u32), final(self).rem() == old(self).rem().subrange(4, old(self).rem().len() as int)
    { unimplemented!() }
}
// `uN::from_{le,be}_bytes([..])` (rule R4) with arithmetic contracts
#[verifier::external_body]
pub fn u32_from_le(b: [u8; 4]) -> (r: u32) ensures r == dle32(b@, 0) { u32::from_le_bytes(b) }
#[verifier::external_body]
pub fn u32_from_be(b: [u8; 4]) -> (r: u32) ensures r == dbe32(b@, 0) { u32::from_be_bytes(b) }
#[verifier::external_body]
pub fn u64_from_le(b: [u8; 8]) -> (r: u64) ensures r == dle64(b@, 0) { u64::from_le_bytes(b) }
#[verifier::external_body]
pub fn u64_from_be(b: [u8; 8]) -> (r: u64) ensures r == dbe64(b@, 0) { u64::from_be_bytes(b) }
#[verifier::external_body]
pub fn f32_from_le(b: [u8; 4]) -> (r: f32) ensures r == f32_of_bits(dle32(b@, 0) as u32) { f32::from_le_bytes(b) }
#[verifier::external_body]
pub fn f32_from_be(b: [u8; 4]) -> (r: f32) ensures r == f32_of_bits(dbe32(b@, 0) as u32) { f32::from_be_bytes(b) }

#[derive(Copy, Clone)]
pub struct Summary {
    pub total_items: u64,
    pub bases_covered: u64,
    pub min_val: f64,
    pub max_val: f64,
    pub sum: f64,
    pub sum_squares: f64,
}
#[derive(Copy, Clone)]
pub struct ZoomRecord {
    pub chrom: u32,
    pub start: u32,
    pub end: u32,
    pub summary: Summary,
}
pub struct SectionData {
    pub chrom: u32,
    pub start: u32,
    pub end: u32,
    pub data: Vec<u8>,
}

// f64 -> f32 narrowing: uninterpreted (rounding not judged)
pub uninterp spec fn f32_of_f64(x: f64) -> f32;
#[verifier::external_body]
pub fn f64_to_f32(x: f64) -> (r: f32) ensures r == f32_of_f64(x) { x as f32 }

// libdeflater (C library): assumed contract = zlib inverse.  Replaces the 7-line
// Compressor::new / zlib_compress_bound / zlib_compress / resize cluster (R11).
pub uninterp spec fn inflate(z: Seq<u8>) -> Seq<u8>;
#[verifier::external_body]
pub fn deflate_vec(b: &Sink) -> (r: Vec<u8>) ensures inflate(r@) == b@ { unimplemented!() }

// ---- format spec (from the published layout; shares no code with the reader) ----
/// one 32-byte zoom record appended to `b` (left-associated, the order a sequential writer produces)
pub open spec fn put_zoom_rec(b: Seq<u8>, r: ZoomRecord) -> Seq<u8> {
    b + le32(r.chrom) + le32(r.start) + le32(r.end) + le32(r.summary.bases_covered as u32)
    + le32(f32_bits(f32_of_f64(r.summary.min_val))) + le32(f32_bits(f32_of_f64(r.summary.max_val)))
    + le32(f32_bits(f32_of_f64(r.summary.sum))) + le32(f32_bits(f32_of_f64(r.summary.sum_squares)))
}
pub open spec fn fmt_zoom_section(items: Seq<ZoomRecord>) -> Seq<u8>
    decreases items.len()
{
    if items.len() == 0 { Seq::empty() } else { put_zoom_rec(fmt_zoom_section(items.drop_last()), items.last()) }
}
pub proof fn lemma_fmt_len(items: Seq<ZoomRecord>)
    ensures fmt_zoom_section(items).len() == 32 * items.len()
    decreases items.len()
{
    if items.len() > 0 { lemma_fmt_len(items.drop_last()); }
}
/// what the tiling units (bw_zoom / bb_zoom) guarantee about an emitted batch
pub open spec fn batch_ok(items: Seq<ZoomRecord>) -> bool {
    &&& items.len() >= 1
    &&& forall|i: int| 0 <= i < items.len() ==> (#[trigger] items[i]).start < items[i].end && items[i].chrom == items[0].chrom && items[i].summary.bases_covered <= u32::MAX
    &&& forall|i: int, j: int| 0 <= i < j < items.len() ==> (#[trigger] items[i]).end <= (#[trigger] items[j]).start
}

// `.iter().map(|i| i.start|end).fold(init, u32::max)` and `.max()/.min().unwrap()` (not used by the code today; present so
// that an edit computing the section bounds this way is judged).  ASSUMED std contracts: the fold is the maximum of the
// initial value and every mapped element.
pub open spec fn max_start_upto(s: Seq<ZoomRecord>, n: int, init: u32) -> u32 decreases n {
    if n <= 0 || n > s.len() { init } else { let m = max_start_upto(s, n - 1, init); if s[n - 1].start > m { s[n - 1].start } else { m } }
}
pub open spec fn max_end_upto(s: Seq<ZoomRecord>, n: int, init: u32) -> u32 decreases n {
    if n <= 0 || n > s.len() { init } else { let m = max_end_upto(s, n - 1, init); if s[n - 1].end > m { s[n - 1].end } else { m } }
}
fn fold_max_start(v: &Vec<ZoomRecord>, init: u32) -> (r: u32) ensures r == max_start_upto(v@, v@.len() as int, init) {
    let mut m = init; let mut i: usize = 0;
    while i < v.len() invariant i <= v.len(), m == max_start_upto(v@, i as int, init) decreases v.len() - i { if v[i].start > m { m = v[i].start; } i = i + 1; }
    m
}
fn fold_max_end(v: &Vec<ZoomRecord>, init: u32) -> (r: u32) ensures r == max_end_upto(v@, v@.len() as int, init) {
    let mut m = init; let mut i: usize = 0;
    while i < v.len() invariant i <= v.len(), m == max_end_upto(v@, i as int, init) decreases v.len() - i { if v[i].end > m { m = v[i].end; } i = i + 1; }
    m
}
fn max_of_end(v: &Vec<ZoomRecord>) -> (r: u32) requires v@.len() > 0 ensures r == max_end_upto(v@, v@.len() as int, 0) { fold_max_end(v, 0) }
fn max_of_start(v: &Vec<ZoomRecord>) -> (r: u32) requires v@.len() > 0 ensures r == max_start_upto(v@, v@.len() as int, 0) { fold_max_start(v, 0) }
#[verifier::external_body] fn min_of_end(v: &Vec<ZoomRecord>) -> (r: u32) { unimplemented!() }
#[verifier::external_body] fn min_of_start(v: &Vec<ZoomRecord>) -> (r: u32) { unimplemented!() }
/// the maximum end of sorted disjoint records is the last record's end
proof fn lemma_max_end_sorted(s: Seq<ZoomRecord>, n: int)
    requires 0 < n <= s.len(), forall|i: int, j: int| 0 <= i < j < s.len() ==> (#[trigger] s[i]).end <= (#[trigger] s[j]).start, forall|i: int| 0 <= i < s.len() ==> (#[trigger] s[i]).start < s[i].end,
    ensures max_end_upto(s, n, 0) == s[n - 1].end, max_end_upto(s, n, s[0].end) == s[n - 1].end,
    decreases n
{
    if n > 1 {
        lemma_max_end_sorted(s, n - 1);
        assert(s[n - 2].end <= s[n - 1].start);
        assert(max_end_upto(s, n, 0) == (if s[n - 1].end > max_end_upto(s, n - 1, 0) { s[n - 1].end } else { max_end_upto(s, n - 1, 0) }));
        assert(max_end_upto(s, n, s[0].end) == (if s[n - 1].end > max_end_upto(s, n - 1, s[0].end) { s[n - 1].end } else { max_end_upto(s, n - 1, s[0].end) }));
    } else {
        assert(max_end_upto(s, 0, 0) == 0 && max_end_upto(s, 0, s[0].end) == s[0].end);
        assert(max_end_upto(s, 1, 0) == (if s[0].end > max_end_upto(s, 0, 0) { s[0].end } else { max_end_upto(s, 0, 0) }));
        assert(max_end_upto(s, 1, s[0].end) == (if s[0].end > max_end_upto(s, 0, s[0].end) { s[0].end } else { max_end_upto(s, 0, s[0].end) }));
    }
}

pub fn encode_zoom_section(
    compress: bool,
    items_in_section: Vec<ZoomRecord>,
) -> (r: Result<(SectionData, usize), IoError>)
    requires
        
        batch_ok(items_in_section@),
    ensures
        
        r.is_ok(),
        
        !compress ==> r.unwrap().0.data@ == fmt_zoom_section(items_in_section@),
        
        compress ==> inflate(r.unwrap().0.data@) == fmt_zoom_section(items_in_section@),
        
        r.unwrap().1 == (if compress { 32 * items_in_section@.len() } else { 0 }),
        
        forall|i: int| 0 <= i < items_in_section@.len() ==> r.unwrap().0.start <= (#[trigger] items_in_section@[i]).start && items_in_section@[i].end <= r.unwrap().0.end,
        
        r.unwrap().0.start == items_in_section@[0].start && r.unwrap().0.end == items_in_section@.last().end,
        
        forall|i: int| 0 <= i < items_in_section@.len() ==> (#[trigger] items_in_section@[i]).chrom == r.unwrap().0.chrom,
{
    
    let mut bytes = Sink::with_capacity(0);

    let start = items_in_section[0].start;
    let end = items_in_section[items_in_section.len() - 1].end;

    let chrom = items_in_section[0].chrom;
    for i__1 in 0..items_in_section.len() 
        invariant
            
            bytes@ == fmt_zoom_section(items_in_section@.subrange(0, i__1 as int)),
            batch_ok(items_in_section@),
{ let item = &items_in_section[i__1];

        proof {
            assert(items_in_section@.subrange(0, i__1 + 1).drop_last() =~= items_in_section@.subrange(0, i__1 as int));
        }
        let ghost b0 = bytes@;
        bytes.put_u32(item.chrom)?;
        bytes.put_u32(item.start)?;
        bytes.put_u32(item.end)?;
        bytes.put_u32(item.summary.bases_covered as u32)?;
        bytes.put_f32(f64_to_f32(item.summary.min_val))?;
        bytes.put_f32(f64_to_f32(item.summary.max_val))?;
        bytes.put_f32(f64_to_f32(item.summary.sum))?;
        bytes.put_f32(f64_to_f32(item.summary.sum_squares))?;

        proof {
            assert(bytes@ == put_zoom_rec(b0, *item)); 
        }
    }


    proof {
        assert(items_in_section@.subrange(0, items_in_section@.len() as int) =~= items_in_section@);
        lemma_fmt_len(items_in_section@);
    }
    let (out_bytes, uncompressed_buf_size) = if compress {
        let compressed_data = deflate_vec(&bytes); let actual_sz = compressed_data.len(); let max_sz = actual_sz;
        (compressed_data, bytes.len())
    } else {
        (bytes.bytes, 0)
    };

    Ok((
        SectionData {
            chrom,
            start,
            end,
            data: out_bytes,
        },
        uncompressed_buf_size,
    ))
}

} // verus!
fn main() {}

