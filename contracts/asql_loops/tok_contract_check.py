#!/usr/bin/env python3
"""Supporting evidence for the TRUSTED tokenizer contract of unit asql_loops (not part of ./check).

Cuts `mod parser { .. }` (without its tests) out of bigtools/src/bed/autosql.rs, appends a driver and
runs it: for every string of up to N symbols (default 5) over
  {' ', ';', '(', ')', '[', ']', ',', '"', 'a', '\\n', U+00E9 (2-byte letter), U+3000 (3-byte whitespace)}
and every parser state (start_cursor, end_cursor) reachable from Parser::of(s) through the public
methods, each of take/peek_word/eat_word/peek_one/eat_one/peek_quoted_string/eat_quoted_string is
called once and the clauses assumed on VParser in unit.rs.tpl are checked (a slice panic aborts).
Result on the pinned tree: N=6 -> 3 257 437 strings, 39 783 685 states, 278 485 795 calls, 0 violations (14 s).

usage: tok_contract_check.py [N] [workdir]      (VERIF_REPO selects the tree, default /repo)
"""
import os, subprocess, sys
repo = os.environ.get('VERIF_REPO', '/repo')
n = sys.argv[1] if len(sys.argv) > 1 else '5'
wd = sys.argv[2] if len(sys.argv) > 2 else '/var/tmp/asql-tokcheck'
os.makedirs(wd, exist_ok=True)
src = open(os.path.join(repo, 'bigtools/src/bed/autosql.rs')).read()
a = src.index('    mod parser {')
b = src.index('        mod test {', a)
mod = (src[a:b] + '    }\n').replace('pub(super)', 'pub').replace('    mod parser {', 'pub mod parser {', 1)
DRIVER = r'''
use parser::Parser;
use std::collections::HashSet;

#[derive(Clone, Copy, Debug)]
enum M { Take, PeekWord, EatWord, PeekOne, EatOne, PeekQ, EatQ }
const MS: [M; 7] = [M::Take, M::PeekWord, M::EatWord, M::PeekOne, M::EatOne, M::PeekQ, M::EatQ];

fn check(data: &str, s0: usize, e0: usize, m: M, viol: &mut u64, nchecks: &mut u64) -> (usize, usize) {
    let mut p = Parser { data, start_cursor: s0, end_cursor: e0 };
    let t: &str = match m {
        M::Take => p.take(), M::PeekWord => p.peek_word(), M::EatWord => p.eat_word(),
        M::PeekOne => p.peek_one(), M::EatOne => p.eat_one(), M::PeekQ => p.peek_quoted_string(), M::EatQ => p.eat_quoted_string(),
    };
    let (s1, e1, len) = (p.start_cursor, p.end_cursor, data.len());
    let mut ok = s1 <= e1 && e1 <= len;              // wf
    ok &= s1 >= s0;                                    // pos monotone
    match m {
        M::Take => { ok &= s1 == e0 && e1 == e0 && (t.is_empty() == (s0 == e0)); }
        M::PeekWord | M::PeekOne => { ok &= t.is_empty() == (e1 == s1); if t.is_empty() { ok &= s1 == len; } ok &= t == &data[s1..e1]; }
        M::EatWord | M::EatOne => { ok &= e1 == s1; if !t.is_empty() { ok &= s1 > s0; } else { ok &= s1 == len; } }
        M::PeekQ => { ok &= t.is_empty() == (e1 == s1); ok &= t == &data[s1..e1]; }
        M::EatQ => { ok &= e1 == s1; if !t.is_empty() { ok &= s1 > s0; } }
    }
    *nchecks += 1;
    if !ok { *viol += 1; if *viol < 20 { println!("CONTRACT VIOLATION data={:?} state=({},{}) {:?} -> tok={:?} state=({},{})", data, s0, e0, m, t, s1, e1); } }
    (s1, e1)
}

fn main() {
    let alpha: Vec<&str> = vec![" ", ";", "(", ")", "[", "]", ",", "\"", "a", "\n", "\u{e9}", "\u{3000}"]; // incl. 2-byte letter and 3-byte whitespace
    let maxlen: usize = std::env::args().nth(1).map(|s| s.parse().unwrap()).unwrap_or(5);
    let (mut viol, mut nchecks, mut nstr, mut nstates) = (0u64, 0u64, 0u64, 0u64);
    let mut idx = vec![0usize; 0];
    loop {
        let data: String = idx.iter().map(|&i| alpha[i]).collect();
        nstr += 1;
        // all states reachable from Parser::of(data) through the public API
        let mut seen: HashSet<(usize, usize)> = HashSet::new();
        let mut work = vec![(0usize, 0usize)];
        seen.insert((0, 0));
        while let Some((s0, e0)) = work.pop() {
            nstates += 1;
            for m in MS {
                let st = check(&data, s0, e0, m, &mut viol, &mut nchecks);
                if seen.insert(st) { work.push(st); }
            }
        }
        // next string
        let mut k = idx.len();
        loop {
            if k == 0 { idx = vec![0; idx.len() + 1]; break; }
            k -= 1;
            if idx[k] + 1 < alpha.len() { idx[k] += 1; break; } else { idx[k] = 0; }
        }
        if idx.len() > maxlen { break; }
    }
    println!("strings={} reachable_states={} calls_checked={} violations={}", nstr, nstates, nchecks, viol);
}
'''
open(os.path.join(wd, 'main.rs'), 'w').write('#![allow(dead_code)]\n' + mod + DRIVER)
subprocess.check_call(['rustc', '-O', '-o', 'tokcheck', 'main.rs'], cwd=wd)
sys.exit(subprocess.call([os.path.join(wd, 'tokcheck'), n]))
