// bigwigmerge (CLI), bigtools/src/utils/cli/bigwigmerge.rs: the WIRING between the pieces that units merge_tool
// and mv_adjust carve out.  Those units verify statements cut out of three functions; this unit verifies the
// three functions WHOLE with the carved pieces replaced by shims that carry the contracts proved there (each
// shim cites the labels), so that an edit of a statement AROUND a carved piece (a `.skip(1)` on an iterator, an
// early return, a swapped argument, a different map handed to the writer) is judged.
//   (A) `MergingValues::new` whole: the two closures -> the shims of mv_adjust
//   (B) `get_merged_vals` whole: table block -> `chrom_table` (merge_tool 2a), closure body -> `per_chrom` (2b)
//   (C) `bigwigmerge` from `let nthreads` to the end: output type statement -> `choose_output_type` (1),
//       bedGraph loop -> `write_bedgraph` (4); `get_merged_vals` -> the contract of (B)
//   C15: "The merge tool applies clip, adjust and threshold to that per-base sum, covers every base of every
//         chromosome from position 0, accepts the output names it documents, and its bedGraph and bigWig
//         outputs agree."
use vstd::prelude::*;
#[allow(unused_macros)]
macro_rules! eprintln {
    ($f:literal $(, $a:expr)* $(,)?) => { stderr_dropped() };
}
verus! {

// =====================================================================================================
// shared shims (same devices as unit merge_tool)
// =====================================================================================================
/// `String` / `&str`: opaque, observed through its chars
#[verifier::external_body]
pub struct Str { _p: u8 }
pub type String = Str;
impl Str {
    pub uninterp spec fn view(&self) -> Seq<char>;
    #[verifier::external_body]
    pub fn clone(&self) -> (r: Str) ensures r@ == self@ { unimplemented!() }
}
#[verifier::external_body]
pub fn stderr_dropped() { }
#[verifier::external_body] #[derive(Debug)]
pub struct IoErr { _p: u8 }
#[verifier::external_body] #[derive(Debug)]
pub struct BBIReadError { _p: u8 }
/// `Box<dyn Error>` of `bigwigmerge`
#[verifier::external_body] #[derive(Debug)]
pub struct AnyErr { _p: u8 }
#[derive(Copy, Clone)]
pub struct Value {
    pub start: u32,
    pub end: u32,
    pub value: f32,
}
pub enum MergingValuesError {
    BBIReadError(BBIReadError),
    MismatchedChroms(Str),
    Other(Str),
    IoError(IoErr),
}
pub struct Info { pub id: u64 }
impl Clone for Info { fn clone(&self) -> (r: Self) ensures r == *self { Info { id: self.id } } }
impl Copy for Info {}
pub struct Path { pub id: u64 }
impl Clone for Path { fn clone(&self) -> (r: Self) ensures r == *self { Path { id: self.id } } }
impl Copy for Path {}
/// where a value stream comes from (unit merge_tool: `Src`); here only its identity matters
#[verifier::external_body]
pub struct Stream { _p: u8 }
pub ghost struct Query { pub info: Info, pub path: Path, pub chrom: Seq<char>, pub start: u32, pub end: u32 }
pub ghost enum Src { File(Query), Replay(MVDesc) }
pub ghost struct MVDesc { pub parts: Seq<Src>, pub threshold: f32, pub adjust: Option<f32>, pub clip: Option<f32> }
impl Stream { pub uninterp spec fn src(&self) -> Src; }
pub open spec fn srcs(v: Seq<Stream>) -> Seq<Src> { Seq::new(v.len(), |i: int| v[i].src()) }
pub type Items = Seq<Result<Value, MergingValuesError>>;

// =====================================================================================================
// (A) MergingValues::new, whole
// =====================================================================================================
/// the item sequence `merge_sections_many` yields for these input streams, in this order (units value_iter,
/// merge_into: sorted, non-overlapping, per-base sums)
pub uninterp spec fn merged(parts: Seq<Src>) -> Items;
/// item-level vocabulary + the two error lemmas, in a module of their own: the lemmas are broadcast in the outer module,
/// and a spec fn that a broadcast lemma mentions must not itself sit under that module-level `broadcast use`
pub mod items_ax {
    use vstd::prelude::*;
    use super::{Value, MergingValuesError, Items};
    pub uninterp spec fn fmin32(a: f32, b: f32) -> f32;
    pub uninterp spec fn fadd32(a: f32, b: f32) -> f32;
    pub uninterp spec fn fgt32(a: f32, b: f32) -> bool;
    /// mv_adjust `new/item/clip_first_then_adjust`, `new/item/ok_stays_ok_start_end_untouched`, `new/item/errors_pass_through`
    pub open spec fn adjust_item(x: Result<Value, MergingValuesError>, clip: Option<f32>, adjust: f32) -> Result<Value, MergingValuesError> {
        match x {
            Ok(v) => Ok(Value { start: v.start, end: v.end, value: fadd32(match clip { Some(c) => fmin32(c, v.value), None => v.value }, adjust) }),
            Err(e) => Err(e),
        }
    }
    /// mv_adjust `new/item/kept_iff_strictly_above_threshold` (the Ok case); `on_err` = what the filter closure answers
    /// for an Err item -- read off the closure's spelling by the //@presub of (A): `x.as_ref().map_or(D, |v| ..)` answers
    /// D, `matches!(x, Ok(v) if ..)` answers false (a `matches!` is false for whatever its pattern does not match).
    /// C15/C13 need `true` (mv_adjust `new/item/errors_are_kept`): see `mv_items` and `errs`.
    pub open spec fn keep_item(x: Result<Value, MergingValuesError>, threshold: f32, on_err: bool) -> bool {
        match x { Ok(v) => fgt32(v.value, threshold), Err(_) => on_err }
    }
    /// `.map(adjust closure)` / `.filter(keep closure)` over a whole stream; opaque so that the ORDER of the two
    /// stages is compared syntactically (a swapped pipeline fails at once instead of unfolding `filter`)
    #[verifier::opaque]
    pub open spec fn adjusted_items(s: Items, clip: Option<f32>, adjust: f32) -> Items { s.map_values(|x: Result<Value, MergingValuesError>| adjust_item(x, clip, adjust)) }
    #[verifier::opaque]
    pub open spec fn kept_items(s: Items, threshold: f32, on_err: bool) -> Items { s.filter(|x: Result<Value, MergingValuesError>| keep_item(x, threshold, on_err)) }
    /// the read errors in a stream of items, in order (C15/C13: an error of an input reaches the consumer of the merged
    /// stream, it is never silently dropped -- the writers stop at the first Err item and the tool fails)
    pub open spec fn errs(s: Items) -> Seq<MergingValuesError>
        decreases s.len()
    {
        if s.len() == 0 { Seq::empty() } else {
            match s.last() { Err(e) => errs(s.drop_last()).push(e), Ok(_) => errs(s.drop_last()) }
        }
    }
    /// the adjust stage maps Err(e) to Err(e) and Ok to Ok: the errors of the stream are the same, in order
    pub broadcast proof fn lemma_adjust_keeps_errors(s: Items, clip: Option<f32>, adjust: f32)
        ensures #[trigger] errs(adjusted_items(s, clip, adjust)) == errs(s),
    { adjust_keeps_errors_rec(s, clip, adjust); }
    pub proof fn adjust_keeps_errors_rec(s: Items, clip: Option<f32>, adjust: f32)
        ensures errs(adjusted_items(s, clip, adjust)) == errs(s),
        decreases s.len()
    {
        reveal(adjusted_items);
        let f = |x: Result<Value, MergingValuesError>| adjust_item(x, clip, adjust);
        if s.len() > 0 {
            adjust_keeps_errors_rec(s.drop_last(), clip, adjust);
            assert(s.map_values(f).drop_last() =~= s.drop_last().map_values(f));
        }
    }
    /// a filter that answers TRUE for every Err item (`on_err`) drops no error; nothing of the kind holds for one that
    /// answers false
    pub broadcast proof fn lemma_keep_keeps_errors(s: Items, threshold: f32, on_err: bool)
        requires on_err,
        ensures #[trigger] errs(kept_items(s, threshold, on_err)) == errs(s),
    { keep_keeps_errors_rec(s, threshold, on_err); }
    pub proof fn keep_keeps_errors_rec(s: Items, threshold: f32, on_err: bool)
        requires on_err,
        ensures errs(kept_items(s, threshold, on_err)) == errs(s),
        decreases s.len()
    {
        reveal(kept_items);
        let p = |x: Result<Value, MergingValuesError>| keep_item(x, threshold, on_err);
        if s.len() > 0 {
            keep_keeps_errors_rec(s.drop_last(), threshold, on_err);
            reveal_with_fuel(Seq::filter, 2);
            let sub = s.drop_last().filter(p);
            if p(s.last()) { assert(sub.push(s.last()).drop_last() =~= sub); }
        } else {
            reveal_with_fuel(Seq::filter, 2);
        }
    }
}
pub use items_ax::*;
/// C15 "applies clip, adjust and threshold to that per-base sum", in that order: the per-base sums of ALL the
/// streams handed in, each clipped then adjusted, and of those the ones whose ADJUSTED value is strictly above the
/// threshold (help text of --threshold: "Don't output values at or below this threshold": it speaks of the
/// values that are output)
pub open spec fn mv_items(parts: Seq<Src>, threshold: f32, adjust: Option<f32>, clip: Option<f32>) -> Items {
    kept_items(adjusted_items(merged(parts), clip, match adjust { Some(a) => a, None => 0.0f32 }), threshold, true)
}
/// the lazy pipeline (`impl Iterator` of merge_sections_many and its adaptors)
#[verifier::external_body]
pub struct Pipe { _p: u8 }
impl Pipe {
    pub uninterp spec fn items(&self) -> Items;
    /// the `.map(move |x| { x.map(|mut v| { .. }) })` closure of `new` (a //@sub routes it here with the two
    /// variables it captures): ASSUMED = proved per item in unit mv_adjust
    #[verifier::external_body]
    pub fn map_adjust(self, clip: Option<f32>, adjust: f32) -> (r: Pipe) ensures r.items() == adjusted_items(self.items(), clip, adjust) { unimplemented!() }
    /// the `.filter(move |x| x.as_ref().map_or(true, |v| v.value > threshold))` closure of `new`: likewise for the
    /// test on an Ok item; `on_err` = the closure's answer for an Err item as its spelling says (see `keep_item`)
    #[verifier::external_body]
    pub fn filter_keep(self, threshold: f32, on_err: bool) -> (r: Pipe) ensures r.items() == kept_items(self.items(), threshold, on_err) { unimplemented!() }
    /// `Iterator::peekable`: the same items, nothing consumed
    #[verifier::external_body]
    pub fn peekable(self) -> (r: VIter) ensures r.rest() == self.items() { unimplemented!() }
    // what an edit might insert: NO postcondition (judged, not rejected)
    #[verifier::external_body] pub fn skip(self, n: usize) -> Pipe { unimplemented!() }
    #[verifier::external_body] pub fn take(self, n: usize) -> Pipe { unimplemented!() }
    #[verifier::external_body] pub fn step_by(self, n: usize) -> Pipe { unimplemented!() }
    #[verifier::external_body] pub fn fuse(self) -> Pipe { unimplemented!() }
}
/// `Box::new(pipeline)` into `Box<dyn Iterator ..>`: the same iterator
pub fn boxed<T>(x: T) -> (r: T) ensures r == x { x }
/// `v.pop()` followed by pushing the popped element back leaves the vector as it was (proof hint for harmless
/// re-arrangements of the stream vector; Seq equality is not extensional by itself)
pub mod seq_ax {
    use vstd::prelude::*;
    pub broadcast proof fn lemma_pop_then_push_back<T>(s: Seq<T>, x: T)
        requires s.len() > 0, x == s.last(),
        ensures #[trigger] s.drop_last().push(x) == s,
    { assert(s.drop_last().push(x) =~= s); }
    pub broadcast proof fn lemma_pop_then_push_back2<T>(s: Seq<T>, n: int, x: T)
        requires s.len() > 0, n == s.len() - 1, x == s[n],
        ensures #[trigger] s.subrange(0, n).push(x) == s,
    { assert(s.subrange(0, n).push(x) =~= s); }
}
broadcast use {seq_ax::lemma_pop_then_push_back, seq_ax::lemma_pop_then_push_back2, items_ax::lemma_adjust_keeps_errors, items_ax::lemma_keep_keeps_errors};
/// anything that IS an `Iterator<Item = Result<Value, MergingValuesError>>` here: the lazy pipeline, or one raw input
/// stream (`I` of `new<I>`); `yields` = the items it hands out, in order
pub trait ValueIterator: Sized { spec fn yields(&self) -> Items; }
impl ValueIterator for Pipe { open spec fn yields(&self) -> Items { self.items() } }
/// the items ONE input stream yields by itself (the file's records for the query, explicit 0.0 records included);
/// uninterpreted: nothing says it is its own merge -- `merged` (units value_iter / merge_into) is the per-base SUM with
/// zero-sum bases ABSENT and adjacent equal values joined, so `merged([s]) != stream_items(s)` in general
pub uninterp spec fn stream_items(s: Src) -> Items;
impl ValueIterator for Stream { open spec fn yields(&self) -> Items { stream_items(self.src()) } }
/// `Box::new(X)` INSIDE `MergingValues::new`, coerced to `Box<dyn Iterator<Item = Result<Value, MergingValuesError>> + Send>`:
/// the same iterator, whatever iterator X is (the pipeline on /repo; a raw input stream after an edit)
#[verifier::external_body]
pub fn boxed_iter<T: ValueIterator>(x: T) -> (r: Pipe) ensures r.items() == x.yields() { unimplemented!() }
/// utils::merge::merge_sections_many (signature: `sections: Vec<I>`): ASSUMED to be the merge of exactly the
/// streams handed in, in that order (its body moves them into the ValueIter unchanged)
#[verifier::external_body]
pub fn merge_sections_many(sections: Vec<Stream>) -> (r: Pipe) ensures r.items() == merged(srcs(sections@)) { unimplemented!() }
/// `V.into_iter().skip(n).collect()` (0 hits on /repo; lets an edit that drops leading streams reach the verifier)
#[verifier::external_body]
pub fn skip_vec(v: Vec<Stream>, n: usize) -> (r: Vec<Stream>) ensures r@ == v@.skip(n as int) { unimplemented!() }
/// `Peekable<Box<dyn Iterator<Item = Result<Value, MergingValuesError>> + Send>>`
#[verifier::external_body]
pub struct VIter { _p: u8 }
impl VIter { pub uninterp spec fn rest(&self) -> Items; }
pub struct MergingValues {
    // We Box<dyn Iterator> because other this would be a mess to try to type
    pub iter: VIter,
}
// the filter closure, whole, in one of the two spellings that unit mv_adjust carves (TEST without parentheses or
// `|`/`&`, so that nothing after the closure's own closing parenthesis can be swallowed); the second argument is the
// closure's answer for an Err item.  Any other closure stays `.filter(..)` on a `Pipe`: front-end refusal.
impl MergingValues {
pub fn new(
        iters: Vec<Stream>,
        threshold: f32,
        adjust: Option<f32>,
        clip: Option<f32>,
    ) -> (r: Self)
        ensures
            
            r.iter.rest() == mv_items(srcs(iters@), threshold, adjust, clip),
            
            errs(r.iter.rest()) == errs(merged(srcs(iters@))),
{
        let adjust = adjust.unwrap_or(0.0);
        let iter: Pipe = boxed_iter(
            merge_sections_many(iters)
                .map_adjust(clip, adjust)
                .filter_keep(threshold, true),
        );
        MergingValues {
            iter: iter.peekable(),
        }
    }
}

// =====================================================================================================
// (B) get_merged_vals, whole
// =====================================================================================================
pub struct ChromInfo {
    pub name: Str,
    pub length: u32,
    pub id: u32,
}
// ---- vocabulary of unit merge_tool (same definitions) ----
pub uninterp spec fn chroms_of(info: Info) -> Seq<ChromInfo>;
pub open spec fn lookup_from(v: Seq<ChromInfo>, n: Seq<char>, i: int) -> Option<ChromInfo>
    decreases v.len() - i
{
    if i < 0 || i >= v.len() { None } else if v[i].name@ == n { Some(v[i]) } else { lookup_from(v, n, i + 1) }
}
pub open spec fn has(files: Seq<BigWigRead>, j: int, name: Seq<char>) -> bool { lookup_from(chroms_of(files[j].info), name, 0) is Some }
pub open spec fn size_in(files: Seq<BigWigRead>, j: int, name: Seq<char>) -> u32 { lookup_from(chroms_of(files[j].info), name, 0)->Some_0.length }
pub open spec fn some_has(files: Seq<BigWigRead>, name: Seq<char>) -> bool { exists|j: int| 0 <= j < files.len() && #[trigger] has(files, j, name) }
pub open spec fn files_with(files: Seq<BigWigRead>, name: Seq<char>, n: int) -> Seq<(Info, Path)>
    decreases n
{
    if n <= 0 { Seq::empty() } else if has(files, n - 1, name) { files_with(files, name, n - 1).push((files[n - 1].info, files[n - 1].read.path)) } else { files_with(files, name, n - 1) }
}
pub open spec fn entry_ok(files: Seq<BigWigRead>, name: Seq<char>, e: (u32, Seq<(Info, Path)>)) -> bool {
    &&& some_has(files, name)
    &&& forall|j: int| 0 <= j < files.len() && #[trigger] has(files, j, name) ==> size_in(files, j, name) == e.0
    &&& e.1 == files_with(files, name, files.len() as int)
}
pub open spec fn table_ok(files: Seq<BigWigRead>, cs: Map<Seq<char>, (u32, Seq<(Info, Path)>)>, cm: Map<Seq<char>, u32>) -> bool {
    &&& forall|name: Seq<char>| #[trigger] cs.dom().contains(name) ==> entry_ok(files, name, cs[name])
    &&& cm.dom() == cs.dom()
    &&& forall|name: Seq<char>| #[trigger] cs.dom().contains(name) ==> cm[name] == cs[name].0
}
pub open spec fn mismatch(files: Seq<BigWigRead>) -> bool {
    exists|i: int, j: int, name: Seq<char>| 0 <= i < files.len() && 0 <= j < files.len() && #[trigger] has(files, i, name) && #[trigger] has(files, j, name)
        && size_in(files, i, name) != size_in(files, j, name)
}
pub open spec fn queries(bws: Seq<(Info, Path)>, chrom: Seq<char>, start: u32, end: u32) -> Seq<Query> {
    Seq::new(bws.len(), |i: int| Query { info: bws[i].0, path: bws[i].1, chrom, start, end })
}
pub open spec fn leaves(s: Src) -> Seq<Query>
    decreases s, 0nat
{
    match s { Src::File(q) => seq![q], Src::Replay(d) => kids(d, d.parts.len()) }
}
pub open spec fn kids(d: MVDesc, n: nat) -> Seq<Query>
    decreases d, n
{
    if n == 0 || n > d.parts.len() { Seq::empty() } else { kids(d, (n - 1) as nat) + leaves(d.parts[n - 1]) }
}
pub open spec fn flat_n(ps: Seq<Src>, n: nat) -> Seq<Query>
    decreases n
{
    if n == 0 || n > ps.len() { Seq::empty() } else { flat_n(ps, (n - 1) as nat) + leaves(ps[n - 1]) }
}
pub open spec fn flat(ps: Seq<Src>) -> Seq<Query> { flat_n(ps, ps.len()) }
/// merge_tool: `plain` (a partial merge is a plain per-base sum); its definition is not needed here
pub uninterp spec fn all_plain(ps: Seq<Src>) -> bool;
impl VIter {
    /// the `MergingValues::new` call the stream stands for (bookkeeping of unit merge_tool)
    pub uninterp spec fn desc(&self) -> MVDesc;
}
impl GroupIter {
    /// the chromosome each (lazily computed) group is computed for
    pub uninterp spec fn keys(&self) -> Seq<Seq<char>>;
}

pub type Entry = (Str, (u32, Vec<(Info, Path)>));
/// `String < String` (the order a BTreeMap iterates in): uninterpreted
pub uninterp spec fn name_lt(a: Seq<char>, b: Seq<char>) -> bool;
/// `BTreeMap<String, (u32, Vec<(BBIFileInfo, PathBuf)>)>`
#[verifier::external_body]
pub struct BTreeMap { _p: u8 }
/// `btree_map::IntoIter`
#[verifier::external_body]
pub struct Entries { _p: u8 }
impl BTreeMap {
    pub uninterp spec fn view(&self) -> Map<Seq<char>, (u32, Seq<(Info, Path)>)>;
    /// every entry exactly once, in key order
    #[verifier::external_body]
    pub fn into_iter(self) -> (r: Entries)
        ensures
            forall|i: int| 0 <= i < r.items().len() ==> self@.dom().contains((#[trigger] r.items()[i]).0@) && self@[r.items()[i].0@] == (r.items()[i].1.0, r.items()[i].1.1@),
            forall|name: Seq<char>| #[trigger] self@.dom().contains(name) ==> exists|i: int| 0 <= i < r.items().len() && (#[trigger] r.items()[i]).0@ == name,
            forall|i: int, j: int| 0 <= i < j < r.items().len() ==> name_lt((#[trigger] r.items()[i]).0@, (#[trigger] r.items()[j]).0@),
    { unimplemented!() }
}
impl Entries {
    pub uninterp spec fn items(&self) -> Seq<Entry>;
    /// `Iterator::map` (lazy): group i is the closure's result for entry i (ASSUMED: the closure is a function of its
    /// argument and its captures; it is called once per entry, in order, when the consumer asks)
    #[verifier::external_body]
    pub fn map<F: Fn(Entry) -> Group>(self, f: F) -> (r: GroupIter)
        requires forall|e: Entry| f.requires((e,)),
        ensures
            r.rest().len() == self.items().len(), r.keys().len() == self.items().len(),
            forall|i: int| 0 <= i < self.items().len() ==> (#[trigger] r.keys()[i]) == self.items()[i].0@,
            forall|i: int| 0 <= i < self.items().len() ==> r.keys()[i] == (#[trigger] self.items()[i]).0@,
            forall|i: int| 0 <= i < self.items().len() ==> f.ensures((self.items()[i],), #[trigger] r.rest()[i]),
    { unimplemented!() }
    // what an edit might insert: NO postcondition
    #[verifier::external_body] pub fn skip(self, n: usize) -> Entries { unimplemented!() }
    #[verifier::external_body] pub fn take(self, n: usize) -> Entries { unimplemented!() }
    #[verifier::external_body] pub fn rev(self) -> Entries { unimplemented!() }
}
/// merge_tool (2a), the carved table block: labels `get_merged_vals/table/size_agreed_by_all_files_that_have_it_and_exactly_those_files_in_order`,
/// `../every_chromosome_of_every_input_is_listed`, `../size_mismatch_is_refused`, `../refused_only_for_a_size_mismatch`
#[verifier::external_body]
pub fn chrom_table(bigwigs: &Vec<BigWigRead>) -> (r: Result<(BTreeMap, HashMap), MergingValuesError>)
    ensures
        r matches Ok(t) ==> table_ok(bigwigs@, t.0@, t.1@),
        r matches Ok(t) ==> forall|j: int, name: Seq<char>| 0 <= j < bigwigs@.len() && #[trigger] has(bigwigs@, j, name) ==> t.0@.dom().contains(name),
        mismatch(bigwigs@) <==> r is Err,
{ unimplemented!() }
/// what the per-chromosome closure must return for one table entry (C15: that chromosome's name and size; one
/// whole-chromosome query [0, size) per file that has it; threshold, adjust, clip applied once, to the final sum)
pub open spec fn group_ok(e: Entry, threshold: f32, adjust: Option<f32>, clip: Option<f32>, g: Group) -> bool {
    g matches Ok(t) ==> {
        &&& t.0@ == e.0@ && t.1 == e.1.0
        &&& flat(t.2.iter.desc().parts) == queries(e.1.1@, e.0@, 0, e.1.0)
        &&& t.2.iter.desc().threshold == threshold && t.2.iter.desc().adjust == adjust && t.2.iter.desc().clip == clip
        &&& all_plain(t.2.iter.desc().parts)
        &&& t.2.iter.rest() == mv_items(t.2.iter.desc().parts, threshold, adjust, clip)
    }
}
/// merge_tool (2b-ii), the carved closure BODY: labels `get_merged_vals/name_and_size_are_passed_on`,
/// `../every_file_contributes_its_whole_chromosome_query_exactly_once_in_order`, `../final_merge_gets_threshold_adjust_clip_in_that_order`,
/// `../chunked/partial_merges_are_plain_sums`, `../merged_stream_is_fresh` (+ (A): what a fresh stream yields)
#[verifier::external_body]
pub fn per_chrom(chrom: Str, size: u32, bws: Vec<(Info, Path)>, max_bw_fds: usize, threshold: f32, adjust: Option<f32>, clip: Option<f32>) -> (r: Group)
    requires max_bw_fds >= 2,
    ensures group_ok((chrom, (size, bws)), threshold, adjust, clip, r),
{ unimplemented!() }

/// what get_merged_vals must hand out for these inputs
pub open spec fn merged_groups_ok(files: Seq<BigWigRead>, threshold: f32, adjust: Option<f32>, clip: Option<f32>, it: GroupIter) -> bool {
    let n = it.keys().len();
    &&& it.rest().len() == n
    // one group per chromosome that any input has, in name order, none twice
    &&& forall|i: int| 0 <= i < n ==> some_has(files, #[trigger] it.keys()[i])
    &&& forall|name: Seq<char>| #[trigger] some_has(files, name) ==> exists|i: int| 0 <= i < n && #[trigger] it.keys()[i] == name
    &&& forall|i: int, j: int| 0 <= i < j < n ==> name_lt(#[trigger] it.keys()[i], #[trigger] it.keys()[j])
    // group i carries ITS chromosome's name, the size all files agree on, one query [0, size) per file that has it
    &&& forall|i: int| 0 <= i < n ==> group_ok_for(files, it.keys()[i], threshold, adjust, clip, #[trigger] it.rest()[i])
}
pub open spec fn group_ok_for(files: Seq<BigWigRead>, name: Seq<char>, threshold: f32, adjust: Option<f32>, clip: Option<f32>, g: Group) -> bool {
    g matches Ok(t) ==> {
        &&& t.0@ == name
        &&& forall|j: int| 0 <= j < files.len() && #[trigger] has(files, j, name) ==> size_in(files, j, name) == t.1
        &&& flat(t.2.iter.desc().parts) == queries(files_with(files, name, files.len() as int), name, 0, t.1)
        &&& t.2.iter.desc().threshold == threshold && t.2.iter.desc().adjust == adjust && t.2.iter.desc().clip == clip
        &&& all_plain(t.2.iter.desc().parts)
        &&& t.2.iter.rest() == mv_items(t.2.iter.desc().parts, threshold, adjust, clip)
    }
}

// STRUCTURAL (R11): the block `let (chrom_sizes, chrom_map) = { .. };` (merge_tool 2a; its only exits are the pair and
// `return Err(..)`) becomes `let (chrom_sizes, chrom_map) = chrom_table(&bigwigs)?;`; the closure
// `move |PATTERN| { BODY }` becomes `move |e__: Entry| -> (g: Group) ensures group_ok(..) { let PATTERN = e__; per_chrom(chrom, size, bws, max_bw_fds, threshold, adjust, clip) }`
// (PATTERN is the repository's; BODY is merge_tool 2b-ii, which names exactly these variables).  The fd budget statements are kept.
pub fn get_merged_vals_whole(
    bigwigs: Vec<BigWigRead>,
    max_zooms: usize,
    threshold: f32,
    adjust: Option<f32>,
    clip: Option<f32>,
) -> (r: Result<
    (
        GroupIter,
        HashMap,
    ),
    MergingValuesError,
>)
    requires
        // `MAX_FDS - 2 - (2 + 2 * max_zooms)` must not underflow and must leave groups of >= 2 (the tool passes 10)
        max_zooms <= 497,
    ensures
        
        r matches Ok(t) ==> merged_groups_ok(bigwigs@, threshold, adjust, clip, t.0),
        
        r matches Ok(t) ==> (forall|name: Seq<char>| #[trigger] t.1@.dom().contains(name) <==> some_has(bigwigs@, name))
            && (forall|j: int, name: Seq<char>| 0 <= j < bigwigs@.len() && #[trigger] has(bigwigs@, j, name) ==> t.1@[name] == size_in(bigwigs@, j, name)),
        
        r is Err <==> mismatch(bigwigs@),
{
    let (chrom_sizes, chrom_map) = chrom_table(&bigwigs)?;

    let ghost files = bigwigs@;
    let ghost cs = chrom_sizes@;

    const MAX_FDS: usize = 1000;
    const PARALLEL_CHROMS: usize = 1;
    // This might be a *bit* conservative, but is really mostly an estimate
    let max_bw_fds: usize = MAX_FDS
        - 1 /* output bigWig (data) */
        - 1 /* index */
        - (1 /* data sections */ + 1  /* index sections */ + max_zooms /* zoom data sections */ + max_zooms /* zoom index sections */) * PARALLEL_CHROMS;

    let iter = chrom_sizes.into_iter().map(move |e__: Entry| -> (g: Group) ensures group_ok(e__, threshold, adjust, clip, g) { let (chrom, (size, bws)) = e__; per_chrom(chrom, size, bws, max_bw_fds, threshold, adjust, clip) });


    proof {
        let n = iter.keys().len() as int;
        
        assert forall|i: int| 0 <= i < n implies some_has(files, #[trigger] iter.keys()[i]) by {
            let g = iter.rest()[i];
            assert(cs.dom().contains(iter.keys()[i]));
        }
        assert forall|i: int| 0 <= i < n implies group_ok_for(files, iter.keys()[i], threshold, adjust, clip, #[trigger] iter.rest()[i]) by {
            let k = iter.keys()[i];
            assert(cs.dom().contains(k));
            assert(entry_ok(files, k, cs[k]));
        }
        assert forall|name: Seq<char>| #[trigger] some_has(files, name) implies exists|i: int| 0 <= i < n && #[trigger] iter.keys()[i] == name by {
            let j = choose|j: int| 0 <= j < files.len() && #[trigger] has(files, j, name);
            assert(cs.dom().contains(name));
        }
        assert forall|i: int, j: int| 0 <= i < j < n implies name_lt(#[trigger] iter.keys()[i], #[trigger] iter.keys()[j]) by {}
        
        assert forall|name: Seq<char>| #[trigger] chrom_map@.dom().contains(name) <==> some_has(files, name) by {
            if some_has(files, name) {
                let j = choose|j: int| 0 <= j < files.len() && #[trigger] has(files, j, name);
                assert(cs.dom().contains(name));
            }
            if chrom_map@.dom().contains(name) { assert(cs.dom().contains(name)); assert(entry_ok(files, name, cs[name])); }
        }
    }
    Ok((iter, chrom_map))
}

// =====================================================================================================
// (C) bigwigmerge, from `let nthreads` to the end
// =====================================================================================================
pub type Group = Result<(Str, u32, MergingValues), MergingValuesError>;
/// the lazy per-chromosome groups `get_merged_vals` hands out
#[verifier::external_body]
pub struct GroupIter { _p: u8 }
impl GroupIter {
    /// the groups it will yield, in order
    pub uninterp spec fn rest(&self) -> Seq<Group>;
    // what an edit might insert before the iterator is handed on: NO postcondition
    #[verifier::external_body] pub fn skip(self, n: usize) -> GroupIter { unimplemented!() }
    #[verifier::external_body] pub fn take(self, n: usize) -> GroupIter { unimplemented!() }
    #[verifier::external_body] pub fn step_by(self, n: usize) -> GroupIter { unimplemented!() }
    #[verifier::external_body] pub fn next(&mut self) -> Option<Group> { unimplemented!() }
}
/// `HashMap<String, u32>`: chromosome sizes for the bigWig writer
#[verifier::external_body]
pub struct HashMap { _p: u8 }
impl HashMap {
    pub uninterp spec fn view(&self) -> Map<Seq<char>, u32>;
    #[verifier::external_body]
    pub fn new() -> (r: HashMap) ensures r@ == Map::<Seq<char>, u32>::empty() { unimplemented!() }
    #[verifier::external_body]
    pub fn clone(&self) -> (r: HashMap) ensures r@ == self@ { unimplemented!() }
}
pub struct ReopenableFile {
    pub path: Path,
    pub file: FileH,
}
pub struct BigWigRead {
    pub info: Info,
    pub read: ReopenableFile,
}
/// std::fs::File (an open descriptor)
#[verifier::external_body]
pub struct FileH { _p: u8 }
impl FileH { pub uninterp spec fn path(&self) -> Seq<char>; }
    enum OutputType {
        BigWig,
        BedGraph,
    }
pub struct ChromGroupReadImpl {
    pub iter: GroupIter,
}
// the tool's write options (clap attributes dropped) and the writer's options
pub struct BBIWriteArgs {
    pub nthreads: usize,

    pub nzooms: u32,

    pub zooms: Option<Vec<u32>>,

    pub uncompressed: bool,

    pub sorted: String,

    pub block_size: u32,

    pub items_per_slot: u32,

    pub inmemory: bool,
}
#[derive(Copy, Clone)]
pub enum InputSortType {
    ALL,
    START,
    // TODO
    //NONE,
}
pub struct BBIWriteOptions {
    pub compress: bool,
    pub items_per_slot: u32,
    pub block_size: u32,
    pub initial_zoom_size: u32,
    pub max_zooms: u32,
    pub manual_zoom_sizes: Option<Vec<u32>>,
    pub input_sort_type: InputSortType,
    pub channel_size: usize,
    pub inmemory: bool,
}
/// `BBIWriteOptions::default()` (what `BigWigWrite::new` stores)
pub uninterp spec fn default_options() -> BBIWriteOptions;
pub struct BigWigWrite {
    pub out: FileH,
    pub chrom_sizes: HashMap,
    pub options: BBIWriteOptions,
}

/// what get_merged_vals yields for these inputs and options, as functions of its arguments (ASSUMED
/// deterministic; WHAT they are is (B) below + unit merge_tool)
pub uninterp spec fn groups_spec(bigwigs: Seq<BigWigRead>, max_zooms: usize, threshold: f32, adjust: Option<f32>, clip: Option<f32>) -> Seq<Group>;
pub uninterp spec fn sizes_spec(bigwigs: Seq<BigWigRead>) -> Map<Seq<char>, u32>;
/// merge_tool `bigwigmerge/decision_is_the_documented_one_nothing_else_accepted`: the documented decision
uninterp spec fn chosen(output_type: Option<Str>, output: Seq<char>) -> Option<OutputType>;
/// tokio runtime flavour
pub ghost enum Flavour { CurrentThread, MultiThread(Option<usize>) }
/// what the tool does to the outside world, in order
pub ghost enum Act {
    /// `File::create(path)` for the bigWig; the writer gets these chromosome sizes
    CreateBigWig { path: Seq<char>, sizes: Map<Seq<char>, u32> },
    /// `outb.write(source, runtime)`: which writer (file, sizes, options), fed with which groups, on which runtime
    WriteBigWig { path: Seq<char>, sizes: Map<Seq<char>, u32>, options: BBIWriteOptions, groups: Seq<Group>, flavour: Flavour },
    /// `File::create(path)` for the bedGraph
    CreateText { path: Seq<char> },
    /// the bedGraph loop (merge_tool (4)) run over these groups into the file of that path
    WriteBedGraph { path: Seq<char>, groups: Seq<Group> },
}
#[verifier::external_body]
pub struct Sys { _p: u8 }
impl Sys {
    pub uninterp spec fn acts(&self) -> Seq<Act>;
    /// `BigWigWrite::create_file(path, chrom_sizes)`: `File::create` + `BigWigWrite::new` (default options);
    /// the io::Error -> Box<dyn Error> conversion of the `?` is folded in.  A failed create logs nothing.
    #[verifier::external_body]
    pub fn create_bigwig(&mut self, path: Str, chrom_sizes: HashMap) -> (r: Result<BigWigWrite, AnyErr>)
        ensures
            r matches Ok(w) ==> w.out.path() == path@ && w.chrom_sizes@ == chrom_sizes@ && w.options == default_options()
                && final(self).acts() == old(self).acts().push(Act::CreateBigWig { path: path@, sizes: chrom_sizes@ }),
            r is Err ==> final(self).acts() == old(self).acts(),
    { unimplemented!() }
    /// `File::create(output)` of the bedGraph arm
    #[verifier::external_body]
    pub fn create_text(&mut self, path: Str) -> (r: Result<FileH, AnyErr>)
        ensures
            r matches Ok(f) ==> f.path() == path@ && final(self).acts() == old(self).acts().push(Act::CreateText { path: path@ }),
            r is Err ==> final(self).acts() == old(self).acts(),
    { unimplemented!() }
    /// the carved bedGraph loop (merge_tool `bigwigmerge/bedgraph/one_line_per_merged_value_in_order_chrom_start_end_value`)
    /// run over exactly the groups of `iter`
    #[verifier::external_body]
    pub fn write_bedgraph(&mut self, iter: GroupIter, writer: &mut TextOut) -> (r: Result<(), AnyErr>)
        ensures final(self).acts() == old(self).acts().push(Act::WriteBedGraph { path: old(writer).path(), groups: iter.rest() }), final(writer).path() == old(writer).path(),
    { unimplemented!() }
}
/// `io::BufWriter<File>`
#[verifier::external_body]
pub struct TextOut { _p: u8 }
impl TextOut {
    pub uninterp spec fn path(&self) -> Seq<char>;
    #[verifier::external_body]
    pub fn buffered(f: FileH) -> (r: TextOut) ensures r.path() == f.path() { unimplemented!() }
}
impl BigWigWrite {
    /// `BigWigWrite::write(self, vals, runtime)`: logged with everything it was given (BBIProcessError ->
    /// Box<dyn Error> of the `?` folded in); what it does with the source: merge_tool (3) + the writer units
    #[verifier::external_body]
    pub fn write(self, vals: ChromGroupReadImpl, runtime: Runtime, env: &mut Sys) -> (r: Result<(), AnyErr>)
        ensures final(env).acts() == old(env).acts().push(Act::WriteBigWig { path: self.out.path(), sizes: self.chrom_sizes@,
            options: self.options, groups: vals.iter.rest(), flavour: runtime.flavour() }),
    { unimplemented!() }
}
// ---- tokio::runtime ----
#[verifier::external_body]
pub struct Runtime { _p: u8 }
impl Runtime { pub uninterp spec fn flavour(&self) -> Flavour; }
#[verifier::external_body]
pub struct Builder { _p: u8 }
impl Builder {
    pub uninterp spec fn flavour(&self) -> Flavour;
    #[verifier::external_body]
    pub fn new_current_thread() -> (r: Builder) ensures r.flavour() == Flavour::CurrentThread { unimplemented!() }
    #[verifier::external_body]
    pub fn new_multi_thread() -> (r: Builder) ensures r.flavour() == Flavour::MultiThread(None) { unimplemented!() }
    /// tokio: "Panics if val is not larger than 0" -- a real precondition.  (tokio's builder methods take `&mut self`
    /// and return `&mut Self`; by-value here: the chained call text is the same)
    #[verifier::external_body]
    pub fn worker_threads(self, val: usize) -> (r: Builder)
        requires val > 0,
        ensures r.flavour() == Flavour::MultiThread(Some(val)),
    { unimplemented!() }
    /// ASSUMED not to fail (the tool `unwrap()`s it)
    #[verifier::external_body]
    pub fn build(self) -> (r: Result<Runtime, IoErr>) ensures r matches Ok(rt) && rt.flavour() == self.flavour() { unimplemented!() }
}
pub mod runtime { pub use super::Builder; }
/// (B) below, as seen from its caller: signature cut from /repo, body skipped
#[verifier::external_body]
pub fn get_merged_vals(
    bigwigs: Vec<BigWigRead>,
    max_zooms: usize,
    threshold: f32,
    adjust: Option<f32>,
    clip: Option<f32>,
) -> (r: Result<
    (
        GroupIter,
        HashMap,
    ),
    MergingValuesError,
>)
    ensures r matches Ok(t) ==> t.0.rest() == groups_spec(bigwigs@, max_zooms, threshold, adjust, clip) && t.1@ == sizes_spec(bigwigs@),
{ unimplemented!() }
/// merge_tool (1), the carved statement `let output_type = match (args.output_type, &output) { .. };`: None = the
/// refusing arm (message printed, `return Ok(())`)
#[verifier::external_body]
fn choose_output_type(output_type: Option<Str>, output: &Str) -> (r: Option<OutputType>)
    ensures r == chosen(output_type, output@)
{ unimplemented!() }
#[verifier::external_body]
pub fn any_err(e: MergingValuesError) -> AnyErr { unimplemented!() }
/// the arguments the tail reads
pub struct TailArgs { pub write_args: BBIWriteArgs, pub threshold: f32, pub adjust: Option<f32>, pub clip: Option<f32>, pub output_type: Option<Str> }

// STRUCTURAL (R11): the nested `enum OutputType` is dropped (extracted above); the carved statement (1) becomes
// `let output_type = match choose_output_type(..) { Some(t) => t, None => return Ok(()) };`; the carved loop (4)
// becomes `env.write_bedgraph(ITER, &mut writer)?;` with ITER = the expression in the loop header (`iter`).  Everything else is the repository's text.
fn merge_tail(args: TailArgs, output: Str, bigwigs: Vec<BigWigRead>, env: &mut Sys) -> (r: Result<(), AnyErr>)
    requires
        // `-t 0` reaches tokio's `worker_threads(0)`, which panics (clap does not refuse it): see NOTES "Observations"
        args.write_args.nthreads >= 1,
    ensures
        
        r is Ok && chosen(args.output_type, output@) == Some(OutputType::BigWig) ==> ({
            let a = final(env).acts().last();
            &&& final(env).acts() == old(env).acts().push(Act::CreateBigWig { path: output@, sizes: sizes_spec(bigwigs@) }).push(a)
            &&& a is WriteBigWig && a->WriteBigWig_path == output@ && a->WriteBigWig_sizes == sizes_spec(bigwigs@)
            &&& a->WriteBigWig_groups == groups_spec(bigwigs@, 10, args.threshold, args.adjust, args.clip)
        }),
        
        r is Ok && chosen(args.output_type, output@) == Some(OutputType::BedGraph) ==>
            final(env).acts() == old(env).acts()
                .push(Act::CreateText { path: output@ })
                .push(Act::WriteBedGraph { path: output@, groups: groups_spec(bigwigs@, 10, args.threshold, args.adjust, args.clip) }),
        
        chosen(args.output_type, output@) is None ==> final(env).acts() == old(env).acts(),
        
        r is Ok && chosen(args.output_type, output@) == Some(OutputType::BigWig) ==> final(env).acts().last() is WriteBigWig
            && final(env).acts().last()->WriteBigWig_flavour == (if args.write_args.nthreads == 1 { Flavour::CurrentThread } else { Flavour::MultiThread(Some(args.write_args.nthreads)) }),
        
        r is Ok && chosen(args.output_type, output@) == Some(OutputType::BigWig) ==> final(env).acts().last() is WriteBigWig
            && final(env).acts().last()->WriteBigWig_options == default_options(),
        
        final(env).acts().len() <= old(env).acts().len() + 2,
        r is Err ==> final(env).acts().len() <= old(env).acts().len() + 2,
{
    let nthreads = args.write_args.nthreads;

    let (iter, chrom_map) = (match get_merged_vals(bigwigs, 10, args.threshold, args.adjust, args.clip) { Ok(v__) => v__, Err(e__) => return Err(any_err(e__)) });


    let output_type = match choose_output_type(args.output_type, &output) { Some(t__) => t__, None => return Ok(()) };
    match output_type {
        OutputType::BigWig => {
            let outb = env.create_bigwig(output, chrom_map)?;
            let runtime = if nthreads == 1 {
                runtime::Builder::new_current_thread().build().unwrap()
            } else {
                runtime::Builder::new_multi_thread()
                    .worker_threads(nthreads)
                    .build()
                    .unwrap()
            };
            let all_values = ChromGroupReadImpl {
                iter: boxed(iter),
            };
            outb.write(all_values, runtime, env)?;
        }
        OutputType::BedGraph => {
            // TODO: convert to multi-threaded

            let bedgraph = env.create_text(output)?;
            let mut writer = TextOut::buffered(bedgraph);

            env.write_bedgraph(iter, &mut writer)?;
        }
    }

    //TODO: fails with too many open files
    Ok(())
}

} // verus!
fn main() {}

