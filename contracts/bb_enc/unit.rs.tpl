//@unit bb_enc
//@serves C02 C04 C09
//@backend verus
// bigbedwrite::encode_section: a batch of BED entries of one chromosome -> one on-disk data block.
// C02/C09: block bytes == published bigBed record layout (chromId, start, end, rest, NUL per entry);
// C04: the span advertised to the R-tree index covers EVERY entry of the block, however long
// earlier entries are relative to later ones; C09: advertised uncompressed size == real size.
use vstd::prelude::*;
verus! {
//@include ../_shared/bytes.rs

//@extract struct bigtools/src/bbi.rs BedEntry
//@rule R8
//@sub /pub rest: String,/ => pub rest: Vec<u8>,
//@end
//@extract struct bigtools/src/bbi/bbiwrite.rs SectionData
//@rule R8
//@end

// libdeflater (C library): assumed contract = zlib inverse.  Replaces the 7-line
// Compressor::new / zlib_compress_bound / zlib_compress / resize cluster (R11).
pub uninterp spec fn inflate(z: Seq<u8>) -> Seq<u8>;
#[verifier::external_body]
pub fn deflate_vec(b: &Sink) -> (r: Vec<u8>) ensures inflate(r@) == b@ { unimplemented!() }

// ---- format spec (from the published layout; shares no code with the reader) ----
/// one bigBed record appended to `b` (left-associated, the order a sequential writer produces):
/// chromId:u32 chromStart:u32 chromEnd:u32 rest:bytes NUL
pub open spec fn put_bb_rec(b: Seq<u8>, chrom: u32, it: BedEntry) -> Seq<u8> {
    (b + le32(chrom) + le32(it.start) + le32(it.end) + it.rest@).push(0u8)
}
pub open spec fn fmt_bb_section(chrom: u32, items: Seq<BedEntry>) -> Seq<u8>
    decreases items.len()
{
    if items.len() == 0 { Seq::empty() } else { put_bb_rec(fmt_bb_section(chrom, items.drop_last()), chrom, items.last()) }
}
/// what bb_batch guarantees about an emitted batch: non-empty, sorted by start (ends are NOT monotone)
pub open spec fn starts_sorted(s: Seq<BedEntry>) -> bool {
    forall|i: int, j: int| 0 <= i <= j < s.len() ==> (#[trigger] s[i]).start <= (#[trigger] s[j]).start
}

// The block's `end`: the code computes it with an iterator fold
//   items.iter().map(|item| item.end).fold(items[0].end, u32::max)
// (iterator adaptors + closure are outside Verus).  That ONE expression is replaced by a call to
// this helper, which is VERIFIED to be the maximum end.  Trusted: the textbook max-fold equals it.
// The substitution matches the exact token sequence of the fold; any other expression flows
// through to Verus unchanged (and either fails `span_covers_every_entry` or is rejected).
pub fn max_end(items: &Vec<BedEntry>) -> (r: u32)
    requires
        items@.len() >= 1,
    ensures
        [[L: max_end/upper_bound]]
        forall|i: int| 0 <= i < items@.len() ==> (#[trigger] items@[i]).end <= r,
        [[L: max_end/attained]]
        exists|i: int| 0 <= i < items@.len() && r == (#[trigger] items@[i]).end,
{
    let mut r = items[0].end;
    let mut k: usize = 1;
    while k < items.len()
        invariant
            [[L: max_end/loop_inv]]
            1 <= k <= items@.len(),
            forall|i: int| 0 <= i < k ==> (#[trigger] items@[i]).end <= r,
            exists|i: int| 0 <= i < k && r == (#[trigger] items@[i]).end,
        decreases
            [[L: max_end/termination]]
            items@.len() - k,
    {
        if items[k].end > r { r = items[k].end; }
        k += 1;
    }
    r
}

//@extract fn bigtools/src/bbi/bigbedwrite.rs encode_section
//@rule R16
//@rule R1
//@rule R3 min=3
//@rule R7 min=1
//@rule R8
//@presub /use libdeflater::\{CompressionLvl, Compressor\};\n/ => ""
//@presub /let mut compressor = Compressor::new\(CompressionLvl::default\(\)\);\s*let max_sz = compressor\.zlib_compress_bound\(bytes\.len\(\)\);\s*let mut compressed_data = vec!\[0; max_sz\];\s*let actual_sz = compressor\s*\.zlib_compress\(&bytes, &mut compressed_data\)\s*\.unwrap\(\);\s*compressed_data\.(?:resize\(actual_sz, 0\)|truncate\(actual_sz\));/ => let compressed_data = deflate_vec(&bytes); let actual_sz = compressed_data.len(); let max_sz = actual_sz;
//@presub /items_in_section\s*\.iter\(\)\s*\.map\(\|item\| item\.end\)\s*\.fold\(items_in_section\[0\]\.end, u32::max\)/ => max_end(&items_in_section) min=0
//@sub /let mut bytes = Vec::with_capacity\(((?:\d+|items_in_section\.len\(\)|[-+*\/()]|\s)*)\);/ => let mut bytes = Sink::with_capacity(0); CAP{\1}CAP
//@sub / CAP\{[^-\/{}]*\}CAP/ => "" min=0
//@sub /items_in_section\.len\(\)(?=[-+*()\d\s]*(?:items_in_section\.len\(\)[-+*()\d\s]*)*\}CAP)/ => items_in_section@.len() min=0
//@sub /CAP\{([^\/{}]*)\}CAP/ => assert((\1) >= 0); min=0
//@sub /\(bytes, (\d+)\)/ => (bytes.bytes, \1) min=0
//@sub /\}\s*else\s*\{\s*bytes\s*\}/ => } else { bytes.bytes } min=0
//@sub /io::Result</ => Result<
//@sub /usize\)> \{/ => usize), IoError> {
//@sub /item\.rest\.as_bytes\(\)/ => item.rest.as_slice() min=0
//@sub /\.put_bytes\(&\[b'\\0'\]\)/ => .put_u8(0u8) min=0
//@ret r
//@sig
    requires
        [[L: pre_batch]]
        items_in_section@.len() >= 1,
        starts_sorted(items_in_section@),
    ensures
        [[L: never_fails_on_memory_sink]]
        r.is_ok(),
        [[L: bytes_are_published_layout]]
        !compress ==> r.unwrap().0.data@ == fmt_bb_section(chrom_id, items_in_section@),
        [[L: compressed_inflates_to_layout]]
        compress ==> inflate(r.unwrap().0.data@) == fmt_bb_section(chrom_id, items_in_section@),
        [[L: advertised_uncompressed_size]]
        r.unwrap().1 == (if compress { fmt_bb_section(chrom_id, items_in_section@).len() } else { 0 }),
        [[L: block_chrom]]
        r.unwrap().0.chrom == chrom_id,
        [[L: span_start_is_first_start]]
        r.unwrap().0.start == items_in_section@[0].start,
        [[L: span_covers_every_entry]]
        forall|i: int| 0 <= i < items_in_section@.len() ==> r.unwrap().0.start <= (#[trigger] items_in_section@[i]).start && items_in_section@[i].end <= r.unwrap().0.end,
        [[L: span_end_is_some_entry_end]]
        exists|i: int| 0 <= i < items_in_section@.len() && r.unwrap().0.end == (#[trigger] items_in_section@[i]).end,
//@loop 1
        invariant
            [[L: loop/prefix_encoded]]
            bytes@ == fmt_bb_section(chrom_id, items_in_section@.subrange(0, i__1 as int)),
//@at /let item = &items_in_section\[i__1\];/ after
        proof {
            assert(items_in_section@.subrange(0, i__1 + 1).drop_last() =~= items_in_section@.subrange(0, i__1 as int));
        }
        let ghost b0 = bytes@;
//@at /^\s*\}\s*$/ nth=1 before
        proof {
            assert(bytes@ == put_bb_rec(b0, chrom_id, *item)); [[L: loop/record_layout]]
        }
//@at /let [^=;]*= if compress \{/ before
    proof {
        assert(items_in_section@.subrange(0, items_in_section@.len() as int) =~= items_in_section@);
    }
//@end

} // verus!
fn main() {}
