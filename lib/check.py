#!/usr/bin/env python3
"""./check <Cxx> [--tier quick|thorough] [--replay PATH] [--unit NAME] [--keep] [--update-baseline]

Decides one property by running every contract unit that serves it
(DESIGN §4).  Exit 0 = all obligations discharged; 1 = VIOLATION; 2 = undecided.
"""
import argparse
import concurrent.futures as cf
import glob
import json
import os
import re
import shutil
import subprocess
import sys
import time

HERE = os.path.dirname(os.path.abspath(__file__))
VERIF = os.path.dirname(HERE)
sys.path.insert(0, HERE)

import rewrite  # noqa: E402
from rustlex import AnchorLost  # noqa: E402
from weave import TemplateError, Unit  # noqa: E402

REPO = os.environ.get('VERIF_REPO', '/repo')
SCRATCH_ROOT = os.environ.get('VERIF_SCRATCH', '/var/tmp')

# Verus diagnostics that mean "this obligation is not discharged"
FALSIFIED = [
    'postcondition not satisfied', 'precondition not satisfied', 'assertion failed',
    'invariant not satisfied', 'decreases not satisfied', 'possible arithmetic underflow/overflow',
    'possible division by zero', 'possible bit shift underflow/overflow', 'recommendation not met',
    'loop invariant not satisfied', 'failed this postcondition', 'failed precondition',
    'possible overflow', 'possible underflow', 'index out of bounds', 'unreachable', 'precondition not met',
    'cannot show invariant holds', 'could not prove termination', 'termination',
    'assert_by', 'value may be out of range', 'constant may overflow', 'possible truncation',
]
UNDECIDED = ['rlimit', 'resource limit', 'timed out', 'timeout', 'out of memory', 'solver']


def sh(cmd, **kw):
    return subprocess.run(cmd, stdout=subprocess.PIPE, stderr=subprocess.PIPE, text=True, **kw)


def enabled_units():
    p = os.path.join(VERIF, 'contracts', 'ENABLED.txt')
    if not os.path.exists(p):
        return None
    return set(l.split('#')[0].strip() for l in open(p) if l.split('#')[0].strip())


def serves_map():
    p = os.path.join(VERIF, 'contracts', 'SERVES.txt')
    m = {}
    if os.path.exists(p):
        for l in open(p):
            l = l.split('#')[0].strip()
            if ':' in l:
                u, ps = l.split(':', 1)
                m[u.strip()] = ps.split()
    return m


def units_for(prop, only_enabled=True):
    res = []
    en = enabled_units() if only_enabled else None
    sm = serves_map()
    for tpl in sorted(glob.glob(os.path.join(VERIF, 'contracts', '*', 'unit.rs.tpl'))):
        uname = os.path.basename(os.path.dirname(tpl))
        if en is not None and uname not in en:
            continue
        if uname in sm:
            if prop in sm[uname]:
                res.append(tpl)
            continue
        for line in open(tpl):
            if line.startswith('//@serves') and prop in line.split()[1:]:
                res.append(tpl)
                break
    return res


def all_props():
    return [json.loads(l)['id'] for l in open(os.path.join(VERIF, 'properties.jsonl'))]


def load_known():
    p = os.path.join(VERIF, 'known_findings.json')
    if not os.path.exists(p):
        return {'findings': []}
    return json.load(open(p))


# the front end refusing a construct is never a verdict about the property (exit 2), whatever words the quoted
# source text happens to contain
FRONTEND = ['not supported', 'does not yet support', 'unsupported', 'not yet supported', 'does not support',
            'not yet implemented', 'unimplemented feature']


def classify(msg):
    ml = msg.lower()
    head = ml.split('\n')[0][:200]
    for u in FRONTEND:
        if u in head:
            return 'frontend'
    for u in UNDECIDED:
        if u in ml:
            return 'undecided'
    for f in FALSIFIED:
        if f in ml:
            return 'falsified'
    return 'frontend'


def run_verus(path, extra_args, timeout):
    cmd = ['verus', path, '--error-format=json', '--output-json', '--time', '--multiple-errors', '8'] + extra_args
    t0 = time.time()
    try:
        p = sh(cmd, timeout=timeout, cwd=os.path.dirname(path))
    except subprocess.TimeoutExpired:
        return {'cmd': ' '.join(cmd), 'timeout': True, 'wall': time.time() - t0, 'diags': [], 'results': None, 'times': None, 'rc': None, 'raw_err': ''}
    diags = []
    for line in p.stderr.split('\n'):
        line = line.strip()
        if line.startswith('{'):
            try:
                d = json.loads(line)
            except ValueError:
                continue
            if d.get('$message_type') == 'diagnostic' or 'message' in d:
                diags.append(d)
    results = times = None
    try:
        j = json.loads(p.stdout)
        results = j.get('verification-results')
        times = j.get('times-ms')
    except ValueError:
        pass
    return {'cmd': ' '.join(cmd), 'timeout': False, 'wall': time.time() - t0, 'diags': diags, 'results': results,
            'times': times, 'rc': p.returncode, 'raw_err': p.stderr[-4000:]}


def fn_breakdown(times):
    out = {}
    try:
        for mod in times['smt']['smt-run-module-times']:
            for f in mod.get('function-breakdown', []):
                out[f['function']] = {'ms': f['time'], 'rlimit': f['rlimit'], 'success': f['success']}
    except (KeyError, TypeError):
        pass
    return out


def make_vacuity_variant(unit):
    """Copy of the generated file with `assert(false)` as first statement of every woven fn
    that has a `requires`.  Each of those asserts must FAIL, otherwise the precondition is
    contradictory and everything proved under it is vacuous."""
    lines = list(unit.lines)
    out = []
    expect = []
    i = 0
    n = len(lines)
    # find woven fns: a contract 'sig' section followed by the body's '{' line
    while i < n:
        out.append(lines[i])
        tag = unit.tags[i]
        if tag and tag.get('kind') == 'contract' and tag.get('section') == 'sig':
            # last line of this sig section?
            nxt = unit.tags[i + 1] if i + 1 < n else None
            if not (nxt and nxt.get('kind') == 'contract' and nxt.get('section') == 'sig'):
                # does the section contain a requires?
                k = i
                has_req = False
                while k >= 0 and unit.tags[k] and unit.tags[k].get('kind') == 'contract' and unit.tags[k].get('section') == 'sig':
                    if re.search(r'\brequires\b', lines[k]):
                        has_req = True
                    k -= 1
                # the next code line must start with '{'
                if has_req and i + 1 < n and lines[i + 1].lstrip().startswith('{'):
                    l = lines[i + 1]
                    idx = l.index('{')
                    out.append(l[:idx + 1] + ' assert(false); /*VACUITY:%s*/ ' % tag['fn'] + l[idx + 1:])
                    expect.append((len(out), tag['fn']))
                    i += 2
                    continue
        i += 1
    return '\n'.join(out) + '\n', expect


def run_unit(tpl, scratch, tier, keep):
    t0 = time.time()
    name = os.path.basename(os.path.dirname(tpl))
    res = {'unit': name, 'status': 'ok', 'failed': [], 'undecided': [], 'notes': [], 'items': [], 'labels': [],
           'trusted': [], 'functions': {}, 'verified': 0, 'cmd': '', 'smt_ms': 0, 'wall': 0.0, 'vacuity': {}}
    unit = Unit(tpl, REPO)
    try:
        text = unit.build()
    except AnchorLost as e:
        res['status'] = 'undecided'
        res['undecided'].append('anchor lost: %s' % e)
        return res
    except TemplateError as e:
        res['status'] = 'undecided'
        res['undecided'].append('template error: %s' % e)
        return res
    res['items'] = unit.items
    res['labels'] = unit.labels
    res['trusted'] = unit.trusted
    res['serves'] = unit.serves
    gen = os.path.join(scratch, name + '.rs')
    open(gen, 'w').write(text)
    exdir = os.path.join(VERIF if os.path.realpath(REPO) == '/repo' else os.path.join(SCRATCH_ROOT, 'verif-out'), 'evidence', 'extracted')
    os.makedirs(exdir, exist_ok=True)
    shutil.copy(gen, os.path.join(exdir, name + '.rs'))
    res['generated'] = os.path.join('evidence', 'extracted', name + '.rs')

    vtext, expect = make_vacuity_variant(unit)
    vgen = os.path.join(scratch, name + '__vacuity.rs')
    open(vgen, 'w').write(vtext)

    rl = ['--rlimit', '30' if tier == 'quick' else '60'] + unit.verus_args
    seed = int(os.environ.get('VERIF_SEED', '0') or 0)
    with cf.ThreadPoolExecutor(3) as ex:
        f_main = ex.submit(run_verus, gen, rl, 900)
        f_vac = ex.submit(run_verus, vgen, rl, 900)
        # thorough tier: a second pass under a different solver seed exposes unstable queries
        f_alt = ex.submit(run_verus, gen, rl + ['--smt-option', 'smt.random_seed=%d' % (seed % 1000 + 17)], 900) if tier == 'thorough' else None
        r = f_main.result()
        rv = f_vac.result()
        r_alt = f_alt.result() if f_alt else None
    if r_alt is not None:
        ok_main = bool(r['results'] and r['results'].get('success'))
        ok_alt = bool(r_alt['results'] and r_alt['results'].get('success'))
        res['second_seed'] = {'success': ok_alt, 'wall': round(r_alt['wall'], 2)}
        if ok_main != ok_alt:
            res['notes'].append('UNSTABLE: verdict differs between solver seeds (main=%s, alt=%s)' % (ok_main, ok_alt))
            # informational only: the deciding run is the default-seed run (deterministic for a given text);
            # the note is written to evidence.coverage.units[].notes / coverage.unstable
    res['cmd'] = r['cmd'].replace(scratch, '$SCRATCH')
    res['verus_wall'] = round(r['wall'], 2)
    if r['timeout']:
        res['status'] = 'undecided'
        res['undecided'].append('verus timed out')
        return res
    if r['results'] is None:
        res['status'] = 'undecided'
        res['undecided'].append('verus produced no result json; stderr tail: ' + r['raw_err'][-600:])
    fb = fn_breakdown(r['times'])
    res['functions'] = fb
    res['smt_ms'] = sum(v['ms'] for v in fb.values())
    res['verified'] = (r['results'] or {}).get('verified', 0)

    seen = set()
    for d in r['diags']:
        if d.get('level') != 'error':
            continue
        msg = d.get('message', '')
        if msg.startswith('aborting due to'):
            continue
        cls = classify(msg)
        # spans that point into vstd (or any file other than the generated unit) must not be mapped to unit lines
        def own(s):
            fnm = s.get('file_name') or ''
            return (not fnm) or os.path.basename(fnm) == os.path.basename(gen)
        d = dict(d, spans=[s for s in d.get('spans', []) if own(s)],
                 children=[dict(ch, spans=[s for s in ch.get('spans', []) if own(s)]) for ch in d.get('children', [])])
        spans = [s for s in d.get('spans', []) if s.get('is_primary')] or d.get('spans', [])
        line = spans[0]['line_start'] if spans else None
        tag = unit.tags[line - 1] if line and 0 < line <= len(unit.tags) else None
        src_text = unit.lines[line - 1].strip() if line and 0 < line <= len(unit.lines) else ''
        # secondary spans often point at the failed clause (e.g. "failed this postcondition")
        label = None
        for s in d.get('spans', []):
            ln = s['line_start']
            tg = unit.tags[ln - 1] if 0 < ln <= len(unit.tags) else None
            if tg and tg.get('label') and (s.get('label') or '').startswith('failed'):
                label = tg['label']
        for ch in d.get('children', []):
            for s in ch.get('spans', []):
                ln = s['line_start']
                tg = unit.tags[ln - 1] if 0 < ln <= len(unit.tags) else None
                if tg and tg.get('label') and label is None:
                    label = tg['label']
        if label is None and tag and tag.get('label'):
            label = tag['label']
        if label is None and spans:
            # a multi-line clause/assert: any line of the primary span may carry the marker
            for ln in range(spans[0]['line_start'], min(spans[0].get('line_end', spans[0]['line_start']), spans[0]['line_start'] + 40) + 1):
                tg = unit.tags[ln - 1] if 0 < ln <= len(unit.tags) else None
                if tg and tg.get('label'):
                    label = tg['label']
                    break
        fn = (tag or {}).get('fn') or '?'
        if label is None and ('decreases' in msg or 'termination' in msg.lower()) and line:
            # reported at the loop keyword / fn header: map to the first termination label that follows
            for ln in list(range(line, min(line + 120, len(unit.tags)))) + list(range(line - 1, max(0, line - 400), -1)):
                tg = unit.tags[ln]
                if tg and tg.get('label') and 'termination' in tg['label'] and tg.get('fn') == fn:
                    label = tg['label']
                    break
        if label is None:
            label = '%s/implicit:%s@%s' % (fn, re.sub(r'\s+', ' ', msg)[:60], re.sub(r'\s+', ' ', src_text)[:80])
        entry = {'obligation': '%s/%s' % (name, label), 'message': msg, 'line': line, 'text': src_text,
                 'rendered': (d.get('rendered') or '')[:1500], 'class': cls}
        key = (entry['obligation'], msg)
        if key in seen:
            continue
        seen.add(key)
        if cls == 'falsified':
            res['failed'].append(entry)
        else:
            res['undecided'].append('%s: %s @ line %s: %s' % (cls, msg[:300], line, src_text[:120]))
    if res['failed']:
        res['status'] = 'failed'
    if res['undecided']:
        res['status'] = 'undecided' if not res['failed'] else 'failed+undecided'
    elif not res['failed'] and r['results'] is not None and not r['results'].get('success'):
        res['status'] = 'undecided'
        res['undecided'].append('verus reported failure without a classified diagnostic; stderr tail: ' + r['raw_err'][-800:])

    # vacuity: every injected assert(false) must be reported as failed
    if res['status'] == 'ok':
        vac_failed_lines = set()
        for d in rv['diags']:
            if d.get('level') == 'error' and 'assertion failed' in d.get('message', ''):
                for s in d.get('spans', []):
                    vac_failed_lines.add(s['line_start'])
        for (ln, fn) in expect:
            ok = ln in vac_failed_lines
            res['vacuity'][fn] = 'reachable' if ok else 'NOT SHOWN REACHABLE'
            if not ok:
                # a function whose vacuity-variant hit rlimit etc. is undecided, not a pass
                res['status'] = 'undecided'
                res['undecided'].append('vacuity guard: assert(false) under the precondition of %s was not refuted' % fn)
    res['wall'] = round(time.time() - t0, 2)
    return res


def check_baseline(res, update):
    bp = os.path.join(VERIF, 'baseline', res['unit'] + '.json')
    cur = {'labels': sorted(res['labels']), 'verified': res['verified'],
           'functions': sorted(k for k in res['functions'])}
    if update and res['status'] == 'ok':
        os.makedirs(os.path.dirname(bp), exist_ok=True)
        json.dump(cur, open(bp, 'w'), indent=1, sort_keys=True)
        return None
    if not os.path.exists(bp):
        return 'no baseline for unit %s (run ./check --update-baseline on the pinned tree)' % res['unit']
    base = json.load(open(bp))
    missing = sorted(set(base['labels']) - set(cur['labels']))
    if missing:
        return 'labels missing vs baseline: %s' % missing[:5]
    if res['status'] == 'ok' and cur['verified'] < base['verified']:
        return 'verified function count %d < baseline %d' % (cur['verified'], base['verified'])
    return None


def prop_assumptions(prop):
    out = ['Verus 0.2026.09.13 + z3, Kani 0.68 + CBMC 6.11 and the rustc front ends are trusted',
           'the extractor/rewrite table (lib/weave.py, lib/rewrite.py): the verified text is the text cut from /repo on this run after the listed mechanical rewrites (coverage.rewrites, coverage.substitutions_R11; generated files under evidence/extracted/)',
           'every external_body / assume_specification / axiom line listed in coverage.trusted_base is an assumed contract of code outside the verified functions',
           'machine integers are machine integers (overflow checked); floats are uninterpreted in Verus (shape only) and bit-precise in Kani']
    try:
        import gen_manifest
        if prop in gen_manifest.META:
            out.append('scope of the claim: ' + gen_manifest.META[prop][1])
    except Exception:
        pass
    return out


def main():
    ap = argparse.ArgumentParser()
    ap.add_argument('prop')
    ap.add_argument('--tier', default=os.environ.get('VERIF_TIER', 'quick'))
    ap.add_argument('--replay')
    ap.add_argument('--unit')
    ap.add_argument('--keep', action='store_true')
    ap.add_argument('--update-baseline', action='store_true')
    args = ap.parse_args()
    tier = args.tier if args.tier in ('quick', 'thorough') else 'quick'
    seed = int(os.environ.get('VERIF_SEED', '0') or 0)
    prop = args.prop
    t0 = time.time()

    if args.replay:
        import replay_run
        sys.exit(replay_run.replay(args.replay))

    tpls = units_for(prop, only_enabled=not args.unit)   # --unit: also units not yet enabled (development)
    if args.unit:
        tpls = [t for t in tpls if os.path.basename(os.path.dirname(t)) == args.unit]
    kani_units = []
    try:
        import kani_lane
        kani_units = kani_lane.units_for(prop, tier)
        if args.unit:
            kani_units = [k for k in kani_units if k['name'] == args.unit]
    except ImportError:
        kani_lane = None
    kx_units = []
    try:
        import kani_extract
        kx_units = kani_extract.units_for(prop, tier)
        if args.unit:
            kx_units = [k for k in kx_units if k['name'] == args.unit]
    except ImportError:
        kani_extract = None
    if not tpls and not kani_units and not kx_units:
        print('no units serve %s' % prop)
        sys.exit(2)

    scratch = os.path.join(SCRATCH_ROOT, 'bt-verif.%d' % os.getpid())
    os.makedirs(scratch, exist_ok=True)
    results = []
    try:
        with cf.ThreadPoolExecutor(max_workers=6) as ex:
            futs = [ex.submit(run_unit, t, scratch, tier, args.keep) for t in tpls]
            kres = []
            if kani_units:
                kres = kani_lane.run(prop, kani_units, scratch, tier, REPO)
            if kx_units:
                kres += kani_extract.run(prop, kx_units, scratch, tier, REPO)
            for f in futs:
                results.append(f.result())
            results += kres
    finally:
        if not args.keep:
            shutil.rmtree(scratch, ignore_errors=True)

    known = load_known()
    violations, known_hits, undecided = [], [], []
    descriptive = []
    obligations = discharged = 0
    samples, functions_under_contract, trusted, backends, rewrites, assumptions = [], [], [], {}, {}, []
    substitutions = []
    bounded = []
    for r in results:
        if r.get('backend') == 'kani':
            obligations += r['obligations']
            discharged += r['discharged']
            bounded += r.get('bounded', [])
            for k, v in r.get('harnesses', {}).items():
                backends['%s/%s' % (r['unit'], k)] = {'backend': 'kani/cbmc', 'seconds': v.get('seconds')}
            functions_under_contract += r.get('functions_under_contract', [])
            trusted += ['%s: %s' % (r['unit'], t) for t in r.get('trusted', [])]
            samples += r.get('samples', [])[:2]
        else:
            berr = check_baseline(r, args.update_baseline)
            if berr and not args.update_baseline:
                r['undecided'].append('baseline: ' + berr)
                if r['status'] == 'ok':
                    r['status'] = 'undecided'
            nfun = len([f for f in r['functions']])
            n_obl = len(r['labels']) + nfun
            failed_labels = set(f['obligation'] for f in r['failed'])
            obligations += n_obl
            discharged += max(0, n_obl - len(failed_labels)) if r['status'] in ('ok', 'failed') else 0
            for it in r['items']:
                functions_under_contract.append('%s:%s:%s sha256=%s' % (it['file'], it['name'], it['kind'], it['sha256'][:16]))
                for k, v in it['rules'].items():
                    rewrites[k] = rewrites.get(k, 0) + v
                for sb in it['subs']:
                    rewrites.setdefault('R11', 0)
                    rewrites['R11'] += sb['hits']
                    substitutions.append('%s:%s /%s/ => %s  [%d hit(s)]' % (r['unit'], it['name'], sb['pat'][:70], sb['rep'][:50], sb['hits']))
            for fn, v in r['functions'].items():
                backends['%s/%s' % (r['unit'], fn.split('::', 1)[-1])] = {'backend': 'verus/z3', 'ms': v['ms'], 'rlimit': v['rlimit']}
            trusted += ['%s: %s' % (r['unit'], t) for t in r['trusted']]
            samples += ['%s/%s' % (r['unit'], l) for l in r['labels'][:3]]
        for f in r['failed']:
            kf = None
            for k in known.get('findings', []):
                if k.get('status') == 'open' and k['property'] == prop and k['obligation'] == f['obligation']:
                    kf = k
            if kf:
                known_hits.append((kf, f))
            elif re.search(r'(^|/)doc/', f['obligation'].split('/', 1)[-1]):
                # a DESCRIPTIVE label (`doc/...`): it records what the code does where the property demands nothing
                # (e.g. which of two equally correct write modes an option selects).  A change there is reported as a
                # note, never as a violation of the property.
                descriptive.append((r, f))
            else:
                violations.append((r, f))
        for u in r['undecided']:
            undecided.append('%s: %s' % (r['unit'], u))

    # replay files + output
    rc = 0
    # runs against a scratch copy (mutant trials) must not clobber the committed replays / evidence
    on_real_repo = os.path.realpath(REPO) == '/repo'
    # (--unit runs are development runs of a single unit: they do not rewrite the property's evidence either)
    OUT = VERIF if (on_real_repo and not args.unit) else os.path.join(SCRATCH_ROOT, 'verif-out')
    os.makedirs(os.path.join(OUT, 'replays'), exist_ok=True)
    printed_kf = set()
    for kf, f in known_hits:
        print('KNOWN-FINDING: property=%s %s (%s)' % (prop, kf.get('what', f['obligation']), f['obligation']))
        printed_kf.add(kf['obligation'])
    # open findings that no unit states as an obligation (recorded defects outside what the contracts
    # can express, DESIGN §8): listed on every run of their property; the recorded input is replayed on
    # the real code when the replay driver is available, so a finding that disappeared is noticed.
    for kf in known.get('findings', []):
        if kf.get('status') == 'open' and kf['property'] == prop and kf['obligation'] not in printed_kf and not args.unit:
            note = ''
            try:
                import cex_search
                if on_real_repo and kf.get('replay'):
                    ok, _log = cex_search.build(REPO)
                    if ok:
                        drv, mode, rest = kf['replay'].split(' ', 2)
                        got, _o = cex_search.run_driver(drv, mode, [rest], 120)
                        note = ' [replayed on the real code: %s]' % ('still fails' if got else 'NO LONGER FAILS - update known_findings.json')
            except Exception as e:  # noqa
                note = ' [replay not run: %s]' % e
            print('KNOWN-FINDING: property=%s %s%s' % (prop, kf.get('what', kf['obligation']), note))
    for r, f in descriptive:
        print('NOTE: descriptive label no longer holds (not demanded by %s): %s' % (prop, f['obligation']))
    vio_by_unit = {}
    for r, f in violations:
        vio_by_unit.setdefault(r['unit'], []).append((r, f))
    n = 0
    for uname, lst in vio_by_unit.items():
        n += 1
        path = os.path.join(OUT, 'replays', '%s-%s-%d.json' % (prop, uname, n))
        r = lst[0][0]
        rec = {'property': prop, 'unit': uname, 'obligations': [f['obligation'] for _, f in lst],
               'verifier_output': [f.get('rendered') or f.get('message') for _, f in lst],
               'checker_cmd': r.get('cmd'), 'generated_file': r.get('generated'), 'input': None, 'driver': None}
        found = False
        if r.get('backend') == 'kani':
            for _, f in lst:
                if f.get('concrete'):
                    rec['input'] = f['concrete']
                    rec['driver'] = f.get('driver')
                    rec['replay_result'] = f.get('replay_result')
                    found = bool(f.get('replay_reproduced'))
        else:
            try:
                import cex_search
                got = cex_search.search(prop, uname, [f['obligation'] for _, f in lst], REPO, seed, tier)
                if got:
                    rec.update(got)
                    found = bool(got.get('input'))
            except ImportError:
                pass
        json.dump(rec, open(path, 'w'), indent=1)
        print('VIOLATION property=%s replay=%s%s' % (prop, path, '' if found else ' no-failing-input-found'))
        for _, f in lst:
            print('  failed obligation: %s  [%s]' % (f['obligation'], f['message']))
        rc = 1
    if undecided and rc == 0:
        rc = 2
        for u in undecided:
            print('UNDECIDED: ' + u)

    wall = round(time.time() - t0, 2)
    ev = {
        'property_id': prop, 'tier': tier, 'seed': seed, 'level': 'proof',
        'coverage': {
            'obligations': obligations, 'discharged': discharged,
            'checker_cmd': '; '.join(sorted(set(r.get('cmd', '') for r in results if r.get('cmd')))),
            'trusted_base': sorted(set(trusted)),
            'functions_under_contract': functions_under_contract,
            'backends': backends,
            'bounded': bounded,
            'rewrites': {k: {'hits': v, 'meaning': rewrite.RULE_DOC.get(k, '')} for k, v in sorted(rewrites.items())},
            'substitutions_R11': substitutions,
            'known_findings': [k for k in known.get('findings', []) if k['property'] == prop],
            'samples': samples[:12] or ['(none)'],
            'units': [{'unit': r['unit'], 'status': r['status'], 'wall_s': r.get('wall'), 'verified_functions': r.get('verified'),
                       'vacuity': r.get('vacuity'), 'generated': r.get('generated'), 'notes': r.get('notes'), 'second_seed': r.get('second_seed')} for r in results],
            'unstable': [r['unit'] for r in results if any('UNSTABLE' in n for n in (r.get('notes') or []))],
            'undecided': undecided,
            'solver_seconds': round(sum(r.get('smt_ms', 0) for r in results) / 1000.0 + sum(r.get('solver_s', 0) for r in results), 3),
            'explanation': 'obligation = one labelled contract clause ([[L: ..]]) woven into code cut from /repo on this run, '
                           'plus one implicit safety bundle (overflow/index/callee preconditions/termination) per verified function; '
                           'Kani harness checks are counted per harness check id',
        },
        'assumptions': prop_assumptions(prop) + sorted(set(assumptions)),
        'wall_s': wall,
        'violations': len(vio_by_unit),
    }
    os.makedirs(os.path.join(OUT, 'evidence'), exist_ok=True)
    json.dump(ev, open(os.path.join(OUT, 'evidence', prop + '.json'), 'w'), indent=1)
    if rc == 0:
        print('OK property=%s obligations=%d discharged=%d units=%d wall=%.1fs' % (prop, obligations, discharged, len(results), wall))
    sys.exit(rc)


if __name__ == '__main__':
    main()
