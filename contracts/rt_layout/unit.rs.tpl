//@unit rt_layout
//@serves C05 C09
//@backend verus
// bbiwrite::calculate_offsets, write_tree, write_rtreeindex: the writer of the on-disk R-tree
// (cirTree) index, level-order layout.  C05/C09: the bytes appended are the published 48-byte cirTree
// header followed by the nodes of level `levels`, ..., level 0, every node in the published node
// layout, and EVERY CHILD POINTER EQUALS THE ABSOLUTE FILE POSITION OF THE CHILD'S NODE HEADER --
// for every number of levels, every fan-out <= 65535, partly filled last nodes on every level.
// The code computes pointers as `childnode_offset + idx * full_node_size`; the format spec (spec.rs)
// computes them from the REAL sizes of the nodes that precede the child.  They agree because of
// the fullness clause of `wf` (every node that is not the last of its level has exactly
// block_size children) -- an explicit precondition here; it is what get_rtreeindex's chunking
// produces, but get_rtreeindex is NOT verified by this unit.
// Files: spec.rs (sizes, wf, format spec), lemmas.rs (fullness => sizes, lengths), stored.rs (the image
// read back by position), decode.rs (the image read back by an independent little-endian reader that
// follows the stored pointers) -- the last is the top-level statement of write_rtreeindex.
use vstd::prelude::*;
use vstd::std_specs::convert::FromSpec;
verus! {
//@include ../_shared/bytes.rs

//@extract struct bigtools/src/bbi/bbiwrite.rs Section
//@rule R8
//@end
//@extract struct bigtools/src/bbi/bbiwrite.rs RTreeNode
//@rule R8
//@end
//@extract enum bigtools/src/bbi/bbiwrite.rs RTreeChildren
//@rule R8
//@end
//@extract enum bigtools/src/bbi/bbiwrite.rs InputSortType
//@rule R8
//@end
//@extract struct bigtools/src/bbi/bbiwrite.rs BBIWriteOptions
//@rule R8
//@sub /#\[derive\(Clone\)\]\n/ => ""
//@end
//@extract const bigtools/src/bbi/bbiwrite.rs NODEHEADER_SIZE
//@end
//@extract const bigtools/src/bbi/bbiwrite.rs NON_LEAFNODE_SIZE
//@end
//@extract const bigtools/src/bbi/bbiwrite.rs LEAFNODE_SIZE
//@end
//@extract const bigtools/src/bbi.rs CIR_TREE_MAGIC
//@rule R8
//@end

//@include spec.rs
//@include lemmas.rs
//@include stored.rs
//@include decode.rs


// ---------------- verified stand-ins for the iterator-adaptor expressions of write_rtreeindex ----------------
// (exact-text //@sub; ASSUMED: `.iter().map(|s| (a, b)).max()` is the lexicographic maximum of the pairs
//  -- Ord for tuples -- and `.first()` is element 0)
fn first_start_sections(v: &Vec<Section>) -> (r: (u32, u32))
    ensures r == (if v@.len() == 0 { (0u32, 0u32) } else { (v@[0].chrom, v@[0].start) }),
{
    if v.len() == 0 { (0, 0) } else { (v[0].chrom, v[0].start) }
}
fn first_child(v: &Vec<RTreeNode>) -> (r: &RTreeNode)
    requires v@.len() > 0,
    ensures *r == v@[0],
{
    &v[0]
}
fn pos_le_exec(a: (u32, u32), b: (u32, u32)) -> (r: bool)
    ensures r == pos_le(a, b),
{
    a.0 < b.0 || (a.0 == b.0 && a.1 <= b.1)
}
fn max_end_sections(v: &Vec<Section>) -> (r: (u32, u32))
    ensures
        [[L: helper/max_end_sections_is_lexicographic_max_or_zero_if_empty]]
        r == max_end_secs(v@, v@.len() as int),
{
    let mut m: (u32, u32) = (0, 0);
    let mut i: usize = 0;
    while i < v.len()
        invariant i <= v.len(), m == max_end_secs(v@, i as int),
        decreases v.len() - i,
    {
        let e = (v[i].chrom, v[i].end);
        if pos_le_exec(m, e) { m = e; }
        i = i + 1;
    }
    m
}
// the same two expressions with a default other than `(0, 0)` (`Option::unwrap_or(d)`: `d` iff the vector is empty)
fn first_start_sections_or(v: &Vec<Section>, d: (u32, u32)) -> (r: (u32, u32))
    ensures r == (if v@.len() == 0 { d } else { (v@[0].chrom, v@[0].start) }),
{
    if v.len() == 0 { d } else { (v[0].chrom, v[0].start) }
}
fn max_end_sections_or(v: &Vec<Section>, d: (u32, u32)) -> (r: (u32, u32))
    ensures r == (if v@.len() == 0 { d } else { max_end_secs(v@, v@.len() as int) }),
{
    if v.len() == 0 { d } else { max_end_sections(v) }
}
fn max_end_children(v: &Vec<RTreeNode>) -> (r: (u32, u32))
    requires v@.len() > 0,
    ensures
        [[L: helper/max_end_children_is_lexicographic_max]]
        r == max_end_nodes(v@, v@.len() as int),
{
    let mut m: (u32, u32) = (0, 0);
    let mut i: usize = 0;
    while i < v.len()
        invariant i <= v.len(), m == max_end_nodes(v@, i as int),
        decreases v.len() - i,
    {
        let e = (v[i].end_chrom_idx, v[i].end_base);
        if pos_le_exec(m, e) { m = e; }
        i = i + 1;
    }
    m
}

// ================= code under contract =================
//@extract fn bigtools/src/bbi/bbiwrite.rs calculate_offsets
//@rule R16
//@rule R7 min=1
//@sub /index_offsets\[level (\+|-) (\d+)\] (\+|-)= (\w+);/ => index_offsets.set(level \1 \2, index_offsets[level \1 \2] \3 \4); min=2
//@sig
    requires
        [[L: pre]]
        depth_ok(*nodes, level as int),
        old(index_offsets)@.len() >= level,
        forall|k: int| 0 <= k < level ==> (#[trigger] old(index_offsets)@[k]) + sz(*nodes, level as int, k + 1) <= u64::MAX,
    ensures
        [[L: length_unchanged]]
        final(index_offsets)@.len() == old(index_offsets)@.len(),
        [[L: each_level_gains_its_real_byte_size]]
        forall|k: int| 0 <= k < level ==> (#[trigger] final(index_offsets)@[k]) == old(index_offsets)@[k] + sz(*nodes, level as int, k + 1),
        [[L: other_entries_unchanged]]
        forall|k: int| level <= k < old(index_offsets)@.len() ==> (#[trigger] final(index_offsets)@[k]) == old(index_offsets)@[k],
    decreases
        [[L: termination]]
        nodes,
//@at /RTreeChildren::Nodes\(children\) => \{/ after
            let ghost s = children@;
            let ghost lv = level as int;
            proof {
                assert(old(index_offsets)@[lv - 1] + sz(*nodes, lv, lv - 1 + 1) <= u64::MAX);
                lemma_szk_above(s, lv - 1, lv, 0);
                lemma_szk_above(s, lv - 1, lv, s.len() as int);
                assert forall|k: int| 0 <= k < lv implies (#[trigger] old(index_offsets)@[k]) + hdr_part(k, lv, s.len() as int) + sz_kids(s, lv - 1, k + 1, s.len() as int) <= u64::MAX by {
                    assert(old(index_offsets)@[k] + sz(*nodes, lv, k + 1) <= u64::MAX);
                }
            }
//@loop 1
                invariant
                    [[L: loop/frame]]
                    *nodes == RTreeChildren::Nodes(*children), s == children@, lv == level as int, lv >= 1,
                    forall|i: int| 0 <= i < s.len() ==> depth_ok((#[trigger] s[i]).children, lv - 1),
                    index_offsets@.len() == old(index_offsets)@.len(), index_offsets@.len() >= level,
                    forall|k: int| 0 <= k < lv ==> (#[trigger] old(index_offsets)@[k]) + hdr_part(k, lv, s.len() as int) + sz_kids(s, lv - 1, k + 1, s.len() as int) <= u64::MAX,
                    [[L: loop/levels_gain_sizes_of_children_done]]
                    forall|k: int| 0 <= k < lv ==> (#[trigger] index_offsets@[k]) == old(index_offsets)@[k] + hdr_part(k, lv, i__1 as int) + sz_kids(s, lv - 1, k + 1, i__1 as int),
                    [[L: loop/other_entries_unchanged]]
                    forall|k: int| lv <= k < index_offsets@.len() ==> (#[trigger] index_offsets@[k]) == old(index_offsets)@[k],
//@at /index_offsets\.set\(level - \d+,/ nth=2 before
                let ghost io1 = index_offsets@;
                proof {
                    lemma_szk_above(s, lv - 1, lv, i__1 as int);
                    lemma_szk_above(s, lv - 1, lv, i__1 + 1);
                    lemma_szk_above(s, lv - 1, lv, s.len() as int);
                    assert(old(index_offsets)@[lv - 1] + hdr_part(lv - 1, lv, s.len() as int) + sz_kids(s, lv - 1, lv - 1 + 1, s.len() as int) <= u64::MAX);
                    assert(index_offsets@[lv - 1] == old(index_offsets)@[lv - 1] + hdr_part(lv - 1, lv, i__1 as int) + sz_kids(s, lv - 1, lv - 1 + 1, i__1 as int));
                }
//@at /calculate_offsets\(index_offsets,/ before
                let ghost io2 = index_offsets@;
                proof {
                    assert(*child == s[i__1 as int]);
                    assert(nodes->Nodes_0 == *children);
                    assert(decreases_to!(*nodes => nodes->Nodes_0));
                    assert(decreases_to!(*nodes => *children));
                    assert(decreases_to!(*children => children@[i__1 as int]));
                    assert(decreases_to!(children@[i__1 as int] => children@[i__1 as int].children));
                    assert(decreases_to!(nodes => child.children));
                    assert forall|k: int| 0 <= k < lv - 1 implies (#[trigger] io2[k]) + sz(child.children, lv - 1, k + 1) <= u64::MAX by {
                        assert(io2[k] == io1[k]);
                        assert(io1[k] == old(index_offsets)@[k] + hdr_part(k, lv, i__1 as int) + sz_kids(s, lv - 1, k + 1, i__1 as int));
                        assert(old(index_offsets)@[k] + hdr_part(k, lv, s.len() as int) + sz_kids(s, lv - 1, k + 1, s.len() as int) <= u64::MAX);
                        lemma_szk_mono(s, lv - 1, k + 1, i__1 + 1, s.len() as int);
                    }
                }
//@at /calculate_offsets\(index_offsets,/ after
                proof {
                    [[L: loop/step_adds_item_size_and_subtree_sizes]]
                    assert forall|k: int| 0 <= k < lv implies (#[trigger] index_offsets@[k]) == old(index_offsets)@[k] + hdr_part(k, lv, i__1 + 1) + sz_kids(s, lv - 1, k + 1, i__1 + 1) by {
                        assert(io1[k] == old(index_offsets)@[k] + hdr_part(k, lv, i__1 as int) + sz_kids(s, lv - 1, k + 1, i__1 as int));
                        if k < lv - 1 {
                            assert(io2[k] == io1[k]);
                            assert(index_offsets@[k] == io2[k] + sz(child.children, lv - 1, k + 1));
                        } else {
                            assert(index_offsets@[k] == io2[k]);
                        }
                    }
                    assert forall|k: int| lv <= k < index_offsets@.len() implies (#[trigger] index_offsets@[k]) == old(index_offsets)@[k] by {
                        assert(index_offsets@[k] == io2[k]);
                        assert(io2[k] == io1[k]);
                    }
                }
//@close
    proof {
        match nodes {
            RTreeChildren::DataSections(_) => {}
            RTreeChildren::Nodes(children) => {
                lemma_szk_above(children@, level - 1, level as int, children@.len() as int);
                assert forall|k: int| 0 <= k < level implies (#[trigger] index_offsets@[k]) == old(index_offsets)@[k] + sz(*nodes, level as int, k + 1) by {
                    assert(index_offsets@[k] == old(index_offsets)@[k] + hdr_part(k, level as int, children@.len() as int) + sz_kids(children@, level - 1, k + 1, children@.len() as int));
                }
            }
        }
    }
//@end

//@extract fn bigtools/src/bbi/bbiwrite.rs write_tree
//@rule R16
//@rule R3 min=16
//@rule R6 min=2
//@rule R7 min=3
//@sub /fn write_tree<W: Write>\(/ => fn write_tree(
//@sub /file: &mut W,/ => file: &mut ASink,
//@sub /io::Result<u64>/ => Result<u64, IoError>
//@ret r
//@sig
    requires
        [[L: pre]]
        wf(*nodes, curr_level as int, options.block_size as int, true),
        dest_level <= curr_level,
        options.block_size <= 65535,
        childnode_offset + rv(*nodes, curr_level as int, dest_level as int, options.block_size as int) <= u64::MAX,
    ensures
        [[L: level_bytes_are_published_layout_with_true_child_positions]]
        r matches Ok(ret) ==> final(file)@ == fmt_level(old(file)@, *nodes, curr_level as int, dest_level as int, kp(dest_level as int, childnode_offset as int)),
        [[L: appended_size_is_real_level_size]]
        r matches Ok(ret) ==> final(file)@.len() == old(file)@.len() + sz(*nodes, curr_level as int, dest_level as int),
        [[L: returns_real_size_of_children_region_unless_last]]
        r matches Ok(ret) ==> (dest_level >= 1 && wf(*nodes, curr_level as int, options.block_size as int, false) ==> ret == sz(*nodes, curr_level as int, dest_level - 1)),
        [[L: returns_real_size_at_leaf_level]]
        r matches Ok(ret) ==> (dest_level == 0 ==> ret == sz(*nodes, curr_level as int, 0)),
        [[L: return_value]]
        r matches Ok(ret) ==> ret == rv(*nodes, curr_level as int, dest_level as int, options.block_size as int),
    decreases
        [[L: termination]]
        nodes,
//@open
    let ghost b = options.block_size as int;
    let ghost cur = curr_level as int;
    let ghost dest = dest_level as int;
    let ghost kp0 = kp(dest, childnode_offset as int);
    assert(NODEHEADER_SIZE == 4 && NON_LEAFNODE_SIZE == 24 && LEAFNODE_SIZE == 32); [[L: item_sizes_are_the_published_ones]]
//@at /assert\(curr_level >= dest_level\);/ before
    assert(curr_level >= dest_level); [[L: debug_assert_levels_holds]]
//@at /vpanic\(\)/ before
                assert(false); [[L: panic_unreachable_for_well_formed_trees]]
//@at /RTreeChildren::Nodes\(children\) => \{/ nth=1 after
                let ghost s = children@;
                proof {
                    assert(kids_wf(s, cur - 1, b, true));
                    assert(rv(*nodes, cur, dest, b) == rv_kids(s, cur - 1, dest, b, s.len() as int));
                }
//@loop 1
                    invariant
                        [[L: loop1/frame]]
                        *nodes == RTreeChildren::Nodes(*children), s == children@, b == options.block_size as int, cur == curr_level as int, dest == dest_level as int,
                        kp0 == kp(dest, childnode_offset as int), 0 <= dest < cur, options.block_size <= 65535,
                        kids_wf(s, cur - 1, b, true),
                        childnode_offset + rv_kids(s, cur - 1, dest, b, s.len() as int) <= u64::MAX,
                        [[L: loop1/subtrees_done_are_written]]
                        file@ == fmt_kids(old(file)@, s, cur - 1, dest, kp0, i__1 as int),
                        [[L: loop1/offset_is_sum_of_returned_sizes]]
                        next_offset_offset == rv_kids(s, cur - 1, dest, b, i__1 as int),
//@at /let size = write_tree\(/ before
                    let ghost f0 = file@;
                    proof {
                        assert(*child == s[i__1 as int]);
                        assert(nodes->Nodes_0 == *children);
                        assert(decreases_to!(*nodes => nodes->Nodes_0));
                        assert(decreases_to!(*children => children@[i__1 as int]));
                        assert(decreases_to!(nodes => child.children));
                        lemma_descend(s, cur - 1, dest, b, true, i__1 as int, childnode_offset as int);
                    }
//@at /next_offset_offset .*size;/ after
                    proof {
                        assert(file@ == fmt_level(f0, s[i__1 as int].children, cur - 1, dest, kp0 + sz_kids(s, cur - 1, dest - 1, i__1 as int))); [[L: loop1/child_subtree_written_with_its_true_children_position]]
                        assert(file@ == fmt_kids(old(file)@, s, cur - 1, dest, kp0, i__1 + 1));
                    }
//@at /return Ok\(/ before
        proof {
            lemma_post(old(file)@, *nodes, cur, dest, b, kp0);
        }
//@at /RTreeChildren::DataSections\(sections\) => \{/ after
            assert(sections.len() <= 65535); [[L: leaf_count_fits_u16]]
            let ghost h0 = put_hdr(old(file)@, true, sections@.len() as int);
//@at /file\.put_u16\(/ nth=1 after
            assert(file@ == h0); [[L: leaf_node_header_is_isleaf1_reserved0_count]]
//@loop 2
                invariant
                    [[L: loop2/items_done_are_published_leaf_items]]
                    file@ == put_leaf_items(h0, sections@, i__2 as int),
//@at /let section = &sections\[i__2\];/ after
                let ghost b0 = file@;
//@at /file\.put_u64\(section\.\w+\)/ nth=2 after
                proof {
                    assert(file@ == put_leaf_item(b0, *section)); [[L: loop2/leaf_item_layout]]
                }
//@at /^\s*Ok\(/ nth=1 before
            proof {
                lemma_post(old(file)@, *nodes, cur, dest, b, kp0);
            }
//@at /RTreeChildren::Nodes\(children\) => \{/ nth=2 after
            assert(children.len() <= 65535); [[L: child_count_fits_u16]]
            let ghost s = children@;
            let ghost h0 = put_hdr(old(file)@, false, s.len() as int);
            proof {
                assert(kids_wf(s, cur - 1, b, true));
                lemma_mul_mono(0, s.len() as int, full(cur - 1, b));
            }
//@at /file\.put_u16\(/ nth=2 after
            assert(file@ == h0); [[L: nonleaf_node_header_is_isleaf0_reserved0_count]]
//@loop 3
                invariant
                    [[L: loop3/frame]]
                    s == children@, b == options.block_size as int, cur == curr_level as int, cur >= 1, 0 <= b <= 65535, s.len() <= b,
                    kids_wf(s, cur - 1, b, true),
                    [[L: loop3/full_size_is_size_of_a_full_node_of_the_child_level]]
                    full_size == full(cur - 1, b),
                    [[L: loop3/no_overflow_bound]]
                    childnode_offset + s.len() * full(cur - 1, b) <= u64::MAX,
                    [[L: loop3/items_done_point_at_true_child_positions]]
                    file@ == put_nl_items(h0, s, cur - 1, childnode_offset as int, idx as int),
//@at /let child_offset: u64 =/ before
                let ghost b0 = file@;
                proof {
                    lemma_pointer(s, cur - 1, b, true, idx as int);
                }
//@at /file\.put_u64\(child_offset/ after
                proof {
                    assert(child_offset == childnode_offset + sz_kids(s, cur - 1, cur - 1, idx as int)); [[L: loop3/pointer_is_true_position_of_child]]
                    assert(file@ == put_nl_item(b0, *child, childnode_offset + sz_kids(s, cur - 1, cur - 1, idx as int))); [[L: loop3/nonleaf_item_layout]]
                }
//@at /^\s*Ok\(/ nth=2 before
            proof {
                lemma_post(old(file)@, *nodes, cur, dest, b, kp0);
            }
//@end

//@extract fn bigtools/src/bbi/bbiwrite.rs write_rtreeindex
//@rule R16
//@rule R3 min=14
//@sub /pub\(crate\) fn write_rtreeindex<W: Write \+ Seek>\(/ => fn write_rtreeindex(
//@sub /file: &mut W,/ => file: &mut ASink,
//@sub /io::Result<\(\)>/ => Result<(), IoError>
//@sub /sections\s*\.first\(\)\s*\.map\(\|s\| \(s\.chrom, s\.start\)\)\s*\.unwrap_or\(\((\d+), (\d+)\)\)/ => FIRST_START_SECS{\1,\2}(sections)
//@sub /FIRST_START_SECS\{0,0\}\(sections\)/ => first_start_sections(sections) min=0
//@sub /FIRST_START_SECS\{(\d+),(\d+)\}\(sections\)/ => first_start_sections_or(sections, (\1, \2)) min=0
//@sub /sections\s*\.iter\(\)\s*\.map\(\|s\| \(s\.chrom, s\.end\)\)\s*\.max\(\)\s*\.unwrap_or\(\((\d+), (\d+)\)\)/ => MAX_END_SECS{\1,\2}(sections)
//@sub /MAX_END_SECS\{0,0\}\(sections\)/ => max_end_sections(sections) min=0
//@sub /MAX_END_SECS\{(\d+),(\d+)\}\(sections\)/ => max_end_sections_or(sections, (\1, \2)) min=0
//@sub /children\s*\.iter\(\)\s*\.map\(\|n\| \(n\.end_chrom_idx, n\.end_base\)\)\s*\.max\(\)\s*\.unwrap\(\)/ => max_end_children(children)
//@sub /children\.first\(\)\.unwrap\(\)/ => first_child(children) min=2
//@sub /for level in \(0\.\.=levels\)\.rev\(\) \{/ => let mut lv__: usize = levels + 1; while lv__ > 0 { lv__ = lv__ - 1; let level = lv__; min=0
//@sub /for level in 0\.\.=levels \{/ => let mut lv__: usize = 0; while lv__ <= levels { let level = lv__; lv__ = lv__ + 1; min=0
//@ret r
//@sig
    requires
        [[L: pre]]
        wf(nodes, levels as int, options.block_size as int, true),
        options.block_size <= 65535,
        levels < usize::MAX,
        old(file)@.len() + 48 + above(nodes, levels as int, 0) + 4 + 32 * options.block_size <= u64::MAX,
    ensures
        [[L: index_is_header_then_levels_top_down_with_true_child_positions]]
        r is Ok ==> final(file)@ == fmt_index(old(file)@, nodes, levels as int, options.block_size, section_count, options.items_per_slot),
        [[L: index_size_is_header_plus_all_nodes]]
        r is Ok ==> final(file)@.len() == old(file)@.len() + 48 + above(nodes, levels as int, 0),
        [[L: earlier_file_content_untouched]]
        r is Ok ==> old(file)@.is_prefix_of(final(file)@),
        [[L: reader_sees_published_header_with_root_bounds_and_end_of_data]]
        r is Ok ==> rd_header(final(file)@, old(file)@.len() as int, options.block_size, section_count, root_start(nodes), root_end(nodes), old(file)@.len() as u64, options.items_per_slot),
        [[L: reader_following_stored_pointers_from_the_root_finds_exactly_the_tree]]
        r is Ok ==> decodes(final(file)@, old(file)@.len() as int + 48, nodes, levels as int),
//@open
    let ghost b = options.block_size as int;
    let ghost lv = levels as int;
    let ghost p0 = old(file)@.len() as int + 48;
//@at /calculate_offsets\(&mut index_offsets,/ before
    proof {
        lemma_wf_depth(nodes, lv, b, true);
        assert forall|k: int| 0 <= k < lv implies (#[trigger] index_offsets@[k]) + sz(nodes, lv, k + 1) <= u64::MAX by {
            lemma_above_bounds(nodes, lv, k + 1);
        }
    }
//@at /let end_of_data = / after
    assert(CIR_TREE_MAGIC == 0x2468ACE0u32); [[L: magic_is_the_published_constant]]
//@at /let mut next_offset = / before
    let ghost hdr = file@;
    proof {
        assert(hdr == fmt_cir_header(old(file)@, options.block_size, section_count, root_start(nodes), root_end(nodes), old(file)@.len() as u64, options.items_per_slot)); [[L: header_layout_and_bounds]]
        assert(hdr.len() == p0); [[L: header_is_48_bytes]]
    }
//@loop 1
        invariant
            [[L: loop/frame]]
            b == options.block_size as int, lv == levels as int, b <= 65535, lv__ <= levels + 1, levels < usize::MAX,
            wf(nodes, lv, b, true),
            hdr.len() == p0, p0 + above(nodes, lv, 0) + 4 + 32 * b <= u64::MAX,
            index_offsets@.len() == levels,
            forall|k: int| 0 <= k < lv ==> (#[trigger] index_offsets@[k]) == sz(nodes, lv, k + 1),
            [[L: loop/levels_above_are_written]]
            file@ == fmt_down(hdr, nodes, lv, lv__ as int, p0),
            [[L: loop/next_offset_is_where_the_next_level_down_starts]]
            next_offset == p0 + above(nodes, lv, if lv__ < 1 { 1 } else { lv__ as int }),
        decreases
            [[L: loop/termination]]
            lv__,
//@at /let level = lv__;/ after
        proof {
            lemma_above_bounds(nodes, lv, level as int);
            lemma_above_bounds(nodes, lv, level + 1);
            lemma_rv(nodes, lv, level as int, b, true);
            if level > 0 { lemma_above_bounds(nodes, lv, level - 1); }
        }
//@at /write_tree\(file, &nodes,/ after
        proof {
            assert(file@ == fmt_down(hdr, nodes, lv, level as int, p0)); [[L: loop/level_written_with_position_of_next_level_down]]
        }
//@at /^\s*Ok\(\(\)\)/ before
    proof {
        lemma_down_len(hdr, nodes, lv, 0, p0);
        lemma_above_bounds(nodes, lv, 0);
        lemma_index_stored(old(file)@, nodes, lv, options.block_size, section_count, options.items_per_slot);
        lemma_index_decodes(old(file)@, nodes, lv, options.block_size, section_count, options.items_per_slot);
    }
//@end

} // verus!
fn main() {}
