#!/usr/bin/env python3
"""Regenerates /verif/MANIFEST.json from the enabled units and the per-property
metadata below.  A property is claimed iff at least one enabled unit serves it."""
import glob
import json
import os
import sys

HERE = os.path.dirname(os.path.abspath(__file__))
VERIF = os.path.dirname(HERE)
sys.path.insert(0, HERE)
import check  # noqa: E402

META = {
    'C01': ('bigWig round trip, per function and per hand-over: section encoder == published layout and decoder == exact filter/clip of the stored items in both byte orders, decode(encode(items)) == items (bw_enc, bw_dec); batching keeps every accepted value once, in order, under one chromosome id (bw_batch, procs, create); the serial source feeds the processors each value once with the right `next` (feed); section offsets are rebased to file positions in every mode (sec_offsets); chromosome table bytes == the list handed over, in order, with the supplied sizes (chrom_tree); header/offset data flow through the four writer bodies (mutual, hdr, write_pre, zoom_levels); R-tree layout and search (rt_layout, rt_nodes, rt_search, rt_readnode, info, cache); the whole bodies around those pieces: write_mid (mid), write_vals / write_vals_no_zoom (vals_tail), the per-chromosome pipeline hand-over and id assignment (chrom_pipe, chrom_ids), the staging buffer that carries every block to the file (tfb), constructors and default options (ctors, src_ctors), reader plumbing between open and a query (rd_plumb). All unbounded, by Verus, on function text cut from /repo every run.',
            'NOT decided: the tokio task pipeline / channel order (hand-off shims are assumed order-preserving; multi-threaded scheduling is C11, not claimed), zlib (inflate(deflate(x)) == x assumed), the iterator plumbing of `get_rtreeindex` is desugared into loops by documented structural substitutions (the itertools `chunks` contract is assumed; rt_tree), the BTreeMap/HashMap collects of the glue. The property is established per function and per hand-over, not as one theorem about the composed writer.'),
    'C02': ('bigBed round trip: validation-then-batching keeps every accepted entry once, in order, unchanged, in start-sorted batches and refuses exactly the unrepresentable ones (bb_batch, procs, create); block encoder == published layout, decoder == order-preserving filter, round-trip lemma (bb_enc, bb_dec); feeding, offsets, chromosome table, headers, autoSql text stored verbatim with the field count derived from it (feed, sec_offsets, chrom_tree, hdr, write_pre, mutual); index layout and search as C01.',
            'NOT decided: task pipeline/channels (sequentialised, R1/R2), zlib, `rest` treated as bytes (UTF-8-ness dropped).'),
    'C03': ('bigWig range query: per block the result == stored items with end > s && start < e (and s < e), clipped, in stored order, for section types 1-3 and both byte orders (bw_dec); the iterator state machine drains every block the index search returned, in order, once (iters); name -> id -> tree -> iterator glue (query_glue); the per-base `values()` array agrees with the interval answers, NaN elsewhere (bw_values); caching reader == plain reader for every history of queries and after reopen (cache); header/zoom directory decode (info); index search == linear scan given covering spans (rt_nodes, rt_search, rt_readnode); R-tree locating/caching of offsets (tree_offsets when enabled).',
            'NOT decided: zlib; the itertools `chunks` contract behind get_rtreeindex is assumed (rt_tree).'),
    'C04': ('bigBed range query: block span covers every entry of the block (bb_enc), decoder returns the order-preserving filter (bb_dec), `overlaps` == closed-span intersection in (chrom, base) order with the no-miss lemmas (rt_nodes, cmp_k/Kani), iterator/glue/cache as C03 (iters, query_glue, cache), index layout (rt_layout), tree construction (rt_tree, rt_spans).',
            'Assumed: the itertools `chunks` contract (consecutive groups of block_size, last one shorter) behind get_rtreeindex; with it, covering spans and well-formedness of the built tree are proved for every section count (rt_tree, rt_spans).'),
    'C05': ('R-tree: `compare_position`/`overlaps` against the lexicographic spec (rt_nodes; cmp_k by Kani contract over full-width inputs), `nodes_overlapping` == order-preserving filter; work-list search == pre-order DFS of the pointer graph == linear scan given covering spans, with error propagation and termination (rt_search); node decoding, 24/32-byte items (rt_readnode; rt_items by Kani, complete); on-disk layout: child pointers == real positions for every well-formed tree (rt_layout); caching reader returns the same nodes (cache); construction of the tree: well-formed for the layout writer, covering spans on every level, every section once in order, termination for block_size >= 2 (rt_tree, rt_spans).',
            'The chain is closed for every tree size: get_rtreeindex builds a well-formed covering tree (rt_tree, rt_spans; itertools `chunks` contract assumed), the layout writer stores it with correct child pointers (rt_layout), the search over covering spans equals the linear scan (rt_search). What connects the in-memory tree to the bytes the reader parses is rt_layout\'s decode statement; zlib is assumed.'),
    'C06': ('whole-file summary: per-value update exact on integers (items, bases) and shape-pinned on floats (bw_batch); bigBed sweep accounting with exact depth segments (bb_sweep); cross-chromosome fold incl. "a chromosome without covered bases contributes no min/max" (sum_acc); initial processor state (create); the summary and count are stored at the offsets the header names (hdr, zoom_levels); life-cycle (procs). Read side: header offsets (info), summary and count decoded from those offsets (summary_io), reader plumbing (rd_plumb); the info tools print exactly those values, line by line, with `num_with_commas` proved equal to the grouped decimal digits for all u64 (info_tools).',
            'NOT decided: float rounding (floats are uninterpreted with totality/determinism axioms: shape only), IndexList behaves as a sequence (assumed shim contract).'),
    'C07': ('bigWig zoom: per-level tiling invariant with exact bases_covered == data bases in the record span, disjoint ordered records of length <= resolution, every data base in exactly one record, batches 1..=items_per_slot, nothing pending at chromosome end, termination (bw_zoom); zoom sizes positive, sorted, deduplicated, <= 10 levels (zoom_sizes, zoom_levels); zoom block bytes == published 32-byte layout, span covers records (zoom_enc), decoder and iterator (zoom_dec, iters, query_glue); offsets (sec_offsets); initial state (create); every level is stepped exactly once per value with the real look-ahead, nothing before or after the level loop skips it (zoom_outer); the two-pass zoom writer whole (zoom_vals_whole, zoom_tail); header room (write_pre).',
            'NOT decided: f64->f32 narrowing error, value.end + size <= u32::MAX is an unchecked precondition, task pipeline.'),
    'C08': ('bigBed zoom: tiling layer over the flushed depth segments with exact covered-base counts and min/max from the actual depth (bb_zoom, bb_sweep via procs), shared zoom encoder/decoder/levels/offsets/whole-function units as C07; the chromosome table and the staging buffer the zoom blocks travel through (chrom_tree, chrom_rd, tfb).',
            'NOT decided: as C07.'),
    'C09': ('well-formed file: every writer unit has `bytes == format spec` postconditions written from the published layout, sharing no code with the readers: data blocks (bw_enc, bb_enc), zoom blocks (zoom_enc), header / zoom directory / summary / data count with frame conditions (hdr, write_pre, zoom_levels), chromosome tree (chrom_tree), R-tree layout (rt_layout), section offsets (sec_offsets), cross-stage consistency of the offsets (mutual), at most items_per_slot items of one chromosome per block (bw_batch, bb_batch, bw_zoom, bb_zoom); every staged byte reaches the file once, in order (tfb); the whole writer bodies around the pieces (mid, vals_tail, zoom_vals_whole, chrom_pipe).',
            'NOT decided: zlib stream validity (libdeflater assumed). The advertised buffer is the maximum over all data and zoom blocks in both writers (chrom_pipe, zoom_tail).'),
    'C10': ('readers decode any spec-conforming bytes: block decoders proved against arithmetic decode specs with a symbolic byte order (bw_dec types 1-3, bb_dec, zoom_dec), block fetch: `read_block_data` whole (raw bytes when the header advertises no inflate size, else exactly the inflated bytes, no padding), the plain `get_block_data`, and the prologues of the decoders, which hand exactly those bytes to the decoding loops (blk_read), header/zoom directory decode (info), R-tree node/item decoders for both byte orders (rt_readnode; rt_items Kani complete), node filter and search (rt_nodes, rt_search), iterators/glue/caches (iters, query_glue, cache, bw_values).',
            'Chromosome trees of any depth, both byte orders, are decoded to exactly the stored (name, id, size) rows (chrom_rd); summary block and data count read at the offsets the header names (summary_io); open/cached/reopen/into_inner plumbing and the error conversions behind the queries (rd_plumb). NOT decided: libdeflater inflate (assumed inverse of deflate); a file that is not well-formed is outside the property.'),
    'C12': ('staging buffer: sequential protocol of the real TempFileBufferWriter/TempFileBuffer methods against a ghost `written` stream; every order of whole operations delivers d0 ++ written (tfb); a consumer that arrives before the producer has published reads the cell only after waiting (the token distinguishes the cell\'s current from its eventual value).',
            'ASSUMED, not proved: each method touches shared state through single linearizable swaps, so every interleaving is equivalent to an order of whole operations; that a wait returns at all (wake-ups, deadlock freedom) is not modelled: `wait_closed` returns the value the cell holds once the producer has published.'),
    'C13': ('refusal as an IFF with no state change on Err for bigWig and bigBed process_val (bw_batch, bb_batch, procs); source-side order/refusal propagation (feed); every loop in every unit has a proved termination measure (zoom tiling, zoom-count loops, sweep, zoom_sizes: no zero resolution reaches the tiling loop; get_rtreeindex level loop incl. empty input: rt_tree); malformed lines refused on the serial and the parallel path, a chromosome that starts a second run refused (bedparse, feed, feed_par, chrom_ids); no overflow panics in the zoom level choice; hand-off channels sized for one message per chromosome (zoom_tail); absence of panics = overflow/index/assert obligations under stated preconditions.',
            'NOT decided: "never hangs" for the concurrent task pipeline (schedules; the pipeline code is verified sequentialised, R1/R2).'),
    'C15': ('gap filling: FillValues::next enumerates exactly the specified gapless tiling (fill); merge_into pairwise split/sum (Kani complete, merge_into); the k-way merge through the 50 000-base window for all u32 coordinates, including the fold of the per-section accumulation over all sections in order, proved by a loop invariant over the real loop header (value_iter); merge tool: clip/adjust/threshold closures and their order (mv_adjust, merge_wiring), output names, queries from base 0, feeding protocol, bedGraph/bigWig agreement, grouped merges are plain sums (merge_tool).',
            'NOT decided: float rounding (uninterpreted floats: shape only); thread schedules of the bigWig output.'),
    'C16': ('command-line converters, the sequential core: bigwigtobedgraph / bigbedtobed write one line per record of ONE range query per wanted chromosome, in file order, with start/end honoured only together with a chromosome (so a restricted output is exactly the range-query result), rest columns verbatim; the multi-threaded writers hand the per-chromosome texts over in chromosome order, which equals the single-threaded text given the same per-chromosome lines (conv_out); bedgraphtobigwig / bedtobigbed hand every option to its writer slot and end in exactly one write call on the given input for every (threads, parallel, single-pass, stdin) combination (conv_opts); every input line becomes one record with the fields of that line or a refusal (bedparse). The heads of the reading tools: restrictions always reach the single-threaded writer that honours them, refusals call no writer, name-column decoding (cli_dispatch). UCSC flag spellings: the tables of `compat_replace_mut!` cut from /repo and expanded mechanically against the pinned macro body - every listed UCSC flag becomes its native spelling with the value unchanged for EVERY value, native/short/plain arguments unchanged; `compat_args` whole: arguments kept in order, multicall, Kent-style bigWigMerge call (compat). `bigtools intersect`/`chromintersect` (intersect). Relative to the C01/C02/C03/C04 contracts of the library.',
            'NOT decided: thread schedules and blocking (R1 sequentialisation; C11 is not claimed); clap argument parsing itself (derive macros); three UCSC spellings reach clap in a form no tool declares (`-tab`/`-inList` become an empty positional, `-bed=` becomes the undeclared `--overlap-bed`, `-minMax` becomes `--minmax` where bigwigaverageoverbed declares `--min-max`: observations in contracts/compat/NOTES.md); number formatting and parsing (ryu, `{}`, parse::<f32>) are uninterpreted; the chrom.sizes parser; `--zoom` mode. Observations recorded in DESIGN 11.3 (dropped producer JoinHandle: a failing reopen truncates the multi-threaded output silently; options accepted but never plumbed).'),
    'C17': ('per-region statistics: size, bases, weighted sum fold, min/max folds, mean0, mean, NaN when uncovered - exact on integers, shape-pinned on floats (stats), relative to the C03 query contract (bw_dec); row text in both the threaded and the single-threaded copy (avg_rows); values-over-bed per-base fill (vob); the tools\' loops whole: one query / one statistics call per input line with that line\'s own fields, one row per line in input order, errors returned, threaded reassembly in chunk order (cli_loops); the name column (avg_names); line parsing (bedparse).',
            'NOT decided: thread-count independence (schedules); precondition start <= end of the region is not established by parse_bed (recorded in NOTES).'),
    'C18': ('FileView window invariant and seek/read semantics == isolated range for all offsets (fview); chunking cuts only at line starts, covers the file once, terminates (chunks); indexer: every run start in a probed interval is recorded, sorted by position, repeated chromosome reported as not grouped (index).',
            'NOT decided: recovery path of FileView after an I/O error; BufReader transparency. OPEN FINDING (known_findings.json): an ungrouped file whose interleaving the bisection never probes is indexed as grouped.'),
    'C19': ('schema parser: every grammar-level loop terminates with measure len - pos, results bounded by input length, no reachable panic (asql_loops); generator declares 3 + extra columns fields (asql_gen); tool stores the supplied text verbatim / generates from the first line (autosql_choice); writer stores the text and derives the field count from it (write_pre). The parser\'s functional result at token level: a well-formed field list / declaration is accepted with one field per group, in order, with its type, size, name and comment; `parse_autosql` of the generated schema for n extra columns is ONE declaration with exactly 3 + n fields (asql_parse) - so the header field count that write_pre derives by parsing equals what the generator declared; a field name made of a letter followed by letters and digits is never refused (asql_loops).',
            'NOT decided: the tokenizer loops themselves (char_indices on &str is outside Verus): Kani unit asql_tok is BOUNDED (strings of a few pieces, incl. multi-byte white space); asql_parse relies on a token model of the tokenizer (assumption A1 prime in its NOTES, cross-checked by enumeration outside the registered checks); texts with several declarations and inputs outside the grammar get totality only. OPEN FINDING: BED on stdin without --autosql stores the BED3 default.'),
    'C20': ('Python-binding array fillers (pybigtools/src/lib.rs, private helpers of a cdylib, cut as text on every run): per-base `to_array` / `to_entry_array` proved for all inputs by Verus - every requested base holds the stored value (bigBed: the number of covering entries, entries clamped to the request) or `missing`, index arithmetic never wraps also for requests below 0, errors returned at once; range defaulting and the clipping of the query to the chromosome (py_perbase). Out-of-bounds fill and the float facts the proof assumes (NaN tests, widening) checked bit-precisely by Kani/CBMC on the extracted real text within stated bounds (py_bins: BOUNDED, listed under coverage.bounded, never counted as proved); finalisation/initialisation shape of the binned fillers (py_shape when enabled).',
            'NOT decided: the binned routines as a whole (to_array_bins, to_entry_array_bins, to_array_zoom, to_entry_array_zoom use a VecDeque of open bins; CBMC ran out of memory/time on them even for 2 intervals and 2 bins - stated in contracts/py_bins/NOTES.md), hence "each bin reports the mean/min/max over its covered bases" is NOT established; pyo3/numpy glue (`ArrayViewMut` is replaced by a slice by a listed substitution); floats in the Verus unit are uninterpreted. Five defects found here were repaired (known_findings.json).'),
}
# properties whose enabled units are judged sufficient to claim (kept explicit: a property is
# not claimed just because a shared unit happens to serve it)
CLAIM = ['C01', 'C02', 'C03', 'C04', 'C05', 'C06', 'C07', 'C08', 'C09', 'C10', 'C12', 'C13', 'C15', 'C16', 'C17', 'C18', 'C19', 'C20']
NA = {
    'C11': 'quantifies over schedules of tokio tasks and OS threads; neither Verus (without rewriting the pipeline over its permission types = a model) nor Kani (no threads/async) can express it; the sequential facts it rests on are proved under C01/C12 but do not decide C11',
    'C14': 'quantifies over crash points / fault sequences across the whole pipeline; no per-call contract states "every prefix of the destination\'s operation history"; supporting facts (magic written last, no swallowed io::Error in the synchronous writer units) are proved under C09 but do not decide C14',
}


def main():
    props = check.all_props()
    claimed = []
    for p in props:
        units = [os.path.basename(os.path.dirname(t)) for t in check.units_for(p)]
        try:
            import kani_lane
            units += [k['name'] for k in kani_lane.units_for(p, 'thorough')]
        except Exception:
            pass
        try:
            import kani_extract
            units += [k['name'] for k in kani_extract.units_for(p, 'thorough')]
        except Exception:
            pass
        if units and p in META and p in CLAIM:
            claimed.append((p, units))
    m = {
        'version': 1,
        'setup_cmd': 'sh /verif/setup.sh',
        'hooks': {
            'guard': 'cfg(kani)',
            'enable': 'no hook is committed to /repo: contracts are woven into text cut from /repo on every run (Verus) or injected insert-only into a scratch copy (Kani; cfg(kani) is set by cargo-kani itself)',
            'baseline_off_cmd': 'cd /repo && cargo test --workspace --no-fail-fast --offline',
            'source_commits': [],
            'add_only': True,
        },
        'engines': [{'name': 'check', 'path': '/verif/check', 'serves_properties': [p for p, _ in claimed],
                     'kind_free_text': 'contract weaving (lib/weave.py, closed rewrite table lib/rewrite.py) + Verus/z3 unbounded proofs; Kani/CBMC function contracts on a scratch copy; replay drivers in /verif/replay run the real crate'}],
        'checks': [],
        'not_applicable': [],
        'notes': 'fix: commits in /repo and their replay inputs are listed in /verif/known_findings.json; DESIGN.md §7/§8.',
    }
    for p, units in claimed:
        text, note = META[p]
        m['checks'].append({
            'property_id': p,
            'quick_cmd': './check %s --tier quick' % p,
            'thorough_cmd': './check %s --tier thorough' % p,
            'evidence_file': '/verif/evidence/%s.json' % p,
            'replay_cmd_template': './check %s --replay {path}' % p,
            'engine': 'check',
            'level_claimed': {'category': 'proof', 'text': text + ' Units: ' + ', '.join(units) + '.', 'design_ref': 'DESIGN.md §6 ' + p},
            'level_note': note + ' Per-run trusted base (external_body / assume_specification / axioms, rewrite hits) is listed in the evidence file.',
            'technique': 'contract-based deductive verification (Verus on extracted real code' + ('; Kani function contracts / complete harnesses' if any(u in ('merge_into', 'rt_items', 'cmp_k') for u in units) else '') + ('; bounded Kani stand-ins labelled bounded' if any(u in ('rt_build', 'asql_tok', 'py_bins') for u in units) else '') + ')',
        })
    for p in props:
        if p not in [c for c, _ in claimed]:
            reason = NA.get(p) or ('contract units for this property are not yet green/enabled in this commit (see DESIGN.md §6 %s); not claimed rather than claimed on thinner grounds' % p)
            m['not_applicable'].append({'property_id': p, 'reason': reason})
    json.dump(m, open(os.path.join(VERIF, 'MANIFEST.json'), 'w'), indent=1)
    print('claimed:', [c for c, _ in claimed])


if __name__ == '__main__':
    main()
