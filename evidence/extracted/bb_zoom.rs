// bigBed zoom levels: bigbedwrite::process_val_zoom, body of the per-level `for` (R9 outline).
// Two layers, proved in place with nested loop invariants:
//  (i)  the coverage sweep (same as unit bb_sweep): pending depth segments stay exact, the flushed
//       segments leave in order, contiguous, each with its exact depth;
//  (ii) for every flushed segment the bigWig tiling loop (same vocabulary as unit bw_zoom) with
//       history := flushed depth segments: records ordered, disjoint, 0 < len <= size, one chromosome,
//       bases_covered == cov(history, start, end), sum of bases_covered == total flushed length,
//       batches of 1..=items_per_slot, nothing pending at the end of the chromosome, termination.
use vstd::prelude::*;
use vstd::std_specs::ops::*;
use vstd::std_specs::convert::FromSpec;
verus! {
// ---- shared float prelude -------------------------------------------------
// Rust float operators are total; Verus models their results as uninterpreted
// functions (`add_spec`, `mul_spec`, `from_spec`, ...).  The axioms below say
// only (1) the operators have no precondition and (2) the exec operator returns
// the value of its spec function (determinism).  Nothing numerical is assumed.
mod float_ax {
use vstd::prelude::*;
use vstd::std_specs::ops::*;
use vstd::std_specs::convert::FromSpec;
pub broadcast axiom fn ax_f64_mul_total(a: f64, b: f64) ensures #[trigger] a.mul_req(b);
pub broadcast axiom fn ax_f64_add_total(a: f64, b: f64) ensures #[trigger] a.add_req(b);
pub broadcast axiom fn ax_f64_sub_total(a: f64, b: f64) ensures #[trigger] a.sub_req(b);
pub broadcast axiom fn ax_f64_div_total(a: f64, b: f64) ensures #[trigger] a.div_req(b);
pub broadcast axiom fn ax_f32_add_total(a: f32, b: f32) ensures #[trigger] a.add_req(b);
pub broadcast axiom fn ax_f32_sub_total(a: f32, b: f32) ensures #[trigger] a.sub_req(b);
pub broadcast group float_total { ax_f64_mul_total, ax_f64_add_total, ax_f64_sub_total, ax_f64_div_total, ax_f32_add_total, ax_f32_sub_total }
pub axiom fn float_det()
    ensures
        <f64 as AddSpec<f64>>::obeys_add_spec(), <f64 as MulSpec<f64>>::obeys_mul_spec(),
        <f64 as SubSpec<f64>>::obeys_sub_spec(), <f64 as DivSpec<f64>>::obeys_div_spec(),
        <f32 as AddSpec<f32>>::obeys_add_spec(), <f32 as SubSpec<f32>>::obeys_sub_spec(),
        <f64 as FromSpec<u32>>::obeys_from_spec(), <f64 as FromSpec<f32>>::obeys_from_spec();
}
broadcast use float_ax::float_total;
pub uninterp spec fn fmin(a: f64, b: f64) -> f64;
pub uninterp spec fn fmax(a: f64, b: f64) -> f64;
pub assume_specification [f64::min] (a: f64, b: f64) -> (r: f64) ensures r == fmin(a, b);
pub assume_specification [f64::max] (a: f64, b: f64) -> (r: f64) ensures r == fmax(a, b);
// float constants (rule R12c): Verus has no model of core::f64 associated consts; each is an
// uninterpreted spec constant, distinct names so that swapping two of them is visible.
pub uninterp spec fn spec_f64_max() -> f64;
pub uninterp spec fn spec_f64_min() -> f64;
pub uninterp spec fn spec_f64_min_positive() -> f64;
pub uninterp spec fn spec_f64_nan() -> f64;
pub uninterp spec fn spec_f64_infinity() -> f64;
pub uninterp spec fn spec_f64_neg_infinity() -> f64;
pub uninterp spec fn spec_f64_epsilon() -> f64;
#[verifier::external_body] pub fn fconst_f64_max() -> (r: f64) ensures r == spec_f64_max() { f64::MAX }
#[verifier::external_body] pub fn fconst_f64_min() -> (r: f64) ensures r == spec_f64_min() { f64::MIN }
#[verifier::external_body] pub fn fconst_f64_min_positive() -> (r: f64) ensures r == spec_f64_min_positive() { f64::MIN_POSITIVE }
#[verifier::external_body] pub fn fconst_f64_nan() -> (r: f64) ensures r == spec_f64_nan() { f64::NAN }
#[verifier::external_body] pub fn fconst_f64_infinity() -> (r: f64) ensures r == spec_f64_infinity() { f64::INFINITY }
#[verifier::external_body] pub fn fconst_f64_neg_infinity() -> (r: f64) ensures r == spec_f64_neg_infinity() { f64::NEG_INFINITY }
#[verifier::external_body] pub fn fconst_f64_epsilon() -> (r: f64) ensures r == spec_f64_epsilon() { f64::EPSILON }

#[derive(Copy, Clone)]
pub struct Summary {
    pub total_items: u64,
    pub bases_covered: u64,
    pub min_val: f64,
    pub max_val: f64,
    pub sum: f64,
    pub sum_squares: f64,
}
#[derive(Copy, Clone)]
pub struct ZoomRecord {
    pub chrom: u32,
    pub start: u32,
    pub end: u32,
    pub summary: Summary,
}
#[derive(Copy, Clone)]
pub struct Value {
    pub start: u32,
    pub end: u32,
    pub value: f32,
}
#[derive(Copy, Clone)]
pub enum InputSortType {
    ALL,
    START,
    // TODO
    //NONE,
}
pub struct BBIWriteOptions {
    pub compress: bool,
    pub items_per_slot: u32,
    pub block_size: u32,
    pub initial_zoom_size: u32,
    pub max_zooms: u32,
    pub manual_zoom_sizes: Option<Vec<u32>>,
    pub input_sort_type: InputSortType,
    pub channel_size: usize,
    pub inmemory: bool,
}
// ---- shared shim: index_list::IndexList<Value> ---------------------------------
// `VList` stands for `index_list::IndexList<Value>` (a doubly linked list stored in a Vec,
// addressed by `ListIndex` slot handles), `VIndex` for `index_list::ListIndex`.
// ASSUMED sequential contract, for exactly the methods bigbedwrite.rs uses.  The list is
// viewed as `Seq<Value>` in list order.  A handle is not a position: `has(i)` says that the
// handle `i` names a live element of *this* list state and `pos(i)` which position it has;
// both are functions of the list state.  Only what is true of the real list is assumed:
//   * a handle obtained from first_index/next_index names a live element iff it `is_some()`;
//   * get_mut does not change the structure (same handles, same positions), only the element
//     that is handed out can change;
//   * insert_after(i, v) puts v right behind i and keeps i valid at the same position;
//   * insert_first/insert_last/remove_first are the obvious sequence operations; nothing is
//     said about handles after them (the code never keeps a handle across them).
// Requires `Value { start: u32, end: u32, value: f32 }` to be in scope (extract it first).
#[verifier::external_body]
pub struct VList { _p: u8 }
#[verifier::external_body]
#[derive(Copy, Clone)]
pub struct VIndex { _p: usize }
impl VIndex {
    pub uninterp spec fn some(&self) -> bool;
    #[verifier::external_body]
    pub fn is_some(&self) -> (r: bool)
        ensures r == self.some(),
    { unimplemented!() }
}
impl VList {
    pub uninterp spec fn view(&self) -> Seq<Value>;
    /// handle i names a live element of this list state
    pub uninterp spec fn has(&self, i: VIndex) -> bool;
    /// ... at this position (meaningful when has(i))
    pub uninterp spec fn pos(&self, i: VIndex) -> int;
    /// same handles at the same positions
    pub open spec fn same_shape(&self, o: &VList) -> bool {
        &&& forall|j: VIndex| #![trigger self.has(j)] #![trigger o.has(j)] self.has(j) == o.has(j)
        &&& forall|j: VIndex| #![trigger self.pos(j)] #![trigger o.pos(j)] self.pos(j) == o.pos(j)
    }

    #[verifier::external_body]
    pub fn new() -> (r: VList)
        ensures r@.len() == 0,
    { unimplemented!() }

    #[verifier::external_body]
    pub fn first_index(&self) -> (r: VIndex)
        ensures
            r.some() == (self@.len() > 0),
            r.some() ==> self.has(r) && self.pos(r) == 0,
    { unimplemented!() }

    #[verifier::external_body]
    pub fn next_index(&self, i: VIndex) -> (r: VIndex)
        ensures
            self.has(i) ==> r.some() == (self.pos(i) + 1 < self@.len()),
            self.has(i) && r.some() ==> self.has(r) && self.pos(r) == self.pos(i) + 1,
    { unimplemented!() }

    #[verifier::external_body]
    pub fn get_mut(&mut self, i: VIndex) -> (r: Option<&mut Value>)
        ensures
            r.is_some() == old(self).has(i),
            old(self).has(i) ==> 0 <= old(self).pos(i) < old(self)@.len(),
            r.is_some() ==> *r.unwrap() == old(self)@[old(self).pos(i)]
                && final(self)@ == old(self)@.update(old(self).pos(i), *final(r.unwrap())),
            r.is_none() ==> final(self)@ == old(self)@,
            final(self).same_shape(old(self)),
    { unimplemented!() }

    #[verifier::external_body]
    pub fn insert_after(&mut self, i: VIndex, v: Value) -> (r: VIndex)
        requires
            old(self).has(i),
        ensures
            final(self)@ == old(self)@.insert(old(self).pos(i) + 1, v),
            final(self).has(i) && final(self).pos(i) == old(self).pos(i),
    { unimplemented!() }

    #[verifier::external_body]
    pub fn get_first(&self) -> (r: Option<&Value>)
        ensures
            r.is_some() == (self@.len() > 0),
            r.is_some() ==> *r.unwrap() == self@[0],
    { unimplemented!() }

    #[verifier::external_body]
    pub fn get_last(&self) -> (r: Option<&Value>)
        ensures
            r.is_some() == (self@.len() > 0),
            r.is_some() ==> *r.unwrap() == self@[self@.len() - 1],
    { unimplemented!() }

    #[verifier::external_body]
    pub fn insert_last(&mut self, v: Value) -> (r: VIndex)
        ensures
            final(self)@ == old(self)@.push(v),
    { unimplemented!() }

    #[verifier::external_body]
    pub fn insert_first(&mut self, v: Value) -> (r: VIndex)
        ensures
            final(self)@ == seq![v] + old(self)@,
    { unimplemented!() }

    #[verifier::external_body]
    pub fn remove_first(&mut self) -> (r: Option<Value>)
        ensures
            r.is_some() == (old(self)@.len() > 0),
            r.is_some() ==> r.unwrap() == old(self)@[0] && final(self)@ == old(self)@.subrange(1, old(self)@.len() as int),
            r.is_none() ==> final(self)@ == old(self)@,
    { unimplemented!() }
}
// ---- bigBed coverage sweep: specification vocabulary + lemmas (shared by bb_sweep, bb_zoom) ----
// Written from the property text (C06/C08): "the per-base coverage depth of all entries,
// counting each covered base once however many entries overlap it".
// Needs in scope: Value, floats.rs prelude.

/// depth stored as f32: `f32_of_nat(n)` is the float the code holds for integer depth n.
/// ASSUMED (true of IEEE-754 binary32 for n + 1 <= 2^24, where every integer is exact):
/// 1.0 is depth 1, adding 1.0 is the successor, subtracting 1.0 undoes it.
pub uninterp spec fn f32_of_nat(n: nat) -> f32;
pub axiom fn ax_depth_float(n: nat)
    requires
        n < 0x100_0000,
    ensures
        f32_of_nat(1) == 1.0f32,
        f32_of_nat(n).add_spec(1.0f32) == f32_of_nat(n + 1),
        f32_of_nat(n + 1).sub_spec(1.0f32) == f32_of_nat(n),
;

spec fn imax(a: int, b: int) -> int { if a >= b { a } else { b } }
spec fn imin(a: int, b: int) -> int { if a <= b { a } else { b } }

/// entry e = (start, end) covers base p
spec fn covers(e: (u32, u32), p: int) -> bool { e.0 <= p < e.1 }
/// number of entries covering base p
spec fn depth(ents: Seq<(u32, u32)>, p: int) -> nat
    decreases ents.len()
{
    if ents.len() == 0 { 0 } else { depth(ents.drop_last(), p) + (if covers(ents.last(), p) { 1nat } else { 0nat }) }
}
/// number of bases in [a, b) covered by at least one entry (each counted once)
spec fn cnt(ents: Seq<(u32, u32)>, a: int, b: int) -> int
    decreases b - a
{
    if b <= a { 0 } else { cnt(ents, a, b - 1) + (if depth(ents, b - 1) >= 1 { 1int } else { 0int }) }
}

/// every base of segment v has depth dv
spec fn seg_depth(v: Value, dv: nat, ents: Seq<(u32, u32)>) -> bool {
    forall|p: int| v.start <= p < v.end ==> #[trigger] depth(ents, p) == dv
}
/// ... has depth dv - 1 (segment already incremented for an entry not yet in ents)
spec fn seg_depth_plus(v: Value, dv: nat, ents: Seq<(u32, u32)>) -> bool {
    forall|p: int| v.start <= p < v.end ==> #[trigger] depth(ents, p) + 1 == dv
}
/// right end of the segment list (lo if empty)
spec fn hi_of(l: Seq<Value>, lo: int) -> int { if l.len() > 0 { l.last().end as int } else { lo } }

/// geometry of the pending segments: start <= end (zero-length segments do occur), contiguous,
/// beginning at lo; the f32 value is the float image of the ghost integer depth d[i], 1 <= d[i] <= n
spec fn shape_ok(l: Seq<Value>, d: Seq<nat>, lo: int, n: nat) -> bool {
    &&& d.len() == l.len()
    &&& forall|i: int| 0 <= i < l.len() ==> lo <= (#[trigger] l[i]).start <= l[i].end && l[i].start < u32::MAX
    &&& forall|i: int, j: int| 0 <= i && j == i + 1 && j < l.len() ==> (#[trigger] l[i]).end == (#[trigger] l[j]).start
    &&& (l.len() > 0 ==> l[0].start == lo)
    &&& forall|i: int| 0 <= i < l.len() ==> 1 <= #[trigger] d[i] <= n && l[i].value == f32_of_nat(d[i])
}
/// the sweep invariant: the pending segments describe the depth function exactly on [lo, oo)
spec fn segs_ok(l: Seq<Value>, d: Seq<nat>, lo: int, ents: Seq<(u32, u32)>) -> bool {
    &&& shape_ok(l, d, lo, ents.len())
    &&& forall|i: int| 0 <= i < l.len() ==> seg_depth(#[trigger] l[i], d[i], ents)
    &&& forall|p: int| p >= hi_of(l, lo) ==> #[trigger] depth(ents, p) == 0
}

/// during the increment loop for the new entry (s, e): segments before k are done
spec fn sweep_inv(l: Seq<Value>, d: Seq<nat>, k: int, s: u32, e: u32, ents: Seq<(u32, u32)>) -> bool {
    &&& shape_ok(l, d, s as int, ents.len() + 1)
    &&& 0 <= k <= l.len()
    &&& forall|i: int| 0 <= i < k ==> (#[trigger] l[i]).end <= e && seg_depth_plus(l[i], d[i], ents)
    &&& forall|i: int| k <= i < l.len() ==> seg_depth(#[trigger] l[i], d[i], ents) && d[i] <= ents.len()
    &&& forall|p: int| p >= hi_of(l, s as int) ==> #[trigger] depth(ents, p) == 0
}
/// ... and the rest lies right of the new entry
spec fn sweep_done(l: Seq<Value>, d: Seq<nat>, k: int, s: u32, e: u32, ents: Seq<(u32, u32)>) -> bool {
    &&& sweep_inv(l, d, k, s, e, ents)
    &&& forall|i: int| k <= i < l.len() ==> (#[trigger] l[i]).start >= e
}
/// after the increment loop: exact w.r.t. ents + (s, e) on the old span; beyond it only old knowledge
spec fn mid_ok(l: Seq<Value>, d: Seq<nat>, s: u32, e: u32, ents: Seq<(u32, u32)>) -> bool {
    &&& shape_ok(l, d, s as int, ents.len() + 1)
    &&& forall|i: int| 0 <= i < l.len() ==> seg_depth(#[trigger] l[i], d[i], ents.push((s, e)))
    &&& forall|p: int| p >= hi_of(l, s as int) ==> #[trigger] depth(ents, p) == 0
}

/// a flushed piece [s, e) of constant depth d
pub ghost struct Piece { pub s: int, pub e: int, pub d: nat }
spec fn piece_depth(pc: Piece, ents: Seq<(u32, u32)>) -> bool {
    forall|p: int| pc.s <= p < pc.e ==> #[trigger] depth(ents, p) == pc.d
}
/// pieces tile [a, b) left to right, each with its exact depth (zero-length pieces are possible)
spec fn pieces_ok(ps: Seq<Piece>, a: int, b: int, ents: Seq<(u32, u32)>) -> bool {
    &&& forall|k: int| 0 <= k < ps.len() ==> (#[trigger] ps[k]).s <= ps[k].e && ps[k].d >= 1 && piece_depth(ps[k], ents)
    &&& forall|k: int, j: int| 0 <= k && j == k + 1 && j < ps.len() ==> (#[trigger] ps[k]).e == (#[trigger] ps[j]).s
    &&& (ps.len() > 0 ==> ps[0].s == a && ps.last().e == b)
    &&& (ps.len() == 0 ==> a == b)
}

// ---------------- lemmas ----------------
proof fn lemma_depth_push(ents: Seq<(u32, u32)>, e: (u32, u32), p: int)
    ensures depth(ents.push(e), p) == depth(ents, p) + (if covers(e, p) { 1nat } else { 0nat }),
{
    assert(ents.push(e).drop_last() =~= ents);
}
proof fn lemma_cnt_bound(ents: Seq<(u32, u32)>, a: int, b: int)
    requires a <= b,
    ensures 0 <= cnt(ents, a, b) <= b - a,
    decreases b - a,
{
    if a < b { lemma_cnt_bound(ents, a, b - 1); }
}
/// all of [lo, lo2) covered: the count grows by its length
proof fn lemma_cnt_step(ents: Seq<(u32, u32)>, lo: int, lo2: int)
    requires lo <= lo2, forall|p: int| lo <= p < lo2 ==> #[trigger] depth(ents, p) >= 1,
    ensures cnt(ents, 0, lo2) == cnt(ents, 0, lo) + (if lo >= 0 { lo2 - lo } else if lo2 >= 0 { lo2 } else { 0 }),
    decreases lo2 - lo,
{
    if lo < lo2 {
        lemma_cnt_step(ents, lo, lo2 - 1);
        assert(depth(ents, lo2 - 1) >= 1);
    }
}
/// nothing covered in [lo, b): the count stays
proof fn lemma_cnt_zero_ext(ents: Seq<(u32, u32)>, lo: int, b: int)
    requires lo <= b, forall|p: int| lo <= p < b ==> #[trigger] depth(ents, p) == 0,
    ensures cnt(ents, 0, b) == cnt(ents, 0, lo),
    decreases b - lo,
{
    if lo < b {
        lemma_cnt_zero_ext(ents, lo, b - 1);
        assert(depth(ents, b - 1) == 0);
    }
}
/// a new entry starting at or after b does not change the count left of b
proof fn lemma_cnt_push_left(ents: Seq<(u32, u32)>, e: (u32, u32), a: int, b: int)
    requires b <= e.0,
    ensures cnt(ents.push(e), a, b) == cnt(ents, a, b),
    decreases b - a,
{
    if a < b {
        lemma_cnt_push_left(ents, e, a, b - 1);
        lemma_depth_push(ents, e, b - 1);
    }
}

/// increment loop, segment k ends inside the new entry: value + 1, move on
proof fn lemma_sweep_nosplit(l: Seq<Value>, d: Seq<nat>, k: int, s: u32, e: u32, ents: Seq<(u32, u32)>, nv: Value)
    requires
        sweep_inv(l, d, k, s, e, ents), k < l.len(), s <= e, ents.len() < 0xff_ffff,
        nv.start == l[k].start, nv.end == l[k].end, nv.value == l[k].value.add_spec(1.0f32),
        nv.end <= e,
    ensures
        sweep_inv(l.update(k, nv), d.update(k, d[k] + 1), k + 1, s, e, ents),
        hi_of(l.update(k, nv), s as int) == hi_of(l, s as int),
{
    let l2 = l.update(k, nv);
    let d2 = d.update(k, d[k] + 1);
    ax_depth_float(d[k]);
    assert(l[k].value == f32_of_nat(d[k]));
    assert forall|i: int| 0 <= i < l2.len() implies (s as int) <= (#[trigger] l2[i]).start <= l2[i].end && l2[i].start < u32::MAX by {
        if i != k { assert(l2[i] == l[i]); } else { let _ = l[k]; }
    }
    assert forall|i: int, j: int| 0 <= i && j == i + 1 && j < l2.len() implies (#[trigger] l2[i]).end == (#[trigger] l2[j]).start by {
        let _ = l[i]; let _ = l[i + 1];
    }
    assert forall|i: int| 0 <= i < l2.len() implies 1 <= #[trigger] d2[i] <= ents.len() + 1 && l2[i].value == f32_of_nat(d2[i]) by {
        let _ = d[i];
    }
    assert forall|i: int| 0 <= i < k + 1 implies (#[trigger] l2[i]).end <= e && seg_depth_plus(l2[i], d2[i], ents) by {
        if i < k { let _ = l[i]; } else { let _ = l[k]; assert(seg_depth(l[k], d[k], ents)); }
    }
    assert forall|i: int| k + 1 <= i < l2.len() implies seg_depth(#[trigger] l2[i], d2[i], ents) && d2[i] <= ents.len() by {
        let _ = l[i];
    }
}
/// increment loop, the new entry ends strictly inside segment k: split it, stop
proof fn lemma_sweep_split(l: Seq<Value>, d: Seq<nat>, k: int, s: u32, e: u32, ents: Seq<(u32, u32)>, nv: Value, tl: Value)
    requires
        sweep_inv(l, d, k, s, e, ents), k < l.len(), s <= e, ents.len() < 0xff_ffff,
        nv.start == l[k].start, nv.end == e, nv.value == l[k].value.add_spec(1.0f32),
        e < l[k].end,
        tl.start == e, tl.end == l[k].end, tl.value == nv.value.sub_spec(1.0f32),
    ensures
        sweep_done(l.update(k, nv).insert(k + 1, tl), d.update(k, d[k] + 1).insert(k + 1, d[k]), k + 1, s, e, ents),
        hi_of(l.update(k, nv).insert(k + 1, tl), s as int) == hi_of(l, s as int),
{
    let l1 = l.update(k, nv);
    let l2 = l1.insert(k + 1, tl);
    let d2 = d.update(k, d[k] + 1).insert(k + 1, d[k]);
    ax_depth_float(d[k]);
    let _ = l[k];
    assert(l[k].value == f32_of_nat(d[k]));
    // s_k <= e
    if k > 0 { let _ = l[k - 1]; assert(l[k - 1].end == l[k].start); } else { assert(l[0].start == s); }
    assert(l[k].start <= e);
    assert(l2.len() == l.len() + 1);
    assert forall|i: int| 0 <= i < l2.len() implies
        l2[i] == (if i < k { l[i] } else if i == k { nv } else if i == k + 1 { tl } else { l[i - 1] })
        && d2[i] == (if i < k { d[i] } else if i == k { (d[k] + 1) as nat } else if i == k + 1 { d[k] } else { d[i - 1] }) by {}
    assert forall|i: int| 0 <= i < l2.len() implies (s as int) <= (#[trigger] l2[i]).start <= l2[i].end && l2[i].start < u32::MAX by {
        if i < k { let _ = l[i]; } else if i > k + 1 { let _ = l[i - 1]; }
    }
    assert forall|i: int, j: int| 0 <= i && j == i + 1 && j < l2.len() implies (#[trigger] l2[i]).end == (#[trigger] l2[j]).start by {
        if i < k { let _ = l[i]; let _ = l[i + 1]; } else if i > k { let _ = l[i - 1]; let _ = l[i]; if i == k + 1 { assert(l[k].end == l[k + 1].start); } }
    }
    assert forall|i: int| 0 <= i < l2.len() implies 1 <= #[trigger] d2[i] <= ents.len() + 1 && l2[i].value == f32_of_nat(d2[i]) by {
        if i < k { let _ = d[i]; } else if i > k + 1 { let _ = d[i - 1]; } else { let _ = d[k]; }
    }
    assert forall|i: int| 0 <= i < k + 1 implies (#[trigger] l2[i]).end <= e && seg_depth_plus(l2[i], d2[i], ents) by {
        if i < k { let _ = l[i]; } else { assert(seg_depth(l[k], d[k], ents)); }
    }
    assert forall|i: int| k + 1 <= i < l2.len() implies seg_depth(#[trigger] l2[i], d2[i], ents) && d2[i] <= ents.len() && l2[i].start >= e by {
        if i == k + 1 { assert(seg_depth(l[k], d[k], ents)); let _ = d[k]; }
        else { let _ = l[i - 1]; let _ = l[k]; lemma_sorted(l, d, s as int, ents.len() + 1, k, i - 1); }
    }
    if k + 1 == l.len() { assert(l2.last() == tl); } else { assert(l2.last() == l[l.len() - 1]); }
}
/// contiguity + start <= end gives ordering
proof fn lemma_sorted(l: Seq<Value>, d: Seq<nat>, lo: int, n: nat, i: int, j: int)
    requires shape_ok(l, d, lo, n), 0 <= i < j < l.len(),
    ensures l[i].end <= l[j].start,
    decreases j - i,
{
    if i + 1 < j {
        lemma_sorted(l, d, lo, n, i, j - 1);
        let _ = l[j - 1];
        assert(l[j - 1].end == l[j].start);
    } else {
        let _ = l[i];
    }
}
/// after the increment loop every pending segment is exact for ents + (s, e)
proof fn lemma_sweep_finish(l: Seq<Value>, d: Seq<nat>, k: int, s: u32, e: u32, ents: Seq<(u32, u32)>)
    requires sweep_done(l, d, k, s, e, ents), s <= e,
    ensures mid_ok(l, d, s, e, ents),
{
    let ents2 = ents.push((s, e));
    assert forall|i: int| 0 <= i < l.len() implies seg_depth(#[trigger] l[i], d[i], ents2) by {
        assert forall|p: int| l[i].start <= p < l[i].end implies #[trigger] depth(ents2, p) == d[i] by {
            lemma_depth_push(ents, (s, e), p);
            if i < k { assert(seg_depth_plus(l[i], d[i], ents)); assert(depth(ents, p) + 1 == d[i]); }
            else { assert(seg_depth(l[i], d[i], ents)); assert(depth(ents, p) == d[i]); }
        }
    }
}
/// tail: the new entry reaches beyond the pending span (or nothing is pending): append [hi, e) at depth 1
proof fn lemma_tail_push(l: Seq<Value>, d: Seq<nat>, s: u32, e: u32, ents: Seq<(u32, u32)>, v: Value)
    requires
        mid_ok(l, d, s, e, ents), s <= e, s < u32::MAX,
        v.start == hi_of(l, s as int), v.end == e, v.value == 1.0f32,
        l.len() > 0 ==> v.start < e,
    ensures
        segs_ok(l.push(v), d.push(1), s as int, ents.push((s, e))),
{
    let ents2 = ents.push((s, e));
    let l2 = l.push(v);
    let d2 = d.push(1nat);
    ax_depth_float(0);
    assert forall|i: int| 0 <= i < l2.len() implies (s as int) <= (#[trigger] l2[i]).start <= l2[i].end && l2[i].start < u32::MAX by {
        if i < l.len() { assert(l2[i] == l[i]); } else { if l.len() > 0 { let _ = l[l.len() - 1]; } }
    }
    assert forall|i: int, j: int| 0 <= i && j == i + 1 && j < l2.len() implies (#[trigger] l2[i]).end == (#[trigger] l2[j]).start by {
        assert(l2[i] == l[i]);
        if i + 1 < l.len() { assert(l2[i + 1] == l[i + 1]); }
    }
    assert forall|i: int| 0 <= i < l2.len() implies 1 <= #[trigger] d2[i] <= ents2.len() && l2[i].value == f32_of_nat(d2[i]) by {
        if i < l.len() { assert(d2[i] == d[i]); assert(l2[i] == l[i]); }
    }
    assert forall|i: int| 0 <= i < l2.len() implies seg_depth(#[trigger] l2[i], d2[i], ents2) by {
        if i < l.len() { assert(l2[i] == l[i]); assert(d2[i] == d[i]); }
        else {
            assert forall|p: int| v.start <= p < v.end implies #[trigger] depth(ents2, p) == 1 by {
                lemma_depth_push(ents, (s, e), p);
                assert(depth(ents, p) == 0);
                if l.len() > 0 { let _ = l[l.len() - 1]; }
            }
        }
    }
    assert forall|p: int| p >= hi_of(l2, s as int) implies #[trigger] depth(ents2, p) == 0 by {
        lemma_depth_push(ents, (s, e), p);
        assert(l2.last() == v);
        if l.len() > 0 { let _ = l[l.len() - 1]; }
        assert(depth(ents, p) == 0);
    }
    if l.len() > 0 { assert(l2[0] == l[0]); }
}
/// tail: the pending span already reaches the new entry's end
proof fn lemma_tail_keep(l: Seq<Value>, d: Seq<nat>, s: u32, e: u32, ents: Seq<(u32, u32)>)
    requires mid_ok(l, d, s, e, ents), l.len() > 0, l.last().end >= e,
    ensures segs_ok(l, d, s as int, ents.push((s, e))),
{
    let ents2 = ents.push((s, e));
    assert forall|p: int| p >= hi_of(l, s as int) implies #[trigger] depth(ents2, p) == 0 by {
        lemma_depth_push(ents, (s, e), p);
        assert(depth(ents, p) == 0);
    }
}
/// flush: the first segment leaves completely
proof fn lemma_flush_whole(l: Seq<Value>, d: Seq<nat>, lo: int, ents: Seq<(u32, u32)>)
    requires segs_ok(l, d, lo, ents), l.len() > 0,
    ensures segs_ok(l.subrange(1, l.len() as int), d.subrange(1, d.len() as int), l[0].end as int, ents),
{
    let l2 = l.subrange(1, l.len() as int);
    let d2 = d.subrange(1, d.len() as int);
    let lo2 = l[0].end as int;
    let _ = l[0];
    assert forall|i: int| 0 <= i < l2.len() implies lo2 <= (#[trigger] l2[i]).start <= l2[i].end && l2[i].start < u32::MAX by {
        assert(l2[i] == l[i + 1]);
        if i > 0 { lemma_sorted(l, d, lo, ents.len(), 0, i + 1); } else { assert(l[0].end == l[1].start); }
    }
    assert forall|i: int, j: int| 0 <= i && j == i + 1 && j < l2.len() implies (#[trigger] l2[i]).end == (#[trigger] l2[j]).start by {
        assert(l2[i] == l[i + 1]); assert(l2[i + 1] == l[i + 2]);
    }
    assert forall|i: int| 0 <= i < l2.len() implies 1 <= #[trigger] d2[i] <= ents.len() && l2[i].value == f32_of_nat(d2[i]) by {
        assert(l2[i] == l[i + 1]); assert(d2[i] == d[i + 1]);
    }
    assert forall|i: int| 0 <= i < l2.len() implies seg_depth(#[trigger] l2[i], d2[i], ents) by {
        assert(l2[i] == l[i + 1]); assert(d2[i] == d[i + 1]);
    }
    if l2.len() > 0 { assert(l2[0] == l[1]); assert(l[0].end == l[1].start); assert(l2.last() == l.last()); }
}
/// flush: the first segment is cut at n, its right part stays
proof fn lemma_flush_part(l: Seq<Value>, d: Seq<nat>, lo: int, ents: Seq<(u32, u32)>, n: u32, r: Value)
    requires
        segs_ok(l, d, lo, ents), l.len() > 0, l[0].start < n < l[0].end,
        r.start == n, r.end == l[0].end, r.value == l[0].value,
    ensures
        segs_ok(seq![r] + l.subrange(1, l.len() as int), d, n as int, ents),
{
    let l2 = seq![r] + l.subrange(1, l.len() as int);
    let _ = l[0];
    assert(l2.len() == l.len());
    assert forall|i: int| 0 <= i < l2.len() implies l2[i] == (if i == 0 { r } else { l[i] }) by {}
    assert forall|i: int| 0 <= i < l2.len() implies (n as int) <= (#[trigger] l2[i]).start <= l2[i].end && l2[i].start < u32::MAX by {
        if i > 0 { lemma_sorted(l, d, lo, ents.len(), 0, i); let _ = l[i]; }
    }
    assert forall|i: int, j: int| 0 <= i && j == i + 1 && j < l2.len() implies (#[trigger] l2[i]).end == (#[trigger] l2[j]).start by {
        let _ = l[i]; let _ = l[i + 1];
    }
    assert forall|i: int| 0 <= i < l2.len() implies 1 <= #[trigger] d[i] <= ents.len() && l2[i].value == f32_of_nat(d[i]) by {
        let _ = l[i];
    }
    assert forall|i: int| 0 <= i < l2.len() implies seg_depth(#[trigger] l2[i], d[i], ents) by {
        let _ = l[i];
        assert(seg_depth(l[i], d[i], ents));
    }
    if l.len() == 1 { assert(l2.last() == r); } else { assert(l2.last() == l.last()); }
}
proof fn lemma_pieces_push(ps: Seq<Piece>, a: int, b: int, pc: Piece, ents: Seq<(u32, u32)>)
    requires pieces_ok(ps, a, b, ents), pc.s == b, pc.s <= pc.e, pc.d >= 1, piece_depth(pc, ents),
    ensures pieces_ok(ps.push(pc), a, pc.e, ents),
{
    let p2 = ps.push(pc);
    assert forall|k: int| 0 <= k < p2.len() implies (#[trigger] p2[k]).s <= p2[k].e && p2[k].d >= 1 && piece_depth(p2[k], ents) by {
        if k < ps.len() { assert(p2[k] == ps[k]); }
    }
    assert forall|k: int, j: int| 0 <= k && j == k + 1 && j < p2.len() implies (#[trigger] p2[k]).e == (#[trigger] p2[j]).s by {
        assert(p2[k] == ps[k]);
        if k + 1 < ps.len() { assert(p2[k + 1] == ps[k + 1]); }
    }
    if ps.len() > 0 { assert(p2[0] == ps[0]); }
}

// R2 shim (same as bw_zoom): the spawn(encode_zoom_section(..)) + channel send hand-off.  Assumed:
// the batch is appended, in order, to the level's record stream.  `requires` = the callee's own
// precondition (encode_zoom_section indexes items[0]).
#[verifier::external_body]
pub struct ZoomSink { _p: u8 }
impl ZoomSink {
    pub uninterp spec fn log(&self) -> Seq<ZoomRecord>;
    pub uninterp spec fn batches(&self) -> Seq<int>;
    #[verifier::external_body]
    fn emit_encode_zoom_section(&mut self, compress: bool, items: Vec<ZoomRecord>)
        requires
            items@.len() > 0,
        ensures
            final(self).log() == old(self).log() + items@,
            final(self).batches() == old(self).batches().push(items@.len() as int),
    { unimplemented!() }
}
fn take_vec(v: &mut Vec<ZoomRecord>) -> (r: Vec<ZoomRecord>)
    ensures r@ == old(v)@, final(v)@.len() == 0
{ let mut n = Vec::new(); std::mem::swap(v, &mut n); n }
fn max_u32(a: u32, b: u32) -> (r: u32) ensures r == if a >= b { a } else { b } { if a >= b { a } else { b } }
fn min_u32(a: u32, b: u32) -> (r: u32) ensures r == if a <= b { a } else { b } { if a <= b { a } else { b } }

struct ZoomItem {
    size: u32,
    live_info: Option<(ZoomRecord, u64)>,
    overlap: VList,
    records: Vec<ZoomRecord>,
    channel: ZoomSink,
}

// verified stand-ins for closures Verus cannot take (R11 substitutions below)
fn first_starts_before(l: &VList, x: u32) -> (r: bool)
    ensures r == (l@.len() > 0 && l@[0].start < x),
{ match l.get_first() { Some(f) => f.start < x, None => false } }
/// `.map(|(mut zoom_item, total_items)| { zoom_item.summary.total_items = total_items; zoom_item }).unwrap()`
fn close_live(x: Option<(ZoomRecord, u64)>) -> (r: ZoomRecord)
    requires x.is_some(),
    ensures r == closed_rec(x.unwrap().0, x.unwrap().1),
{
    match x { Some((mut zoom_item, total_items)) => { zoom_item.summary.total_items = total_items; zoom_item } None => unreached() }
}

// ---------------- tiling vocabulary + lemmas: same text as contracts/bw_zoom (C07), history := flushed depth segments ----
// (only change: the open record is `live_of(z)`, closing overwrites total_items: `closed_rec`)
/// number of bases of [vs,ve) inside [a,b)
spec fn ov(vs: int, ve: int, a: int, b: int) -> int {
    let lo = imax(vs, a); let hi = imin(ve, b); if hi > lo { hi - lo } else { 0 }
}
/// number of data bases of the value sequence h inside [a,b)
spec fn cov(h: Seq<Value>, a: int, b: int) -> int
    decreases h.len()
{
    if h.len() == 0 { 0 } else { cov(h.drop_last(), a, b) + ov(h.last().start as int, h.last().end as int, a, b) }
}
/// total number of data bases
spec fn tot(h: Seq<Value>) -> int
    decreases h.len()
{
    if h.len() == 0 { 0 } else { tot(h.drop_last()) + (h.last().end - h.last().start) }
}
spec fn sum_bc(r: Seq<ZoomRecord>) -> int
    decreases r.len()
{
    if r.len() == 0 { 0 } else { sum_bc(r.drop_last()) + r.last().summary.bases_covered as int }
}
/// accepted input so far on this chromosome: start <= end, sorted, non-overlapping
spec fn hist_ok(h: Seq<Value>) -> bool {
    &&& forall|i: int| 0 <= i < h.len() ==> (#[trigger] h[i]).start <= h[i].end
    &&& forall|i: int, j: int| 0 <= i < j < h.len() ==> (#[trigger] h[i]).end <= (#[trigger] h[j]).start
}
/// every positive-length value of h ends at or before m
spec fn ends_by(h: Seq<Value>, m: int) -> bool {
    forall|i: int| 0 <= i < h.len() ==> ((#[trigger] h[i]).start < h[i].end ==> h[i].end <= m)
}
/// closed records (already emitted ++ pending in `records`)
spec fn closed_of(z: ZoomItem) -> Seq<ZoomRecord> { z.channel.log() + z.records@ }
/// the open record (bigBed keeps it as a pair (record, item count))
spec fn live_of(z: ZoomItem) -> Option<ZoomRecord> { match z.live_info { Some(t) => Some(t.0), None => None } }
/// what is pushed when the open record is closed: its total_items is overwritten by the pair's count
spec fn closed_rec(l: ZoomRecord, n: u64) -> ZoomRecord {
    ZoomRecord { chrom: l.chrom, start: l.start, end: l.end, summary: Summary { total_items: n, bases_covered: l.summary.bases_covered, min_val: l.summary.min_val, max_val: l.summary.max_val, sum: l.summary.sum, sum_squares: l.summary.sum_squares } }
}

/// one finished record against the data: the C07 per-record clauses.
/// `cs, cf`: the part [cs, cf) of the value currently being added (cs == cf when none).
spec fn rec_ok(r: ZoomRecord, h: Seq<Value>, cs: int, cf: int, size: int, chrom: u32) -> bool {
    &&& r.start < r.end
    &&& r.end - r.start <= size
    &&& r.chrom == chrom
    &&& r.end <= cf
    &&& r.summary.bases_covered as int == cov(h, r.start as int, r.end as int) + ov(cs, cf, r.start as int, r.end as int)
}
spec fn closed_ok(c: Seq<ZoomRecord>, h: Seq<Value>, cs: int, cf: int, size: int, chrom: u32) -> bool {
    &&& forall|i: int| 0 <= i < c.len() ==> rec_ok(#[trigger] c[i], h, cs, cf, size, chrom)
    &&& forall|i: int| 0 <= i < c.len() - 1 ==> (#[trigger] c[i]).end <= c[i + 1].start
}
/// arithmetic facts about the open record (kept transparent: the code's overflow checks need them)
spec fn live_bounds(live: Option<ZoomRecord>, size: u32, cf: int, items_bound: int) -> bool {
    live.is_some() ==> {
        let l = live.unwrap();
        &&& l.start < l.end
        &&& l.end < l.start + size
        &&& l.end <= cf
        &&& l.start as int + size as int <= u32::MAX as int
        &&& l.summary.bases_covered <= l.end - l.start
        &&& l.summary.total_items <= items_bound
    }
}
/// the data-dependent part of the invariant (opaque to the loop body; handled by the lemmas below)
#[verifier::opaque]
spec fn deep(c: Seq<ZoomRecord>, live: Option<ZoomRecord>, h: Seq<Value>, cs: int, cf: int, size: int, chrom: u32) -> bool {
    &&& closed_ok(c, h, cs, cf, size, chrom)
    &&& live.is_some() ==> {
        let l = live.unwrap();
        &&& l.chrom == chrom
        &&& (l.end == cf || cf == cs)
        &&& ends_by(h, l.end as int)
        &&& (c.len() > 0 ==> c.last().end <= l.start)
        &&& l.summary.bases_covered as int == cov(h, l.start as int, l.end as int) + ov(cs, cf, l.start as int, l.end as int)
    }
    &&& sum_bc(c) + (if live.is_some() { live.unwrap().summary.bases_covered as int } else { 0 }) == tot(h) + (cf - cs)
}
/// C07 state invariant of one zoom level after the values `h` (+ the part [cs,cf) of the current one)
spec fn zoom_ok(z: ZoomItem, h: Seq<Value>, cs: int, cf: int, chrom: u32, ips: int, items_bound: int) -> bool {
    &&& z.size > 0
    &&& live_bounds(live_of(z), z.size, cf, items_bound)
    &&& deep(closed_of(z), live_of(z), h, cs, cf, z.size as int, chrom)
    &&& forall|i: int| 0 <= i < z.channel.batches().len() ==> 1 <= #[trigger] z.channel.batches()[i] <= ips
}

// ---------------- lemmas ----------------
proof fn lemma_ends_by_drop(h: Seq<Value>, m: int)
    requires ends_by(h, m), h.len() > 0,
    ensures ends_by(h.drop_last(), m),
{
    assert forall|i: int| 0 <= i < h.drop_last().len() implies ((#[trigger] h.drop_last()[i]).start < h.drop_last()[i].end ==> h.drop_last()[i].end <= m) by {
        assert(h.drop_last()[i] == h[i]);
    }
}
proof fn lemma_cov_extend(h: Seq<Value>, a: int, b: int, b2: int, m: int)
    requires ends_by(h, m), m <= b, m <= b2,
    ensures cov(h, a, b) == cov(h, a, b2),
    decreases h.len(),
{
    if h.len() > 0 {
        lemma_ends_by_drop(h, m);
        lemma_cov_extend(h.drop_last(), a, b, b2, m);
        let _ = h[h.len() - 1];
    }
}
proof fn lemma_cov_zero_after(h: Seq<Value>, a: int, b: int, m: int)
    requires ends_by(h, m), m <= a,
    ensures cov(h, a, b) == 0,
    decreases h.len(),
{
    if h.len() > 0 {
        lemma_ends_by_drop(h, m);
        lemma_cov_zero_after(h.drop_last(), a, b, m);
        let _ = h[h.len() - 1];
    }
}
proof fn lemma_sum_bc_push(c: Seq<ZoomRecord>, r: ZoomRecord)
    ensures sum_bc(c.push(r)) == sum_bc(c) + r.summary.bases_covered as int,
{
    assert(c.push(r).drop_last() =~= c);
}
proof fn lemma_hist_ends_by(h: Seq<Value>, v: Value)
    requires hist_ok(h.push(v)),
    ensures ends_by(h, v.start as int), hist_ok(h), v.start <= v.end,
{
    let hp = h.push(v);
    assert(hp[h.len() as int] == v);
    assert forall|i: int| 0 <= i < h.len() implies ((#[trigger] h[i]).start < h[i].end ==> h[i].end <= v.start) by {
        assert(hp[i] == h[i]);
    }
    assert forall|i: int| 0 <= i < h.len() implies (#[trigger] h[i]).start <= h[i].end by { assert(hp[i] == h[i]); }
    assert forall|i: int, j: int| 0 <= i < j < h.len() implies (#[trigger] h[i]).end <= (#[trigger] h[j]).start by {
        assert(hp[i] == h[i]); assert(hp[j] == h[j]);
    }
}
proof fn lemma_ends_by_push(h: Seq<Value>, v: Value, m: int)
    requires ends_by(h, m), v.start < v.end ==> v.end <= m,
    ensures ends_by(h.push(v), m),
{
    assert forall|i: int| 0 <= i < h.push(v).len() implies ((#[trigger] h.push(v)[i]).start < h.push(v)[i].end ==> h.push(v)[i].end <= m) by {
        if i < h.len() { assert(h.push(v)[i] == h[i]); }
    }
}
/// start of a value: nothing of it has been added yet
proof fn lemma_start_value(c: Seq<ZoomRecord>, live: Option<ZoomRecord>, h: Seq<Value>, pe: int, cs: int, size: int, chrom: u32)
    requires deep(c, live, h, pe, pe, size, chrom), pe <= cs,
    ensures deep(c, live, h, cs, cs, size, chrom),
{
    reveal(deep);
    assert forall|i: int| 0 <= i < c.len() implies rec_ok(#[trigger] c[i], h, cs, cs, size, chrom) by {
        assert(rec_ok(c[i], h, pe, pe, size, chrom));
    }
}
/// end of a value v: the finished part [v.start, v.end) is folded into the history
proof fn lemma_finish_value(c: Seq<ZoomRecord>, live: Option<ZoomRecord>, h: Seq<Value>, v: Value, size: int, chrom: u32)
    requires deep(c, live, h, v.start as int, v.end as int, size, chrom), v.start <= v.end, ends_by(h, v.start as int),
        live.is_some() ==> live.unwrap().end <= v.end,
    ensures deep(c, live, h.push(v), v.end as int, v.end as int, size, chrom),
{
    reveal(deep);
    assert(h.push(v).drop_last() =~= h);
    assert(h.push(v).last() == v);
    assert forall|i: int| 0 <= i < c.len() implies rec_ok(#[trigger] c[i], h.push(v), v.end as int, v.end as int, size, chrom) by {
        assert(rec_ok(c[i], h, v.start as int, v.end as int, size, chrom));
    }
    if live.is_some() {
        lemma_ends_by_push(h, v, live.unwrap().end as int);
    }
}
/// an emitted batch moves records from `records` to the stream: the closed sequence is unchanged
/// closing the open record
proof fn lemma_close_live(c: Seq<ZoomRecord>, l: ZoomRecord, h: Seq<Value>, cs: int, cf: int, size: u32, chrom: u32, ib: int)
    requires deep(c, Some(l), h, cs, cf, size as int, chrom), live_bounds(Some(l), size, cf, ib),
    ensures deep(c.push(l), None, h, cs, cf, size as int, chrom),
{
    reveal(deep);
    lemma_sum_bc_push(c, l);
    let c2 = c.push(l);
    assert forall|i: int| 0 <= i < c2.len() implies rec_ok(#[trigger] c2[i], h, cs, cf, size as int, chrom) by {
        if i < c.len() { assert(c2[i] == c[i]); }
    }
    assert forall|i: int| 0 <= i < c2.len() - 1 implies (#[trigger] c2[i]).end <= c2[i + 1].start by {
        if i < c.len() - 1 { assert(c2[i] == c[i]); assert(c2[i + 1] == c[i + 1]); }
    }
}
/// what one tiling step does to the open record, transcribed as a relation:
/// `base` = the open record or a fresh one at a0; a1 = min(base.start+size, ce);
/// if a1 > a0 the record is extended to a1 and gains a1-a0 bases; otherwise (its window ends at or
/// before the segment start) it is left alone -- it must not absorb anything of a segment outside its span.
spec fn step_rel(live0: Option<ZoomRecord>, l1: ZoomRecord, a0: int, a1: int, ce: int, size: int, chrom: u32) -> bool {
    let fresh = live0.is_none();
    let bs = if fresh { a0 } else { live0.unwrap().start as int };
    let be = if fresh { a0 } else { live0.unwrap().end as int };
    let bbc = if fresh { 0 } else { live0.unwrap().summary.bases_covered as int };
    let bch = if fresh { chrom } else { live0.unwrap().chrom };
    &&& a1 == imin(bs + size, ce)
    &&& l1.start == bs
    &&& l1.chrom == bch
    &&& (a1 > a0 ==> l1.end == a1 && l1.summary.bases_covered as int == bbc + (a1 - a0))
    &&& (a1 <= a0 ==> l1.end == be && l1.summary.bases_covered as int == bbc)
}
proof fn lemma_step(c: Seq<ZoomRecord>, live0: Option<ZoomRecord>, l1: ZoomRecord, h: Seq<Value>, cs: int, a0: int, a1: int, ce: int, size: u32, chrom: u32, ib: int)
    requires
        deep(c, live0, h, cs, a0, size as int, chrom), live_bounds(live0, size, a0, ib),
        size > 0, cs <= a0 < ce, ends_by(h, cs),
        step_rel(live0, l1, a0, a1, ce, size as int, chrom),
    ensures
        ({
            let nf = imax(a1, cs);
            let bs = l1.start as int;
            &&& a0 <= nf <= ce
            &&& (a1 == bs + size ==> deep(c.push(l1), None, h, cs, nf, size as int, chrom))
            &&& (a1 != bs + size ==> deep(c, Some(l1), h, cs, nf, size as int, chrom) && nf == ce && l1.start < l1.end && l1.end < l1.start + size && l1.end <= nf)
            &&& (live0.is_none() ==> nf > a0)
            &&& l1.summary.bases_covered <= l1.end - l1.start
        }),
{
    reveal(deep);
    let nf = imax(a1, cs);
    let bs = l1.start as int;
    if live0.is_none() {
        lemma_cov_zero_after(h, a0, a0, cs);
        lemma_cov_zero_after(h, a0, a1, cs);
    } else {
        let l0 = live0.unwrap();
        if a1 >= a0 {
            lemma_cov_extend(h, l0.start as int, l0.end as int, a1, l0.end as int);
        }
    }
    assert forall|i: int| 0 <= i < c.len() implies rec_ok(#[trigger] c[i], h, cs, nf, size as int, chrom) by {
        assert(rec_ok(c[i], h, cs, a0, size as int, chrom));
    }
    if a1 == bs + size {
        lemma_sum_bc_push(c, l1);
        let c2 = c.push(l1);
        assert forall|i: int| 0 <= i < c2.len() implies rec_ok(#[trigger] c2[i], h, cs, nf, size as int, chrom) by {
            if i < c.len() { assert(c2[i] == c[i]); }
        }
        assert forall|i: int| 0 <= i < c2.len() - 1 implies (#[trigger] c2[i]).end <= c2[i + 1].start by {
            if i < c.len() - 1 { assert(c2[i] == c[i]); assert(c2[i + 1] == c[i + 1]); }
            else { assert(c2[i] == c[i]); assert(rec_ok(c[i], h, cs, a0, size as int, chrom)); }
        }
    } else {
        assert(ends_by(h, l1.end as int));
    }
}

/// closing pushes the record with its total_items overwritten: nothing the tiling contract looks at changes
proof fn lemma_closed_rec(c: Seq<ZoomRecord>, l: ZoomRecord, n: u64, h: Seq<Value>, cs: int, cf: int, size: int, chrom: u32)
    requires deep(c.push(l), None, h, cs, cf, size, chrom),
    ensures deep(c.push(closed_rec(l, n)), None, h, cs, cf, size, chrom),
{
    reveal(deep);
    let c1 = c.push(l);
    let c2 = c.push(closed_rec(l, n));
    lemma_sum_bc_push(c, l);
    lemma_sum_bc_push(c, closed_rec(l, n));
    assert forall|i: int| 0 <= i < c2.len() implies rec_ok(#[trigger] c2[i], h, cs, cf, size, chrom) by {
        assert(rec_ok(c1[i], h, cs, cf, size, chrom));
        if i < c.len() { assert(c2[i] == c[i]); assert(c1[i] == c[i]); }
    }
    assert forall|i: int| 0 <= i < c2.len() - 1 implies (#[trigger] c2[i]).end <= c2[i + 1].start by {
        assert(c1[i].end <= c1[i + 1].start);
        assert(c2[i] == c[i]); assert(c1[i] == c[i]);
        if i + 1 < c.len() { assert(c2[i + 1] == c[i + 1]); assert(c1[i + 1] == c[i + 1]); }
    }
}
/// every value of h ends at or before m (zero-length ones included)
spec fn before(h: Seq<Value>, m: int) -> bool {
    forall|i: int| 0 <= i < h.len() ==> (#[trigger] h[i]).end <= m
}
proof fn lemma_hist_push(h: Seq<Value>, v: Value)
    requires hist_ok(h), before(h, v.start as int), v.start <= v.end,
    ensures hist_ok(h.push(v)), before(h.push(v), v.end as int), ends_by(h, v.start as int),
{
    let hp = h.push(v);
    assert forall|i: int| 0 <= i < hp.len() implies (#[trigger] hp[i]).start <= hp[i].end by {
        if i < h.len() { assert(hp[i] == h[i]); }
    }
    assert forall|i: int, j: int| 0 <= i < j < hp.len() implies (#[trigger] hp[i]).end <= (#[trigger] hp[j]).start by {
        assert(hp[i] == h[i]);
        if j < h.len() { assert(hp[j] == h[j]); }
    }
    assert forall|i: int| 0 <= i < hp.len() implies (#[trigger] hp[i]).end <= v.end by {
        if i < h.len() { assert(hp[i] == h[i]); }
    }
}
proof fn lemma_before_mono(h: Seq<Value>, m: int, m2: int)
    requires before(h, m), m <= m2,
    ensures before(h, m2), ends_by(h, m2), ends_by(h, m),
{
}

// ---------------- link between the layers ----------------
/// the flushed piece as the value the tiling loop sees
spec fn piece_value(pc: Piece) -> Value { Value { start: pc.s as u32, end: pc.e as u32, value: f32_of_nat(pc.d) } }
spec fn vals_of(ps: Seq<Piece>) -> Seq<Value> { ps.map_values(|pc: Piece| piece_value(pc)) }
spec fn flushed_to(ps: Seq<Piece>, a: int) -> int { if ps.len() > 0 { ps.last().e } else { a } }
proof fn lemma_first_end_le_hi(l: Seq<Value>, d: Seq<nat>, lo: int, n: nat)
    requires shape_ok(l, d, lo, n), l.len() > 0,
    ensures l[0].end <= hi_of(l, lo), lo <= l[0].end,
{
    let _ = l[0];
    if l.len() > 1 { lemma_sorted(l, d, lo, n, 0, l.len() - 1); let _ = l[l.len() - 1]; }
}

/// all flushed pieces of this chromosome so far: exact depth, left of m
spec fn pieces_final(hps: Seq<Piece>, ents: Seq<(u32, u32)>, m: int) -> bool {
    forall|q: int| 0 <= q < hps.len() ==> piece_depth(#[trigger] hps[q], ents) && hps[q].e <= m
}
/// entries are start-sorted: a new entry starting at or right of m cannot change the depth of what was flushed
proof fn lemma_old_pieces_stay_exact(hps: Seq<Piece>, ents: Seq<(u32, u32)>, e: (u32, u32), m: int)
    requires pieces_final(hps, ents, m), m <= e.0,
    ensures pieces_final(hps, ents.push(e), m),
{
    assert forall|q: int| 0 <= q < hps.len() implies piece_depth(#[trigger] hps[q], ents.push(e)) && hps[q].e <= m by {
        assert(piece_depth(hps[q], ents));
        assert forall|p: int| hps[q].s <= p < hps[q].e implies #[trigger] depth(ents.push(e), p) == hps[q].d by {
            lemma_depth_push(ents, e, p);
            assert(depth(ents, p) == hps[q].d);
        }
    }
}
proof fn lemma_pieces_final_push(hps: Seq<Piece>, ents: Seq<(u32, u32)>, m: int, pc: Piece, m2: int)
    requires pieces_final(hps, ents, m), piece_depth(pc, ents), m <= m2, pc.e <= m2,
    ensures pieces_final(hps.push(pc), ents, m2),
{
    assert forall|q: int| 0 <= q < hps.push(pc).len() implies piece_depth(#[trigger] hps.push(pc)[q], ents) && hps.push(pc)[q].e <= m2 by {
        if q < hps.len() { assert(hps.push(pc)[q] == hps[q]); }
    }
}
proof fn lemma_pieces_final_mono(hps: Seq<Piece>, ents: Seq<(u32, u32)>, m: int, m2: int)
    requires pieces_final(hps, ents, m), m <= m2,
    ensures pieces_final(hps, ents, m2),
{
    assert forall|q: int| 0 <= q < hps.len() implies piece_depth(#[trigger] hps[q], ents) && hps[q].e <= m2 by {
        assert(piece_depth(hps[q], ents) && hps[q].e <= m);
    }
}
/// the bound up to which the pending coverage is final: the next entry's start; after the LAST entry of the chromosome
/// everything (ends are u32)
spec fn zbound_of(next_val: Option<u32>) -> u32 { if next_val.is_some() { next_val.unwrap() } else { u32::MAX } }
proof fn lemma_tot_push(h: Seq<Value>, v: Value)
    ensures tot(h.push(v)) == tot(h) + (v.end - v.start),
{
    assert(h.push(v).drop_last() =~= h);
}

fn process_val_zoom__level(zoom_item: &mut ZoomItem, options: &BBIWriteOptions, item_start: u32, item_end: u32, next_val: Option<u32>, chrom_id: u32, Ghost(ents): Ghost<Seq<(u32, u32)>>, Ghost(d0): Ghost<Seq<nat>>, Ghost(hps): Ghost<Seq<Piece>>, Ghost(hist): Ghost<Seq<Value>>, Ghost(prev_end): Ghost<int>) -> (out: Ghost<(Seq<nat>, Seq<Piece>)>)
    requires
        
        item_start <= item_end, item_start < u32::MAX,
        next_val.is_some() ==> item_start <= next_val.unwrap(),
        ents.len() < 0xff_ffff,
        options.items_per_slot >= 1,
        old(zoom_item).records@.len() < options.items_per_slot,
        hist.len() + old(zoom_item).overlap@.len() < 0xffff_ffff_ffff,
        imax(hi_of(old(zoom_item).overlap@, item_start as int), item_end as int) + old(zoom_item).size <= u32::MAX,
        segs_ok(old(zoom_item).overlap@, d0, item_start as int, ents),
        hist_ok(hist), before(hist, prev_end), prev_end <= item_start,
        hist == vals_of(hps), pieces_final(hps, ents, prev_end),
        tot(hist) == cnt(ents, 0, item_start as int),
        zoom_ok(*old(zoom_item), hist, prev_end, prev_end, chrom_id, options.items_per_slot as int, hist.len() as int),
    ensures
        
        segs_ok(final(zoom_item).overlap@, out@.0, zbound_of(next_val) as int, ents.push((item_start, item_end))),
        
        segs_ok(final(zoom_item).overlap@, out@.0, flushed_to(out@.1, item_start as int), ents.push((item_start, item_end))),
        item_start <= flushed_to(out@.1, item_start as int) <= zbound_of(next_val),
        final(zoom_item).overlap@.len() > 0 ==> flushed_to(out@.1, item_start as int) == zbound_of(next_val),
        
        pieces_ok(out@.1, item_start as int, flushed_to(out@.1, item_start as int), ents.push((item_start, item_end))),
        
        hist_ok((hist + vals_of(out@.1))) && before((hist + vals_of(out@.1)), flushed_to(out@.1, item_start as int)),
        
        (hist + vals_of(out@.1)) == vals_of(hps + out@.1) && pieces_final(hps + out@.1, ents.push((item_start, item_end)), flushed_to(out@.1, item_start as int)),
        
        tot((hist + vals_of(out@.1))) == cnt(ents.push((item_start, item_end)), 0, zbound_of(next_val) as int),
        
        zoom_ok(*final(zoom_item), (hist + vals_of(out@.1)), flushed_to(out@.1, item_start as int), flushed_to(out@.1, item_start as int), chrom_id, options.items_per_slot as int, (hist + vals_of(out@.1)).len() as int),
        
        final(zoom_item).size == old(zoom_item).size,
        
        final(zoom_item).records@.len() < options.items_per_slot,
        
        next_val.is_none() ==> final(zoom_item).live_info.is_none() && final(zoom_item).records@.len() == 0 && final(zoom_item).overlap@.len() == 0,
        
        old(zoom_item).channel.log().is_prefix_of(final(zoom_item).channel.log()),
        
        final(zoom_item).overlap@.len() > 0 ==> final(zoom_item).overlap@.last().end == imax(hi_of(old(zoom_item).overlap@, item_start as int), item_end as int),
        final(zoom_item).overlap@.len() == 0 ==> imax(hi_of(old(zoom_item).overlap@, item_start as int), item_end as int) <= zbound_of(next_val),
{
        let ghost ents2 = ents.push((item_start, item_end));
        let ghost hi0 = hi_of(zoom_item.overlap@, item_start as int);
        let ghost ips = options.items_per_slot as int;
        let ghost log0 = zoom_item.channel.log();
        let ghost mut d = d0;
        let ghost mut k: int = 0;
        proof { float_ax::float_det(); }

        assert((zoom_item.records.len()) != (options.items_per_slot as usize));

        

        // For each item in `overlap` that overlaps the current
        // item, add `1` to the value.
        let mut index = zoom_item.overlap.first_index();
        while index.is_some() 
            invariant_except_break
                
                sweep_inv(zoom_item.overlap@, d, k, item_start, item_end, ents),
                hi_of(zoom_item.overlap@, item_start as int) == hi0,
                
                index.some() ==> zoom_item.overlap.has(index) && zoom_item.overlap.pos(index) == k && k < zoom_item.overlap@.len(),
                !index.some() ==> k == zoom_item.overlap@.len(),
                zoom_item.overlap@.len() == old(zoom_item).overlap@.len(),
            invariant
                
                item_start <= item_end, ents.len() < 0xff_ffff,
                zoom_item.size == old(zoom_item).size, zoom_item.live_info == old(zoom_item).live_info,
                zoom_item.records == old(zoom_item).records, zoom_item.channel == old(zoom_item).channel,
            ensures
                
                zoom_item.overlap@.len() <= old(zoom_item).overlap@.len() + 1,
                sweep_done(zoom_item.overlap@, d, k, item_start, item_end, ents),
                hi_of(zoom_item.overlap@, item_start as int) == hi0,
            decreases
                
                zoom_item.overlap@.len() - k,
{

            proof { float_ax::float_det(); }
            let ghost l_in = zoom_item.overlap@;
            match zoom_item.overlap.get_mut(index) {
                None => break,
                Some(o) => {
                    o.value = o.value + (1.0);
                    if item_end < o.end {
                        let value = o.value - 1.0;
                        let end = o.end;
                        o.end = item_end;
                        zoom_item.overlap.insert_after(
                            index,
                            Value {
                                start: item_end,
                                end,
                                value,
                            },
                        );

                        proof { 
                            let nv = Value { start: l_in[k].start, end: item_end, value: l_in[k].value.add_spec(1.0f32) };
                            let tl = Value { start: item_end, end: l_in[k].end, value: nv.value.sub_spec(1.0f32) };
                            assert(zoom_item.overlap@ == l_in.update(k, nv).insert(k + 1, tl));
                            lemma_sweep_split(l_in, d, k, item_start, item_end, ents, nv, tl);
                            d = d.update(k, d[k] + 1).insert(k + 1, d[k]);
                            k = k + 1;
                        }
                        break;
                    }
                    index = zoom_item.overlap.next_index(index);

                    proof { 
                        let nv = Value { start: l_in[k].start, end: l_in[k].end, value: l_in[k].value.add_spec(1.0f32) };
                        assert(zoom_item.overlap@ == l_in.update(k, nv));
                        lemma_sweep_nosplit(l_in, d, k, item_start, item_end, ents, nv);
                        d = d.update(k, d[k] + 1);
                        k = k + 1;
                    }
                }
            }
        }

        // At this point, if there is are any items in the list, the end of the
        // last item must zoom_item.overlap or come up to the current item start

        proof { 
            lemma_sweep_finish(zoom_item.overlap@, d, k, item_start, item_end, ents);
            if zoom_item.overlap@.len() > 0 { let _ = zoom_item.overlap@[zoom_item.overlap@.len() - 1]; }
        }
        let ghost l_mid = zoom_item.overlap@;
        assert((zoom_item.overlap@.len() > 0 ==> zoom_item.overlap@.last().end >= item_start));

        // If the current item extends past the last item (or if there are no
        // previous items), we must add one
        match zoom_item.overlap.get_last() {
            Some(o) => {
                if o.end < item_end {
                    zoom_item.overlap.insert_last(Value {
                        start: o.end,
                        end: item_end,
                        value: 1.0,
                    });
                }
            }
            None => {
                zoom_item.overlap.insert_last(Value {
                    start: item_start,
                    end: item_end,
                    value: 1.0,
                });
            }
        }


        proof { 
            if l_mid.len() > 0 && l_mid.last().end >= item_end {
                lemma_tail_keep(l_mid, d, item_start, item_end, ents);
            } else {
                let v = Value { start: hi_of(l_mid, item_start as int) as u32, end: item_end, value: 1.0f32 };
                lemma_tail_push(l_mid, d, item_start, item_end, ents, v);
                assert(zoom_item.overlap@ == l_mid.push(v));
                d = d.push(1nat);
            }
            assert(segs_ok(zoom_item.overlap@, d, item_start as int, ents2));
            assert(hi_of(zoom_item.overlap@, item_start as int) == imax(hi0, item_end as int));
            assert(zoom_item.overlap@.len() > 0);
        }
        let ghost hi1 = imax(hi0, item_end as int);
        let ghost len1 = zoom_item.overlap@.len();
        let next_start = next_val.unwrap_or(u32::MAX);

        let ghost mut ps: Seq<Piece> = Seq::empty();
        let ghost mut hcur: Seq<Value> = hist;
        let ghost mut lo: int = item_start as int;
        proof { 
            lemma_start_value(closed_of(*zoom_item), live_of(*zoom_item), hist, prev_end, item_start as int, zoom_item.size as int, chrom_id);
            lemma_before_mono(hist, prev_end, item_start as int);
            assert(hist + vals_of(ps) =~= hist);
            let _ = zoom_item.overlap@[0];
            lemma_old_pieces_stay_exact(hps, ents, (item_start, item_end), prev_end);
            lemma_pieces_final_mono(hps, ents2, prev_end, item_start as int);
            lemma_cnt_push_left(ents, (item_start, item_end), 0, item_start as int);
            assert(hps + ps =~= hps);
        }

        while first_starts_before(&zoom_item.overlap, next_start)
        
            invariant
                
                ents2 == ents.push((item_start, item_end)),
                next_start == (if next_val.is_some() { next_val.unwrap() } else { u32::MAX }),
                hi1 == imax(hi0, item_end as int), hi1 + zoom_item.size <= u32::MAX,
                ips == options.items_per_slot as int, ips >= 1,
                zoom_item.size == old(zoom_item).size,
                log0 == old(zoom_item).channel.log(),
                
                item_start <= lo <= next_start,
                lo == flushed_to(ps, item_start as int),
                ps.len() == 0 ==> zoom_item.overlap@.len() > 0 && lo == item_start,
                
                segs_ok(zoom_item.overlap@, d, lo, ents2),
                hi_of(zoom_item.overlap@, lo) == hi1,
                
                pieces_ok(ps, item_start as int, lo, ents2),
                
                hcur == hist + vals_of(ps),
                hist_ok(hcur), before(hcur, lo),
                hcur.len() + zoom_item.overlap@.len() <= hist.len() + len1 + (if zoom_item.overlap@.len() > 0 && zoom_item.overlap@[0].start < next_start { 0int } else { 1int }),
                hist.len() + len1 < 0xffff_ffff_ffff + 2,
                
                hcur == vals_of(hps + ps), pieces_final(hps + ps, ents2, lo),
                
                tot(hcur) == cnt(ents2, 0, lo),
                
                zoom_ok(*zoom_item, hcur, lo, lo, chrom_id, ips, hcur.len() as int),
                
                zoom_item.records@.len() < ips,
                
                log0.is_prefix_of(zoom_item.channel.log()),
                
                ps.len() > 0 && next_val.is_none() ==> zoom_item.live_info.is_none() && zoom_item.records@.len() == 0,
            decreases
                
                zoom_item.overlap@.len(),
                (if zoom_item.overlap@.len() > 0 && zoom_item.overlap@[0].start < next_start { 1int } else { 0int }),
{

            proof { float_ax::float_det(); }
            let ghost l_in = zoom_item.overlap@;
            let mut removed = zoom_item.overlap.remove_first().unwrap();
            let val = f64::from(removed.value);
            let (removed_start, removed_end) = if removed.end <= next_start {
                (removed.start, removed.end)
            } else {
                let start = removed.start;
                removed.start = next_start;
                zoom_item.overlap.insert_first(removed);
                (start, next_start)
            };

            let ghost d_first = d[0];
            let ghost lo2: int = if l_in[0].end <= next_start { l_in[0].end as int } else { next_start as int };
            let ghost pc = Piece { s: lo, e: lo2, d: d_first };
            let ghost v = piece_value(pc);
            let ghost ps_in = ps;
            let ghost hc_in = hcur;
            let ghost d_in = d;
            proof { 
                let _ = l_in[0];
                assert(seg_depth(l_in[0], d[0], ents2));
                lemma_first_end_le_hi(l_in, d, lo, ents2.len());
                if l_in[0].end <= next_start {
                    lemma_flush_whole(l_in, d, lo, ents2);
                    d = d.subrange(1, d.len() as int);
                } else {
                    lemma_flush_part(l_in, d, lo, ents2, next_start, removed);
                }
                assert(piece_depth(pc, ents2));
                assert(removed_start == lo && removed_end == lo2);
                assert(v.start == removed_start && v.end == removed_end);
                assert(val == f64::from_spec(v.value)); 
                lemma_hist_push(hcur, v);
            }
            let ghost d_out = d;
            let ghost l_out = zoom_item.overlap@;
            let ghost cs = lo;

            let mut add_start = removed_start;
            loop 
                invariant_except_break
                    
                    removed_start <= add_start <= removed_end,
                    
                    hcur == hc_in, ps == ps_in, lo == cs,
                    
                    zoom_item.records@.len() < ips,
                    
                    zoom_ok(*zoom_item, hc_in, cs, add_start as int, chrom_id, ips, hc_in.len() as int + (if add_start == removed_end { 1int } else { 0int })),
                invariant
                    
                    cs == removed_start as int, lo2 == removed_end as int, cs <= lo2, ips == options.items_per_slot as int, ips >= 1,
                    v == piece_value(pc), pc == (Piece { s: cs, e: lo2, d: d_first }), v.start == removed_start, v.end == removed_end,
                    val == f64::from_spec(v.value),
                    ends_by(hc_in, cs), hist_ok(hc_in), before(hc_in, cs), hc_in.len() < 0xffff_ffff_ffff + 4,
                    pieces_ok(ps_in, item_start as int, cs, ents2), pc.d >= 1, piece_depth(pc, ents2),
                    hc_in == hist + vals_of(ps_in),
                    hc_in == vals_of(hps + ps_in), pieces_final(hps + ps_in, ents2, cs), tot(hc_in) == cnt(ents2, 0, cs),
                    zoom_item.size == old(zoom_item).size,
                    removed_end as int + zoom_item.size as int <= u32::MAX as int,
                    log0 == old(zoom_item).channel.log(),
                    zoom_item.overlap@ == l_out, d == d_out,
                    
                    log0.is_prefix_of(zoom_item.channel.log()),
                ensures
                    
                    add_start == removed_end,
                    zoom_item.records@.len() < ips,
                    lo == lo2, ps == ps_in.push(pc), hcur == hc_in.push(v),
                    hcur == hist + vals_of(ps),
                    hcur == vals_of(hps + ps), pieces_final(hps + ps, ents2, lo), tot(hcur) == cnt(ents2, 0, lo),
                    hist_ok(hcur), before(hcur, lo),
                    pieces_ok(ps, item_start as int, lo, ents2),
                    zoom_ok(*zoom_item, hcur, lo, lo, chrom_id, ips, hcur.len() as int),
                    next_val.is_none() ==> zoom_item.live_info.is_none() && zoom_item.records@.len() == 0,
                decreases
                    
                    (removed_end - add_start) as int,
                    (if zoom_item.live_info.is_some() { 1int } else { 0int }),
{
                if add_start >= removed_end {
                    if next_val.is_none() {

                        let ghost c_b0 = closed_of(*zoom_item);
                        let ghost lv0 = zoom_item.live_info;
                        if let Some((mut zoom2, total_items)) = zoom_item.live_info.take() {
                            zoom2.summary.total_items = total_items;
                            zoom_item.records.push(zoom2);

                            proof { 
                                assert(zoom2 == closed_rec(lv0.unwrap().0, lv0.unwrap().1));
                                assert(closed_of(*zoom_item) =~= c_b0.push(zoom2));
                                lemma_close_live(c_b0, lv0.unwrap().0, hc_in, cs, add_start as int, zoom_item.size, chrom_id, hc_in.len() as int + 1);
                                lemma_closed_rec(c_b0, lv0.unwrap().0, lv0.unwrap().1, hc_in, cs, add_start as int, zoom_item.size as int, chrom_id);
                            }
                        }
                        if (zoom_item.records.len() != 0) {

                            let ghost c_before = closed_of(*zoom_item);
                            let items = take_vec(&mut zoom_item.records);
                            zoom_item.channel.emit_encode_zoom_section(options.compress, items);

                            proof { 
                                assert(closed_of(*zoom_item) =~= c_before);
                            }
                        }
                    }

                    proof { 
                        lemma_finish_value(closed_of(*zoom_item), live_of(*zoom_item), hc_in, v, zoom_item.size as int, chrom_id);
                        lemma_pieces_push(ps_in, item_start as int, cs, pc, ents2);
                        hcur = hc_in.push(v);
                        ps = ps_in.push(pc);
                        lo = lo2;
                        assert(vals_of(ps) =~= vals_of(ps_in).push(v));
                        assert(hist + vals_of(ps) =~= (hist + vals_of(ps_in)).push(v));
                        lemma_pieces_final_push(hps + ps_in, ents2, cs, pc, lo2);
                        assert((hps + ps_in).push(pc) =~= hps + ps);
                        assert(vals_of(hps + ps) =~= vals_of(hps + ps_in).push(v));
                        lemma_tot_push(hc_in, v);
                        lemma_cnt_step(ents2, cs, lo2);
                    }
                    break;
                }

                proof { float_ax::float_det(); }
                let ghost c_mid = closed_of(*zoom_item);
                let ghost live0 = live_of(*zoom_item);
                let (zoom2, _) = zoom_item.live_info.get_or_insert((
                    ZoomRecord {
                        chrom: chrom_id,
                        start: add_start,
                        end: add_start,
                        summary: Summary {
                            total_items: 0,
                            bases_covered: 0,
                            min_val: val,
                            max_val: val,
                            sum: 0.0,
                            sum_squares: 0.0,
                        },
                    },
                    0,
                ));
                // The end of zoom record
                let next_end = zoom2.start + zoom_item.size;
                // End of bases that we could add
                let add_end = min_u32(next_end, removed_end);
                // If the last zoom ends before (or exactly where) this value starts, we don't add anything

                let ghost sum0 = zoom2.summary.sum;
                let ghost ssq0 = zoom2.summary.sum_squares;
                let ghost min0 = zoom2.summary.min_val;
                let ghost max0 = zoom2.summary.max_val;
                let ghost items0 = zoom2.summary.total_items;
                proof {
                    assert(live0.is_none() ==> min0 == val && max0 == val); 
                }
                if add_end > add_start {
                    let added_bases = add_end - add_start;
                    zoom2.end = add_end;
                    zoom2.summary.total_items = zoom2.summary.total_items + (1); // XXX
                    zoom2.summary.bases_covered = // XXX
                    zoom2.summary.bases_covered + (u64::from(added_bases));
                    zoom2.summary.min_val = zoom2.summary.min_val.min(val);
                    zoom2.summary.max_val = zoom2.summary.max_val.max(val);
                    zoom2.summary.sum = zoom2.summary.sum + (f64::from(added_bases) * val);
                    zoom2.summary.sum_squares = zoom2.summary.sum_squares + (f64::from(added_bases) * val * val);

                    proof {
                        // float fields: shape pinned over uninterpreted float operators; weight = added bases, value = segment depth
                        let w = f64::from_spec((add_end - add_start) as u32);
                        let x = f64::from_spec(f32_of_nat(d_first));
                        assert(add_end > add_start); 
                        assert(zoom2.summary.sum == sum0.add_spec(w.mul_spec(x))); 
                        assert(zoom2.summary.sum_squares == ssq0.add_spec(w.mul_spec(x).mul_spec(x))); 
                        assert(zoom2.summary.min_val == fmin(min0, x)); 
                        assert(zoom2.summary.max_val == fmax(max0, x)); 
                        assert(zoom2.summary.total_items == items0 + 1); 
                    }
                }
                // If we made it to the end of the zoom (whether it was because the zoom ended before this value started,
                // or we added to the end of the zoom), then write this zooms to the current section

                let ghost l1 = live_of(*zoom_item).unwrap();
                let ghost n1 = zoom_item.live_info.unwrap().1;
                proof { 
                    assert(closed_of(*zoom_item) =~= c_mid);
                    lemma_step(c_mid, live0, l1, hc_in, cs, add_start as int, add_end as int, removed_end as int, zoom_item.size, chrom_id, hc_in.len() as int);
                }
                if add_end == next_end {
                    zoom_item.records.push(
                        close_live(zoom_item.live_info.take()));

                    proof { 
                        assert(closed_of(*zoom_item) =~= c_mid.push(closed_rec(l1, n1)));
                        lemma_closed_rec(c_mid, l1, n1, hc_in, cs, imax(add_end as int, cs), zoom_item.size as int, chrom_id);
                    }
                }
                // Set where we would start for next time
                add_start = max_u32(add_end, removed_start);
                // Write section if full
                if zoom_item.records.len() == options.items_per_slot as usize {

                    let ghost c_before2 = closed_of(*zoom_item);
                    let items = take_vec(&mut zoom_item.records);
                    zoom_item.channel.emit_encode_zoom_section(options.compress, items);

                    proof { 
                        assert(closed_of(*zoom_item) =~= c_before2);
                    }
                }
            }
        }

        assert((zoom_item.records.len()) != (options.items_per_slot as usize));
    
        proof { 
            if zoom_item.overlap@.len() > 0 { let _ = zoom_item.overlap@[0]; } else { lemma_cnt_zero_ext(ents2, lo, next_start as int); }
        }
        Ghost((d, ps))
}

} // verus!
fn main() {}

