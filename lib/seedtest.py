#!/usr/bin/env python3
"""seedtest.py <seed_dir> [props...]: apply <seed_dir>/patch.diff to a scratch copy of /repo and run the
registered checks of the given properties (default: the seed's property) against it.
Prints one line per property: exit code + failing obligations."""
import json, os, subprocess, sys, shutil
seed = sys.argv[1].rstrip('/')
meta = json.load(open(os.path.join(seed, 'meta.json'))) if os.path.exists(os.path.join(seed, 'meta.json')) else {}
props = sys.argv[2:] or [meta.get('property')]
scratch = '/var/tmp/seed-eval.%d' % os.getpid()
subprocess.check_call(['rsync', '-a', '--delete', '--exclude', 'target', '--exclude', '.git', '/repo/', scratch + '/'])
p = subprocess.run(['patch', '-p1', '--no-backup-if-mismatch', '-i', os.path.abspath(os.path.join(seed, 'patch.diff'))], cwd=scratch, stdout=subprocess.PIPE, stderr=subprocess.STDOUT, text=True)
if p.returncode != 0:
    print('PATCH DOES NOT APPLY:', p.stdout[-500:]); shutil.rmtree(scratch); sys.exit(3)
res = {}
for prop in props:
    r = subprocess.run(['./check', prop], cwd='/verif', env=dict(os.environ, VERIF_REPO=scratch), stdout=subprocess.PIPE, stderr=subprocess.STDOUT, text=True)
    res[prop] = (r.returncode, r.stdout.strip().split('\n'))
    print('%s exit=%d' % (prop, r.returncode))
    for l in r.stdout.strip().split('\n')[:8]:
        print('   ', l)
shutil.rmtree(scratch)
