#!/usr/bin/env python3
"""mutsweep.py [-k N] [-j J] [unit...]: an automatic first-order mutation sweep over the source lines that are REAL TEXT
under some enabled Verus unit (the same notion as lib/coverage_map.py).  For each unit up to N small syntactic mutants
(comparison / arithmetic / boolean operator swaps, integer literal +1, true<->false, a deleted simple statement) are
applied, one at a time, to a scratch copy of /repo and the unit is run against it (`./check <prop> --unit <unit>`).
exit 1 = killed (a named obligation fails), exit 2 = undecided (front end / anchor), exit 0 = SURVIVED.  Survivors are
either equivalent mutants or places where a contract says too little; they are listed for triage in
notes/MUTSWEEP.md.  Development tool; not part of any registered check."""
import concurrent.futures as cf, json, os, random, re, shutil, subprocess, sys, threading
HERE = os.path.dirname(os.path.abspath(__file__)); V = os.path.dirname(HERE); sys.path.insert(0, HERE)
import weave, check, rustlex
REPO = '/repo'
K = 20; J = 4; only = []
a = sys.argv[1:]
while a:
    x = a.pop(0)
    if x == '-k': K = int(a.pop(0))
    elif x == '-j': J = int(a.pop(0))
    else: only.append(x)
def norm(l): return re.sub(r'\s+', ' ', l.strip())
MUTS = [
    (r'(?<![<>=!\-])<(?![<=])', '<=', 'lt->le'), (r'<=', '<', 'le->lt'), (r'(?<![<>=\-])>(?![>=])', '>=', 'gt->ge'), (r'>=', '>', 'ge->gt'),
    (r'==', '!=', 'eq->ne'), (r'!=', '==', 'ne->eq'), (r'&&', '||', 'and->or'), (r'\|\|', '&&', 'or->and'),
    (r'(?<![+\-])\+(?![+=])', '-', 'plus->minus'), (r'(?<![\-<=(,&|*/+ ] )(?<![eE\-])-(?![\-=>])', '+', 'minus->plus'),
    (r'\+=', '-=', 'pluseq->minuseq'), (r'\btrue\b', 'false', 'true->false'), (r'\bfalse\b', 'true', 'false->true'),
    (r'(?<![\w.])(\d+)(?![\w.])', None, 'int+1'),
]
def sites_for(unit):
    tpl = os.path.join(V, 'contracts', unit, 'unit.rs.tpl')
    un = weave.Unit(tpl, REPO); un.build()
    kept = {}
    for rel, text in getattr(un, 'kept_texts', []):
        s = kept.setdefault(rel, set())
        for l in text.split('\n'):
            n = norm(l)
            if len(n) >= 8: s.add(n)
    out = []
    for rel, ks in kept.items():
        p = os.path.join(REPO, rel)
        src = open(p).read(); cut = src.find('#[cfg(test)]')
        masked = rustlex.mask(src)
        lines = src.split('\n'); mlines = masked.split('\n')
        pos = 0
        for i, (l, ml) in enumerate(zip(lines, mlines)):
            start = pos; pos += len(l) + 1
            if cut > 0 and start > cut: break
            n = norm(l)
            if n not in ks or n.startswith('//') or n.startswith('#[') or n.startswith('use ') or 'fn ' in n[:12] or 'debug_assert' in n or 'eprintln' in n or 'format!' in n: continue
            for pat, rep, name in MUTS:
                for m in re.finditer(pat, ml):
                    if '->' in ml[max(0, m.start() - 1):m.end() + 1] and name.startswith(('gt', 'minus')): continue
                    if '=>' in ml[max(0, m.start() - 1):m.end() + 1]: continue
                    # not code: closure headers `|| expr`, generic/type contexts (`Option<u32>,`, `-> Result<`, `parse::<u32>()`, `I: A + B`)
                    if name in ('or->and',) and re.search(r'(?:^|[(=,]\s*|\bmove\s+)\|\|\s*(?:\{|[A-Za-z_(&*!])', ml[max(0, m.start() - 8):m.end() + 3]) and not re.search(r'[\w)\]]\s*\|\|', ml[max(0, m.start() - 3):m.end()]): continue
                    if name in ('lt->le', 'gt->ge', 'le->lt', 'ge->gt') and not re.search(r'[\w)\]] [<>]=? [\w(&*!-]', ml[max(0, m.start() - 2):m.end() + 2]): continue
                    if name in ('plus->minus', 'minus->plus') and re.search(r'^\s*(?:[A-Z]\w*: |where |pub(?:\([^)]*\))? (?:fn|struct|enum|trait)|impl|fn )', ml) : continue
                    if name == 'int+1':
                        if ml[max(0, m.start() - 1):m.start()] in ('u', 'i', 'f', '_') or re.search(r'[A-Za-z_]$', ml[:m.start()]): continue
                        new = l[:m.start()] + str(int(m.group(1)) + 1) + l[m.end():]
                    else:
                        if name in ('lt->le', 'gt->ge', 'le->lt', 'ge->gt') and re.search(r'(?:<[A-Za-z&\'(\[]|::<|[A-Za-z>)\]]>)', ml[max(0, m.start() - 2):m.end() + 2]) and not re.search(r'\s[<>]=?\s', ml[max(0, m.start() - 1):m.end() + 1]): continue
                        new = l[:m.start()] + rep + l[m.end():]
                    out.append((rel, i, new, '%s @%s:%d  `%s`' % (name, rel.replace('bigtools/src/', ''), i + 1, n[:90])))
            if re.fullmatch(r'\s*[\w.\[\]()*&]+\s*(?:[-+*/]?=)\s*[^;{}]+;\s*', l) or re.fullmatch(r'\s*[\w.]+\([^;{}]*\)\??;\s*', l):
                if not n.startswith(('let ', 'return', 'break', 'continue')):
                    out.append((rel, i, '', 'delete-stmt @%s:%d  `%s`' % (rel.replace('bigtools/src/', ''), i + 1, n[:90])))
    return out
sm = check.serves_map()
units = [u for u in sorted(check.enabled_units()) if os.path.exists(os.path.join(V, 'contracts', u, 'unit.rs.tpl')) and sm.get(u) and (not only or u in only)]
local = threading.local(); wid = [0]; lock = threading.Lock()
def scratch():
    if not hasattr(local, 'd'):
        with lock: wid[0] += 1; local.d = '/var/tmp/mut-w%d' % wid[0]
        shutil.rmtree(local.d, ignore_errors=True)
        subprocess.check_call(['rsync', '-a', '--exclude', 'target', '--exclude', '.git', REPO + '/', local.d + '/'])
    return local.d
def run(job):
    units_, rel, i, new, desc = job
    d = scratch(); p = os.path.join(d, rel); orig = open(os.path.join(REPO, rel)).read()
    lines = orig.split('\n'); lines[i] = new
    open(p, 'w').write('\n'.join(lines))
    verdicts = []
    for unit in units_:
        try:
            r = subprocess.run(['./check', sm[unit][0], '--unit', unit], cwd=V, env=dict(os.environ, VERIF_REPO=d, VERIF_FMT_NOCACHE='1', VERIF_SCRATCH='/var/tmp'), stdout=subprocess.PIPE, stderr=subprocess.STDOUT, text=True, timeout=900)
            rc = r.returncode; first = next((l.strip() for l in r.stdout.split('\n') if 'failed obligation' in l or l.startswith('UNDECIDED')), '')
        except subprocess.TimeoutExpired:
            rc = 2; first = 'timeout'
        verdicts.append((unit, rc, first))
        if rc == 1: break
    open(p, 'w').write(orig)
    rc = 1 if any(v[1] == 1 for v in verdicts) else (2 if any(v[1] == 2 for v in verdicts) else 0)
    print(rc, desc[:110], '|', ' ; '.join('%s=%d' % (v[0], v[1]) for v in verdicts), flush=True)
    return rc, desc, verdicts
allm = {}
for u in units:
    try: s_ = sites_for(u)
    except Exception as e: print('skip', u, e); continue
    for rel, i, new, desc in s_:
        allm.setdefault((rel, i, new, desc), []).append(u)
rnd = random.Random(20261003)
keys = sorted(allm); rnd.shuffle(keys)
jobs = [(allm[k], k[0], k[1], k[2], k[3]) for k in keys[:K]]
print('units', len(units), 'mutation sites', len(keys), 'sampled', len(jobs), flush=True)
with cf.ThreadPoolExecutor(J) as ex: res = list(ex.map(run, jobs))
for w in range(1, wid[0] + 1): shutil.rmtree('/var/tmp/mut-w%d' % w, ignore_errors=True)
tk = sum(1 for r in res if r[0] == 1); tu = sum(1 for r in res if r[0] == 2); ts = sum(1 for r in res if r[0] == 0)
out = ['# Automatic mutation sweep over the real text under contract', '',
       'Generated by `python3 lib/mutsweep.py -k %d`: first-order syntactic mutants (comparison/arithmetic/boolean operator swaps, integer literal +1, true<->false, one simple statement deleted) of source lines that are real text under some enabled Verus unit; one mutant at a time on a scratch copy of /repo; EVERY unit that keeps the mutated line is run (`./check <prop> --unit <unit>`) until one kills it.' % K,
       'killed = some unit exits 1 on a named obligation; undecided = none kills and at least one exits 2 (front-end refusal / anchor lost: this includes mutants that do not compile); survived = every unit that keeps the line exits 0.', '',
       '%d mutation sites in all, %d sampled: **killed %d, undecided %d, survived %d**.' % (len(keys), len(jobs), tk, tu, ts), '',
       '## Survivors (to triage: equivalent mutant, or a contract that says too little)', '']
for rc, desc, vs in res:
    if rc == 0: out.append('* %s  — units: %s' % (desc, ', '.join(v[0] for v in vs)))
out += ['', '## Undecided', '']
for rc, desc, vs in res:
    if rc == 2: out.append('* %s — %s' % (desc, '; '.join('%s: %s' % (v[0], v[2][:100]) for v in vs if v[1] == 2)[:260]))
if not only: open(os.path.join(V, 'notes', 'MUTSWEEP.md'), 'w').write('\n'.join(out) + '\n')
json.dump(res, open('/var/tmp/mutsweep.json', 'w'))
print('killed %d undecided %d survived %d' % (tk, tu, ts))
