//@unit info_tools
//@serves C06
//@backend verus
// bigwiginfo / bigbedinfo (CLI): the place where a USER sees the whole-file summary (C06: "... observed at
// BigWigRead::get_summary, BigBedRead::get_summary, item_count and at the bigwiginfo / bigbedinfo output").
//   C06: "The total summary a reader reports for a written file (bases covered, minimum, maximum, sum, sum of squares)
//         and its item count equal the statistics of the data that went in ..."
// Units sum_acc / bw_batch / bb_sweep / hdr put the summary INTO the file, unit summary_io reads it back
// (`get_summary`, `item_count`).  Here: the two tools REPORT exactly what `get_summary` / `item_count` returned --
// which value is printed on which line with which format, in which order -- on the text cut from /repo on every run:
//   (A) `print_info` of both files WHOLE, over a logged line output (`println!` / `print!` are shadowed: each call
//       appends ONE piece whose text is an uninterpreted function of the format literal and the argument VALUES);
//       the outer functions `bigwiginfo` / `bigbedinfo` WHOLE (open the file named by the argument, call print_info once);
//   (B) `num_with_commas` (both copies): the result IS the decimal digits of the number in groups of three.
// Floats are uninterpreted (_shared/floats.rs): mean / std are pinned as expression SHAPES, operand by operand.
use vstd::prelude::*;
use vstd::std_specs::ops::*;
use vstd::std_specs::convert::FromSpec;
// `println!(LIT, a, b, ..)` is kept verbatim apart from the destination (`println!(out, LIT, a, b, ..)`, unit-local
// sub): these macros SHADOW std's, rustc splits the arguments.  The arguments are taken by reference, in order.
#[allow(unused_macros)]
macro_rules! println {
    ($w:expr, $f:literal $(, $a:expr)* $(,)?) => { out_put($w, true, $f, ($(&$a,)*)) };
}
#[allow(unused_macros)]
macro_rules! print {
    ($w:expr, $f:literal $(, $a:expr)* $(,)?) => { out_put($w, false, $f, ($(&$a,)*)) };
}
verus! {
//@include ../_shared/floats.rs

// =====================================================================================
// text
// =====================================================================================
/// `String` / `&String`: a value that IS its character sequence (the only field is ghost, so two `Str` with the
/// same characters are equal -- true of `String`).  Every operation is an `external_body` shim with std's contract.
pub struct Str { pub s: Ghost<Seq<char>> }
impl View for Str {
    type V = Seq<char>;
    open spec fn view(&self) -> Seq<char> { self.s@ }
}
pub open spec fn str_of(s: Seq<char>) -> Str { Str { s: Ghost(s) } }
/// `s.starts_with(p)`
pub uninterp spec fn has_prefix(s: Seq<char>, p: Seq<char>) -> bool;
/// one decimal digit
pub open spec fn digit(d: nat) -> char {
    if d == 0 { '0' } else if d == 1 { '1' } else if d == 2 { '2' } else if d == 3 { '3' } else if d == 4 { '4' }
    else if d == 5 { '5' } else if d == 6 { '6' } else if d == 7 { '7' } else if d == 8 { '8' } else { '9' }
}
/// the decimal digits of n, most significant first, no leading zeros ("0" for 0): what `{}` prints for an unsigned
/// integer (`impl Display for u64`)
pub open spec fn dec(n: nat) -> Seq<char>
    decreases n
{
    if n < 10 { seq![digit(n)] } else { dec(n / 10).push(digit(n % 10)) }
}
impl Str {
    /// `String::new()`
    #[verifier::external_body] pub fn new() -> (r: Str) ensures r@ == Seq::<char>::empty(), { unimplemented!() }
    /// `format!("literal")` (no placeholders), `"literal".to_string()`, `String::from("literal")`
    #[verifier::external_body] pub fn lit(l: &str) -> (r: Str) ensures r@ == l@, { unimplemented!() }
    /// `format!("{x}")` for an unsigned integer: its decimal digits
    #[verifier::external_body] pub fn fmt_u64(x: u64) -> (r: Str) ensures r@ == dec(x as nat), { unimplemented!() }
    /// `a + &b` (`impl Add<&str> for String`): concatenation
    #[verifier::external_body] pub fn plus(self, o: &Str) -> (r: Str) ensures r@ == self@ + o@, { unimplemented!() }
    #[verifier::external_body] pub fn is_empty(&self) -> (r: bool) ensures r == (self@.len() == 0), { unimplemented!() }
    /// `s.starts_with("literal")`
    #[verifier::external_body] pub fn starts_with(&self, l: &str) -> (r: bool) ensures r == has_prefix(self@, l@), { unimplemented!() }
    #[verifier::external_body] pub fn to_string(&self) -> (r: Str) ensures r == *self, { unimplemented!() }
    #[verifier::external_body] pub fn to_owned(&self) -> (r: Str) ensures r == *self, { unimplemented!() }
    #[verifier::external_body] pub fn as_str(&self) -> (r: &Str) ensures *r == *self, { unimplemented!() }
    /// `push_str(&b)`: concatenation in place
    #[verifier::external_body] pub fn push_str(&mut self, o: &Str) ensures final(self)@ == old(self)@ + o@, { unimplemented!() }
    // plausible foreign calls: nothing promised
    #[verifier::external_body] pub fn len(&self) -> usize { unimplemented!() }
    #[verifier::external_body] pub fn trim(&self) -> &Str { unimplemented!() }
    #[verifier::external_body] pub fn trim_end(&self) -> &Str { unimplemented!() }
    #[verifier::external_body] pub fn to_lowercase(&self) -> Str { unimplemented!() }
    #[verifier::external_body] pub fn ends_with(&self, l: &str) -> bool { unimplemented!() }
    #[verifier::external_body] pub fn contains(&self, l: &str) -> bool { unimplemented!() }
    #[verifier::external_body] pub fn insert_str(&mut self, idx: usize, o: &Str) { unimplemented!() }
}
impl Clone for Str {
    #[verifier::external_body] fn clone(&self) -> (r: Str) ensures r == *self, { unimplemented!() }
}

/// the text ONE `println!` / `print!` call emits: an uninterpreted function of "ends the line?", the format literal
/// and the tuple of argument values (in order; arity and types are part of the tuple type).  What `{}` / `{:.6}` /
/// `{:?}` do to a value is not interpreted: the contract pins WHICH value goes through WHICH format on WHICH line.
#[verifier::external_body] pub struct Piece { _p: u8 }
pub uninterp spec fn piece<T>(nl: bool, fmt: &str, args: T) -> Piece;
/// the process's standard output.  ASSUMED: writing to it succeeds (std's `println!` PANICS when it does not, e.g.
/// on a closed pipe: not modelled).
#[verifier::external_body] pub struct Out { _p: u8 }
impl Out {
    /// every piece emitted so far, in order
    pub uninterp spec fn lines(&self) -> Seq<Piece>;
}
/// shim behind the shadowing `println!` / `print!`: exactly one piece is appended
#[verifier::external_body]
pub fn out_put<T>(w: &mut Out, nl: bool, fmt: &'static str, args: T)
    ensures final(w).lines() == old(w).lines().push(piece(nl, fmt, args)),
{ unimplemented!() }

// =====================================================================================
// numbers
// =====================================================================================
/// `x as f64` for an integer x: a function of the integer's value (rounding to nearest: not interpreted)
pub uninterp spec fn f64_of_int(x: int) -> f64;
pub trait IntVal: Sized { spec fn val(&self) -> int; }
impl IntVal for u64 { open spec fn val(&self) -> int { *self as int } }
impl IntVal for u32 { open spec fn val(&self) -> int { *self as int } }
impl IntVal for u16 { open spec fn val(&self) -> int { *self as int } }
impl IntVal for usize { open spec fn val(&self) -> int { *self as int } }
#[verifier::external_body]
pub fn as_f64<T: IntVal>(x: T) -> (r: f64) ensures r == f64_of_int(x.val()), { unimplemented!() }
/// `f64::sqrt`
pub uninterp spec fn fsqrt(x: f64) -> f64;
pub assume_specification [f64::sqrt] (a: f64) -> (r: f64) ensures r == fsqrt(a);
/// `a - b` on u64 (verified; the overflow check gets a name)
pub fn sub_u64(a: u64, b: u64) -> (r: u64)
    requires
        [[L: arith/u64_subtraction_does_not_underflow]]
        a >= b,
    ensures r == a - b,
{ a - b }

// =====================================================================================
// the file header as the readers hold it (all cut from /repo)
// =====================================================================================
/// shim for byteordered::Endianness (external crate, a plain 2-variant enum)
#[derive(Clone, Copy)]
pub enum Endianness { Big, Little }
//@extract struct bigtools/src/bbi.rs Summary
//@rule R8
//@end
//@extract enum bigtools/src/bbi.rs BBIFile
//@rule R8
//@end
//@extract struct bigtools/src/bbi.rs ZoomHeader
//@rule R8
//@end
//@extract struct bigtools/src/bbi/bbiread.rs BBIHeader
//@rule R8
//@end
//@extract struct bigtools/src/bbi/bbiread.rs ChromInfo
//@rule R8
//@sub /#\[derive\(Clone\)\]\n/ => "" min=0
//@sub /name: String/ => name: Str min=1
//@end
//@extract struct bigtools/src/bbi/bbiread.rs BBIFileInfo
//@rule R8
//@sub /#\[derive\(Clone\)\]\n/ => "" min=0
//@end
// the tools' arguments (clap attributes dropped: parsing, defaults and help texts are outside)
//@extract struct bigtools/src/utils/cli/bigwiginfo.rs BigWigInfoArgs
//@rule R8
//@sub /#\[derive\(Clone\)\]\n/ => "" min=0
//@sub /#\[command\(.*?\n\)\]\n/ => "" min=0
//@sub /[ \t]*#\[(?:arg|command)\([^\n]*\)\]\n/ => "" min=0
//@sub /\bString\b/ => Str min=0
//@end
//@extract struct bigtools/src/utils/cli/bigbedinfo.rs BigBedInfoArgs
//@rule R8
//@sub /#\[derive\(Clone\)\]\n/ => "" min=0
//@sub /#\[command\(.*?\n\)\]\n/ => "" min=0
//@sub /[ \t]*#\[(?:arg|command)\([^\n]*\)\]\n/ => "" min=0
//@sub /\bString\b/ => Str min=0
//@end

// =====================================================================================
// the readers: BigWigRead<R> / BigBedRead<R> with unit summary_io's contracts
// =====================================================================================
/// where a reader reads from: the path (or URL) it was opened from
pub ghost struct Source { pub name: Seq<char>, pub remote: bool }
/// `R: BBIFileRead`: ghost file content, environment flag (unit summary_io's `VRead`), and where it was opened from
#[verifier::external_body] pub struct FileImg { _p: u8 }
impl FileImg {
    pub uninterp spec fn content(&self) -> Seq<u8>;
    pub uninterp spec fn env_ok(&self) -> bool;
    pub uninterp spec fn src(&self) -> Source;
}
/// summary_io `summary_at(is_big(h.endianness), c, h.total_summary_offset, h.full_data_offset)`: the 40-byte total
/// summary stored at `total_summary_offset` + the u64 count at `full_data_offset`, decoded in the file's byte order
pub uninterp spec fn summary_at_(c: Seq<u8>, h: BBIHeader) -> Summary;
/// `h.full_data_offset + 8 <= c.len()` (summary_io `item_count/*`, second conjunct of `summary_stored`)
pub uninterp spec fn count_stored_(c: Seq<u8>, h: BBIHeader) -> bool;
/// `h.total_summary_offset != 0 ==> h.total_summary_offset + 40 <= c.len()` (first conjunct of `summary_stored`)
pub uninterp spec fn total_summary_stored_(c: Seq<u8>, h: BBIHeader) -> bool;
/// summary_io `summary_stored(c, h.total_summary_offset, h.full_data_offset)`
pub open spec fn summary_stored_(c: Seq<u8>, h: BBIHeader) -> bool { total_summary_stored_(c, h) && count_stored_(c, h) }
/// the zero-terminated text at `auto_sql_offset` (None: offset 0) -- ASSUMED accessor, under no unit's contract
pub uninterp spec fn autosql_at_(c: Seq<u8>, h: BBIHeader) -> Option<Str>;
pub uninterp spec fn autosql_readable_(c: Seq<u8>, h: BBIHeader) -> bool;
/// io::Error
#[verifier::external_body] pub struct IoErr { _p: u8 }
/// BBIReadError
#[verifier::external_body] pub struct BBIReadError { _p: u8 }
/// BigWigReadOpenError / BigBedReadOpenError
#[verifier::external_body] pub struct OpenErr { _p: u8 }
/// `Box<dyn Error>`; which error: lost behind `?`
#[verifier::external_body] pub struct AnyErr { _p: u8 }
impl From<IoErr> for AnyErr { #[verifier::external_body] fn from(e: IoErr) -> AnyErr { unimplemented!() } }
impl From<BBIReadError> for AnyErr { #[verifier::external_body] fn from(e: BBIReadError) -> AnyErr { unimplemented!() } }
impl From<OpenErr> for AnyErr { #[verifier::external_body] fn from(e: OpenErr) -> AnyErr { unimplemented!() } }
// std stand-ins that only matter for CHANGED code (0 hits on /repo): an edit that swallows an error reaches the verifier
pub assume_specification<T, E>[Result::<T, E>::unwrap_or](x: Result<T, E>, d: T) -> (v: T)
    ensures x matches Ok(y) ==> v == y, x is Err ==> v == d;
pub assume_specification<T: Default, E>[Result::<T, E>::unwrap_or_default](x: Result<T, E>) -> (v: T)
    ensures x matches Ok(y) ==> v == y;

/// BigWigRead<R>: like the real struct, `info` + the reader; `X.info()` is read as `X.info` (the real accessor is
/// `&self.info`)
pub struct BigWigRead { pub info: BBIFileInfo, pub read: FileImg }
impl BigWigRead {
    /// unit summary_io: `bw/file_not_modified`, `bw/info_unchanged`, `bw/ok_only_if_summary_and_count_are_stored`,
    /// `bw/succeeds_when_summary_and_count_are_stored`, `bw/total_items_is_the_u64_at_full_data_offset`,
    /// `bw/bases_covered_is_the_u64_at_total_summary_offset_or_zero`, `bw/min_is_the_f64_at_plus_8_or_zero`,
    /// `bw/max_is_the_f64_at_plus_16_or_zero`, `bw/sum_is_the_f64_at_plus_24_or_zero`,
    /// `bw/sum_squares_is_the_f64_at_plus_32_or_zero` (six field equalities = equality of the struct)
    #[verifier::external_body]
    pub fn get_summary(&mut self) -> (r: Result<Summary, IoErr>)
        ensures
            final(self).read.content() == old(self).read.content(), final(self).read.env_ok() == old(self).read.env_ok(),
            final(self).read.src() == old(self).read.src(),
            final(self).info == old(self).info,
            r is Ok ==> summary_stored_(old(self).read.content(), old(self).info.header),
            old(self).read.env_ok() && summary_stored_(old(self).read.content(), old(self).info.header) ==> r is Ok,
            r matches Ok(s) ==> s == summary_at_(old(self).read.content(), old(self).info.header),
    { unimplemented!() }
}
/// BigBedRead<R>
pub struct BigBedRead { pub info: BBIFileInfo, pub read: FileImg }
impl BigBedRead {
    /// unit summary_io: `bb/*` (the same ten labels as `bw/*`)
    #[verifier::external_body]
    pub fn get_summary(&mut self) -> (r: Result<Summary, IoErr>)
        ensures
            final(self).read.content() == old(self).read.content(), final(self).read.env_ok() == old(self).read.env_ok(),
            final(self).read.src() == old(self).read.src(),
            final(self).info == old(self).info,
            r is Ok ==> summary_stored_(old(self).read.content(), old(self).info.header),
            old(self).read.env_ok() && summary_stored_(old(self).read.content(), old(self).info.header) ==> r is Ok,
            r matches Ok(s) ==> s == summary_at_(old(self).read.content(), old(self).info.header),
    { unimplemented!() }
    /// unit summary_io: `item_count/file_not_modified`, `item_count/info_unchanged`,
    /// `item_count/is_the_u64_at_full_data_offset_in_the_files_byte_order` (the same expression
    /// `d64(is_big(endianness), content, full_data_offset)` as `bb/total_items_is_the_u64_at_full_data_offset`: hence
    /// `summary_at_(..).total_items`), `item_count/succeeds_when_the_count_is_stored`
    #[verifier::external_body]
    pub fn item_count(&mut self) -> (r: Result<u64, BBIReadError>)
        ensures
            final(self).read.content() == old(self).read.content(), final(self).read.env_ok() == old(self).read.env_ok(),
            final(self).read.src() == old(self).read.src(),
            final(self).info == old(self).info,
            r is Ok ==> count_stored_(old(self).read.content(), old(self).info.header),
            old(self).read.env_ok() && count_stored_(old(self).read.content(), old(self).info.header) ==> r is Ok,
            r matches Ok(n) ==> n == summary_at_(old(self).read.content(), old(self).info.header).total_items,
    { unimplemented!() }
    /// `BigBedRead::autosql` (ASSUMED plain accessor: no unit has it under contract): the text stored at
    /// `auto_sql_offset`, None when the offset is 0; the file and `info` are not changed
    #[verifier::external_body]
    pub fn autosql(&mut self) -> (r: Result<Option<Str>, BBIReadError>)
        ensures
            final(self).read.content() == old(self).read.content(), final(self).read.env_ok() == old(self).read.env_ok(),
            final(self).read.src() == old(self).read.src(),
            final(self).info == old(self).info,
            r is Ok ==> autosql_readable_(old(self).read.content(), old(self).info.header),
            old(self).read.env_ok() && autosql_readable_(old(self).read.content(), old(self).info.header) ==> r is Ok,
            r matches Ok(a) ==> a == autosql_at_(old(self).read.content(), old(self).info.header),
    { unimplemented!() }
}

// =====================================================================================
// (B) num_with_commas: specification (written from "the digits of num in groups of three separated by commas")
// =====================================================================================
/// exactly three digits of r < 1000, zero-padded
pub open spec fn group3(r: nat) -> Seq<char> { seq![digit(r / 100), digit((r / 10) % 10), digit(r % 10)] }
/// the decimal digits of n in groups of three separated by commas, counted from the right; the most significant
/// group has no leading zeros
#[verifier::opaque]
pub open spec fn commas_spec(n: nat) -> Seq<char>
    decreases n
{
    if n < 1000 { dec(n) } else { commas_spec(n / 1000) + seq![','] + group3(n % 1000) }
}
/// one step of the definition + how a group relates to the plain digits of its value (what the code's three
/// `format!` arms produce)
pub proof fn lemma_commas_step(n: nat)
    ensures
        n < 1000 ==> commas_spec(n) == dec(n),
        n >= 1000 ==> commas_spec(n) == commas_spec(n / 1000) + seq![','] + group3(n % 1000),
        n % 1000 == 0 ==> group3(n % 1000) =~= seq!['0', '0', '0'],
        0 < n % 1000 < 10 ==> group3(n % 1000) =~= seq!['0', '0'] + dec(n % 1000),
        10 <= n % 1000 < 100 ==> group3(n % 1000) =~= seq!['0'] + dec(n % 1000),
        100 <= n % 1000 ==> group3(n % 1000) =~= dec(n % 1000),
{
    reveal(commas_spec);
    let r = n % 1000;
    reveal_with_fuel(dec, 4);
    if 10 <= r < 100 {
        assert(dec(r) =~= seq![digit(r / 10), digit(r % 10)]);
    }
    if 100 <= r {
        assert(dec(r / 10) =~= seq![digit(r / 100), digit((r / 10) % 10)]);
        assert(dec(r) =~= seq![digit(r / 100), digit((r / 10) % 10), digit(r % 10)]);
    }
}
/// the literals the code uses
pub proof fn lemma_literals()
    ensures ""@ =~= Seq::<char>::empty(), "0"@ =~= seq!['0'], "00"@ =~= seq!['0', '0'], "000"@ =~= seq!['0', '0', '0'], ","@ =~= seq![','],
{
    reveal_strlit("");
    reveal_strlit("0");
    reveal_strlit("00");
    reveal_strlit("000");
    reveal_strlit(",");
}

// ---- (B) the code: both copies (bigwiginfo.rs, bigbedinfo.rs), the same template block twice ----
// `format!("LIT")` -> `Str::lit("LIT")`; `format!("LIT{v}")` -> `Str::lit("LIT").plus(&Str::fmt_u64(v))` (the literal
// prefix followed by the decimal digits of v); `A + &b` -> `A.plus(&b)`; `break formatted;` at the END of the function
// -> `return formatted;` (Verus has no `break VALUE`; the sub demands that the loop is the function's tail).
// Any other `format!` is refused (undeclared macro).
#[verifier::loop_isolation(false)]
//@extract fn bigtools/src/utils/cli/bigwiginfo.rs num_with_commas
//@as bw/commas
//@rule R16
//@rule R15
//@sub /fn num_with_commas\(/ => fn bw_num_with_commas( min=1
//@sub /->\s*String\b/ => -> Str min=1
//@sub /\bString::new\(\)/ => Str::new() min=0
//@sub /\bformat!\(\s*"([^"{}\\]*)"\s*\)/ => Str::lit("\1") min=0
//@sub /\bformat!\(\s*"([^"{}\\]*)\{(\w+)\}"\s*\)/ => Str::lit("\1").plus(&Str::fmt_u64(\2)) min=0
//@sub /\bformat!\(/ => unknown_format__refused!( min=0
//@sub /("(?:[^"\\]|\\.)*")\s*\.to_string\(\)/ => Str::lit(\1) min=0
//@sub /\bString::from\(\s*("(?:[^"\\]|\\.)*")\s*\)/ => Str::lit(\1) min=0
//@sub /\s+\+\s+&(\w+)\b/ => .plus(&\1) min=0
//@sub /\bbreak (\w+);(\s*\}\s*\}\s*\})\s*\Z/ => return \1;\2 min=0
//@ret r
//@sig
    ensures
        [[L: result_is_the_decimal_digits_in_groups_of_three_separated_by_commas]]
        r@ =~= commas_spec(num as nat),
//@open
    let ghost n0 = num as nat;
    proof { lemma_literals(); lemma_commas_step(n0); }
//@loop 1
        invariant
            [[L: loop/groups_consumed_so_far_follow_the_groups_still_to_come]]
            num > 0, commas_spec(n0) =~= commas_spec(num as nat) + formatted@,
        decreases
            [[L: loop/termination]]
            num,
//@at /^\s*loop\s*\{\s*$/ after optional
        proof { lemma_commas_step(num as nat); }
//@end

#[verifier::loop_isolation(false)]
//@extract fn bigtools/src/utils/cli/bigbedinfo.rs num_with_commas
//@as bb/commas
//@rule R16
//@rule R15
//@sub /fn num_with_commas\(/ => fn bb_num_with_commas( min=1
//@sub /->\s*String\b/ => -> Str min=1
//@sub /\bString::new\(\)/ => Str::new() min=0
//@sub /\bformat!\(\s*"([^"{}\\]*)"\s*\)/ => Str::lit("\1") min=0
//@sub /\bformat!\(\s*"([^"{}\\]*)\{(\w+)\}"\s*\)/ => Str::lit("\1").plus(&Str::fmt_u64(\2)) min=0
//@sub /\bformat!\(/ => unknown_format__refused!( min=0
//@sub /("(?:[^"\\]|\\.)*")\s*\.to_string\(\)/ => Str::lit(\1) min=0
//@sub /\bString::from\(\s*("(?:[^"\\]|\\.)*")\s*\)/ => Str::lit(\1) min=0
//@sub /\s+\+\s+&(\w+)\b/ => .plus(&\1) min=0
//@sub /\bbreak (\w+);(\s*\}\s*\}\s*\})\s*\Z/ => return \1;\2 min=0
//@ret r
//@sig
    ensures
        [[L: result_is_the_decimal_digits_in_groups_of_three_separated_by_commas]]
        r@ =~= commas_spec(num as nat),
//@open
    let ghost n0 = num as nat;
    proof { lemma_literals(); lemma_commas_step(n0); }
//@loop 1
        invariant
            [[L: loop/groups_consumed_so_far_follow_the_groups_still_to_come]]
            num > 0, commas_spec(n0) =~= commas_spec(num as nat) + formatted@,
        decreases
            [[L: loop/termination]]
            num,
//@at /^\s*loop\s*\{\s*$/ after optional
        proof { lemma_commas_step(num as nat); }
//@end


// =====================================================================================
// (A) specification vocabulary: the lines (written from C06 / the task: the tool REPORTS the file's summary)
// =====================================================================================
pub open spec fn yes_no(b: bool) -> &'static str { if b { "yes" } else { "no" } }
pub open spec fn one_zero(b: bool) -> &'static str { if b { "1" } else { "0" } }
/// the text `num_with_commas(x)` returns (part (B))
pub open spec fn commas(x: int) -> Str { str_of(commas_spec(x as nat)) }
/// n = bases covered, as f64
pub open spec fn n_of(s: Summary) -> f64 { f64_of_int(s.bases_covered as int) }
/// mean = sum / n
pub open spec fn mean_of(s: Summary) -> f64 { s.sum.div_spec(n_of(s)) }
/// sample variance = (sum_squares - sum * sum / n) / (n - 1)
pub open spec fn var_of(s: Summary) -> f64 {
    s.sum_squares.sub_spec(s.sum.mul_spec(s.sum).div_spec(n_of(s))).div_spec(n_of(s).sub_spec(1.0f64))
}
/// standard deviation = sqrt(variance)
pub open spec fn std_of(s: Summary) -> f64 { fsqrt(var_of(s)) }

pub open spec fn ln_minmax(s: Summary) -> Piece { piece(true, "{:.6} {:.6}", (&s.min_val, &s.max_val)) }
pub open spec fn ln_version(h: BBIHeader) -> Piece { piece(true, "version: {}", (&h.version,)) }
pub open spec fn ln_field_count(h: BBIHeader) -> Piece { piece(true, "fieldCount: {}", (&h.field_count,)) }
pub open spec fn ln_compressed(h: BBIHeader) -> Piece { piece(true, "isCompressed: {}", (&yes_no(h.uncompress_buf_size > 0),)) }
pub open spec fn ln_swapped(h: BBIHeader) -> Piece { piece(true, "isSwapped: {}", (&one_zero(h.endianness is Big),)) }
pub open spec fn ln_item_count(n: u64) -> Piece { piece(true, "itemCount: {}", (&n,)) }
pub open spec fn ln_data_size(h: BBIHeader) -> Piece { piece(true, "primaryDataSize: {}", (&commas(h.full_index_offset - h.full_data_offset),)) }
pub open spec fn ln_index_size(h: BBIHeader, z0: ZoomHeader) -> Piece { piece(true, "primaryIndexSize: {}", (&commas(z0.data_offset - h.full_index_offset),)) }
pub open spec fn ln_zoom_levels(n: usize) -> Piece { piece(true, "zoomLevels: {}", (&n,)) }
pub open spec fn ln_zoom(z: ZoomHeader) -> Piece { piece(true, "\t{}\t{}", (&z.reduction_level, &((z.index_offset - z.data_offset) as u64))) }
pub open spec fn ln_chrom_count(n: usize) -> Piece { piece(true, "chromCount: {}", (&n,)) }
pub open spec fn ln_chrom(c: ChromInfo) -> Piece { piece(true, "\t{} {} {}", (&c.name, &c.id, &c.length)) }
pub open spec fn ln_bases(s: Summary) -> Piece { piece(true, "basesCovered: {}", (&commas(s.bases_covered as int),)) }
pub open spec fn bw_ln_mean(s: Summary) -> Piece { piece(true, "mean: {:.6}", (&mean_of(s),)) }
pub open spec fn bw_ln_min(s: Summary) -> Piece { piece(true, "min: {:.6}", (&s.min_val,)) }
pub open spec fn bw_ln_max(s: Summary) -> Piece { piece(true, "max: {:.6}", (&s.max_val,)) }
pub open spec fn bw_ln_std(s: Summary) -> Piece { piece(true, "std: {:.6}", (&std_of(s),)) }
pub open spec fn bb_ln_mean(s: Summary) -> Piece { piece(true, "meanDepth: {:.6}", (&mean_of(s),)) }
pub open spec fn bb_ln_min(s: Summary) -> Piece { piece(true, "minDepth: {:.6}", (&s.min_val,)) }
pub open spec fn bb_ln_max(s: Summary) -> Piece { piece(true, "maxDepth: {:.6}", (&s.max_val,)) }
pub open spec fn bb_ln_std(s: Summary) -> Piece { piece(true, "std of depth: {:.6}", (&std_of(s),)) }
pub open spec fn ln_as_na() -> Piece { piece(true, "as:  n/a", ()) }
pub open spec fn ln_as_head() -> Piece { piece(true, "as:", ()) }
pub open spec fn ln_as_text(t: Str) -> Piece { piece(false, "{}", (&t,)) }
pub open spec fn ln_debug(h: BBIHeader) -> Piece { piece(true, "{:?}", (&h,)) }

// ---- the report, left-associated in output order ----
/// one line per zoom level, in stored order (first n levels)
pub open spec fn zoom_lines(prev: Seq<Piece>, zh: Seq<ZoomHeader>, n: int) -> Seq<Piece>
    decreases n
{
    if n <= 0 { prev } else { zoom_lines(prev, zh, n - 1).push(ln_zoom(zh[n - 1])) }
}
/// one line per chromosome, in stored order (first n chromosomes)
pub open spec fn chrom_lines(prev: Seq<Piece>, ci: Seq<ChromInfo>, n: int) -> Seq<Piece>
    decreases n
{
    if n <= 0 { prev } else { chrom_lines(prev, ci, n - 1).push(ln_chrom(ci[n - 1])) }
}
/// `primaryIndexSize` only when there is a zoom level (the primary index ends where the first zoom's data starts)
pub open spec fn opt_index_size(prev: Seq<Piece>, info: BBIFileInfo) -> Seq<Piece> {
    if info.zoom_headers@.len() > 0 { prev.push(ln_index_size(info.header, info.zoom_headers@[0])) } else { prev }
}
pub open spec fn bw_head(prev: Seq<Piece>, info: BBIFileInfo) -> Seq<Piece> {
    opt_index_size(prev.push(ln_version(info.header)).push(ln_compressed(info.header)).push(ln_swapped(info.header)).push(ln_data_size(info.header)), info)
        .push(ln_zoom_levels(info.zoom_headers@.len() as usize))
}
pub open spec fn bb_head4(prev: Seq<Piece>, h: BBIHeader) -> Seq<Piece> {
    prev.push(ln_version(h)).push(ln_field_count(h)).push(ln_compressed(h)).push(ln_swapped(h))
}
pub open spec fn bb_head(prev: Seq<Piece>, info: BBIFileInfo, count: u64) -> Seq<Piece> {
    opt_index_size(bb_head4(prev, info.header).push(ln_item_count(count)).push(ln_data_size(info.header)), info)
        .push(ln_zoom_levels(info.zoom_headers@.len() as usize))
}
/// optional zoom lines, then chromCount
pub open spec fn upto_chrom_count(head: Seq<Piece>, info: BBIFileInfo, zooms: bool) -> Seq<Piece> {
    (if zooms { zoom_lines(head, info.zoom_headers@, info.zoom_headers@.len() as int) } else { head })
        .push(ln_chrom_count(info.chrom_info@.len() as usize))
}
/// ... then the optional chromosome lines
pub open spec fn mid(head: Seq<Piece>, info: BBIFileInfo, zooms: bool, chroms: bool) -> Seq<Piece> {
    if chroms { chrom_lines(upto_chrom_count(head, info, zooms), info.chrom_info@, info.chrom_info@.len() as int) } else { upto_chrom_count(head, info, zooms) }
}
pub open spec fn bw_stats(prev: Seq<Piece>, s: Summary) -> Seq<Piece> {
    prev.push(ln_bases(s)).push(bw_ln_mean(s)).push(bw_ln_min(s)).push(bw_ln_max(s)).push(bw_ln_std(s))
}
pub open spec fn bb_stats(prev: Seq<Piece>, s: Summary) -> Seq<Piece> {
    prev.push(ln_bases(s)).push(bb_ln_mean(s)).push(bb_ln_min(s)).push(bb_ln_max(s)).push(bb_ln_std(s))
}
/// the autosql dump: `as:  n/a` when there is none or it is empty, else `as:` and the text itself (no newline added)
pub open spec fn bb_asql(prev: Seq<Piece>, a: Option<Str>) -> Seq<Piece> {
    match a {
        None => prev.push(ln_as_na()),
        Some(t) => if t@.len() == 0 { prev.push(ln_as_na()) } else { prev.push(ln_as_head()).push(ln_as_text(t)) },
    }
}
/// THE bigwiginfo output for a file with header `info` and total summary `s`
pub open spec fn bw_report(prev: Seq<Piece>, info: BBIFileInfo, args: BigWigInfoArgs, s: Summary) -> Seq<Piece> {
    if args.minmax { prev.push(ln_minmax(s)) } else { bw_stats(mid(bw_head(prev, info), info, args.zooms, args.chroms), s) }
}
pub open spec fn bb_before_stats(prev: Seq<Piece>, info: BBIFileInfo, args: BigBedInfoArgs, asql: Option<Str>, count: u64) -> Seq<Piece> {
    if args.autosql { bb_asql(mid(bb_head(prev, info, count), info, args.zooms, args.chroms), asql) } else { mid(bb_head(prev, info, count), info, args.zooms, args.chroms) }
}
/// THE bigbedinfo output for a file with header `info`, autosql text `asql`, total summary `s` (item count = s.total_items)
pub open spec fn bb_report(prev: Seq<Piece>, info: BBIFileInfo, args: BigBedInfoArgs, asql: Option<Str>, s: Summary) -> Seq<Piece> {
    if args.debug { bb_stats(bb_before_stats(prev, info, args, asql, s.total_items), s).push(ln_debug(info.header)) }
    else { bb_stats(bb_before_stats(prev, info, args, asql, s.total_items), s) }
}
/// well-formed header: primary data, then the primary index, then the first zoom level's data.  NOBODY establishes
/// this: `read_info` stores the three offsets as read (NOTES.md, observation 1)
pub open spec fn offsets_ordered(info: BBIFileInfo) -> bool {
    &&& info.header.full_data_offset <= info.header.full_index_offset
    &&& info.zoom_headers@.len() > 0 ==> info.header.full_index_offset <= info.zoom_headers@[0].data_offset
}
/// every zoom level's data comes before its index (needed only for `--zooms`)
pub open spec fn zooms_ordered(zh: Seq<ZoomHeader>) -> bool {
    forall|k: int| 0 <= k < zh.len() ==> (#[trigger] zh[k]).data_offset <= zh[k].index_offset
}
pub open spec fn bw_pre(info: BBIFileInfo, args: BigWigInfoArgs) -> bool {
    !args.minmax ==> offsets_ordered(info) && (args.zooms ==> zooms_ordered(info.zoom_headers@))
}
pub open spec fn bb_pre(info: BBIFileInfo, args: BigBedInfoArgs) -> bool {
    offsets_ordered(info) && (args.zooms ==> zooms_ordered(info.zoom_headers@))
}

// =====================================================================================
// (A1) bigwiginfo.rs `print_info`, WHOLE
// =====================================================================================
#[verifier::loop_isolation(false)]
//@extract fn bigtools/src/utils/cli/bigwiginfo.rs print_info
//@as bw
//@rule R16
//@rule R15
//@rule R7
//@presub /(print(?:ln)?!\([^;\n]*)\n\s*/ => \1\t min=0
//@presub /(print(?:ln)?!\([^;\n]*)\n\s*/ => \1\t min=0
//@presub /(print(?:ln)?!\([^;\n]*)\n\s*/ => \1\t min=0
//@presub /(print(?:ln)?!\([^;\n]*)\n\s*/ => \1\t min=0
//@presub /(print(?:ln)?!\([^;\n]*)\n\s*/ => \1\t min=0
//@presub /(print(?:ln)?!\([^;\n]*)\n\s*/ => \1\t min=0
//@presub /(\w+)\.info\(\)/ => \1.info min=0
//@presub /\bfor (\w+) in ((?:\w+\s*\.\s*)*zoom_headers)\s*\.iter\(\)/ => for (iz__, \1) in \2.iter().enumerate() min=0
//@presub /\bfor (\w+) in ((?:\w+\s*\.\s*)*chrom_info)\s*\.iter\(\)/ => for (ic__, \1) in \2.iter().enumerate() min=0
//@sub /fn print_info<R: BBIFileRead>\(/ => fn bw_print_info( min=1
//@sub /mut bigwig: BigWigRead<R>,/ => mut bigwig: BigWigRead, min=1
//@sub /args: &BigWigInfoArgs,?\s*\)/ => args: &BigWigInfoArgs, out: &mut Out) min=1
//@sub /Box<dyn Error(?:\s*\+\s*\w+)*>/ => AnyErr min=1
//@sub /\b(print(?:ln)?)!\((?=\s*"[^"]*\{[A-Za-z_]\w*[:}])/ => \1__inline_format_argument_refused!( min=0
//@sub /\b(print(?:ln)?!)\(/ => \1(out, min=0
//@sub /\(((?:[^()]|\([^()]*\))*)\)\s*\.then\(\|\|\s*("[^"]*")\)\s*\.unwrap_or\(("[^"]*")\)/ => (if (\1) { \2 } else { \3 }) min=0
//@sub /\.then\(/ => .unknown_bool_then__refused( min=0
//@sub /((?:\w+\s*\.\s*)*\w+\(\))\s*\.map\(\|(\w+)\|\s*((?:\w+\.)*\w+)\)/ => (match \1 { Some(\2) => Some(\3), None => None }) min=0
//@sub /\.map\(\|/ => .unknown_map_closure__refused(| min=0
//@sub /((?:\w+(?:\(\))?\.)*\w+(?:\(\))?) as f64/ => as_f64(\1) min=0
//@sub /\b((?:\w+\.)*\w*_offset|first_zoom_start) - ((?:\w+\.)*\w+)\b/ => sub_u64(\1, \2) min=0
//@sub /\bnum_with_commas\(/ => bw_num_with_commas( min=0
//@ret r
//@sig
    requires
        [[L: pre_header_offsets_ordered_data_le_index_le_first_zoom_data_and_each_zoom_data_le_index]]
        bw_pre(bigwig.info, *args),
    ensures
        [[L: ok_only_if_the_summary_is_stored]]
        r is Ok ==> summary_stored_(bigwig.read.content(), bigwig.info.header),
        [[L: succeeds_when_the_summary_can_be_read]]
        bigwig.read.env_ok() && summary_stored_(bigwig.read.content(), bigwig.info.header) ==> r is Ok,
        [[L: a_get_summary_error_is_returned_before_anything_is_printed]]
        r is Err ==> final(out).lines() == old(out).lines(),
        [[L: minmax_prints_exactly_the_summarys_min_then_max_and_nothing_else]]
        r is Ok && args.minmax ==> final(out).lines() == old(out).lines().push(ln_minmax(summary_at_(bigwig.read.content(), bigwig.info.header))),
        [[L: report_is_the_header_lines_then_the_statistics_of_the_summary_get_summary_returned_in_this_order]]
        r is Ok ==> final(out).lines() == bw_report(old(out).lines(), bigwig.info, *args, summary_at_(bigwig.read.content(), bigwig.info.header)),
//@open
    let ghost l0 = out.lines();
    let ghost info0 = bigwig.info;
    let ghost st = summary_at_(bigwig.read.content(), bigwig.info.header);
    proof { float_ax::float_det(); }
//@at /println!\(out,\s*"\{:\.6\} \{:\.6\}"/ after optional
        assert(out.lines().last() == ln_minmax(st)); [[L: minmax_line_shows_min_val_then_max_val]]
//@at /println!\(out,\s*"version:/ after optional
        assert(out.lines().last() == ln_version(info0.header)); [[L: version_line_shows_header_version]]
//@at /println!\(out,\s*"isCompressed:/ after optional
        assert(out.lines().last() == ln_compressed(info0.header)); [[L: isCompressed_line_is_yes_iff_uncompress_buf_size_is_positive]]
//@at /println!\(out,\s*"isSwapped:/ after optional
        assert(out.lines().last() == ln_swapped(info0.header)); [[L: isSwapped_line_is_1_iff_the_file_is_big_endian]]
//@at /println!\(out,\s*"primaryDataSize:/ after optional
        assert(out.lines().last() == ln_data_size(info0.header)); [[L: primaryDataSize_line_shows_full_index_offset_minus_full_data_offset_with_commas]]
//@at /println!\(out,\s*"primaryIndexSize:/ after optional
        assert(info0.zoom_headers@.len() > 0 && out.lines().last() == ln_index_size(info0.header, info0.zoom_headers@[0])); [[L: primaryIndexSize_line_only_with_a_zoom_shows_first_zoom_data_offset_minus_full_index_offset_with_commas]]
//@at /println!\(out,\s*"zoomLevels:/ after optional
        assert(out.lines().last() == ln_zoom_levels(info0.zoom_headers@.len() as usize)); [[L: zoomLevels_line_shows_the_number_of_zoom_headers]]
//@at /println!\(out,\s*"chromCount:/ after optional
        assert(out.lines().last() == ln_chrom_count(info0.chrom_info@.len() as usize)); [[L: chromCount_line_shows_the_number_of_chromosomes]]
//@at /println!\(out,\s*"basesCovered:/ after optional
        assert(out.lines().last() == ln_bases(st)); [[L: basesCovered_line_shows_the_summarys_bases_covered_with_commas]]
//@at /println!\(out,\s*"mean:/ after optional
        assert(out.lines().last() == bw_ln_mean(st)); [[L: mean_line_shows_the_summarys_sum_divided_by_its_bases_covered]]
//@at /println!\(out,\s*"min:/ after optional
        assert(out.lines().last() == bw_ln_min(st)); [[L: min_line_shows_the_summarys_min_val]]
//@at /println!\(out,\s*"max:/ after optional
        assert(out.lines().last() == bw_ln_max(st)); [[L: max_line_shows_the_summarys_max_val]]
//@at /println!\(out,\s*"std:/ after optional
        assert(out.lines().last() == bw_ln_std(st)); [[L: std_line_shows_sqrt_of_sum_squares_minus_sum_times_sum_over_n_all_over_n_minus_1]]
//@loop 1
            invariant
                [[L: loop_zooms/reader_untouched]]
                bigwig.info == info0,
                [[L: loop_zooms/one_line_per_zoom_level_in_stored_order]]
                out.lines() == zoom_lines(bw_head(l0, info0), info0.zoom_headers@, iz__ as int),
            decreases
                [[L: loop_zooms/termination]]
                info0.zoom_headers@.len() - iz__,
//@loop 2
            invariant
                [[L: loop_chroms/reader_untouched]]
                bigwig.info == info0,
                [[L: loop_chroms/one_line_per_chromosome_in_stored_order]]
                out.lines() == chrom_lines(upto_chrom_count(bw_head(l0, info0), info0, args.zooms), info0.chrom_info@, ic__ as int),
            decreases
                [[L: loop_chroms/termination]]
                info0.chrom_info@.len() - ic__,
//@end

// =====================================================================================
// (A2) bigbedinfo.rs `print_info`, WHOLE
// =====================================================================================
#[verifier::loop_isolation(false)]
//@extract fn bigtools/src/utils/cli/bigbedinfo.rs print_info
//@as bb
//@rule R16
//@rule R15
//@rule R7
//@presub /(print(?:ln)?!\([^;\n]*)\n\s*/ => \1\t min=0
//@presub /(print(?:ln)?!\([^;\n]*)\n\s*/ => \1\t min=0
//@presub /(print(?:ln)?!\([^;\n]*)\n\s*/ => \1\t min=0
//@presub /(print(?:ln)?!\([^;\n]*)\n\s*/ => \1\t min=0
//@presub /(print(?:ln)?!\([^;\n]*)\n\s*/ => \1\t min=0
//@presub /(print(?:ln)?!\([^;\n]*)\n\s*/ => \1\t min=0
//@presub /(\w+)\.info\(\)/ => \1.info min=0
//@presub /\bfor (\w+) in ((?:\w+\s*\.\s*)*zoom_headers)\s*\.iter\(\)/ => for (iz__, \1) in \2.iter().enumerate() min=0
//@presub /\bfor (\w+) in ((?:\w+\s*\.\s*)*chrom_info)\s*\.iter\(\)/ => for (ic__, \1) in \2.iter().enumerate() min=0
//@sub /fn print_info<R: BBIFileRead>\(/ => fn bb_print_info( min=1
//@sub /mut bigbed: BigBedRead<R>,/ => mut bigbed: BigBedRead, min=1
//@sub /args: &BigBedInfoArgs,?\s*\)/ => args: &BigBedInfoArgs, out: &mut Out) min=1
//@sub /Box<dyn Error(?:\s*\+\s*\w+)*>/ => AnyErr min=1
//@sub /\b(print(?:ln)?)!\((?=\s*"[^"]*\{[A-Za-z_]\w*[:}])/ => \1__inline_format_argument_refused!( min=0
//@sub /\b(print(?:ln)?!)\(/ => \1(out, min=0
//@sub /\(((?:[^()]|\([^()]*\))*)\)\s*\.then\(\|\|\s*("[^"]*")\)\s*\.unwrap_or\(("[^"]*")\)/ => (if (\1) { \2 } else { \3 }) min=0
//@sub /\.then\(/ => .unknown_bool_then__refused( min=0
//@sub /((?:\w+\s*\.\s*)*\w+\(\))\s*\.map\(\|(\w+)\|\s*((?:\w+\.)*\w+)\)/ => (match \1 { Some(\2) => Some(\3), None => None }) min=0
//@sub /\.map\(\|/ => .unknown_map_closure__refused(| min=0
//@sub /((?:\w+(?:\(\))?\.)*\w+(?:\(\))?) as f64/ => as_f64(\1) min=0
//@sub /\b((?:\w+\.)*\w*_offset|first_zoom_start) - ((?:\w+\.)*\w+)\b/ => sub_u64(\1, \2) min=0
//@sub /\bnum_with_commas\(/ => bb_num_with_commas( min=0
//@ret r
//@sig
    requires
        [[L: pre_header_offsets_ordered_data_le_index_le_first_zoom_data_and_each_zoom_data_le_index]]
        bb_pre(bigbed.info, *args),
    ensures
        [[L: ok_only_if_count_summary_and_requested_autosql_are_stored]]
        r is Ok ==> summary_stored_(bigbed.read.content(), bigbed.info.header)
            && (args.autosql ==> autosql_readable_(bigbed.read.content(), bigbed.info.header)),
        [[L: succeeds_when_count_summary_and_requested_autosql_can_be_read]]
        bigbed.read.env_ok() && summary_stored_(bigbed.read.content(), bigbed.info.header)
            && (args.autosql ==> autosql_readable_(bigbed.read.content(), bigbed.info.header)) ==> r is Ok,
        [[L: report_is_the_header_lines_with_the_files_item_count_then_the_statistics_of_the_summary_get_summary_returned_in_this_order]]
        r is Ok ==> final(out).lines() == bb_report(old(out).lines(), bigbed.info, *args, autosql_at_(bigbed.read.content(), bigbed.info.header),
            summary_at_(bigbed.read.content(), bigbed.info.header)),
        // what the code does on errors (the property demands nothing; bigwiginfo prints NOTHING on an error, bigbedinfo
        // leaves a partial report on stdout: NOTES.md, observation 2)
        [[L: doc/an_item_count_error_comes_after_four_lines_were_printed]]
        !count_stored_(bigbed.read.content(), bigbed.info.header) ==> r is Err && final(out).lines() == bb_head4(old(out).lines(), bigbed.info.header),
        [[L: doc/a_get_summary_error_comes_after_all_header_lines_were_printed]]
        bigbed.read.env_ok() && count_stored_(bigbed.read.content(), bigbed.info.header) && !total_summary_stored_(bigbed.read.content(), bigbed.info.header)
            && (args.autosql ==> autosql_readable_(bigbed.read.content(), bigbed.info.header))
            ==> r is Err && final(out).lines() == bb_before_stats(old(out).lines(), bigbed.info, *args, autosql_at_(bigbed.read.content(), bigbed.info.header),
                summary_at_(bigbed.read.content(), bigbed.info.header).total_items),
//@open
    let ghost l0 = out.lines();
    let ghost info0 = bigbed.info;
    let ghost c0 = bigbed.read.content();
    let ghost st = summary_at_(bigbed.read.content(), bigbed.info.header);
    let ghost asql0 = autosql_at_(bigbed.read.content(), bigbed.info.header);
    proof { float_ax::float_det(); }
//@at /println!\(out,\s*"fieldCount:/ after optional
        assert(out.lines().last() == ln_field_count(info0.header)); [[L: fieldCount_line_shows_header_field_count]]
//@at /println!\(out,\s*"itemCount:/ after optional
        assert(out.lines().last() == ln_item_count(st.total_items)); [[L: itemCount_line_shows_the_files_item_count]]
//@at /println!\(out,\s*"version:/ after optional
        assert(out.lines().last() == ln_version(info0.header)); [[L: version_line_shows_header_version]]
//@at /println!\(out,\s*"isCompressed:/ after optional
        assert(out.lines().last() == ln_compressed(info0.header)); [[L: isCompressed_line_is_yes_iff_uncompress_buf_size_is_positive]]
//@at /println!\(out,\s*"isSwapped:/ after optional
        assert(out.lines().last() == ln_swapped(info0.header)); [[L: isSwapped_line_is_1_iff_the_file_is_big_endian]]
//@at /println!\(out,\s*"primaryDataSize:/ after optional
        assert(out.lines().last() == ln_data_size(info0.header)); [[L: primaryDataSize_line_shows_full_index_offset_minus_full_data_offset_with_commas]]
//@at /println!\(out,\s*"primaryIndexSize:/ after optional
        assert(info0.zoom_headers@.len() > 0 && out.lines().last() == ln_index_size(info0.header, info0.zoom_headers@[0])); [[L: primaryIndexSize_line_only_with_a_zoom_shows_first_zoom_data_offset_minus_full_index_offset_with_commas]]
//@at /println!\(out,\s*"zoomLevels:/ after optional
        assert(out.lines().last() == ln_zoom_levels(info0.zoom_headers@.len() as usize)); [[L: zoomLevels_line_shows_the_number_of_zoom_headers]]
//@at /println!\(out,\s*"chromCount:/ after optional
        assert(out.lines().last() == ln_chrom_count(info0.chrom_info@.len() as usize)); [[L: chromCount_line_shows_the_number_of_chromosomes]]
//@at /println!\(out,\s*"basesCovered:/ after optional
        assert(out.lines().last() == ln_bases(st)); [[L: basesCovered_line_shows_the_summarys_bases_covered_with_commas]]
//@at /println!\(out,\s*"meanDepth:/ after optional
        assert(out.lines().last() == bb_ln_mean(st)); [[L: mean_line_shows_the_summarys_sum_divided_by_its_bases_covered]]
//@at /println!\(out,\s*"minDepth:/ after optional
        assert(out.lines().last() == bb_ln_min(st)); [[L: min_line_shows_the_summarys_min_val]]
//@at /println!\(out,\s*"maxDepth:/ after optional
        assert(out.lines().last() == bb_ln_max(st)); [[L: max_line_shows_the_summarys_max_val]]
//@at /println!\(out,\s*"std of depth:/ after optional
        assert(out.lines().last() == bb_ln_std(st)); [[L: std_line_shows_sqrt_of_sum_squares_minus_sum_times_sum_over_n_all_over_n_minus_1]]
//@at /println!\(out,\s*"\{:\?\}"/ after optional
        assert(out.lines().last() == ln_debug(info0.header)); [[L: debug_line_shows_the_header]]
//@loop 1
            invariant
                [[L: loop_zooms/reader_untouched]]
                bigbed.info == info0, bigbed.read.content() == c0,
                [[L: loop_zooms/one_line_per_zoom_level_in_stored_order]]
                out.lines() == zoom_lines(bb_head(l0, info0, st.total_items), info0.zoom_headers@, iz__ as int),
            decreases
                [[L: loop_zooms/termination]]
                info0.zoom_headers@.len() - iz__,
//@loop 2
            invariant
                [[L: loop_chroms/reader_untouched]]
                bigbed.info == info0, bigbed.read.content() == c0,
                [[L: loop_chroms/one_line_per_chromosome_in_stored_order]]
                out.lines() == chrom_lines(upto_chrom_count(bb_head(l0, info0, st.total_items), info0, args.zooms), info0.chrom_info@, ic__ as int),
            decreases
                [[L: loop_chroms/termination]]
                info0.chrom_info@.len() - ic__,
//@end

// =====================================================================================
// (A3) the tool functions `bigwiginfo` / `bigbedinfo`, WHOLE (the nested `print_info` = the functions above,
//      replaced by a logging shim that REQUIRES their preconditions)
// =====================================================================================
/// conditional compilation `#[cfg(feature = "remote")] { A }` is read as `if BUILD { A }` over an unknown build
/// constant (default features: remote ON) -- as unit cli_dispatch
pub uninterp spec fn feature_remote() -> bool;
#[verifier::external_body]
pub fn cfg_feature_remote() -> (r: bool) ensures r == feature_remote(), { unimplemented!() }
/// `RemoteFile::new(url)` (feature `remote`): nothing is fetched yet
#[verifier::external_body] pub struct RemoteFile { _p: u8 }
impl RemoteFile {
    pub uninterp spec fn url(&self) -> Seq<char>;
    #[verifier::external_body] pub fn new(url: &Str) -> (r: RemoteFile) ensures r.url() == url@, { unimplemented!() }
}
/// `X::open_file(p)` / `X::open(remote)` succeeds: the source can be opened and holds a header of that file type
pub uninterp spec fn opens_as_bigwig(s: Source) -> bool;
pub uninterp spec fn opens_as_bigbed(s: Source) -> bool;
/// the header `read_info` decodes from that source (units info, hdr_info, chrom_rd)
pub uninterp spec fn file_info(s: Source) -> BBIFileInfo;
pub ghost enum FsEv { OpenBigWig(Source), OpenBigBed(Source) }
pub ghost struct BwCall { pub src: Source, pub info: BBIFileInfo, pub args: BigWigInfoArgs, pub ok: bool }
pub ghost struct BbCall { pub src: Source, pub info: BBIFileInfo, pub args: BigBedInfoArgs, pub ok: bool }
/// the environment of the tool function: which sources it opened, which `print_info` calls it made (in order)
#[verifier::external_body] pub struct Env { _p: u8 }
impl Env {
    pub uninterp spec fn fs(&self) -> Seq<FsEv>;
    pub uninterp spec fn bw_calls(&self) -> Seq<BwCall>;
    pub uninterp spec fn bb_calls(&self) -> Seq<BbCall>;
    /// `BigWigRead::open_file(path)`
    #[verifier::external_body]
    pub fn open_bigwig_file(&mut self, p: &Str) -> (r: Result<BigWigRead, OpenErr>)
        ensures final(self).bw_calls() == old(self).bw_calls(), final(self).bb_calls() == old(self).bb_calls(),
            final(self).fs() == old(self).fs().push(FsEv::OpenBigWig(Source { name: p@, remote: false })),
            r is Ok <==> opens_as_bigwig(Source { name: p@, remote: false }),
            r matches Ok(b) ==> b.read.src() == (Source { name: p@, remote: false }) && b.info == file_info(b.read.src()),
    { unimplemented!() }
    /// `BigWigRead::open(RemoteFile)`
    #[verifier::external_body]
    pub fn open_bigwig(&mut self, f: RemoteFile) -> (r: Result<BigWigRead, OpenErr>)
        ensures final(self).bw_calls() == old(self).bw_calls(), final(self).bb_calls() == old(self).bb_calls(),
            final(self).fs() == old(self).fs().push(FsEv::OpenBigWig(Source { name: f.url(), remote: true })),
            r is Ok <==> opens_as_bigwig(Source { name: f.url(), remote: true }),
            r matches Ok(b) ==> b.read.src() == (Source { name: f.url(), remote: true }) && b.info == file_info(b.read.src()),
    { unimplemented!() }
    /// `BigBedRead::open_file(path)`
    #[verifier::external_body]
    pub fn open_bigbed_file(&mut self, p: &Str) -> (r: Result<BigBedRead, OpenErr>)
        ensures final(self).bw_calls() == old(self).bw_calls(), final(self).bb_calls() == old(self).bb_calls(),
            final(self).fs() == old(self).fs().push(FsEv::OpenBigBed(Source { name: p@, remote: false })),
            r is Ok <==> opens_as_bigbed(Source { name: p@, remote: false }),
            r matches Ok(b) ==> b.read.src() == (Source { name: p@, remote: false }) && b.info == file_info(b.read.src()),
    { unimplemented!() }
    /// `BigBedRead::open(RemoteFile)`
    #[verifier::external_body]
    pub fn open_bigbed(&mut self, f: RemoteFile) -> (r: Result<BigBedRead, OpenErr>)
        ensures final(self).bw_calls() == old(self).bw_calls(), final(self).bb_calls() == old(self).bb_calls(),
            final(self).fs() == old(self).fs().push(FsEv::OpenBigBed(Source { name: f.url(), remote: true })),
            r is Ok <==> opens_as_bigbed(Source { name: f.url(), remote: true }),
            r matches Ok(b) ==> b.read.src() == (Source { name: f.url(), remote: true }) && b.info == file_info(b.read.src()),
    { unimplemented!() }
}
/// bigwiginfo's nested `print_info` = `bw_print_info` above (labels `bw/*`); its precondition is required here
#[verifier::external_body]
pub fn bw_print_info_logged(env: &mut Env, bigwig: BigWigRead, args: &BigWigInfoArgs) -> (r: Result<(), AnyErr>)
    requires
        [[L: glue/bw_print_info_pre_header_offsets_ordered]]
        bw_pre(bigwig.info, *args),
    ensures final(env).fs() == old(env).fs(), final(env).bb_calls() == old(env).bb_calls(),
        final(env).bw_calls() == old(env).bw_calls().push(BwCall { src: bigwig.read.src(), info: bigwig.info, args: *args, ok: r is Ok }),
{ unimplemented!() }
/// bigbedinfo's nested `print_info` = `bb_print_info` above (labels `bb/*`)
#[verifier::external_body]
pub fn bb_print_info_logged(env: &mut Env, bigbed: BigBedRead, args: &BigBedInfoArgs) -> (r: Result<(), AnyErr>)
    requires
        [[L: glue/bb_print_info_pre_header_offsets_ordered]]
        bb_pre(bigbed.info, *args),
    ensures final(env).fs() == old(env).fs(), final(env).bw_calls() == old(env).bw_calls(),
        final(env).bb_calls() == old(env).bb_calls().push(BbCall { src: bigbed.read.src(), info: bigbed.info, args: *args, ok: r is Ok }),
{ unimplemented!() }
/// the source the tool reads: the argument, fetched as URL when the build has `remote` and it starts with "http"
pub open spec fn the_source(name: Seq<char>) -> Source { Source { name, remote: feature_remote() && has_prefix(name, "http"@) } }

//@extract fn bigtools/src/utils/cli/bigwiginfo.rs bigwiginfo
//@as bigwiginfo
//@rule R16
//@rule R15
//@presub /fn print_info\b.*?Ok\(\(\)\)\s*\}\s*(?=#\[cfg|let \w+ = Big)/ => "" min=1 count=1
//@presub /#\[cfg\(feature = "remote"\)\]\s*\{/ => if cfg_feature_remote() { min=0
//@sub /[ \t]*use crate::utils::remote_file::RemoteFile;\n/ => "" min=0
//@sub /Box<dyn Error(?:\s*\+\s*\w+)*>/ => AnyErr min=1
//@sub /args: BigWigInfoArgs,?\s*\)/ => args: BigWigInfoArgs, env: &mut Env) min=1
//@sub /\bBigWigRead::open_file\(/ => env.open_bigwig_file( min=0
//@sub /\bBigWigRead::open\(/ => env.open_bigwig( min=0
//@sub /\bprint_info\(/ => bw_print_info_logged(env, min=1
//@ret r
//@sig
    requires
        [[L: pre_the_named_files_header_offsets_are_ordered]]
        bw_pre(file_info(the_source(args.bigwig@)), args),
    ensures
        [[L: opens_exactly_the_source_named_by_the_argument_and_nothing_else]]
        final(env).fs() == old(env).fs().push(FsEv::OpenBigWig(the_source(args.bigwig@))),
        [[L: open_error_is_returned_print_info_is_not_called]]
        !opens_as_bigwig(the_source(args.bigwig@)) ==> r is Err && final(env).bw_calls() == old(env).bw_calls(),
        [[L: print_info_is_called_exactly_once_on_the_opened_reader_with_the_users_arguments]]
        opens_as_bigwig(the_source(args.bigwig@)) ==> final(env).bw_calls().len() == old(env).bw_calls().len() + 1
            && final(env).bw_calls().drop_last() =~= old(env).bw_calls()
            && final(env).bw_calls().last().src == the_source(args.bigwig@) && final(env).bw_calls().last().info == file_info(the_source(args.bigwig@))
            && final(env).bw_calls().last().args == args,
        [[L: result_is_print_infos_result]]
        opens_as_bigwig(the_source(args.bigwig@)) ==> (r is Ok <==> final(env).bw_calls().last().ok),
        [[L: the_other_tools_print_info_is_not_called]]
        final(env).bb_calls() == old(env).bb_calls(),
//@end

//@extract fn bigtools/src/utils/cli/bigbedinfo.rs bigbedinfo
//@as bigbedinfo
//@rule R16
//@rule R15
//@presub /fn print_info\b.*?Ok\(\(\)\)\s*\}\s*(?=#\[cfg|let \w+ = Big)/ => "" min=1 count=1
//@presub /#\[cfg\(feature = "remote"\)\]\s*\{/ => if cfg_feature_remote() { min=0
//@sub /[ \t]*use crate::utils::remote_file::RemoteFile;\n/ => "" min=0
//@sub /Box<dyn Error(?:\s*\+\s*\w+)*>/ => AnyErr min=1
//@sub /args: BigBedInfoArgs,?\s*\)/ => args: BigBedInfoArgs, env: &mut Env) min=1
//@sub /\bBigBedRead::open_file\(/ => env.open_bigbed_file( min=0
//@sub /\bBigBedRead::open\(/ => env.open_bigbed( min=0
//@sub /\bprint_info\(/ => bb_print_info_logged(env, min=1
//@ret r
//@sig
    requires
        [[L: pre_the_named_files_header_offsets_are_ordered]]
        bb_pre(file_info(the_source(args.bigbed@)), args),
    ensures
        [[L: opens_exactly_the_source_named_by_the_argument_and_nothing_else]]
        final(env).fs() == old(env).fs().push(FsEv::OpenBigBed(the_source(args.bigbed@))),
        [[L: open_error_is_returned_print_info_is_not_called]]
        !opens_as_bigbed(the_source(args.bigbed@)) ==> r is Err && final(env).bb_calls() == old(env).bb_calls(),
        [[L: print_info_is_called_exactly_once_on_the_opened_reader_with_the_users_arguments]]
        opens_as_bigbed(the_source(args.bigbed@)) ==> final(env).bb_calls().len() == old(env).bb_calls().len() + 1
            && final(env).bb_calls().drop_last() =~= old(env).bb_calls()
            && final(env).bb_calls().last().src == the_source(args.bigbed@) && final(env).bb_calls().last().info == file_info(the_source(args.bigbed@))
            && final(env).bb_calls().last().args == args,
        [[L: result_is_print_infos_result]]
        opens_as_bigbed(the_source(args.bigbed@)) ==> (r is Ok <==> final(env).bb_calls().last().ok),
        [[L: the_other_tools_print_info_is_not_called]]
        final(env).bw_calls() == old(env).bw_calls(),
//@end

} // verus!
fn main() {}
