#!/bin/bash
# seedconfirm.sh <seed_out_dir> <name>: confirm a seeded change in a scratch worktree of /repo HEAD
# (applies; whole suite passes with it; demo fails with it; demo passes without it) and, if confirmed,
# store it as /verif/seeded/<name>/ {patch.diff, demo_test.rs, meta.json}.
set -u
SEED="$1"; NAME="$2"
WT=/tmp/seedconf
LOG=/tmp/seedconf-$NAME.log
: > "$LOG"
if [ ! -d "$WT" ]; then git -C /repo worktree add --detach "$WT" HEAD >>"$LOG" 2>&1 || exit 3; fi
cd "$WT" && git checkout -q --detach "$(git -C /repo rev-parse HEAD)" >>"$LOG" 2>&1 && git checkout -q -- . && git clean -fdq bigtools/tests
export CARGO_NET_OFFLINE=true
if ! git apply --check "$SEED/patch.diff" >>"$LOG" 2>&1; then echo "$NAME: PATCH-DOES-NOT-APPLY"; exit 3; fi
git apply "$SEED/patch.diff"
( timeout 1500 cargo test --workspace --no-fail-fast --offline 2>&1 ) > /tmp/seedconf-suite.txt; SUITE_RC=$?
SUITE_FAIL=$(grep -c "^test result: FAILED\|^error" /tmp/seedconf-suite.txt)
cp "$SEED/demo_test.rs" bigtools/tests/demo_test.rs
( timeout 900 cargo test --offline -p bigtools --test demo_test 2>&1 ) > /tmp/seedconf-with.txt; WITH_RC=$?
git apply -R "$SEED/patch.diff"
( timeout 900 cargo test --offline -p bigtools --test demo_test 2>&1 ) > /tmp/seedconf-without.txt; WITHOUT_RC=$?
rm -f bigtools/tests/demo_test.rs; git checkout -q -- .
echo "$NAME: suite_rc=$SUITE_RC suite_fail_lines=$SUITE_FAIL demo_with_patch_rc=$WITH_RC demo_without_patch_rc=$WITHOUT_RC" | tee -a "$LOG"
if [ "$SUITE_RC" = 0 ] && [ "$SUITE_FAIL" = 0 ] && [ "$WITH_RC" != 0 ] && [ "$WITHOUT_RC" = 0 ]; then
  mkdir -p /verif/seeded/$NAME
  cp "$SEED/patch.diff" "$SEED/demo_test.rs" /verif/seeded/$NAME/
  python3 - "$SEED" "$NAME" <<'PY'
import json,sys,subprocess
seed,name=sys.argv[1],sys.argv[2]
m=json.load(open(seed+'/meta.json'))
out={"property":m.get("property"),"what":m.get("what"),"needs":m.get("needs"),"files":m.get("files"),
 "author_ran":m.get("ran"),
 "confirmed":{"repo_head":subprocess.check_output(['git','-C','/repo','rev-parse','--short','HEAD']).decode().strip(),
   "ran":["git apply patch.diff in a scratch worktree of /repo HEAD; cargo test --workspace --no-fail-fast --offline -> exit 0, no FAILED",
          "cp demo_test.rs bigtools/tests/; cargo test --offline -p bigtools --test demo_test -> non-zero (fails with the change)",
          "git apply -R patch.diff; same demo -> exit 0 (passes without the change)"],
   "demo_with_patch_tail":open('/tmp/seedconf-with.txt').read()[-1500:],
   "suite_summary":[l for l in open('/tmp/seedconf-suite.txt').read().split('\n') if l.startswith('test result')]}}
json.dump(out,open('/verif/seeded/%s/meta.json'%name,'w'),indent=1)
PY
  echo "$NAME: CONFIRMED"
else
  echo "$NAME: NOT-CONFIRMED"
fi
