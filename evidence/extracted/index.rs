// bed::indexer::index_chroms: nested fns `do_index` (recursive bisection + line-by-line scan of a short
// interval) and `parse_line` (assumed), and the prologue of `index_chroms`.  Property (C18, first
// clause): "Indexing a chromosome-grouped BED or bedGraph file yields exactly the byte offset of the
// first line of each chromosome run, or reports that the file is not grouped."
// Proved here for the list that do_index builds (the dedup/sort epilogue is outside the Verus subset):
//  SAFETY       every recorded (offset, chrom) names the line that starts at that offset (this needs the
//               `line.clear()` before every parsed `read_line`); offsets strictly increase;
//  COMPLETENESS for a grouped file every run start is recorded;
//  NO PANIC     every `.unwrap()` is on a live handle / non-empty line; the depth-limit `panic!` is
//               unreachable for files under 2^49 bytes (potential argument, lemma_depth_bound);
//  TERMINATION  of the recursion (`limit`) and of the scan loop.
// NOT proved: that an ungrouped file is reported (it is not: see NOTES.md), anything about the epilogue.
use vstd::prelude::*;
use vstd::std_specs::cmp::PartialEqSpecImpl;
verus! {

// ---------------- file vocabulary (same definitions as unit `chunks`) ----------------
/// the file is a byte sequence `c`; a line ends with b'\n' (10) or at EOF.
/// position of the first byte after the line that contains byte p (0 <= p < |c|): this is
/// what `BufRead::read_line` consumes up to when started at p.
pub open spec fn nls(c: Seq<u8>, p: int) -> int
    decreases c.len() - p
{
    if p < 0 || p >= c.len() { c.len() as int }
    else if c[p] == 10u8 { p + 1 }
    else { nls(c, p + 1) }
}
/// p is the offset of the first byte of a line
pub open spec fn is_line_start(c: Seq<u8>, p: int) -> bool {
    p == 0 || (0 < p <= c.len() && c[p - 1] == 10u8)
}
/// a line start or EOF (EOF is not a line start when the last line has no '\n')
pub open spec fn is_cut(c: Seq<u8>, p: int) -> bool {
    is_line_start(c, p) || p == c.len()
}
/// where the reader is after one `read_line` started at t
pub open spec fn cut_after(c: Seq<u8>, t: int) -> int { if 0 <= t < c.len() { nls(c, t) } else { t } }
/// the bytes `read_line` appends when started at p (the rest of the line containing p, with its '\n')
pub open spec fn line_at(c: Seq<u8>, p: int) -> Seq<u8> {
    if 0 <= p < c.len() { c.subrange(p, nls(c, p)) } else { Seq::<u8>::empty() }
}
/// first TAB-separated field of a line (what `parse_line` returns as the chromosome name); string
/// splitting is outside Verus, so this is uninterpreted: the contracts pin WHICH line is parsed.
pub uninterp spec fn first_field(line: Seq<u8>) -> Seq<u8>;
/// the chromosome named by the line that starts at offset p
pub open spec fn chrom_at(c: Seq<u8>, p: int) -> Seq<u8> { first_field(line_at(c, p)) }

proof fn lemma_nls(c: Seq<u8>, p: int)
    requires 0 <= p < c.len(),
    ensures
        p < nls(c, p) <= c.len(),
        is_cut(c, nls(c, p)),
        // it is the *next* cut: no line start strictly between p and nls(c, p)
        forall|q: int| p < q < nls(c, p) ==> !is_line_start(c, q),
    decreases c.len() - p,
{
    if c[p] == 10u8 {
        assert(nls(c, p) == p + 1);
    } else if p + 1 < c.len() {
        lemma_nls(c, p + 1);
        assert(nls(c, p) == nls(c, p + 1));
    } else {
        assert(nls(c, p + 1) == c.len());
        assert(nls(c, p) == c.len());
    }
}
/// a cut b behind p is not jumped over by the read that starts at p
proof fn lemma_nls_le_cut(c: Seq<u8>, p: int, b: int)
    requires 0 <= p < b <= c.len(), is_cut(c, b),
    ensures nls(c, p) <= b,
{
    lemma_nls(c, p);
}

// ---------------- shims (assumed; listed in NOTES.md) ----------------
#[verifier::external_body]
pub struct IoError { _p: u8 }

#[verifier::external_body]
pub fn vpanic() -> !
    requires false
{ panic!() }

/// `std::io::SeekFrom`
pub enum SeekFrom { Start(u64), End(i64), Current(i64) }

/// `String` used as a chromosome name: an opaque value with a byte content; `==`/`!=` is equality of
/// the bytes (true of `String`).
#[verifier::external_body]
pub struct Name { _p: Vec<u8> }
impl Name {
    pub uninterp spec fn bytes(&self) -> Seq<u8>;
}
impl PartialEqSpecImpl for Name {
    open spec fn obeys_eq_spec() -> bool { true }
    open spec fn eq_spec(&self, o: &Name) -> bool { self.bytes() == o.bytes() }
}
impl PartialEq for Name {
    #[verifier::external_body]
    fn eq(&self, o: &Name) -> (r: bool)
    { unimplemented!() }
}

/// `String` used as the line buffer that `read_line` APPENDS to.
#[verifier::external_body]
pub struct LineBuf { _p: Vec<u8> }
impl LineBuf {
    pub uninterp spec fn text(&self) -> Seq<u8>;
    /// `String::new()`
    #[verifier::external_body]
    pub fn new() -> (r: LineBuf)
        ensures r.text().len() == 0,
    { unimplemented!() }
    /// `String::clear`
    #[verifier::external_body]
    pub fn clear(&mut self)
        ensures final(self).text().len() == 0,
    { unimplemented!() }
    /// `String::is_empty`
    #[verifier::external_body]
    pub fn is_empty(&self) -> (r: bool)
        ensures r == (self.text().len() == 0),
    { unimplemented!() }
}

/// R11 shim for `io::BufReader<std::fs::File>`: a fixed byte sequence and a cursor
/// (same model as unit `chunks`; BufReader buffering is transparent).
#[verifier::external_body]
pub struct VLines { _p: u8 }
impl VLines {
    /// file content (assumed not to change during the call)
    pub uninterp spec fn content(&self) -> Seq<u8>;
    /// logical read position; may exceed the size after a seek
    pub uninterp spec fn pos(&self) -> int;

    /// `Seek::seek`: any target at or after 0 is allowed (also beyond EOF); may fail
    #[verifier::external_body]
    pub fn seek(&mut self, s: SeekFrom) -> (r: Result<u64, IoError>)
        ensures
            final(self).content() == old(self).content(),
            r is Ok ==> r->Ok_0 as int == final(self).pos(),
            r is Ok ==> final(self).pos() == (match s {
                SeekFrom::Start(x) => x as int,
                SeekFrom::End(d) => old(self).content().len() + d,
                SeekFrom::Current(d) => old(self).pos() + d,
            }),
    { unimplemented!() }

    /// `BufRead::read_line(&mut String)`: APPENDS the bytes from the position through the next b'\n'
    /// (or to EOF) to `buf`; at or after EOF it appends nothing and the position stays.  Returns the
    /// number of bytes read.  May fail (I/O error, invalid UTF-8) -- nothing is promised about `buf` then.
    #[verifier::external_body]
    pub fn read_line(&mut self, buf: &mut LineBuf) -> (r: Result<usize, IoError>)
        ensures
            final(self).content() == old(self).content(),
            r is Ok ==> final(self).pos() == cut_after(old(self).content(), old(self).pos()),
            r is Ok ==> final(buf).text() == old(buf).text() + line_at(old(self).content(), old(self).pos()),
            r is Ok ==> r->Ok_0 as int == final(self).pos() - old(self).pos(),
    { unimplemented!() }

    /// `Tell::tell` = `seek(SeekFrom::Current(0))`: reports the logical position
    #[verifier::external_body]
    pub fn tell(&mut self) -> (r: Result<u64, IoError>)
        ensures
            final(self).content() == old(self).content(),
            final(self).pos() == old(self).pos(),
            r is Ok ==> r->Ok_0 as int == old(self).pos(),
    { unimplemented!() }
}

/// `BufReader::new(file)`
#[verifier::external_body]
pub fn buf_reader_new(f: VLines) -> (r: VLines)
    ensures r.content() == f.content(), r.pos() == f.pos(),
{ unimplemented!() }

// ---- `index_list::IndexList<(u64, String)>` / `index_list::ListIndex` --------------------------
// Same handle semantics as _shared/vlist.rs (which is typed for `Value`): the list is viewed as a
// Seq in list order; a handle is not a position: `has(i)` says that handle `i` names a live element
// of *this* list state and `pos(i)` at which position.  Insertions never invalidate handles
// (elements live in slots of a Vec; a handle is the slot number).
pub type Entry = (u64, Name);
#[verifier::external_body]
pub struct CList { _p: u8 }
#[verifier::external_body]
#[derive(Copy, Clone)]
pub struct CIndex { _p: usize }
impl CList {
    pub uninterp spec fn view(&self) -> Seq<Entry>;
    pub uninterp spec fn has(&self, i: CIndex) -> bool;
    pub uninterp spec fn pos(&self, i: CIndex) -> int;

    #[verifier::external_body]
    pub fn new() -> (r: CList)
        ensures r@.len() == 0, forall|j: CIndex| !r.has(j),
    { unimplemented!() }

    /// `get(index)`: `None` for a handle that names no live element (so `.unwrap()` demands `has`)
    #[verifier::external_body]
    pub fn get(&self, i: CIndex) -> (r: Option<&Entry>)
        ensures
            r.is_some() == self.has(i),
            self.has(i) ==> 0 <= self.pos(i) < self@.len(),
            r.is_some() ==> *r.unwrap() == self@[self.pos(i)],
    { unimplemented!() }

    #[verifier::external_body]
    pub fn insert_first(&mut self, v: Entry) -> (r: CIndex)
        ensures
            final(self)@ == seq![v] + old(self)@,
            final(self).has(r) && final(self).pos(r) == 0,
            forall|j: CIndex| #![trigger final(self).has(j)] #![trigger final(self).pos(j)]
                old(self).has(j) ==> final(self).has(j) && final(self).pos(j) == old(self).pos(j) + 1,
    { unimplemented!() }

    /// puts v right behind i; every live handle stays live, handles behind i move by one
    #[verifier::external_body]
    pub fn insert_after(&mut self, i: CIndex, v: Entry) -> (r: CIndex)
        requires
            old(self).has(i),
        ensures
            0 <= old(self).pos(i) < old(self)@.len(),
            final(self)@ == old(self)@.insert(old(self).pos(i) + 1, v),
            final(self).has(r) && final(self).pos(r) == old(self).pos(i) + 1,
            forall|j: CIndex| #![trigger final(self).has(j)] #![trigger final(self).pos(j)]
                old(self).has(j) ==> final(self).has(j) && final(self).pos(j) == (if old(self).pos(j) <= old(self).pos(i) { old(self).pos(j) } else { old(self).pos(j) + 1 }),
    { unimplemented!() }
}

// ---------------- the epilogue of `index_chroms` (real text, carved out below as `finish_index`) ----------------
pub open spec fn nm(e: Entry) -> Seq<u8> { e.1.bytes() }
/// two neighbours carry the same chromosome name
pub open spec fn adj_dup(s: Seq<Entry>) -> bool { exists|i: int| 0 <= i < s.len() - 1 && nm(#[trigger] s[i]) == nm(s[i + 1]) }
/// some chromosome name occurs at two different places
pub open spec fn any_dup(s: Seq<Entry>) -> bool { exists|i: int, j: int| 0 <= i < j < s.len() && nm(#[trigger] s[i]) == nm(#[trigger] s[j]) }
/// equal names sit next to each other (what sorting by name achieves)
pub open spec fn contiguous_names(s: Seq<Entry>) -> bool {
    forall|i: int, j: int, k: int| 0 <= i <= k <= j < s.len() && nm(#[trigger] s[i]) == nm(#[trigger] s[j]) ==> nm(#[trigger] s[k]) == nm(s[i])
}
/// `Vec::dedup_by_key(|e| e.1.clone())`: of every run of neighbours with the same name the first survives
pub open spec fn dedup_runs(s: Seq<Entry>) -> Seq<Entry>
    decreases s.len()
{
    if s.len() <= 1 { s }
    else if nm(s[s.len() - 2]) == nm(s.last()) { dedup_runs(s.drop_last()) }
    else { dedup_runs(s.drop_last()).push(s.last()) }
}
pub proof fn lemma_dedup_runs(s: Seq<Entry>)
    ensures
        dedup_runs(s).len() <= s.len(),
        s.len() > 0 ==> dedup_runs(s).len() > 0 && dedup_runs(s).last() == s.last() || (s.len() > 0 && dedup_runs(s).len() > 0 && nm(dedup_runs(s).last()) == nm(s.last())),
        (dedup_runs(s).len() == s.len()) <==> !adj_dup(s),
        !adj_dup(s) ==> dedup_runs(s) == s,
    decreases s.len()
{
    if s.len() > 1 {
        let t = s.drop_last();
        lemma_dedup_runs(t);
        if nm(s[s.len() - 2]) == nm(s.last()) {
            assert(nm(#[trigger] s[s.len() - 2]) == nm(s[s.len() - 2 + 1]));
            assert(adj_dup(s));
        } else {
            if adj_dup(s) {
                let i = choose|i: int| 0 <= i < s.len() - 1 && nm(#[trigger] s[i]) == nm(s[i + 1]);
                assert(i < s.len() - 2);
                assert(nm(#[trigger] t[i]) == nm(t[i + 1]));
                assert(adj_dup(t));
            }
            if adj_dup(t) {
                let i = choose|i: int| 0 <= i < t.len() - 1 && nm(#[trigger] t[i]) == nm(t[i + 1]);
                assert(nm(#[trigger] s[i]) == nm(s[i + 1]));
                assert(adj_dup(s));
            }
            if !adj_dup(s) { assert(dedup_runs(t) == t); assert(t.push(s.last()) =~= s); }
        }
    }
}
/// in a list whose equal names are contiguous, a repeated name shows up as two equal neighbours
pub proof fn lemma_contiguous_dup(s: Seq<Entry>)
    requires contiguous_names(s),
    ensures any_dup(s) <==> adj_dup(s),
{
    if any_dup(s) {
        let (i, j) = choose|i: int, j: int| 0 <= i < j < s.len() && nm(#[trigger] s[i]) == nm(#[trigger] s[j]);
        assert(nm(#[trigger] s[i + 1]) == nm(s[i]));
        assert(nm(#[trigger] s[i]) == nm(s[i + 1]));
        assert(adj_dup(s));
    }
    if adj_dup(s) {
        let i = choose|i: int| 0 <= i < s.len() - 1 && nm(#[trigger] s[i]) == nm(s[i + 1]);
        assert(nm(#[trigger] s[i]) == nm(#[trigger] s[i + 1]));
        assert(any_dup(s));
    }
}
/// repeated names are a matter of the names only
pub proof fn lemma_same_names_same_dups(a: Seq<Entry>, b: Seq<Entry>)
    requires a.len() == b.len(), forall|i: int| 0 <= i < a.len() ==> nm(#[trigger] a[i]) == nm(b[i]),
    ensures any_dup(a) == any_dup(b),
{
    if any_dup(a) {
        let (i, j) = choose|i: int, j: int| 0 <= i < j < a.len() && nm(#[trigger] a[i]) == nm(#[trigger] a[j]);
        assert(nm(#[trigger] b[i]) == nm(#[trigger] b[j]));
    }
    if any_dup(b) {
        let (i, j) = choose|i: int, j: int| 0 <= i < j < b.len() && nm(#[trigger] b[i]) == nm(#[trigger] b[j]);
        assert(nm(#[trigger] a[i]) == nm(#[trigger] a[j]));
    }
}
/// `chroms.drain_iter().collect()` (IndexList -> Vec, list order)
#[verifier::external_body]
pub fn drain_collect(chroms: CList) -> (r: Vec<Entry>) ensures r@ == chroms@ { unimplemented!() }
/// `Vec::clone` of the entry list
#[verifier::external_body]
pub fn clone_entries(v: &Vec<Entry>) -> (r: Vec<Entry>)
    ensures r@.len() == v@.len(), forall|i: int| 0 <= i < v@.len() ==> (#[trigger] r@[i]).0 == v@[i].0 && nm(r@[i]) == nm(v@[i])
{ unimplemented!() }
/// `v.dedup_by_key(|index| index.1.clone())` (ASSUMED std contract)
#[verifier::external_body]
pub fn dedup_by_name(v: &mut Vec<Entry>) ensures final(v)@ == dedup_runs(old(v)@) { unimplemented!() }
/// `v.sort_by(|a, b| a.1.cmp(&b.1))` (ASSUMED std contract: a permutation ordered by the total order on names; the
/// two consequences the proof needs are stated directly: equal names become contiguous, and a permutation neither
/// creates nor removes repeated names)
#[verifier::external_body]
pub fn sort_by_name(v: &mut Vec<Entry>)
    ensures final(v)@.len() == old(v)@.len(), contiguous_names(final(v)@), any_dup(final(v)@) == any_dup(old(v)@)
{ unimplemented!() }
/// `v.sort()` on (offset, name) pairs (ASSUMED: ordered by offset first; a list whose offsets already increase
/// strictly is left as it is).  Not used by the code today: present so that an edit using it is judged.
#[verifier::external_body]
pub fn sort_entries(v: &mut Vec<Entry>)
    ensures final(v)@.len() == old(v)@.len(), offsets_sorted(old(v)@) ==> final(v)@ == old(v)@
{ unimplemented!() }
/// any other ordering (`sort_by_key`, `sort_unstable_by`, ..): a permutation about which nothing else is known
#[verifier::external_body]
pub fn sort_somehow(v: &mut Vec<Entry>) ensures final(v)@.len() == old(v)@.len() { unimplemented!() }
/// `io::Error::new(io::ErrorKind::InvalidData, "Empty file".to_string())`
#[verifier::external_body]
pub fn err_empty_file() -> (r: IoError)
{ unimplemented!() }

// ---------------- safety vocabulary (written from the property) ----------------
/// a recorded entry names the line that starts at its offset
pub open spec fn entry_ok(c: Seq<u8>, e: Entry) -> bool {
    &&& 0 <= e.0 < c.len()
    &&& is_line_start(c, e.0 as int)
    &&& e.1.bytes() == chrom_at(c, e.0 as int)
}
pub open spec fn all_ok(c: Seq<u8>, l: Seq<Entry>) -> bool {
    forall|i: int| 0 <= i < l.len() ==> entry_ok(c, #[trigger] l[i])
}
/// offsets strictly increase along the list (so no offset is recorded twice)
pub open spec fn offsets_sorted(l: Seq<Entry>) -> bool {
    forall|i: int, j: int| 0 <= i < j < l.len() ==> (#[trigger] l[i]).0 < (#[trigger] l[j]).0
}
/// offset of `next` (or the file size when there is no next): the end of the interval being indexed
pub open spec fn next_tell_of(l: CList, next: Option<CIndex>, file_size: u64) -> int {
    match next { Some(n) => l@[l.pos(n)].0 as int, None => file_size as int }
}
/// list state `n` is list state `o` with k >= 0 entries spliced in right behind position p, every old
/// entry kept (same value, same handle), every new entry ok, with its offset in (lo, hi), the new
/// offsets strictly increasing
#[verifier::opaque]
pub open spec fn spliced(c: Seq<u8>, o: CList, n: CList, p: int, lo: int, hi: int) -> bool {
    let k = n@.len() - o@.len();
    &&& k >= 0
    &&& 0 <= p < o@.len()
    &&& forall|i: int| 0 <= i <= p ==> #[trigger] n@[i] == o@[i]
    &&& forall|i: int| p + k < i < n@.len() ==> #[trigger] n@[i] == o@[i - k]
    &&& forall|i: int| p < i <= p + k ==> entry_ok(c, #[trigger] n@[i]) && lo < n@[i].0 < hi
    &&& forall|i: int, j: int| p < i < j <= p + k ==> (#[trigger] n@[i]).0 < (#[trigger] n@[j]).0
    &&& forall|j: CIndex| #![trigger n.has(j)] #![trigger n.pos(j)]
            o.has(j) ==> n.has(j) && n.pos(j) == (if o.pos(j) <= p { o.pos(j) } else { o.pos(j) + k })
}

/// number of recursion levels the bisection uses on the interval [a, b) of file c, not counting
/// levels cut short by the chromosome comparisons (an upper bound of the real depth): a defined
/// function of the file content, NOT an axiom.
#[verifier::opaque]
pub open spec fn depth_needed(c: Seq<u8>, a: int, b: int) -> nat
    decreases b - a
{
    if !(0 <= a < b <= c.len()) { 0 }
    else {
        let t = nls(c, (a + b) / 2);
        if a < t < b {
            let l = depth_needed(c, a, t);
            let r = depth_needed(c, t, b);
            1 + (if l >= r { l } else { r })
        } else { 1 }
    }
}
proof fn lemma_depth_step(c: Seq<u8>, a: int, b: int, t: int)
    requires 0 <= a < b <= c.len(), t == nls(c, (a + b) / 2), t < b,
    ensures
        a < t,
        depth_needed(c, a, b) >= 1 + depth_needed(c, a, t),
        depth_needed(c, a, b) >= 1 + depth_needed(c, t, b),
{
    lemma_nls(c, (a + b) / 2);
    reveal_with_fuel(depth_needed, 2);
}
proof fn lemma_depth_pos(c: Seq<u8>, a: int, b: int)
    requires 0 <= a < b <= c.len(),
    ensures depth_needed(c, a, b) >= 1,
{
    reveal_with_fuel(depth_needed, 2);
}

// ---------------- the depth limit: 100 levels suffice for files under 2^49 bytes ----------------
/// the last line start before b (1 <= b <= |c|)
pub open spec fn pls(c: Seq<u8>, b: int) -> int
    decreases b
{
    if b <= 1 { 0 } else if c[b - 2] == 10u8 { b - 1 } else { pls(c, b - 1) }
}
proof fn lemma_pls(c: Seq<u8>, b: int)
    requires 1 <= b <= c.len(),
    ensures
        0 <= pls(c, b) < b,
        is_line_start(c, pls(c, b)),
        forall|q: int| pls(c, b) < q < b ==> !is_line_start(c, q),
    decreases b,
{
    if b <= 1 { } else if c[b - 2] == 10u8 { } else { lemma_pls(c, b - 1); }
}
pub open spec fn p2(n: nat) -> int
    decreases n
{
    if n == 0 { 1 } else { 2 * p2((n - 1) as nat) }
}
/// Potential argument: with L = b - a and M = (start of the last line of [a, b)) - a, the bisection
/// only recurses when L < 2M, and both halves have L'M' <= LM/2.  So the depth is at most
/// 1 + (number of bits of L*M).
proof fn lemma_depth_bound(c: Seq<u8>, a: int, b: int, n: nat)
    requires
        0 <= a < b <= c.len(), is_line_start(c, a),
        (b - a) * (pls(c, b) - a) < p2(n),
    ensures depth_needed(c, a, b) <= n + 1,
    decreases n,
{
    reveal_with_fuel(depth_needed, 2);
    let ll = b - a;
    let s = pls(c, b);
    let mm = s - a;
    lemma_pls(c, b);
    let mid = (a + b) / 2;
    let t = nls(c, mid);
    lemma_nls(c, mid);
    if t < b {
        lemma_pls(c, t);
        let s1 = pls(c, t);
        assert(t <= s);
        assert(a <= s1 <= mid);
        assert(2 * (mid - a) <= ll);
        assert(2 * (b - t) <= ll - 1);
        assert(ll + 1 <= 2 * mm);
        assert(ll * mm >= 1) by (nonlinear_arith) requires ll >= 1, mm >= 1;
        assert(n >= 1);
        // left half
        let l1 = t - a; let m1 = s1 - a;
        assert(2 * (l1 * m1) <= ll * mm) by (nonlinear_arith)
            requires 0 <= l1 <= mm, 0 <= m1, 2 * m1 <= ll;
        // right half
        let l2 = b - t; let m2 = s - t;
        assert(4 * (l2 * m2) <= 2 * (ll * mm)) by (nonlinear_arith)
            requires 0 <= m2 <= l2, 0 <= 2 * l2 <= ll - 1, ll + 1 <= 2 * mm, ll >= 1,
        {
            assert(l2 * m2 <= l2 * l2);
            assert((2 * l2) * (2 * l2) <= ll * ll);
            assert(ll * ll <= ll * (2 * mm));
        }
        lemma_depth_bound(c, a, t, (n - 1) as nat);
        lemma_depth_bound(c, t, b, (n - 1) as nat);
    }
}
proof fn lemma_depth_100(c: Seq<u8>)
    requires 0 < c.len() < 0x2_0000_0000_0000,
    ensures depth_needed(c, 0, c.len() as int) <= 100,
{
    let len = c.len() as int;
    lemma_pls(c, len);
    let m = pls(c, len);
    assert(p2(98) == 0x2_0000_0000_0000 * 0x2_0000_0000_0000) by (compute);
    assert(len * m < 0x2_0000_0000_0000 * 0x2_0000_0000_0000) by (nonlinear_arith)
        requires 0 <= m < len, len < 0x2_0000_0000_0000;
    lemma_depth_bound(c, 0, len, 98);
}

/// nothing inserted is a splice
proof fn lemma_splice_none(c: Seq<u8>, o: CList, p: int, lo: int, hi: int)
    requires 0 <= p < o@.len(),
    ensures spliced(c, o, o, p, lo, hi),
{
    reveal(spliced);
}
/// one insertion is a splice
proof fn lemma_splice_one(c: Seq<u8>, o: CList, n: CList, p: int, v: Entry, lo: int, hi: int)
    requires
        0 <= p < o@.len(),
        n@ == o@.insert(p + 1, v),
        entry_ok(c, v), lo < v.0 < hi,
        forall|j: CIndex| #![trigger n.has(j)] #![trigger n.pos(j)]
            o.has(j) ==> n.has(j) && n.pos(j) == (if o.pos(j) <= p { o.pos(j) } else { o.pos(j) + 1 }),
    ensures spliced(c, o, n, p, lo, hi),
{
    reveal(spliced);
}
/// what a splice tells about sizes
proof fn lemma_spliced_len(c: Seq<u8>, o: CList, n: CList, p: int, lo: int, hi: int)
    requires spliced(c, o, n, p, lo, hi),
    ensures n@.len() >= o@.len(), 0 <= p < o@.len(),
{
    reveal(spliced);
}
/// ... about an old handle: still live, moved behind the new entries if it was behind p, same entry
proof fn lemma_spliced_handle(c: Seq<u8>, o: CList, n: CList, p: int, lo: int, hi: int, j: CIndex)
    requires spliced(c, o, n, p, lo, hi), o.has(j), 0 <= o.pos(j) < o@.len(),
    ensures
        n.has(j),
        n.pos(j) == (if o.pos(j) <= p { o.pos(j) } else { o.pos(j) + (n@.len() - o@.len()) }),
        n@[n.pos(j)] == o@[o.pos(j)],
{
    reveal(spliced);
}
/// ... about a new entry
proof fn lemma_spliced_new(c: Seq<u8>, o: CList, n: CList, p: int, lo: int, hi: int, i: int)
    requires spliced(c, o, n, p, lo, hi), p < i <= p + (n@.len() - o@.len()),
    ensures entry_ok(c, n@[i]), lo < n@[i].0 < hi,
{
    reveal(spliced);
}
/// a splice inside (or right at the ends of) a spliced-in stretch extends the stretch
proof fn lemma_splice_then(c: Seq<u8>, a: CList, b: CList, d: CList, p: int, q: int, lo: int, hi: int, lo2: int, hi2: int)
    requires
        spliced(c, a, b, p, lo, hi),
        spliced(c, b, d, q, lo2, hi2),
        p <= q <= p + (b@.len() - a@.len()),
        lo <= lo2, hi2 <= hi,
        // order: what lies before q in the stretch is <= lo2, what lies behind is >= hi2
        forall|i: int| p < i <= q ==> (#[trigger] b@[i]).0 <= lo2,
        forall|i: int| q < i <= p + (b@.len() - a@.len()) ==> hi2 <= (#[trigger] b@[i]).0,
    ensures spliced(c, a, d, p, lo, hi),
{
    reveal(spliced);
    let k1 = b@.len() - a@.len();
    let k2 = d@.len() - b@.len();
    let k = k1 + k2;
    assert forall|i: int| 0 <= i <= p implies #[trigger] d@[i] == a@[i] by {
        assert(d@[i] == b@[i]);
    }
    assert forall|i: int| p + k < i < d@.len() implies #[trigger] d@[i] == a@[i - k] by {
        assert(d@[i] == b@[i - k2]);
        assert(b@[i - k2] == a@[i - k2 - k1]);
    }
    assert forall|i: int| p < i <= p + k implies entry_ok(c, #[trigger] d@[i]) && lo < d@[i].0 < hi by {
        if i <= q { assert(d@[i] == b@[i]); }
        else if i <= q + k2 { }
        else { assert(d@[i] == b@[i - k2]); }
    }
    assert forall|i: int, j: int| p < i < j <= p + k implies (#[trigger] d@[i]).0 < (#[trigger] d@[j]).0 by {
        if i <= q { assert(d@[i] == b@[i]); } else if i > q + k2 { assert(d@[i] == b@[i - k2]); }
        if j <= q { assert(d@[j] == b@[j]); } else if j > q + k2 { assert(d@[j] == b@[j - k2]); }
    }
    assert forall|j: CIndex| #![trigger d.has(j)] #![trigger d.pos(j)] a.has(j) implies d.has(j) && d.pos(j) == (if a.pos(j) <= p { a.pos(j) } else { a.pos(j) + k }) by {
        assert(b.has(j));
        assert(d.has(j));
    }
}
/// splicing ok entries with offsets between the neighbours keeps the list ok and sorted
proof fn lemma_spliced_keeps(c: Seq<u8>, o: CList, n: CList, p: int, lo: int, hi: int)
    requires
        spliced(c, o, n, p, lo, hi),
        all_ok(c, o@), offsets_sorted(o@),
        o@[p].0 <= lo,
        p + 1 < o@.len() ==> hi <= o@[p + 1].0,
    ensures all_ok(c, n@), offsets_sorted(n@),
{
    reveal(spliced);
    let k = n@.len() - o@.len();
    assert forall|i: int| 0 <= i < n@.len() implies entry_ok(c, #[trigger] n@[i]) by {
        if i <= p { assert(n@[i] == o@[i]); } else if i > p + k { assert(n@[i] == o@[i - k]); }
    }
    assert forall|i: int, j: int| 0 <= i < j < n@.len() implies (#[trigger] n@[i]).0 < (#[trigger] n@[j]).0 by {
        if i <= p { assert(n@[i] == o@[i]); if i < p { assert(o@[i].0 < o@[p].0); } } else if i > p + k { assert(n@[i] == o@[i - k]); }
        if j <= p { assert(n@[j] == o@[j]); } else if j > p + k { assert(n@[j] == o@[j - k]); if j - k > p + 1 { assert(o@[p + 1].0 < o@[j - k].0); } }
    }
}

// ---------------- completeness vocabulary (written from the property) ----------------
/// a chromosome run ends with the line that starts at s: the next line exists and names another
/// chromosome (so `nls(c, s)` is "the byte offset of the first line of a chromosome run")
pub open spec fn run_ends_at(c: Seq<u8>, s: int) -> bool {
    &&& is_line_start(c, s)
    &&& 0 <= s < c.len()
    &&& nls(c, s) < c.len()
    &&& chrom_at(c, s) != chrom_at(c, nls(c, s))
}
/// lines x < s < y, and x and y name the same chromosome
pub open spec fn sandwiched(c: Seq<u8>, x: int, s: int, y: int) -> bool {
    &&& 0 <= x < s < y < c.len()
    &&& is_line_start(c, x) && is_line_start(c, s) && is_line_start(c, y)
    &&& chrom_at(c, x) == chrom_at(c, y)
}
/// chromosome-grouped file: the lines naming one chromosome are contiguous
pub open spec fn grouped(c: Seq<u8>) -> bool {
    forall|x: int, s: int, y: int| #[trigger] sandwiched(c, x, s, y) ==> chrom_at(c, s) == chrom_at(c, x)
}
/// some entry of the list has offset t
pub open spec fn has_offset(l: Seq<Entry>, t: int) -> bool {
    exists|i: int| 0 <= i < l.len() && (#[trigger] l[i]).0 == t
}
/// every run start u = nls(c, s) with lo <= s and u < hi is recorded
pub open spec fn covered(c: Seq<u8>, l: Seq<Entry>, lo: int, hi: int) -> bool {
    forall|s: int| #[trigger] run_ends_at(c, s) && lo <= s && nls(c, s) < hi ==> has_offset(l, nls(c, s))
}
proof fn lemma_same_run(c: Seq<u8>, x: int, y: int, s: int)
    requires grouped(c), 0 <= x <= s <= y < c.len(), is_line_start(c, x), is_line_start(c, s), is_line_start(c, y),
        chrom_at(c, x) == chrom_at(c, y),
    ensures chrom_at(c, s) == chrom_at(c, x),
{
    if x < s < y { assert(sandwiched(c, x, s, y)); }
}
/// in a grouped file no run ends between two lines that name the same chromosome
proof fn lemma_no_run_end_inside(c: Seq<u8>, x: int, y: int, s: int)
    requires grouped(c), 0 <= x < y < c.len(), is_line_start(c, x), is_line_start(c, y), chrom_at(c, x) == chrom_at(c, y),
        is_line_start(c, s), x <= s < c.len(), nls(c, s) <= y,
    ensures !run_ends_at(c, s),
{
    lemma_nls(c, s);
    lemma_same_run(c, x, y, s);
    lemma_same_run(c, x, y, nls(c, s));
}
/// the line before a line start is unique
proof fn lemma_prev_line_unique(c: Seq<u8>, s1: int, s2: int)
    requires 0 <= s1 < c.len(), 0 <= s2 < c.len(), is_line_start(c, s1), is_line_start(c, s2), nls(c, s1) == nls(c, s2),
    ensures s1 == s2,
{
    lemma_nls(c, s1); lemma_nls(c, s2);
    if s1 < s2 { lemma_nls_le_cut(c, s1, s2); }
    if s2 < s1 { lemma_nls_le_cut(c, s2, s1); }
}
/// a splice keeps every recorded offset
proof fn lemma_spliced_has(c: Seq<u8>, o: CList, n: CList, p: int, lo: int, hi: int, t: int)
    requires spliced(c, o, n, p, lo, hi), has_offset(o@, t),
    ensures has_offset(n@, t),
{
    reveal(spliced);
    let k = n@.len() - o@.len();
    let i = choose|i: int| 0 <= i < o@.len() && (#[trigger] o@[i]).0 == t;
    if i <= p { assert(n@[i] == o@[i]); } else { assert(n@[i + k] == o@[i + k - k]); }
}
proof fn lemma_spliced_covered(c: Seq<u8>, o: CList, n: CList, p: int, lo: int, hi: int, x: int, y: int)
    requires spliced(c, o, n, p, lo, hi), covered(c, o@, x, y),
    ensures covered(c, n@, x, y),
{
    assert forall|s: int| #[trigger] run_ends_at(c, s) && x <= s && nls(c, s) < y implies has_offset(n@, nls(c, s)) by {
        lemma_spliced_has(c, o, n, p, lo, hi, nls(c, s));
    }
}

#[verifier::external_body]
fn parse_line(s: &LineBuf) -> (r: Result<Option<Name>, IoError>)
    // ASSUMED contract of the real parse_line (its body is &str splitting/parsing, outside Verus): the
    // name it returns is the first TAB-separated field of exactly the text it was given; it returns
    // Ok(None) exactly for the empty text; it may fail (it also validates the start/end columns).
    ensures
        r matches Ok(Some(nm)) ==> nm.bytes() == first_field(s.text()),
        s.text().len() == 0 ==> r matches Ok(None),
        r matches Ok(None) ==> s.text().len() == 0,
{ unimplemented!() }

// The line-by-line walk keeps a cursor `last` = handle of the newest entry.  An edit may drop the cursor and use `prev`
// throughout (held-out seed C18/2 = C16/1).  So that such code is JUDGED by the walk's invariants (which must name the
// newest entry) instead of ending as "anchor lost": when the walk arm declares NO cursor at all (`let mut X = prev;`
// absent), a GHOST cursor `last` is declared before the loop and a statement-form `chroms.insert_after(..);` (result
// dropped) hands its result to that ghost cursor.  Ghost code only: what the code computes is untouched; the ghost
// `last` is, by construction, the newest entry, so the invariant `scan/last_is_the_newest_entry` then speaks about the
// LIST, and `scan/new_entry_goes_right_behind_the_newest` / `scan/every_run_start_passed_so_far_is_recorded` decide.
// (A cursor under another name leaves `last` undefined: front-end refusal, exit 2.  A real `last` whose insert result
// is dropped gets no ghost help: it is judged as it stands and fails `scan/last_is_the_newest_entry`.)
fn do_index(
        file_size: u64,
        file: &mut VLines,
        chroms: &mut CList,
        line: &mut LineBuf,
        prev: CIndex,
        next: Option<CIndex>,
        limit: usize,
    ) -> (r: Result<(), IoError>)
    requires
        
        file_size as int == old(file).content().len(),
        2 * file_size <= u64::MAX,
        old(chroms).has(prev), 0 <= old(chroms).pos(prev) < old(chroms)@.len(),
        next matches Some(n) ==> old(chroms).has(n) && old(chroms).pos(n) == old(chroms).pos(prev) + 1,
        next is None ==> old(chroms).pos(prev) == old(chroms)@.len() - 1,
        all_ok(old(file).content(), old(chroms)@),
        offsets_sorted(old(chroms)@),
        (old(chroms)@[old(chroms).pos(prev)].0 as int) < next_tell_of(*old(chroms), next, file_size) <= file_size,
        next is Some ==> is_line_start(old(file).content(), next_tell_of(*old(chroms), next, file_size)),
        
        depth_needed(old(file).content(), old(chroms)@[old(chroms).pos(prev)].0 as int, next_tell_of(*old(chroms), next, file_size)) <= limit,
    ensures
        
        final(file).content() == old(file).content(),
        
        r is Ok ==> spliced(old(file).content(), *old(chroms), *final(chroms), old(chroms).pos(prev),
            old(chroms)@[old(chroms).pos(prev)].0 as int, next_tell_of(*old(chroms), next, file_size)),
        
        r is Ok ==> all_ok(old(file).content(), final(chroms)@),
        
        r is Ok ==> offsets_sorted(final(chroms)@),
        
        r is Ok && grouped(old(file).content()) ==> covered(old(file).content(), final(chroms)@,
            old(chroms)@[old(chroms).pos(prev)].0 as int, next_tell_of(*old(chroms), next, file_size)),
    decreases
        
        limit,
{
    let ghost c = file.content();
    let ghost l0 = *chroms;
    let ghost p = chroms.pos(prev);
    let ghost a = chroms@[p].0 as int;
    let ghost b = next_tell_of(*chroms, next, file_size);
    proof { lemma_depth_pos(c, a, b); }

        if limit == 0 {
            vpanic();
        }

        let next_tell = (match next { Some(next) => chroms.get(next).unwrap().0, None => file_size });
        let mid = (next_tell + chroms.get(prev).unwrap().0) / 2;
        file.seek(SeekFrom::Start(mid))?;
        file.read_line(line)?;
        line.clear();
        let tell = file.tell()?;
        file.read_line(line)?;

        proof { lemma_nls(c, mid as int); }
        assert(a <= mid < b && tell as int == nls(c, mid as int)); 
        let chrom = parse_line(&*line)?;
        let chrom = match chrom {
            // The probe found the start of a line strictly inside the interval
            Some(chrom) if tell < next_tell => chrom,
            // Otherwise the probe landed in the last line of the interval (or at the end of the
            // file) and tells us nothing about what lies before it: walk the interval line by
            // line instead. This only happens once the interval is about as short as that line.
            _ => {
                let mut last = prev;
                file.seek(SeekFrom::Start(chroms.get(prev).unwrap().0))?;

                let ghost mut sp: int = a;
                proof {
                    lemma_splice_none(c, l0, p, a, b);
                    assert forall|s: int| #[trigger] run_ends_at(c, s) && a <= s && nls(c, s) < a implies has_offset(l0@, nls(c, s)) by { lemma_nls(c, s); }
                }
                loop 
                    invariant
                        
                        file.content() == c, c == old(file).content(), file_size as int == c.len(), next_tell as int == b, a < b <= c.len(),
                        0 <= p < l0@.len(), a == l0@[p].0, entry_ok(c, l0@[p]),
                        
                        a <= file.pos() <= c.len(), is_cut(c, file.pos()),
                        
                        spliced(c, l0, *chroms, p, a, b),
                        chroms@.len() >= l0@.len(), chroms@[p] == l0@[p],
                        forall|i: int| p < i <= p + (chroms@.len() - l0@.len()) ==> (#[trigger] chroms@[i]).0 < file.pos(),
                        
                        chroms.has(prev), chroms.pos(prev) == p,
                        
                        chroms.has(last), chroms.pos(last) == p + (chroms@.len() - l0@.len()),
                        file.pos() == a ==> chroms@.len() == l0@.len(),
                        
                        covered(c, chroms@, a, file.pos()),
                        file.pos() > a ==> a <= sp < file.pos() && is_line_start(c, sp) && nls(c, sp) == file.pos()
                            && chroms@[p + (chroms@.len() - l0@.len())].1.bytes() == chrom_at(c, sp),
                    ensures
                        
                        file.pos() >= b,
                    decreases
                        
                        (if file.pos() < b { b - file.pos() } else { 0 }),
{
                    line.clear();
                    let tell = file.tell()?;
                    if tell >= next_tell {
                        break;
                    }
                    file.read_line(line)?;

                    proof { lemma_nls(c, tell as int); }
                    let chrom = match parse_line(&*line)? {
                        Some(chrom) => chrom,
                        None => break,
                    };

                    let ghost m = *chroms;
                    let ghost q = chroms.pos(last);
                    let ghost sp_old = sp;
                    assert(line.text() =~= line_at(c, tell as int)); 
                    proof {
                        let t = tell as int;
                        let t2 = nls(c, t);
                        // run starts before the next line: recorded already, or the current line is one 
                        assert forall|s: int| #[trigger] run_ends_at(c, s) && a <= s && nls(c, s) < t2
                            implies has_offset(m@, nls(c, s)) || (nls(c, s) == t && t > a && s == sp_old) by {
                            lemma_nls(c, s);
                            if nls(c, s) == t { lemma_prev_line_unique(c, s, sp_old); }
                        }
                        if chrom.bytes() == m@[q].1.bytes() {
                            assert(covered(c, m@, a, t2));
                        }
                        sp = t;
                    }
                    if chrom != chroms.get(last).unwrap().1 {
                        last = chroms.insert_after(last, (tell, chrom));

                        let ghost v: Entry = chroms@[q + 1];
                        assert(chroms@ == m@.insert(q + 1, v)); 
                        assert(entry_ok(c, v)); 
                        assert(a < v.0 < b); 
                        proof {
                            lemma_splice_one(c, m, *chroms, q, v, tell - 1, b);
                            lemma_splice_then(c, l0, m, *chroms, p, q, a, b, tell - 1, b);
                            assert forall|i: int| p < i <= p + (chroms@.len() - l0@.len()) implies (#[trigger] chroms@[i]).0 < file.pos() by {
                                if i <= q { assert(chroms@[i] == m@[i]); }
                            }
                            assert(has_offset(chroms@, tell as int)) by { assert(chroms@[q + 1].0 == tell); }
                            assert forall|s: int| #[trigger] run_ends_at(c, s) && a <= s && nls(c, s) < nls(c, tell as int)
                                implies has_offset(chroms@, nls(c, s)) by {
                                if has_offset(m@, nls(c, s)) { lemma_spliced_has(c, m, *chroms, q, tell - 1, b, nls(c, s)); }
                            }
                        }
                    }
                }

                proof { lemma_spliced_keeps(c, l0, *chroms, p, a, b); }
                return Ok(());
            }
        };

        // There are three options:
        // 1) The chrom is the same as the previous one. We need to index
        //    between the current and next, since they must be different.
        // 2) The chrom is the same as the next one. This means that we need to
        //    continuing indexing between the previous index and the current,
        //    but not between the current and next index. There is one exceptional
        //    case to think about, when we're *at or passed* the "next" index:
        //    |1----|2----|2----|
        //    ^           ^      Indexed
        //            ^          Mid
        //                ^      New
        //    Here, the "new" index is the same as the previous last. It's
        //    hopefully clear that we one more cycle of indexing between the
        //    start and mid will mark the second line (first line of 2) as the
        //    start correctly.
        // 3) The chrom is different from both the previous and next. We need
        //    to continue to index between the previous and current as well as
        //    between the current and next.


        assert(line.text() =~= line_at(c, tell as int)); 
        let curr = chroms.insert_after(prev, (tell, chrom));

        let ghost l1 = *chroms;
        let ghost v: Entry = l1@[p + 1];
        assert(l1@ == l0@.insert(p + 1, v)); 
        assert(entry_ok(c, v)); 
        assert(a < v.0 < b); 
        proof {
            lemma_splice_one(c, l0, l1, p, v, a, b);
            lemma_spliced_keeps(c, l0, l1, p, a, b);
            lemma_depth_step(c, a, b, tell as int);
            assert(l1@[p] == l0@[p]);
            if next is Some { assert(l1@[p + 2] == l0@[p + 1]); }
        }

        let left = chroms.get(curr).unwrap().1 != chroms.get(prev).unwrap().1 && tell < next_tell;
        let right = (match next { Some(next) => {
                chroms.get(curr).unwrap().1 != chroms.get(next).unwrap().1
                    && tell < chroms.get(next).unwrap().0
            }, None => true });

        if left {
            do_index(file_size, file, chroms, line, prev, Some(curr), limit - 1)?;
        }


        let ghost l2 = *chroms;
        let ghost q = p + 1 + (l2@.len() - l1@.len());
        proof {
            if !left { lemma_splice_none(c, l1, p, a, tell as int); }
            assert(spliced(c, l1, l2, p, a, tell as int)); 
            lemma_spliced_len(c, l1, l2, p, a, tell as int); 
            lemma_spliced_handle(c, l1, l2, p, a, tell as int, prev);
            lemma_spliced_handle(c, l1, l2, p, a, tell as int, curr);
            if let Some(n) = next { lemma_spliced_handle(c, l1, l2, p, a, tell as int, n); }
            lemma_splice_then(c, l0, l1, l2, p, p, a, b, a, tell as int);
        }
        if right {
            do_index(file_size, file, chroms, line, curr, next, limit - 1)?;
        }


        proof {
            let l3 = *chroms;
            if !right { lemma_splice_none(c, l2, q, tell as int, b); }
            assert(spliced(c, l2, l3, q, tell as int, b)); 
            assert forall|i: int| p < i <= q implies (#[trigger] l2@[i]).0 <= tell by { 
                if i < q { lemma_spliced_new(c, l1, l2, p, a, tell as int, i); }
            }
            lemma_splice_then(c, l0, l2, l3, p, q, a, b, tell as int, b);
            lemma_spliced_keeps(c, l0, l3, p, a, b);
            if grouped(c) {
                let t = tell as int;
                assert forall|s: int| #[trigger] run_ends_at(c, s) && a <= s && nls(c, s) < b implies has_offset(l3@, nls(c, s)) by {
                    let u = nls(c, s);
                    lemma_nls(c, s);
                    if u < t { 
                        if left {
                            assert(has_offset(l2@, u));
                            lemma_spliced_has(c, l2, l3, q, t, b, u);
                        } else {
                            lemma_no_run_end_inside(c, a, t, s);
                        }
                    } else if u == t { 
                        assert(has_offset(l1@, t)) by { assert(l1@[p + 1].0 == t); }
                        lemma_spliced_has(c, l1, l2, p, a, t, t);
                        lemma_spliced_has(c, l2, l3, q, t, b, t);
                    } else { 
                        if s < t { lemma_nls_le_cut(c, s, t); }
                        if right {
                            assert(has_offset(l3@, u));
                        } else {
                            lemma_no_run_end_inside(c, t, b, s);
                        }
                    }
                }
            }
        }
        Ok(())
    }

pub fn index_chroms(file: VLines) -> (r: Result<Option<Vec<Entry>>, IoError>)
    requires
        
        file.pos() == 0,
        2 * file.content().len() <= u64::MAX,
        
        file.content().len() < 0x2_0000_0000_0000,
    ensures
        
        file.content().len() == 0 ==> r is Err,
{
    let ghost c = file.content();

    let mut file = buf_reader_new(file);

    let mut line = LineBuf::new();

    file.read_line(&mut line)?;

    if line.is_empty() {

        // C18 "yields ... the byte offset of the first line of each chromosome run, or reports that the file is not grouped":
        // a file with at least one line is indexed, not turned away.  The "Empty file" refusal is justified only by an
        // empty FILE -- which the code may conclude from an empty buffer only if the first line was read into it.
        proof { if c.len() > 0 { lemma_nls(c, 0); } }
        assert(c.len() == 0); 
        return Err(err_empty_file());
    }

    let mut chroms = CList::new();



    // hint only (a non-empty file has a non-empty first line): lets a variant that tests the byte count returned by
    // `read_line` instead of `line.is_empty()` be judged green
    proof { if c.len() > 0 { lemma_nls(c, 0); } }
    let chrom = parse_line(&line)?.unwrap();

    assert(line.text() =~= line_at(c, 0)); 
    let first = chroms.insert_first((0, chrom));

    assert(chroms@.len() == 1 && chroms@[0].0 == 0 && entry_ok(c, chroms@[0])); 
    let file_size = file.seek(SeekFrom::End(0))?;

    let ghost l_first = chroms;
    proof {
        assert(l_first@[0].0 == 0 && l_first@.len() == 1);
        lemma_depth_100(c); 
    }


    do_index(
        file_size,
        &mut file,
        &mut chroms,
        &mut line,
        first,
        None,
        100,
    )?;


    // what is handed to the (unverified) epilogue
    assert(all_ok(c, chroms@)); 
    assert(offsets_sorted(chroms@)); 
    proof {
        lemma_spliced_len(c, l_first, chroms, 0, 0, c.len() as int);
        lemma_spliced_handle(c, l_first, chroms, 0, 0, c.len() as int, first);
    }
    assert(chroms@.len() >= 1 && chroms@[0].0 == 0); 
    assert(grouped(c) ==> covered(c, chroms@, 0, c.len() as int)); 
    finish_index(chroms)
}

// ---- epilogue of index_chroms: `let mut chroms: Vec<_> = chroms.drain_iter().collect(); ... Ok(Some(chroms))` ----
pub fn finish_index(chroms: CList) -> (r: Result<Option<Vec<Entry>>, IoError>)
    requires
        
        offsets_sorted(chroms@),
    ensures
        r is Ok,
        // C18: "... or reports that the file is not grouped": a chromosome that starts more than one DISCOVERED run
        
        (r == Ok::<Option<Vec<Entry>>, IoError>(None)) <==> any_dup(dedup_runs(chroms@)),
        
        r matches Ok(Some(l)) ==> l@ == dedup_runs(chroms@),
{
    let ghost chroms0 = chroms;

    let mut chroms: Vec<_> = drain_collect(chroms);
    dedup_by_name(&mut chroms);
    let mut deduped_chroms = clone_entries(&chroms);

    let ghost cloned_g = deduped_chroms@;
    // Sort by name, so that a chromosome that starts more than one run ends up adjacent
    sort_by_name(&mut deduped_chroms);

    let ghost sorted_g = deduped_chroms@;
    dedup_by_name(&mut deduped_chroms);

    proof {
        let c1 = dedup_runs(chroms0@);
        lemma_dedup_runs(chroms0@);
        lemma_dedup_runs(c1);
        lemma_dedup_runs(sorted_g);
        if contiguous_names(sorted_g) { lemma_contiguous_dup(sorted_g); }
        if cloned_g.len() == c1.len() { lemma_same_names_same_dups(c1, cloned_g); }
    }
    if chroms.len() != deduped_chroms.len() {
        return Ok(None);
    }

    Ok(Some(chroms))
}

} // verus!
fn main() {}

