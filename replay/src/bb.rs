//! bigBed drivers: range query completeness (C04), summary (C06), zoom (C08).
use crate::rng::Rng;
use crate::Args;
use bigtools::beddata::BedParserStreamingIterator;
use bigtools::{BedEntry, BigBedRead, BigBedWrite};
use std::collections::HashMap;

pub fn parse_entries(s: &str) -> Vec<(u32, u32)> {
    s.split(';').filter(|t| !t.is_empty()).map(|t| { let p: Vec<&str> = t.split(',').collect(); (p[0].parse().unwrap(), p[1].parse().unwrap()) }).collect()
}
pub fn fmt_entries(v: &[(u32, u32)]) -> String { v.iter().map(|x| format!("{},{}", x.0, x.1)).collect::<Vec<_>>().join(";") }

pub fn write_bb(entries: &[(u32, u32)], chrom_len: u32, ips: u32, bs: u32, zooms: Option<Vec<u32>>, compress: bool, multipass: bool) -> Result<tempfile::NamedTempFile, String> {
    let tf = tempfile::NamedTempFile::new().map_err(|e| e.to_string())?;
    let chrom_map = HashMap::from([("chr1".to_string(), chrom_len)]);
    let mut out = BigBedWrite::create_file(tf.path(), chrom_map).map_err(|e| e.to_string())?;
    out.options.items_per_slot = ips;
    out.options.block_size = bs;
    out.options.compress = compress;
    out.options.inmemory = true;
    out.options.channel_size = 0;
    out.options.manual_zoom_sizes = zooms;
    let runtime = tokio::runtime::Builder::new_current_thread().build().unwrap();
    let v: Vec<(String, BedEntry)> = entries.iter().enumerate().map(|(i, &(s, e))| ("chr1".to_string(), BedEntry { start: s, end: e, rest: format!("n{}", i) })).collect();
    if multipass {
        out.write_multipass(|| Ok(BedParserStreamingIterator::wrap_infallible_iter(v.clone().into_iter(), true)), runtime).map_err(|e| format!("write error: {}", e))?;
    } else {
        out.write(BedParserStreamingIterator::wrap_infallible_iter(v.into_iter(), true), runtime).map_err(|e| format!("write error: {}", e))?;
    }
    Ok(tf)
}

/// args: ips= bs= len= q=s,e entries=s,e;s,e;...
pub fn run_query(a: &Args) -> Result<(), String> {
    let ips: u32 = a.get("ips").map(|s| s.parse().unwrap()).unwrap_or(2);
    let bs: u32 = a.get("bs").map(|s| s.parse().unwrap()).unwrap_or(2);
    let entries = parse_entries(a.get("entries").ok_or("entries")?);
    let len: u32 = a.get("len").map(|s| s.parse().unwrap()).unwrap_or_else(|| entries.iter().map(|v| v.1).max().unwrap_or(0) + 10);
    let tf = write_bb(&entries, len, ips, bs, None, false, false)?;
    let mut r = BigBedRead::open_file(tf.path()).map_err(|e| format!("open: {}", e))?;
    let qs: Vec<(u32, u32)> = match a.get("q") {
        Some(q) => { let p: Vec<u32> = q.split(',').map(|x| x.parse().unwrap()).collect(); vec![(p[0], p[1])] }
        None => { let mut v = vec![]; for s in 0..len { for e in (s + 1)..=len.min(s + 1 + 64) { v.push((s, e)); } } v }
    };
    for (s, e) in qs {
        let got: Vec<BedEntry> = r.get_interval("chr1", s, e).map_err(|x| format!("query: {}", x))?
            .collect::<Result<Vec<_>, _>>().map_err(|x| format!("read [{},{}): {}", s, e, x))?;
        // every stored entry that overlaps [s,e) must be returned, once, in stored order
        let must: Vec<String> = entries.iter().enumerate().filter(|(_, v)| v.0 < e && v.1 > s).map(|(i, _)| format!("n{}", i)).collect();
        let names: Vec<String> = got.iter().map(|g| g.rest.clone()).collect();
        let mut it = names.iter();
        for m in &must {
            if !it.any(|n| n == m) {
                return Err(format!("query [{},{}) misses (or reorders) overlapping entry {} = {:?}; returned {:?}", s, e, m, entries[m[1..].parse::<usize>().unwrap()], names));
            }
        }
        for g in &got {
            if g.end < s || g.start > e { return Err(format!("query [{},{}) returned disjoint entry {}-{}", s, e, g.start, g.end)); }
        }
        let mut seen = std::collections::HashSet::new();
        for n in &names { if !seen.insert(n) { return Err(format!("query [{},{}) returned {} twice", s, e, n)); } }
    }
    Ok(())
}
pub fn gen_entries(r: &mut Rng, maxn: u64) -> Vec<(u32, u32)> {
    let n = r.range(1, maxn);
    let mut start = r.below(5) as u32;
    let mut v = vec![];
    for _ in 0..n {
        let l = if r.below(4) == 0 { r.range(20, 60) } else { r.range(1, 8) } as u32;
        v.push((start, start + l));
        start += r.below(6) as u32;
    }
    v
}
pub fn gen_query(r: &mut Rng) -> String {
    let e = gen_entries(r, 8);
    format!("ips={} bs={} entries={}", r.range(1, 3), r.range(2, 3), fmt_entries(&e))
}

fn depth_stats(entries: &[(u32, u32)], a: u32, b: u32) -> (u64, f64, f64, f64, f64) {
    let (mut bases, mut sum, mut ssq, mut mn, mut mx) = (0u64, 0.0, 0.0, f64::MAX, f64::MIN);
    for p in a..b {
        let d = entries.iter().filter(|v| v.0 <= p && p < v.1).count() as f64;
        if d > 0.0 { bases += 1; sum += d; ssq += d * d; mn = mn.min(d); mx = mx.max(d); }
    }
    (bases, sum, ssq, mn, mx)
}

/// args: entries=... [multipass=1]
pub fn run_summary(a: &Args) -> Result<(), String> {
    let entries = parse_entries(a.get("entries").ok_or("entries")?);
    let len: u32 = entries.iter().map(|v| v.1).max().unwrap_or(0) + 10;
    let multipass = a.get("multipass").map(|s| s == "1").unwrap_or(false);
    let tf = write_bb(&entries, len, 3, 3, None, false, multipass)?;
    let mut r = BigBedRead::open_file(tf.path()).map_err(|e| format!("open: {}", e))?;
    let s = r.get_summary().map_err(|e| e.to_string())?;
    let (bases, sum, ssq, mn, mx) = depth_stats(&entries, 0, len);
    if s.bases_covered != bases { return Err(format!("summary bases_covered={} but {} bases are covered", s.bases_covered, bases)); }
    if (s.sum - sum).abs() > 1e-6 { return Err(format!("summary sum={} expected {}", s.sum, sum)); }
    if (s.sum_squares - ssq).abs() > 1e-6 { return Err(format!("summary sum_squares={} expected {}", s.sum_squares, ssq)); }
    if bases > 0 && (s.min_val != mn || s.max_val != mx) { return Err(format!("summary min/max={}/{} expected {}/{}", s.min_val, s.max_val, mn, mx)); }
    if s.total_items != entries.len() as u64 { return Err(format!("item count {} expected {}", s.total_items, entries.len())); }
    Ok(())
}
pub fn gen_summary(r: &mut Rng) -> String {
    let e = gen_entries(r, 6);
    format!("multipass={} entries={}", r.below(2), fmt_entries(&e))
}

/// args: size= ips= entries=... [multipass=1]
pub fn run_zoom(a: &Args) -> Result<(), String> {
    let size: u32 = a.get("size").ok_or("size")?.parse().unwrap();
    let ips: u32 = a.get("ips").map(|s| s.parse().unwrap()).unwrap_or(3);
    let entries = parse_entries(a.get("entries").ok_or("entries")?);
    let len: u32 = entries.iter().map(|v| v.1).max().unwrap_or(0) + 10;
    let multipass = a.get("multipass").map(|s| s == "1").unwrap_or(false);
    let tf = write_bb(&entries, len, ips, 3, Some(vec![size]), false, multipass)?;
    let mut r = BigBedRead::open_file(tf.path()).map_err(|e| format!("open: {}", e))?;
    let recs: Vec<_> = r.get_zoom_interval("chr1", 0, len, size).map_err(|e| format!("zoom query: {:?}", e))?
        .collect::<Result<Vec<_>, _>>().map_err(|e| format!("zoom read: {}", e))?;
    let mut last_end = 0u32;
    let mut total = 0u64;
    for z in &recs {
        if z.start >= z.end || z.end - z.start > size { return Err(format!("bad record span {}-{} (resolution {})", z.start, z.end, size)); }
        if z.start < last_end { return Err(format!("records overlap at {}-{}", z.start, z.end)); }
        last_end = z.end;
        let (bases, sum, _ssq, mn, mx) = depth_stats(&entries, z.start, z.end);
        if bases > 0 && ((z.summary.min_val - mn).abs() > 1e-6 || (z.summary.max_val - mx).abs() > 1e-6) {
            return Err(format!("record {}-{} min/max={}/{} but the depth inside it has {}/{}", z.start, z.end, z.summary.min_val, z.summary.max_val, mn, mx));
        }
        if z.summary.bases_covered != bases { return Err(format!("record {}-{} bases_covered={} expected {}", z.start, z.end, z.summary.bases_covered, bases)); }
        if (z.summary.sum - sum).abs() > 1e-3 { return Err(format!("record {}-{} sum={} expected {}", z.start, z.end, z.summary.sum, sum)); }
        total += bases;
    }
    let (bases, ..) = depth_stats(&entries, 0, len);
    if total != bases { return Err(format!("zoom records cover {} bases, coverage has {}", total, bases)); }
    Ok(())
}
pub fn gen_zoom(r: &mut Rng) -> String {
    let e = gen_entries(r, 6);
    format!("size={} ips={} multipass={} entries={}", r.pick(&[3u32, 5, 10]), r.range(1, 3), r.below(2), fmt_entries(&e))
}

/// C02/C13: whatever the writer ACCEPTS must read back exactly.  args: entries=s,e;...  rests=<hex>;<hex>;...
pub fn run_accept_implies_readback(a: &Args) -> Result<(), String> {
    let entries = parse_entries(a.get("entries").ok_or("entries")?);
    let rests: Vec<String> = a.get("rests").map(|r| r.split(';').map(|h| {
        let b: Vec<u8> = (0..h.len() / 2).map(|i| u8::from_str_radix(&h[2 * i..2 * i + 2], 16).unwrap()).collect();
        String::from_utf8(b).unwrap()
    }).collect()).unwrap_or_default();
    let len: u32 = entries.iter().map(|v| v.1).max().unwrap_or(0) + 10;
    let tf = tempfile::NamedTempFile::new().map_err(|e| e.to_string())?;
    let chrom_map = HashMap::from([("chr1".to_string(), len)]);
    let mut out = BigBedWrite::create_file(tf.path(), chrom_map).map_err(|e| e.to_string())?;
    out.options.inmemory = true; out.options.channel_size = 0; out.options.compress = false;
    let runtime = tokio::runtime::Builder::new_current_thread().build().unwrap();
    let v: Vec<(String, BedEntry)> = entries.iter().enumerate().map(|(i, &(s, e))| ("chr1".to_string(), BedEntry { start: s, end: e, rest: rests.get(i).cloned().unwrap_or_else(|| format!("n{}", i)) })).collect();
    let want = v.clone();
    if out.write(BedParserStreamingIterator::wrap_infallible_iter(v.into_iter(), true), runtime).is_err() {
        return Ok(()); // refused: fine
    }
    let got = std::panic::catch_unwind(|| -> Result<Vec<BedEntry>, String> {
        let mut r = BigBedRead::open_file(tf.path()).map_err(|e| format!("open: {}", e))?;
        let x = r.get_interval("chr1", 0, len).map_err(|e| format!("query: {}", e))?.collect::<Result<Vec<_>, _>>().map_err(|e| format!("read: {}", e)); x
    }).map_err(|_| "reader panicked on a file the writer accepted".to_string())??;
    if got.len() != want.len() { return Err(format!("writer accepted {} entries, reader returned {}", want.len(), got.len())); }
    for (g, w) in got.iter().zip(want.iter()) {
        if g.start != w.1.start || g.end != w.1.end || g.rest != w.1.rest { return Err(format!("accepted entry {}-{} {:?} read back as {}-{} {:?}", w.1.start, w.1.end, w.1.rest, g.start, g.end, g.rest)); }
    }
    Ok(())
}
pub fn gen_accept_implies_readback(r: &mut Rng) -> String {
    let mut e = gen_entries(r, 4);
    if r.below(3) == 0 { e[0] = (0, 0); }
    let rests: Vec<String> = e.iter().map(|_| { let s = if r.below(3) == 0 { "a\0b" } else { "x\ty" }; s.replace("\\0", "\0").bytes().map(|b| format!("{:02x}", b)).collect() }).collect();
    format!("entries={} rests={}", fmt_entries(&e), rests.join(";"))
}

/// C06 across chromosomes: args: a=s,e;...  b=s,e;...  (entries of chrA and chrB)  [multipass=1]
pub fn run_summary2(a: &Args) -> Result<(), String> {
    let ea = parse_entries(a.get("a").ok_or("a")?);
    let eb = parse_entries(a.get("b").ok_or("b")?);
    let multipass = a.get("multipass").map(|s| s == "1").unwrap_or(false);
    let len: u32 = ea.iter().chain(eb.iter()).map(|v| v.1).max().unwrap_or(0) + 10;
    let tf = tempfile::NamedTempFile::new().map_err(|e| e.to_string())?;
    let chrom_map = HashMap::from([("chrA".to_string(), len), ("chrB".to_string(), len)]);
    let mut out = BigBedWrite::create_file(tf.path(), chrom_map).map_err(|e| e.to_string())?;
    out.options.inmemory = true; out.options.channel_size = 0; out.options.compress = false;
    let runtime = tokio::runtime::Builder::new_current_thread().build().unwrap();
    let mut v: Vec<(String, BedEntry)> = vec![];
    for (i, &(s, e)) in ea.iter().enumerate() { v.push(("chrA".to_string(), BedEntry { start: s, end: e, rest: format!("a{}", i) })); }
    for (i, &(s, e)) in eb.iter().enumerate() { v.push(("chrB".to_string(), BedEntry { start: s, end: e, rest: format!("b{}", i) })); }
    if multipass { out.write_multipass(|| Ok(BedParserStreamingIterator::wrap_infallible_iter(v.clone().into_iter(), false)), runtime).map_err(|e| format!("write error: {}", e))?; }
    else { out.write(BedParserStreamingIterator::wrap_infallible_iter(v.into_iter(), false), runtime).map_err(|e| format!("write error: {}", e))?; }
    let mut r = BigBedRead::open_file(tf.path()).map_err(|e| format!("open: {}", e))?;
    let s = r.get_summary().map_err(|e| e.to_string())?;
    let (ba, sa, qa, mna, mxa) = depth_stats(&ea, 0, len);
    let (bb_, sb, qb, mnb, mxb) = depth_stats(&eb, 0, len);
    if s.bases_covered != ba + bb_ { return Err(format!("bases_covered={} expected {}", s.bases_covered, ba + bb_)); }
    if (s.sum - (sa + sb)).abs() > 1e-6 || (s.sum_squares - (qa + qb)).abs() > 1e-6 { return Err(format!("sum/sum_squares={}/{} expected {}/{}", s.sum, s.sum_squares, sa + sb, qa + qb)); }
    if ba + bb_ > 0 {
        let mn = if ba > 0 && bb_ > 0 { mna.min(mnb) } else if ba > 0 { mna } else { mnb };
        let mx = if ba > 0 && bb_ > 0 { mxa.max(mxb) } else if ba > 0 { mxa } else { mxb };
        if s.min_val != mn || s.max_val != mx { return Err(format!("summary min/max={}/{} but the covered bases have depth {}..{}", s.min_val, s.max_val, mn, mx)); }
    }
    if s.total_items != (ea.len() + eb.len()) as u64 { return Err(format!("item count {} expected {}", s.total_items, ea.len() + eb.len())); }
    Ok(())
}
pub fn gen_summary2(r: &mut Rng) -> String {
    let mut a = gen_entries(r, 4); let mut b = gen_entries(r, 4);
    if r.below(3) == 0 { a = a.iter().map(|x| (x.0, x.0)).collect(); }
    if r.below(3) == 0 { b = b.iter().map(|x| (x.0.max(1), x.0.max(1))).collect(); }
    let a: Vec<(u32,u32)> = a.into_iter().map(|x| if x == (0, 0) { (1, 1) } else { x }).collect();
    format!("multipass={} a={} b={}", r.below(2), fmt_entries(&a), fmt_entries(&b))
}
