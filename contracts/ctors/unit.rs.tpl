//@unit ctors
//@serves C01 C02 C09 C13 C16
//@backend verus
// Constructors and defaults: `BBIWriteOptions::default`, `BigWigWrite::new`, `BigBedWrite::new` (and their
// `create_file` wrappers).  Every per-function contract of the writers is stated under preconditions on the options
// ("1 <= items_per_slot <= 65535", "block_size >= 2", a positive initial zoom size whose levels fit u32, at most 10
// levels): the DEFAULT options satisfy them, and the constructors hand exactly the defaults, the given output and the
// given chromosome sizes to the writer (C01/C02: "for every combination of ... options": the default combination is
// inside the range the proofs cover; C09: the defaults produce blocks within the format's u16 item counts).
use vstd::prelude::*;
verus! {

//@extract enum bigtools/src/bbi/bbiwrite.rs InputSortType
//@rule R8
//@end
//@extract struct bigtools/src/bbi/bbiwrite.rs BBIWriteOptions
//@rule R8
//@sub /#\[derive\(Clone\)\]\n/ => "" min=0
//@end
//@extract const bigtools/src/bbi/bbiwrite.rs DEFAULT_BLOCK_SIZE
//@rule R8
//@end
//@extract const bigtools/src/bbi/bbiwrite.rs DEFAULT_ITEMS_PER_SLOT
//@rule R8
//@end
//@extract const bigtools/src/bbi/bbiwrite.rs MAX_ZOOM_LEVELS
//@rule R8
//@sub /^const MAX_ZOOM_LEVELS/ => pub const MAX_ZOOM_LEVELS min=0
//@end

/// the ranges the writer units assume (bw_batch/bb_batch `pre`, rt_tree `block_size >= 2`, chrom_ids zoom list,
/// zoom_levels `at_most_ten_levels_are_listed`)
pub open spec fn options_in_the_proved_range(o: BBIWriteOptions) -> bool {
    // C01/C02 quantify over 1 <= items_per_slot <= 65535 and block_size >= 2 (u16 item counts in the format; the
    // R-tree level loop needs a fan-out of at least 2): the defaults must lie inside.  Zoom options need no range:
    // zero sizes are filtered, levels that do not fit u32 are not produced, more than 10 levels are cut (units
    // chrom_ids, zoom_sizes, zoom_levels).
    &&& 1 <= o.items_per_slot <= 65535
    &&& 2 <= o.block_size <= 65535
}

impl BBIWriteOptions {
//@extract method bigtools/src/bbi/bbiwrite.rs default "impl Default for BBIWriteOptions"
//@as options_default
//@rule R16
//@sub /fn default\(\) -> Self/ => pub fn default() -> BBIWriteOptions min=1
//@ret r
//@sig
    ensures
        [[L: defaults_lie_inside_the_range_the_writer_proofs_cover]]
        options_in_the_proved_range(r),
//@end
}

/// the output (`W: Write + Seek`) and the chromosome sizes map: opaque, identity matters only
#[verifier::external_body] pub struct OutW { _p: u8 }
#[verifier::external_body] pub struct ChromSizes { _p: u8 }

//@extract struct bigtools/src/bbi/bigwigwrite.rs BigWigWrite
//@rule R8
//@sub /BigWigWrite<W: Write \+ Seek \+ Send \+ 'static>/ => BigWigWrite min=1
//@sub /^(\s*)out: W,/ => \1pub out: OutW, min=1
//@sub /^(\s*)chrom_sizes:/ => \1pub chrom_sizes: min=1
//@sub /HashMap<String, u32>/ => ChromSizes min=1
//@end
impl BigWigWrite {
//@extract method bigtools/src/bbi/bigwigwrite.rs new "^impl<W: Write \+ Seek \+ Send \+ 'static> BigWigWrite<W>"
//@as bigwig_new
//@rule R16
//@sub /\(out: W, chrom_sizes: HashMap<String, u32>\) -> Self/ => (out: OutW, chrom_sizes: ChromSizes) -> BigWigWrite min=1
//@ret r
//@sig
    ensures
        [[L: writer_holds_the_given_output_the_given_sizes_and_the_default_options]]
        r.out == out && r.chrom_sizes == chrom_sizes && options_in_the_proved_range(r.options),
//@end
}

//@extract struct bigtools/src/bbi/bigbedwrite.rs BigBedWrite
//@rule R8
//@sub /BigBedWrite<W: Write \+ Seek \+ Send \+ 'static>/ => BigBedWrite min=1
//@sub /^(\s*)out: W,/ => \1pub out: OutW, min=1
//@sub /^(\s*)chrom_sizes:/ => \1pub chrom_sizes: min=1
//@sub /HashMap<String, u32>/ => ChromSizes min=1
//@sub /Option<String>/ => Option<Vec<u8>> min=0
//@end
impl BigBedWrite {
//@extract method bigtools/src/bbi/bigbedwrite.rs new "^impl<W: Write \+ Seek \+ Send \+ 'static> BigBedWrite<W>"
//@as bigbed_new
//@rule R16
//@sub /\(out: W, chrom_sizes: HashMap<String, u32>\) -> Self/ => (out: OutW, chrom_sizes: ChromSizes) -> BigBedWrite min=1
//@ret r
//@sig
    ensures
        [[L: writer_holds_the_given_output_the_given_sizes_the_default_options_and_no_schema]]
        r.out == out && r.chrom_sizes == chrom_sizes && options_in_the_proved_range(r.options) && r.autosql is None,
//@end
}

} // verus!
fn main() {}
