"""Counterexample search on the REAL code after a verifier failure (DESIGN §4).
Not a deciding step: it only tries to attach a concrete failing input to a
violation the verifier has already reported."""
import os
import re
import subprocess

VERIF = os.path.dirname(os.path.dirname(os.path.abspath(__file__)))
TARGET = os.path.join(VERIF, '.cache', 'replay-target')
BIN = os.path.join(TARGET, 'debug', 'bt-replay')

# unit -> drivers whose oracle states the property the unit's contracts carry
DRIVERS = {
    'bw_zoom': ['bw_zoom'], 'zoom_enc': ['bw_zoom', 'bb_zoom'], 'zoom_dec': ['bw_zoom'],
    'bw_enc': ['bw_roundtrip'], 'bw_dec': ['bw_roundtrip'], 'bw_batch': ['bw_roundtrip', 'bb_summary'],
    'bb_enc': ['bb_query'], 'bb_dec': ['bb_query'], 'bb_batch': ['bb_query', 'bb_summary'],
    'rt_build': ['bb_query', 'bw_roundtrip'], 'rt_layout': ['bb_query', 'bw_roundtrip'], 'rt_nodes': ['bb_query', 'bw_roundtrip'],
    'cmp': ['bb_query', 'bw_roundtrip'], 'rt_items': ['bb_query', 'bw_roundtrip'], 'rt_search': ['bb_query', 'bw_roundtrip'],
    'bb_sweep': ['bb_summary'], 'bb_zoom': ['bb_zoom'], 'bw_sum': ['bw_zoom'],
    'fview': ['fileview'], 'asql_loops': ['autosql'], 'asql_tok': ['autosql'],
    'hdr': ['bw_roundtrip', 'bb_summary'], 'info': ['bw_roundtrip'],
    'value_iter': ['merge_many', 'merge'], 'merge_into': ['merge_many'], 'mv_adjust': ['merge'],
    'chrom_ids': ['zoom_auto', 'zoom_dir', 'bw_roundtrip'], 'chrom_pipe': ['zoom_dir', 'bw_roundtrip'],
    'zoom_sizes': ['zoom_dir', 'zoom_auto'], 'zoom_levels': ['zoom_dir'], 'zoom_tail': ['zoom_dir', 'zoom_auto'],
    'rt_spans': ['bb_query', 'bw_roundtrip'], 'tree_offsets': ['bw_roundtrip', 'bb_query'], 'cache': ['bw_roundtrip', 'bb_query'],
    'iters': ['bw_roundtrip', 'bb_query'], 'query_glue': ['bw_roundtrip', 'bb_query'], 'index': ['indexer'],
    'sum_acc': ['bb_summary', 'bb_summary2'], 'summary_io': ['bb_summary', 'bw_roundtrip'],
    'compat': ['compat'],
}


def build(repo):
    if os.path.realpath(repo) != '/repo':
        return False, 'replay crate is wired to /repo'
    crate = os.path.join(VERIF, 'replay')
    try:
        lock = os.path.join(repo, 'Cargo.lock')
        if os.path.exists(lock):
            subprocess.run(['cp', lock, os.path.join(crate, 'Cargo.lock')])
        env = dict(os.environ, CARGO_NET_OFFLINE='true', CARGO_TARGET_DIR=TARGET)
        p = subprocess.run(['cargo', 'build', '--offline'], cwd=crate, env=env, stdout=subprocess.PIPE,
                           stderr=subprocess.STDOUT, text=True, timeout=900)
        return p.returncode == 0, p.stdout[-1500:]
    except Exception as e:  # noqa
        return False, str(e)


def run_driver(driver, mode, args, timeout):
    env = dict(os.environ, RUST_BACKTRACE='0')
    try:
        p = subprocess.run([BIN, driver, mode] + args, stdout=subprocess.PIPE, stderr=subprocess.STDOUT, text=True,
                           timeout=timeout, env=env)
    except subprocess.TimeoutExpired:
        return None, 'timeout'
    m = re.search(r'^REPRODUCED driver=(\S+) args=(.*?) :: (.*)$', p.stdout, re.M)
    if m:
        return {'driver': m.group(1), 'args': m.group(2), 'what': m.group(3)}, p.stdout[-800:]
    return None, p.stdout[-300:]


def search(prop, unit, obligations, repo, seed, tier):
    drivers = DRIVERS.get(unit, [])
    if not drivers:
        return {'search': 'no replay driver for unit %s' % unit}
    ok, log = build(repo)
    if not ok:
        return {'search': 'replay crate did not build against the current tree: ' + log[-400:]}
    budget = '400' if tier == 'quick' else '4000'
    notes = []
    for d in drivers:
        got, out = run_driver(d, 'search', [str(seed), budget], 240 if tier == 'quick' else 1500)
        if got:
            # replay once more to make sure it is deterministic
            again, _ = run_driver(d, 'run', [got['args']], 120)
            return {'driver': d, 'input': got['args'], 'replay_result': got['what'], 'replay_reproduced': bool(again),
                    'replay_cmd': 'bt-replay %s run "%s"' % (d, got['args'])}
        notes.append('%s: %s' % (d, out.strip().split('\n')[-1] if out else ''))
    return {'search': 'no failing input found by drivers: ' + '; '.join(notes)}
