"""./check <prop> --replay <path>: re-run the recorded input on the real code."""
import json
import sys
import cex_search


def replay(path):
    rec = json.load(open(path))
    print('replay of %s: obligations %s' % (path, rec.get('obligations')))
    if not rec.get('input') or not rec.get('driver'):
        print('no concrete input recorded (no-failing-input-found); verifier output follows')
        for v in rec.get('verifier_output', []):
            print(v)
        return 0
    if rec.get('driver', '').startswith('kext:'):
        import kani_extract
        return kani_extract.replay(rec)
    if rec.get('driver', '').startswith('kani:'):
        import kani_lane
        return kani_lane.replay(rec)
    ok, log = cex_search.build('/repo')
    if not ok:
        print('replay crate did not build: ' + log)
        return 2
    got, out = cex_search.run_driver(rec['driver'], 'run', [rec['input']], 300)
    print(out)
    return 1 if got else 0
