// The INITIAL state of every per-chromosome processor: the six `create` functions
// (`impl BBIDataProcessorCreate for ..`)
//   bigwigwrite.rs: BigWigFullProcess::create, BigWigNoZoomsProcess::create, BigWigZoomsProcess::create
//   bigbedwrite.rs: BigBedFullProcess::create, BigBedNoZoomsProcess::create, BigBedZoomsProcess::create
// C06/C07/C08 ("statistics are those of the data and nothing else"): every accumulator starts NEUTRAL —
//   bigWig summary {0, 0, f64::MAX, f64::MIN, 0.0, 0.0}, bigBed summary None / total_items 0 / empty sweep
//   lists, no pending item, one zoom accumulator per zoom channel IN ORDER with the channel's own size,
//   no open record, no pending record, the channel itself.
// C09/C13: chrom_id, length, options, ftx, runtime, chrom are the ones handed in (nothing swapped);
//   the NoZooms `zoom_counts` are exactly the resolutions 10·4^k (k = 0,1,..) that are <= length·4 (and
//   <= u64::MAX/4), each with current_end == 0 and counts == 0; in particular every resolution is > 0 and
//   <= u64::MAX/4 — the precondition that units bb_batch (`zoomcount/pre`) and procs (`bw_zoomcount/pre`)
//   ASSUME for the termination of the zoom-count loops: it is established here.
// Iterator chains are outside Verus: each chain is DESUGARED by a unit-local substitution into the
// loop it stands for, with the closure bodies / struct literals / constants spliced in VERBATIM
// (see NOTES.md "Structural substitutions"); the loops carry invariants from this template.  An edit
// inside a closure therefore reaches the verifier; an edit to the chain's shape no longer matches the
// regex, the chain stays, Verus rejects it: exit 2, never a silent pass.
use vstd::prelude::*;
use vstd::std_specs::ops::*;
use vstd::std_specs::convert::FromSpec;
verus! {
// ---- shared float prelude -------------------------------------------------
// Rust float operators are total; Verus models their results as uninterpreted
// functions (`add_spec`, `mul_spec`, `from_spec`, ...).  The axioms below say
// only (1) the operators have no precondition and (2) the exec operator returns
// the value of its spec function (determinism).  Nothing numerical is assumed.
mod float_ax {
use vstd::prelude::*;
use vstd::std_specs::ops::*;
use vstd::std_specs::convert::FromSpec;
pub broadcast axiom fn ax_f64_mul_total(a: f64, b: f64) ensures #[trigger] a.mul_req(b);
pub broadcast axiom fn ax_f64_add_total(a: f64, b: f64) ensures #[trigger] a.add_req(b);
pub broadcast axiom fn ax_f64_sub_total(a: f64, b: f64) ensures #[trigger] a.sub_req(b);
pub broadcast axiom fn ax_f64_div_total(a: f64, b: f64) ensures #[trigger] a.div_req(b);
pub broadcast axiom fn ax_f32_add_total(a: f32, b: f32) ensures #[trigger] a.add_req(b);
pub broadcast axiom fn ax_f32_sub_total(a: f32, b: f32) ensures #[trigger] a.sub_req(b);
pub broadcast group float_total { ax_f64_mul_total, ax_f64_add_total, ax_f64_sub_total, ax_f64_div_total, ax_f32_add_total, ax_f32_sub_total }
pub axiom fn float_det()
    ensures
        <f64 as AddSpec<f64>>::obeys_add_spec(), <f64 as MulSpec<f64>>::obeys_mul_spec(),
        <f64 as SubSpec<f64>>::obeys_sub_spec(), <f64 as DivSpec<f64>>::obeys_div_spec(),
        <f32 as AddSpec<f32>>::obeys_add_spec(), <f32 as SubSpec<f32>>::obeys_sub_spec(),
        <f64 as FromSpec<u32>>::obeys_from_spec(), <f64 as FromSpec<f32>>::obeys_from_spec();
}
broadcast use float_ax::float_total;
pub uninterp spec fn fmin(a: f64, b: f64) -> f64;
pub uninterp spec fn fmax(a: f64, b: f64) -> f64;
pub assume_specification [f64::min] (a: f64, b: f64) -> (r: f64) ensures r == fmin(a, b);
pub assume_specification [f64::max] (a: f64, b: f64) -> (r: f64) ensures r == fmax(a, b);
// float constants (rule R12c): Verus has no model of core::f64 associated consts; each is an
// uninterpreted spec constant, distinct names so that swapping two of them is visible.
pub uninterp spec fn spec_f64_max() -> f64;
pub uninterp spec fn spec_f64_min() -> f64;
pub uninterp spec fn spec_f64_min_positive() -> f64;
pub uninterp spec fn spec_f64_nan() -> f64;
pub uninterp spec fn spec_f64_infinity() -> f64;
pub uninterp spec fn spec_f64_neg_infinity() -> f64;
pub uninterp spec fn spec_f64_epsilon() -> f64;
#[verifier::external_body] pub fn fconst_f64_max() -> (r: f64) ensures r == spec_f64_max() { f64::MAX }
#[verifier::external_body] pub fn fconst_f64_min() -> (r: f64) ensures r == spec_f64_min() { f64::MIN }
#[verifier::external_body] pub fn fconst_f64_min_positive() -> (r: f64) ensures r == spec_f64_min_positive() { f64::MIN_POSITIVE }
#[verifier::external_body] pub fn fconst_f64_nan() -> (r: f64) ensures r == spec_f64_nan() { f64::NAN }
#[verifier::external_body] pub fn fconst_f64_infinity() -> (r: f64) ensures r == spec_f64_infinity() { f64::INFINITY }
#[verifier::external_body] pub fn fconst_f64_neg_infinity() -> (r: f64) ensures r == spec_f64_neg_infinity() { f64::NEG_INFINITY }
#[verifier::external_body] pub fn fconst_f64_epsilon() -> (r: f64) ensures r == spec_f64_epsilon() { f64::EPSILON }

#[derive(Copy, Clone)]
pub struct Summary {
    pub total_items: u64,
    pub bases_covered: u64,
    pub min_val: f64,
    pub max_val: f64,
    pub sum: f64,
    pub sum_squares: f64,
}
#[derive(Copy, Clone)]
pub struct Value {
    pub start: u32,
    pub end: u32,
    pub value: f32,
}
#[derive(Copy, Clone)]
pub struct ZoomRecord {
    pub chrom: u32,
    pub start: u32,
    pub end: u32,
    pub summary: Summary,
}
// R11: `rest: String` -> `rest: Vec<u8>` (as units bb_enc / bb_batch / procs; the text is never inspected here)
pub struct BedEntry {
    pub start: u32,
    pub end: u32,
    pub rest: Vec<u8>,
}
#[derive(Copy, Clone)]
pub enum InputSortType {
    ALL,
    START,
    // TODO
    //NONE,
}
pub struct BBIWriteOptions {
    pub compress: bool,
    pub items_per_slot: u32,
    pub block_size: u32,
    pub initial_zoom_size: u32,
    pub max_zooms: u32,
    pub manual_zoom_sizes: Option<Vec<u32>>,
    pub input_sort_type: InputSortType,
    pub channel_size: usize,
    pub inmemory: bool,
}

// ---- shared shim: index_list::IndexList<Value> ---------------------------------
// `VList` stands for `index_list::IndexList<Value>` (a doubly linked list stored in a Vec,
// addressed by `ListIndex` slot handles), `VIndex` for `index_list::ListIndex`.
// ASSUMED sequential contract, for exactly the methods bigbedwrite.rs uses.  The list is
// viewed as `Seq<Value>` in list order.  A handle is not a position: `has(i)` says that the
// handle `i` names a live element of *this* list state and `pos(i)` which position it has;
// both are functions of the list state.  Only what is true of the real list is assumed:
//   * a handle obtained from first_index/next_index names a live element iff it `is_some()`;
//   * get_mut does not change the structure (same handles, same positions), only the element
//     that is handed out can change;
//   * insert_after(i, v) puts v right behind i and keeps i valid at the same position;
//   * insert_first/insert_last/remove_first are the obvious sequence operations; nothing is
//     said about handles after them (the code never keeps a handle across them).
// Requires `Value { start: u32, end: u32, value: f32 }` to be in scope (extract it first).
#[verifier::external_body]
pub struct VList { _p: u8 }
#[verifier::external_body]
#[derive(Copy, Clone)]
pub struct VIndex { _p: usize }
impl VIndex {
    pub uninterp spec fn some(&self) -> bool;
    #[verifier::external_body]
    pub fn is_some(&self) -> (r: bool)
        ensures r == self.some(),
    { unimplemented!() }
}
impl VList {
    pub uninterp spec fn view(&self) -> Seq<Value>;
    /// handle i names a live element of this list state
    pub uninterp spec fn has(&self, i: VIndex) -> bool;
    /// ... at this position (meaningful when has(i))
    pub uninterp spec fn pos(&self, i: VIndex) -> int;
    /// same handles at the same positions
    pub open spec fn same_shape(&self, o: &VList) -> bool {
        &&& forall|j: VIndex| #![trigger self.has(j)] #![trigger o.has(j)] self.has(j) == o.has(j)
        &&& forall|j: VIndex| #![trigger self.pos(j)] #![trigger o.pos(j)] self.pos(j) == o.pos(j)
    }

    #[verifier::external_body]
    pub fn new() -> (r: VList)
        ensures r@.len() == 0,
    { unimplemented!() }

    #[verifier::external_body]
    pub fn first_index(&self) -> (r: VIndex)
        ensures
            r.some() == (self@.len() > 0),
            r.some() ==> self.has(r) && self.pos(r) == 0,
    { unimplemented!() }

    #[verifier::external_body]
    pub fn next_index(&self, i: VIndex) -> (r: VIndex)
        ensures
            self.has(i) ==> r.some() == (self.pos(i) + 1 < self@.len()),
            self.has(i) && r.some() ==> self.has(r) && self.pos(r) == self.pos(i) + 1,
    { unimplemented!() }

    #[verifier::external_body]
    pub fn get_mut(&mut self, i: VIndex) -> (r: Option<&mut Value>)
        ensures
            r.is_some() == old(self).has(i),
            old(self).has(i) ==> 0 <= old(self).pos(i) < old(self)@.len(),
            r.is_some() ==> *r.unwrap() == old(self)@[old(self).pos(i)]
                && final(self)@ == old(self)@.update(old(self).pos(i), *final(r.unwrap())),
            r.is_none() ==> final(self)@ == old(self)@,
            final(self).same_shape(old(self)),
    { unimplemented!() }

    #[verifier::external_body]
    pub fn insert_after(&mut self, i: VIndex, v: Value) -> (r: VIndex)
        requires
            old(self).has(i),
        ensures
            final(self)@ == old(self)@.insert(old(self).pos(i) + 1, v),
            final(self).has(i) && final(self).pos(i) == old(self).pos(i),
    { unimplemented!() }

    #[verifier::external_body]
    pub fn get_first(&self) -> (r: Option<&Value>)
        ensures
            r.is_some() == (self@.len() > 0),
            r.is_some() ==> *r.unwrap() == self@[0],
    { unimplemented!() }

    #[verifier::external_body]
    pub fn get_last(&self) -> (r: Option<&Value>)
        ensures
            r.is_some() == (self@.len() > 0),
            r.is_some() ==> *r.unwrap() == self@[self@.len() - 1],
    { unimplemented!() }

    #[verifier::external_body]
    pub fn insert_last(&mut self, v: Value) -> (r: VIndex)
        ensures
            final(self)@ == old(self)@.push(v),
    { unimplemented!() }

    #[verifier::external_body]
    pub fn insert_first(&mut self, v: Value) -> (r: VIndex)
        ensures
            final(self)@ == seq![v] + old(self)@,
    { unimplemented!() }

    #[verifier::external_body]
    pub fn remove_first(&mut self) -> (r: Option<Value>)
        ensures
            r.is_some() == (old(self)@.len() > 0),
            r.is_some() ==> r.unwrap() == old(self)@[0] && final(self)@ == old(self)@.subrange(1, old(self)@.len() as int),
            r.is_none() ==> final(self)@ == old(self)@,
    { unimplemented!() }
}

// ---------------- shims (each one is a listed assumption) ----------------
/// tokio runtime handle: only passed on
#[verifier::external_body]
pub struct Handle { _p: u8 }
/// BBIDataProcessoringInputSectionChannel (futures mpsc sender), for data sections and for zoom sections:
/// opaque, only moved; spec equality is identity of the channel
#[verifier::external_body]
pub struct Chan { _p: u8 }
/// bbiwrite::InternalTempZoomInfo<W>: opaque, only handed through
#[verifier::external_body]
pub struct TempZoom { _p: u8 }

// the three argument tuples of `create`, cut from the repository (pub(crate) -> pub by R8)
pub struct InternalProcessData(
    pub Vec<(u32, Chan)>,
    pub Chan,
    pub u32,
    pub BBIWriteOptions,
    pub Handle,
    pub String,
    pub u32,
);
pub struct NoZoomsInternalProcessData(
    pub Chan,
    pub u32,
    pub BBIWriteOptions,
    pub Handle,
    pub String,
    pub u32,
);
pub struct ZoomsInternalProcessData(
    pub Vec<TempZoom>,
    pub Vec<(u32, Chan)>,
    pub u32,
    pub BBIWriteOptions,
    pub Handle,
);

// ---------------- specification vocabulary (from the property texts) ----------------
/// the neutral bigWig accumulator: nothing counted, min = +MAX, max = MIN (most negative), sums 0
pub open spec fn neutral_summary() -> Summary {
    Summary { total_items: 0, bases_covered: 0, min_val: spec_f64_max(), max_val: spec_f64_min(), sum: 0.0f64, sum_squares: 0.0f64 }
}
/// k-th automatic zoom-count resolution: 10 · 4^k
pub open spec fn res_at(k: nat) -> int
    decreases k
{
    if k == 0 { 10 } else { 4 * res_at((k - 1) as nat) }
}
/// a resolution takes part for a chromosome of this length
pub open spec fn res_in(length: u32, v: int) -> bool { v <= u64::MAX / 4 && v <= length as int * 4 }

// =====================================================================================
pub mod bw {
use super::*;

pub struct ZoomItem {
    // How many bases this zoom item covers
pub size: u32,
    // The current zoom entry
pub live_info: Option<ZoomRecord>,
    // All zoom entries in the current section
pub records: Vec<ZoomRecord>,
pub channel: Chan,
}
pub struct BigWigFullProcess {
pub summary: Summary,
pub items: Vec<Value>,
pub zoom_items: Vec<ZoomItem>,

pub ftx: Chan,
pub chrom_id: u32,
pub options: BBIWriteOptions,
pub runtime: Handle,
pub chrom: String,
pub length: u32,
}
#[derive(Copy, Clone)]
pub struct ZoomCounts {
pub resolution: u64,
pub current_end: u64,
pub counts: u64,
}
pub struct BigWigNoZoomsProcess {
pub ftx: Chan,
pub chrom_id: u32,
pub options: BBIWriteOptions,
pub runtime: Handle,
pub chrom: String,
pub length: u32,

pub summary: Summary,
pub items: Vec<Value>,
pub zoom_counts: Vec<ZoomCounts>,
}
pub struct BigWigZoomsProcess {
pub temp_zoom_items: Vec<TempZoom>,
pub chrom_id: u32,
pub options: BBIWriteOptions,
pub runtime: Handle,

pub zoom_items: Vec<ZoomItem>,
}

/// a fresh zoom accumulator for channel c: c's size, no open record, no pending records, c's channel
pub open spec fn zi_fresh(z: ZoomItem, c: (u32, Chan)) -> bool {
    z.size == c.0 && z.channel == c.1 && z.live_info.is_none() && z.records@.len() == 0
}
/// one fresh accumulator per channel, in order
pub open spec fn zi_all_fresh(r: Seq<ZoomItem>, src: Seq<(u32, Chan)>) -> bool {
    r.len() == src.len() && forall|k: int| 0 <= k < r.len() ==> zi_fresh(#[trigger] r[k], src[k])
}
/// k-th zoom counter of a chromosome of this length
pub open spec fn zc_fresh(length: u32, z: ZoomCounts, k: int) -> bool {
    z.resolution as int == res_at(k as nat) && z.current_end == 0 && z.counts == 0 && res_in(length, res_at(k as nat))
}
/// exactly the resolutions 10·4^k that take part, in order, none missing at the end
pub open spec fn zc_all_fresh(length: u32, r: Seq<ZoomCounts>) -> bool {
    &&& forall|k: int| 0 <= k < r.len() ==> zc_fresh(length, #[trigger] r[k], k)
    &&& !res_in(length, res_at(r.len()))
}

impl BigWigFullProcess {
fn create(internal_data: InternalProcessData) -> (r: Self)
    ensures
        
        r.summary == neutral_summary(),
        
        r.items@.len() == 0,
        
        zi_all_fresh(r.zoom_items@, internal_data.0@),
        
        r.chrom_id == internal_data.2,
        
        r.length == internal_data.6,
        
        r.options == internal_data.3, r.ftx == internal_data.1, r.runtime == internal_data.4, r.chrom == internal_data.5,
{
        let InternalProcessData(zooms_channels, ftx, chrom_id, options, runtime, chrom, length) =
            internal_data;

        let summary = Summary {
            total_items: 0,
            bases_covered: 0,
            min_val: fconst_f64_max(),
            max_val: fconst_f64_min(),
            sum: 0.0,
            sum_squares: 0.0,
        };

        let items = Vec::with_capacity(options.items_per_slot as usize);
        let zoom_items: Vec<ZoomItem> = { let mut src__ = zooms_channels; let ghost src0__ = src__@; let mut out__ = Vec::new(); while src__.len() > 0 
            invariant
                
                out__@.len() <= src0__.len(),
                src__@ == src0__.subrange(out__@.len() as int, src0__.len() as int),
                
                forall|k: int| 0 <= k < out__@.len() ==> zi_fresh(#[trigger] out__@[k], src0__[k]),
            decreases
                
                src__@.len(),
{ let (size, channel) = src__.remove(0); out__.push(ZoomItem {
                size,
                live_info: None,
                records: Vec::with_capacity(options.items_per_slot as usize),
                channel,
            }); } out__ };

        BigWigFullProcess {
            summary,
            items,
            zoom_items,
            ftx,
            chrom_id,
            options,
            runtime,
            chrom,
            length,
        }
    }
}

impl BigWigNoZoomsProcess {
fn create(internal_data: NoZoomsInternalProcessData) -> (r: Self)
    ensures
        
        r.summary == neutral_summary(),
        
        r.items@.len() == 0,
        
        zc_all_fresh(r.length, r.zoom_counts@),
        
        forall|k: int| 0 <= k < r.zoom_counts@.len() ==> 0 < (#[trigger] r.zoom_counts@[k]).resolution <= u64::MAX / 4,
        
        r.chrom_id == internal_data.1,
        
        r.length == internal_data.5,
        
        r.options == internal_data.2, r.ftx == internal_data.0, r.runtime == internal_data.3, r.chrom == internal_data.4,
{
        let NoZoomsInternalProcessData(ftx, chrom_id, options, runtime, chrom, length) =
            internal_data;

        let summary = Summary {
            total_items: 0,
            bases_covered: 0,
            min_val: fconst_f64_max(),
            max_val: fconst_f64_min(),
            sum: 0.0,
            sum_squares: 0.0,
        };

        let items: Vec<Value> = Vec::with_capacity(options.items_per_slot as usize);
        let zoom_counts: Vec<ZoomCounts> = { let mut out__: Vec<ZoomCounts> = Vec::new(); let mut next__: Option<u64> = Some(10); loop 
            invariant_except_break
                
                next__ is Some, next__->Some_0 as int == res_at(out__@.len()), next__->Some_0 >= 10,
                
                next__->Some_0 <= 10 || next__->Some_0 <= 16 * (length as int),
            invariant
                
                forall|k: int| 0 <= k < out__@.len() ==> zc_fresh(length, #[trigger] out__@[k], k) && out__@[k].resolution >= 10,
            ensures
                
                !res_in(length, res_at(out__@.len())),
            decreases
                
                (if next__->Some_0 <= length as int * 4 { length as int * 4 + 1 - next__->Some_0 } else { 0 }),
{ let item__: u64 = match next__ { Some(v__) => v__, None => { break; } }; next__ = { let z = &item__; Some(z * 4) }; if !({ let z = &item__; *z <= u64::MAX / 4 && *z <= length as u64 * 4 }) { break; } out__.push({ let z = item__; ZoomCounts {
                resolution: z,
                current_end: 0,
                counts: 0,
            } }); } out__ };

        BigWigNoZoomsProcess {
            ftx,
            chrom_id,
            options,
            runtime,
            chrom,
            length,
            summary,
            items,
            zoom_counts,
        }
    }
}

impl BigWigZoomsProcess {
fn create(internal_data: ZoomsInternalProcessData) -> (r: Self)
    ensures
        
        zi_all_fresh(r.zoom_items@, internal_data.1@),
        
        r.chrom_id == internal_data.2,
        
        r.temp_zoom_items == internal_data.0, r.options == internal_data.3, r.runtime == internal_data.4,
{
        let ZoomsInternalProcessData(temp_zoom_items, zooms_channels, chrom_id, options, runtime) =
            internal_data;

        let zoom_items: Vec<ZoomItem> = { let mut src__ = zooms_channels; let ghost src0__ = src__@; let mut out__ = Vec::new(); while src__.len() > 0 
            invariant
                
                out__@.len() <= src0__.len(),
                src__@ == src0__.subrange(out__@.len() as int, src0__.len() as int),
                
                forall|k: int| 0 <= k < out__@.len() ==> zi_fresh(#[trigger] out__@[k], src0__[k]),
            decreases
                
                src__@.len(),
{ let (size, channel) = src__.remove(0); out__.push(ZoomItem {
                size,
                live_info: None,
                records: Vec::with_capacity(options.items_per_slot as usize),
                channel,
            }); } out__ };

        BigWigZoomsProcess {
            temp_zoom_items,
            chrom_id,
            options,
            runtime,
            zoom_items,
        }
    }
}
} // mod bw

// =====================================================================================
pub mod bb {
use super::*;

pub struct ZoomItem {
pub size: u32,
pub live_info: Option<(ZoomRecord, u64)>,
pub overlap: VList,
pub records: Vec<ZoomRecord>,
pub channel: Chan,
}
pub struct EntriesSection {
pub items: Vec<BedEntry>,
pub overlap: VList,
pub zoom_items: Vec<ZoomItem>,
}
pub struct BigBedFullProcess {
pub summary: Option<Summary>,
pub state_val: EntriesSection,
pub total_items: u64,

pub ftx: Chan,
pub chrom_id: u32,
pub options: BBIWriteOptions,
pub runtime: Handle,
pub chrom: String,
pub length: u32,
}
#[derive(Copy, Clone)]
pub struct ZoomCounts {
pub resolution: u64,
pub current_end: u64,
pub counts: u64,
}
pub struct BigBedNoZoomsProcess {
pub ftx: Chan,
pub chrom_id: u32,
pub options: BBIWriteOptions,
pub runtime: Handle,
pub chrom: String,
pub length: u32,

pub summary: Option<Summary>,
pub items: Vec<BedEntry>,
pub overlap: VList,
pub zoom_counts: Vec<ZoomCounts>,
pub total_items: u64,
}
pub struct BigBedZoomsProcess {
pub temp_zoom_items: Vec<TempZoom>,
pub chrom_id: u32,
pub options: BBIWriteOptions,
pub runtime: Handle,

pub zoom_items: Vec<ZoomItem>,
}

/// a fresh zoom accumulator for channel c: c's size, no open record, empty sweep list, no pending records, c's channel
pub open spec fn zi_fresh(z: ZoomItem, c: (u32, Chan)) -> bool {
    z.size == c.0 && z.channel == c.1 && z.live_info.is_none() && z.overlap@.len() == 0 && z.records@.len() == 0
}
pub open spec fn zi_all_fresh(r: Seq<ZoomItem>, src: Seq<(u32, Chan)>) -> bool {
    r.len() == src.len() && forall|k: int| 0 <= k < r.len() ==> zi_fresh(#[trigger] r[k], src[k])
}
pub open spec fn zc_fresh(length: u32, z: ZoomCounts, k: int) -> bool {
    z.resolution as int == res_at(k as nat) && z.current_end == 0 && z.counts == 0 && res_in(length, res_at(k as nat))
}
pub open spec fn zc_all_fresh(length: u32, r: Seq<ZoomCounts>) -> bool {
    &&& forall|k: int| 0 <= k < r.len() ==> zc_fresh(length, #[trigger] r[k], k)
    &&& !res_in(length, res_at(r.len()))
}

impl BigBedFullProcess {
fn create(internal_data: InternalProcessData) -> (r: Self)
    ensures
        
        r.summary.is_none(),
        
        r.total_items == 0,
        
        r.state_val.items@.len() == 0, r.state_val.overlap@.len() == 0,
        
        zi_all_fresh(r.state_val.zoom_items@, internal_data.0@),
        
        r.chrom_id == internal_data.2,
        
        r.length == internal_data.6,
        
        r.options == internal_data.3, r.ftx == internal_data.1, r.runtime == internal_data.4, r.chrom == internal_data.5,
{
        let InternalProcessData(zooms_channels, ftx, chrom_id, options, runtime, chrom, length) =
            internal_data;

        let summary: Option<Summary> = None;

        let zoom_items = { let mut src__ = zooms_channels; let ghost src0__ = src__@; let mut out__ = Vec::new(); while src__.len() > 0 
            invariant
                
                out__@.len() <= src0__.len(),
                src__@ == src0__.subrange(out__@.len() as int, src0__.len() as int),
                
                forall|k: int| 0 <= k < out__@.len() ==> zi_fresh(#[trigger] out__@[k], src0__[k]),
            decreases
                
                src__@.len(),
{ let (size, channel) = src__.remove(0); out__.push(ZoomItem {
                size,
                live_info: None,
                overlap: VList::new(),
                records: Vec::with_capacity(options.items_per_slot as usize),
                channel,
            }); } out__ };
        let state_val = EntriesSection {
            zoom_items,
            items: Vec::with_capacity(options.items_per_slot as usize),
            overlap: VList::new(),
        };
        let total_items = 0;
        BigBedFullProcess {
            summary,
            state_val,
            total_items,
            ftx,
            chrom_id,
            options,
            runtime,
            chrom,
            length,
        }
    }
}

impl BigBedNoZoomsProcess {
fn create(internal_data: NoZoomsInternalProcessData) -> (r: Self)
    ensures
        
        r.summary.is_none(),
        
        r.total_items == 0,
        
        r.items@.len() == 0, r.overlap@.len() == 0,
        
        zc_all_fresh(r.length, r.zoom_counts@),
        
        forall|k: int| 0 <= k < r.zoom_counts@.len() ==> 0 < (#[trigger] r.zoom_counts@[k]).resolution <= u64::MAX / 4,
        
        r.chrom_id == internal_data.1,
        
        r.length == internal_data.5,
        
        r.options == internal_data.2, r.ftx == internal_data.0, r.runtime == internal_data.3, r.chrom == internal_data.4,
{
        let NoZoomsInternalProcessData(ftx, chrom_id, options, runtime, chrom, length) =
            internal_data;

        let summary = None;

        let items: Vec<BedEntry> = Vec::with_capacity(options.items_per_slot as usize);
        let zoom_counts: Vec<ZoomCounts> = { let mut out__: Vec<ZoomCounts> = Vec::new(); let mut next__: Option<u64> = Some(10); loop 
            invariant_except_break
                
                next__ is Some, next__->Some_0 as int == res_at(out__@.len()), next__->Some_0 >= 10,
                
                next__->Some_0 <= 10 || next__->Some_0 <= 16 * (length as int),
            invariant
                
                forall|k: int| 0 <= k < out__@.len() ==> zc_fresh(length, #[trigger] out__@[k], k) && out__@[k].resolution >= 10,
            ensures
                
                !res_in(length, res_at(out__@.len())),
            decreases
                
                (if next__->Some_0 <= length as int * 4 { length as int * 4 + 1 - next__->Some_0 } else { 0 }),
{ let item__: u64 = match next__ { Some(v__) => v__, None => { break; } }; next__ = { let z = &item__; Some(z * 4) }; if !({ let z = &item__; *z <= u64::MAX / 4 && *z <= length as u64 * 4 }) { break; } out__.push({ let z = item__; ZoomCounts {
                resolution: z,
                current_end: 0,
                counts: 0,
            } }); } out__ };

        BigBedNoZoomsProcess {
            ftx,
            chrom_id,
            options,
            runtime,
            chrom,
            length,
            summary,
            items,
            overlap: VList::new(),
            zoom_counts,
            total_items: 0,
        }
    }
}

impl BigBedZoomsProcess {
fn create(internal_data: ZoomsInternalProcessData) -> (r: Self)
    ensures
        
        zi_all_fresh(r.zoom_items@, internal_data.1@),
        
        r.chrom_id == internal_data.2,
        
        r.temp_zoom_items == internal_data.0, r.options == internal_data.3, r.runtime == internal_data.4,
{
        let ZoomsInternalProcessData(temp_zoom_items, zooms_channels, chrom_id, options, runtime) =
            internal_data;

        let zoom_items: Vec<ZoomItem> = { let mut src__ = zooms_channels; let ghost src0__ = src__@; let mut out__ = Vec::new(); while src__.len() > 0 
            invariant
                
                out__@.len() <= src0__.len(),
                src__@ == src0__.subrange(out__@.len() as int, src0__.len() as int),
                
                forall|k: int| 0 <= k < out__@.len() ==> zi_fresh(#[trigger] out__@[k], src0__[k]),
            decreases
                
                src__@.len(),
{ let (size, channel) = src__.remove(0); out__.push(ZoomItem {
                size,
                live_info: None,
                overlap: VList::new(),
                records: Vec::with_capacity(options.items_per_slot as usize),
                channel,
            }); } out__ };

        BigBedZoomsProcess {
            temp_zoom_items,
            chrom_id,
            options,
            runtime,
            zoom_items,
        }
    }
}
} // mod bb

} // verus!
fn main() {}

