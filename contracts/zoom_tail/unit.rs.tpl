//@unit zoom_tail
//@serves C07 C08 C09
//@backend verus
// bbiwrite::write_zoom_vals (two-pass zoom writing): the parts that units zoom_sizes (level list at the top) and
// sec_offsets (the two offset-rebasing closures `sections_iter`, `sections_iter#2`) do NOT cover:
//   (a) `level_task`   -- the body of the per-level task `runtime.spawn(async move { .. })` (R1: sequentialised)
//   (b) `advance`      -- the closure that routes each InternalTempZoomInfo of a finished chromosome to the sender
//                         of ITS resolution
//   (c) `zoom_tail`    -- from `let mut zoom_entries = ..` to `Ok((file, zoom_entries, max_uncompressed_buf_size))`:
//                         file layout [level0 data][level0 index][level1 data][level1 index].., one ZoomHeader per
//                         level with the positions where that level's bytes / index REALLY start, the maximum
//                         uncompressed block size over ALL levels including the first.
// C07/C08: each level's records reach that level's index; C09: header fields, offsets and counts are consistent,
// the advertised buffer covers every block.
// Rule R1: `async`/`.await` stripped, bodies run to completion; concurrency/blocking NOT modelled (NOTES.md).
use vstd::prelude::*;
verus! {

// =====================================================================================
// shims (R11): assumed contracts
// =====================================================================================
#[verifier::external_body]
pub struct IoErr { _p: u8 }
#[verifier::external_body]
pub struct SrcErr { _p: u8 }
pub trait HasBytes: Sized {
    spec fn bytes(&self) -> Seq<u8>;
}
/// BufWriter<W>: the output file.  `tell()` (utils::tell::Tell = stream_position): ASSUMED to return the number of
/// bytes accepted so far and to change nothing.
#[verifier::external_body]
pub struct OutFile { _p: u8 }
impl HasBytes for OutFile { uninterp spec fn bytes(&self) -> Seq<u8>; }
impl OutFile {
    #[verifier::external_body]
    pub fn tell(&mut self) -> (r: Result<u64, IoErr>)
        ensures final(self).bytes() == old(self).bytes(), r matches Ok(p) ==> p as int == old(self).bytes().len(),
    { unimplemented!() }
}
/// TempFileBufferWriter<BufWriter<W>>: the producer half of one level's staging file
#[verifier::external_body]
pub struct LevelFile { _p: u8 }
impl HasBytes for LevelFile { uninterp spec fn bytes(&self) -> Seq<u8>; }
impl LevelFile { pub uninterp spec fn cid(&self) -> int; }

/// tokio JoinHandle<Result<(usize, usize), ProcessDataError>> of one chromosome's `write_data` task for one level
#[verifier::external_body]
pub struct WriteHandle { _p: u8 }
impl WriteHandle {
    pub uninterp spec fn cid(&self) -> int;
    pub uninterp spec fn result(&self) -> Result<(usize, usize), ProcessDataError>;
    /// `handle.await.unwrap()`: a PANICKED task makes `.unwrap()` panic (JoinError) -- not modelled
    #[verifier::external_body]
    pub fn unwrap(self) -> (r: Result<(usize, usize), ProcessDataError>) ensures r == self.result() { unimplemented!() }
}
#[verifier::external_body]
pub struct SecRecv { _p: u8 }
#[verifier::external_body]
pub struct SecIter { _p: u8 }
pub uninterp spec fn iter_of(rx: SecRecv) -> SecIter;
impl SecRecv {
    #[verifier::external_body]
    pub fn into_iter(self) -> (r: SecIter) ensures r == iter_of(self) { unimplemented!() }
}

/// TempFileBuffer<R>, consumer half, per unit tfb (same model as unit chrom_pipe): `staged()` = everything the producer
/// has written when it is finished/dropped, `dest()` = destination handed over by `switch`, `done` = ghost set of the
/// channels/levels whose producing task this function has already joined.
///  * switch              = tfb `switch/pre_invariant_and_switch_called_at_most_once`, `switch/destination_handed_over_untouched`
///  * await_real_file     = tfb `await_real_file/pre_published_invariant_and_switched`,
///                          `await_real_file/destination_holds_d0_then_all_written_bytes_once_in_order`
///  * expect_closed_write = tfb `expect_closed_write/pre_published_invariant_and_never_switched`,
///                          `expect_closed_write/out_gets_exactly_the_written_bytes_once_in_order`
#[verifier::external_body]
#[verifier::reject_recursive_types(R)]
pub struct StageBuf<R> { _p: core::marker::PhantomData<R> }
impl<R: HasBytes> StageBuf<R> {
    pub uninterp spec fn cid(&self) -> int;
    pub uninterp spec fn staged(&self) -> Seq<u8>;
    pub uninterp spec fn dest(&self) -> Option<R>;
    #[verifier::external_body]
    pub fn switch(&mut self, new_file: R)
        requires
            [[L: tfb/switch_called_at_most_once]]
            old(self).dest() is None,
        ensures
            final(self).dest() == Some(new_file), final(self).staged() == old(self).staged(), final(self).cid() == old(self).cid(),
    { unimplemented!() }
    #[verifier::external_body]
    pub fn await_real_file(self, Ghost(done): Ghost<Set<int>>) -> (d: R)
        requires
            [[L: tfb/await_real_file_needs_a_switched_buffer]]
            self.dest() is Some,
            [[L: tfb/await_real_file_only_after_the_producing_task_has_finished]]
            done.contains(self.cid()),
        ensures
            d.bytes() == self.dest().unwrap().bytes() + self.staged(),
    { unimplemented!() }
    #[verifier::external_body]
    pub fn expect_closed_write(self, out: &mut OutFile, Ghost(done): Ghost<Set<int>>) -> (r: Result<(), IoErr>)
        requires
            [[L: tfb/expect_closed_write_needs_a_never_switched_buffer]]
            self.dest() is None,
            [[L: tfb/expect_closed_write_only_after_the_producing_task_has_finished]]
            done.contains(self.cid()),
        ensures
            r is Ok ==> final(out).bytes() == old(out).bytes() + self.staged(),
    { unimplemented!() }
}

/// futures mpsc Receiver<M>: a finite queue delivered in send order, `None` when closed and empty (ASSUMED)
#[verifier::external_body]
#[verifier::reject_recursive_types(M)]
pub struct Mailbox<M> { _p: core::marker::PhantomData<M> }
impl<M> Mailbox<M> {
    pub uninterp spec fn queue(&self) -> Seq<M>;
    #[verifier::external_body]
    pub fn next(&mut self) -> (r: Option<M>)
        ensures
            old(self).queue().len() == 0 ==> r.is_none() && final(self).queue() == old(self).queue(),
            old(self).queue().len() > 0 ==> r == Some(old(self).queue()[0]) && final(self).queue() == old(self).queue().drop_first(),
    { unimplemented!() }
    #[verifier::external_body]
    pub fn try_next(&mut self) -> Option<M> { unimplemented!() }
}
/// futures mpsc bounded channel.  ASSUMED futures contract: `channel(buffer)` creates a channel that accepts AT LEAST
/// `buffer` messages without any receiver poll (the real capacity is `buffer + number of senders`); `try_send` appends
/// to the queue and returns Ok whenever fewer than that many messages were ever sent (worst case: NOTHING has been
/// drained -- `sent()` counts every message ever sent; a draining receiver only helps), otherwise it may return
/// Err(Full).  `capacity()` = the `buffer` argument, `cid()` = which channel.  `.unwrap()` on the result is an OBLIGATION.
#[verifier::external_body]
#[verifier::reject_recursive_types(M)]
pub struct ZSender<M> { _p: core::marker::PhantomData<M> }
pub struct SendRes { pub ok: bool }
impl SendRes {
    pub fn unwrap(self)
        requires
            [[L: handoff/try_send_unwrap_cannot_fail_the_channel_has_room]]
            self.ok,
    {}
    pub fn is_ok(&self) -> (r: bool) ensures r == self.ok { self.ok }
}
impl<M> ZSender<M> {
    pub uninterp spec fn sent(&self) -> Seq<M>;
    pub uninterp spec fn capacity(&self) -> int;
    pub uninterp spec fn cid(&self) -> int;
    #[verifier::external_body]
    pub fn try_send(&mut self, m: M) -> (r: SendRes)
        ensures
            final(self).capacity() == old(self).capacity(), final(self).cid() == old(self).cid(),
            old(self).sent().len() < old(self).capacity() ==> r.ok,
            r.ok ==> final(self).sent() == old(self).sent().push(m),
            !r.ok ==> final(self).sent() == old(self).sent(),
    { unimplemented!() }
}
impl<M> Mailbox<M> { pub uninterp spec fn cid(&self) -> int; }
/// futures_mpsc::channel(buffer)
#[verifier::external_body]
pub fn channel<M>(buffer: usize) -> (r: (ZSender<M>, Mailbox<M>))
    ensures r.0.capacity() == buffer as int, r.0.sent().len() == 0, r.0.cid() == r.1.cid(),
{ unimplemented!() }
/// `X.unwrap()` / `X.expect(..)` on the Options the code unwraps: verified helpers with a labelled precondition
fn level_present<T>(o: Option<T>) -> (r: T)
    requires
        [[L: unwrap/there_is_a_sender_for_the_resolution]]
        o is Some,
    ensures o == Some(r),
{ o.unwrap() }
fn first_level<T>(o: Option<T>) -> (r: T)
    requires
        [[L: expect/there_is_at_least_one_level]]
        o is Some,
    ensures o == Some(r),
{ o.unwrap() }
/// `drop(x)`
fn vdrop<T>(_x: T) {}

// =====================================================================================
// the repository's types
// =====================================================================================
//@extract enum bigtools/src/bbi/bbiwrite.rs InputSortType
//@rule R8
//@end
//@extract struct bigtools/src/bbi/bbiwrite.rs BBIWriteOptions
//@rule R8
//@sub /#\[derive\(Clone\)\]\n/ => ""
//@end
//@extract struct bigtools/src/bbi.rs ZoomHeader
//@rule R8
//@end
//@extract enum bigtools/src/bbi/bbiwrite.rs ProcessDataError
//@rule R8
//@sub /[ \t]*#\[error\([^\n]*\)\]\n/ => "" min=0
//@sub /#\[from\] io::Error/ => IoErr min=0
//@end
//@extract enum bigtools/src/bbi/bbiwrite.rs BBIProcessError
//@rule R8
//@sub /[ \t]*#\[error\([^\n]*\)\]\n/ => "" min=0
//@sub /#\[from\] io::Error/ => IoErr min=0
//@sub /<SourceError: Error>/ => "" min=1
//@sub /SourceError\(SourceError\)/ => SourceError(SrcErr) min=1
//@end
/// the conversions behind `?` (the repository's `From<ProcessDataError>` impl and thiserror's `#[from] io::Error`):
/// the converted VALUE is not modelled (Verus loses it anyway), only that an error stays an error
impl From<ProcessDataError> for BBIProcessError { #[verifier::external_body] fn from(value: ProcessDataError) -> BBIProcessError { unimplemented!() } }
impl From<IoErr> for BBIProcessError { #[verifier::external_body] fn from(value: IoErr) -> BBIProcessError { unimplemented!() } }
// the message a level task receives = the element type of `ZoomSender`
//@extract type bigtools/src/bbi/bbiwrite.rs ZoomSender
//@sub /type ZoomSender<W, E> = futures_mpsc::Sender<\(/ => pub type ZMsg = ( min=1
//@sub /\)>;/ => ); min=1
//@sub /tokio::task::JoinHandle<Result<\(usize, usize\), E>>/ => WriteHandle min=1
//@sub /TempFileBuffer<TempFileBufferWriter<BufWriter<W>>>/ => StageBuf<LevelFile> min=1
//@sub /crossbeam_channel::Receiver<Section>/ => SecRecv min=1
//@end
//@extract struct bigtools/src/bbi/bbiwrite.rs InternalTempZoomInfo
//@rule R8
//@sub /<W: Write \+ Send \+ Seek \+ 'static>/ => "" min=1
//@sub /tokio::task::JoinHandle<Result<\(usize, usize\), ProcessDataError>>/ => WriteHandle
//@sub /TempFileBuffer<TempFileBufferWriter<BufWriter<W>>>/ => StageBuf<LevelFile>
//@sub /crossbeam_channel::Receiver<Section>/ => SecRecv
//@end
//@extract struct bigtools/src/bbi/bbiwrite.rs ZoomsInternalProcessedData
//@rule R8
//@sub /<W: Write \+ Seek \+ Send \+ 'static>/ => "" min=1
//@sub /InternalTempZoomInfo<W>/ => InternalTempZoomInfo min=1
//@end

pub open spec fn imax(a: int, b: int) -> int { if a >= b { a } else { b } }

// =====================================================================================
// (a) the per-level task
// =====================================================================================
pub open spec fn zmsg_pre(m: ZMsg) -> bool { m.1.dest() is None && m.1.cid() == m.0.cid() }
pub open spec fn t_all_ok(q: Seq<ZMsg>, n: int) -> bool { forall|k: int| 0 <= k < n ==> (#[trigger] q[k]).0.result() is Ok }
pub open spec fn t_max(q: Seq<ZMsg>, n: int) -> int
    decreases n
{ if n <= 0 { 0 } else { imax(t_max(q, n - 1), q[n - 1].0.result()->Ok_0.1 as int) } }
pub open spec fn t_cat(q: Seq<ZMsg>, n: int) -> Seq<u8>
    decreases n
{ if n <= 0 { Seq::empty() } else { t_cat(q, n - 1) + q[n - 1].1.staged() } }
/// first chromosome whose write task failed, or n
pub open spec fn t_first_bad(q: Seq<ZMsg>, n: int) -> int
    decreases n
{ if n <= 0 { 0 } else { let f = t_first_bad(q, n - 1); if f < n - 1 { f } else if q[n - 1].0.result() is Ok { n } else { n - 1 } } }
pub proof fn lemma_first_bad(q: Seq<ZMsg>, i: int, n: int)
    requires 0 <= i < n, t_first_bad(q, i) == i,
    ensures !(q[i].0.result() is Ok) ==> t_first_bad(q, n) == i, q[i].0.result() is Ok ==> t_first_bad(q, i + 1) == i + 1,
    decreases n - i,
{ if n > i + 1 { lemma_first_bad(q, i, n - 1); } }

// Carve-out: `let mut sections = vec![];` + the body of `runtime.spawn(async move { .. })`; the captured `rcv`
// (one element of `zoom_receivers`: (size, receiver, level writer)) becomes the parameter.
#[verifier::loop_isolation(false)]
//@extract fn bigtools/src/bbi/bbiwrite.rs write_zoom_vals
//@rule R16
//@presub /\A.*?\n[ \t]*(let mut sections = vec!\[\];)\s*let handle = runtime\.spawn\(async move \{\n(.*?)\n        \}\);.*\Z/ => fn level_task(rcv: (u32, Mailbox<ZMsg>, LevelFile)) -> Result<(LevelFile, Vec<SecIter>, usize), ProcessDataError> {\n        \1\n\2\n} min=1 count=1
//@rule R1
//@sub /let mut max_uncompressed_buf_size = 0;/ => let mut max_uncompressed_buf_size: usize = 0; min=0
//@sub /while let Some\(r\) = rcv\.next\(\) \{/ => loop { let r = match rcv.next() { Some(x) => x, None => break }; min=0
//@sub /\.await_real_file\(\)/ => .await_real_file(Ghost(done__)) min=0
//@ret r
//@sig
    requires
        [[L: task/pre_every_message_is_a_fresh_buffer_with_its_write_handle]]
        forall|k: int| 0 <= k < rcv.1.queue().len() ==> zmsg_pre(#[trigger] rcv.1.queue()[k]),
    ensures
        [[L: task/ok_iff_every_write_task_of_this_level_ok]]
        r is Ok <==> t_all_ok(rcv.1.queue(), rcv.1.queue().len() as int),
        [[L: task/error_of_the_first_failing_write_task_is_returned_at_once]]
        r matches Err(e) ==> t_first_bad(rcv.1.queue(), rcv.1.queue().len() as int) < rcv.1.queue().len()
            && rcv.1.queue()[t_first_bad(rcv.1.queue(), rcv.1.queue().len() as int)].0.result() == Err::<(usize, usize), ProcessDataError>(e),
        [[L: task/level_file_gets_every_chromosomes_staged_bytes_in_order]]
        r matches Ok(t) ==> t.0.bytes() == rcv.2.bytes() + t_cat(rcv.1.queue(), rcv.1.queue().len() as int),
        [[L: task/one_section_list_per_chromosome_in_order]]
        r matches Ok(t) ==> t.1@.len() == rcv.1.queue().len()
            && forall|k: int| 0 <= k < rcv.1.queue().len() ==> t.1@[k] == iter_of(rcv.1.queue()[k].2),
        [[L: task/max_uncompressed_size_over_all_chromosomes_of_this_level]]
        r matches Ok(t) ==> t.2 as int == t_max(rcv.1.queue(), rcv.1.queue().len() as int),
//@open
    let ghost q = rcv.1.queue();
    let ghost n = q.len() as int;
    let ghost f0 = rcv.2.bytes();
    let ghost mut i: int = 0;
    let ghost mut done__: Set<int> = Set::empty();
//@loop 1
        invariant
            [[L: task/loop/progress]]
            0 <= i <= n, rcv.queue() == q.subrange(i, n),
            [[L: task/loop/chromosomes_so_far]]
            t_all_ok(q, i), t_first_bad(q, i) == i,
            real_file.bytes() == f0 + t_cat(q, i),
            sections@.len() == i,
            forall|k: int| 0 <= k < i ==> sections@[k] == iter_of(q[k].2),
            max_uncompressed_buf_size as int == t_max(q, i),
        decreases
            [[L: task/loop/termination]]
            n - i,
//@at /rcv\.next\(\)/ after
                proof {
                    if i < n {
                        assert(q.subrange(i, n)[0] == q[i]);
                        assert(q.subrange(i, n).drop_first() =~= q.subrange(i + 1, n));
                        lemma_first_bad(q, i, n);
                    }
                }
//@at /data_write_data\.unwrap\(\)/ before
                let ghost h__ = data_write_data.cid();
                proof { done__ = done__.insert(h__); }
//@loopend 1
                proof {
                    i = i + 1;
                    [[L: task/loop/step/level_file_got_this_chromosomes_staged_bytes]]
                    assert(real_file.bytes() =~= f0 + t_cat(q, i));
                }
//@end

// =====================================================================================
// (b) advance: route each zoom info of a finished chromosome to the sender of ITS resolution
// =====================================================================================
/// BTreeMap<u32, ZoomSender>: ghost `view(): Map<u32, ZSender<ZMsg>>`; get_mut as in unit chrom_pipe (ASSUMED)
#[verifier::external_body]
pub struct SMap { _p: u8 }
impl SMap {
    pub uninterp spec fn view(&self) -> Map<u32, ZSender<ZMsg>>;
    #[verifier::external_body]
    pub fn get_mut(&mut self, k: &u32) -> (r: Option<&mut ZSender<ZMsg>>)
        ensures
            r.is_some() == old(self)@.dom().contains(*k),
            r.is_some() ==> *r.unwrap() == old(self)@[*k] && final(self)@ == old(self)@.insert(*k, *final(r.unwrap())),
            r.is_none() ==> final(self)@ == old(self)@,
    { unimplemented!() }
    /// BTreeMap::new / insert (ASSUMED): empty; insert stores v under k (replacing an earlier entry)
    #[verifier::external_body]
    pub fn new() -> (r: SMap) ensures r@ == Map::<u32, ZSender<ZMsg>>::empty() { unimplemented!() }
    #[verifier::external_body]
    pub fn insert(&mut self, k: u32, v: ZSender<ZMsg>) -> (r: Option<ZSender<ZMsg>>) ensures final(self)@ == old(self)@.insert(k, v) { unimplemented!() }
    #[verifier::external_body]
    pub fn first_key_value(&self) -> Option<(&u32, &ZSender<ZMsg>)> { unimplemented!() }
    #[verifier::external_body]
    pub fn len(&self) -> usize { unimplemented!() }
}
/// `P: BBIDataProcessorCreate<Out = ZoomsInternalProcessedData<W>>`: `destroy` hands back the zoom infos (ghost `out()`)
#[verifier::external_body]
pub struct ProcZ { _p: u8 }
impl ProcZ {
    pub uninterp spec fn out(&self) -> ZoomsInternalProcessedData;
    #[verifier::external_body]
    pub fn destroy(self) -> (r: ZoomsInternalProcessedData) ensures r == self.out() { unimplemented!() }
}
pub open spec fn zidx(zs: Seq<InternalTempZoomInfo>, r: u32) -> int {
    choose|j: int| 0 <= j < zs.len() && zs[j].resolution == r
}
pub open spec fn zdistinct(zs: Seq<InternalTempZoomInfo>) -> bool {
    forall|a: int, b: int| 0 <= a < b < zs.len() ==> zs[a].resolution != zs[b].resolution
}
/// the zoom infos carry EXACTLY the map's resolutions, each once (unit chrom_ids `zoom_pass/one_zoom_channel_per_zoom_size..`
/// with the strictly increasing level list of unit zoom_sizes; key set of the map: the construction loop, ASSUMED)
pub open spec fn infos_pre(zs: Seq<InternalTempZoomInfo>, dom: Set<u32>) -> bool {
    &&& forall|j: int| 0 <= j < zs.len() ==> dom.contains((#[trigger] zs[j]).resolution)
    &&& zdistinct(zs)
    &&& forall|r: u32| dom.contains(r) ==> 0 <= zidx(zs, r) < zs.len() && zs[zidx(zs, r)].resolution == r
}
pub open spec fn msg_of(z: InternalTempZoomInfo) -> ZMsg { (z.data_write_future, z.data, z.sections) }
pub proof fn lemma_zidx(zs: Seq<InternalTempZoomInfo>, j: int)
    requires zdistinct(zs), 0 <= j < zs.len(),
    ensures zidx(zs, zs[j].resolution) == j,
{
    let k = zidx(zs, zs[j].resolution);
    assert(0 <= k < zs.len() && zs[k].resolution == zs[j].resolution);
    if k < j { assert(zs[k].resolution != zs[j].resolution); }
    if j < k { assert(zs[j].resolution != zs[k].resolution); }
}

#[verifier::loop_isolation(false)]
//@extract closure bigtools/src/bbi/bbiwrite.rs write_zoom_vals advance
//@rule R16
//@header fn advance_zoom_vals(p: ProcZ, zooms_map: &mut SMap)
//@sub /for (InternalTempZoomInfo \{[^{}]*\})\s+in zooms\.into_iter\(\)\s*\{/ => let mut src__ = zooms; while src__.len() > 0 { let \1 = src__.remove(0); min=0
//@sub /(zooms_map\.get_mut\([^()]*\))\.unwrap\(\)/ => level_present(\1) min=0
//@sig
    requires
        [[L: advance/pre_the_zoom_infos_carry_exactly_the_maps_resolutions]]
        infos_pre(p.out().0@, old(zooms_map)@.dom()),
        [[L: advance/pre_every_level_channel_has_room_for_one_more_message]]
        forall|x: u32| old(zooms_map)@.dom().contains(x) ==> (#[trigger] old(zooms_map)@[x]).sent().len() < old(zooms_map)@[x].capacity(),
    ensures
        [[L: advance/channels_keep_their_capacity_and_identity]]
        forall|x: u32| old(zooms_map)@.dom().contains(x) ==> (#[trigger] final(zooms_map)@[x]).capacity() == old(zooms_map)@[x].capacity()
            && final(zooms_map)@[x].cid() == old(zooms_map)@[x].cid(),
        [[L: advance/same_levels_in_the_map]]
        final(zooms_map)@.dom() == old(zooms_map)@.dom(),
        [[L: advance/every_level_gets_exactly_the_one_message_built_from_the_zoom_info_of_its_resolution]]
        forall|x: u32| old(zooms_map)@.dom().contains(x) ==>
            (#[trigger] final(zooms_map)@[x]).sent() == old(zooms_map)@[x].sent().push(msg_of(p.out().0@[zidx(p.out().0@, x)])),
//@open
    let ghost zs = p.out().0@;
    let ghost dom = zooms_map@.dom();
    let ghost zm0 = zooms_map@;
    let ghost mut jj: int = 0;
//@loop 1
            invariant
                [[L: advance/loop/zoom_infos_consumed_front_to_back]]
                0 <= jj <= zs.len(), src__@ == zs.subrange(jj, zs.len() as int),
                [[L: advance/loop/each_level_so_far_got_its_own_message_the_others_nothing]]
                zooms_map@.dom() == dom,
                forall|x: u32| dom.contains(x) ==> (#[trigger] zooms_map@[x]).sent()
                    == (if zidx(zs, x) < jj { zm0[x].sent().push(msg_of(zs[zidx(zs, x)])) } else { zm0[x].sent() }),
                forall|x: u32| dom.contains(x) ==> (#[trigger] zooms_map@[x]).capacity() == zm0[x].capacity() && zooms_map@[x].cid() == zm0[x].cid(),
            decreases
                [[L: advance/loop/termination]]
                src__@.len(),
//@at /let zoom = / before
            proof {
                assert(zs.subrange(jj, zs.len() as int)[0] == zs[jj]);
                assert(zs.subrange(jj, zs.len() as int).remove(0) =~= zs.subrange(jj + 1, zs.len() as int));
                lemma_zidx(zs, jj);
            }
            let ghost zmb = zooms_map@;
//@loopend 1
            proof {
                [[L: advance/loop/step/levels_stay_the_same]]
                assert(zooms_map@.dom() =~= dom);
                [[L: advance/loop/step/this_level_got_its_message_the_others_are_untouched]]
                assert forall|x: u32| dom.contains(x) implies (#[trigger] zooms_map@[x]).sent()
                    == (if zidx(zs, x) < jj + 1 { zm0[x].sent().push(msg_of(zs[zidx(zs, x)])) } else { zm0[x].sent() }) by {
                    if x != zs[jj].resolution {
                        assert(zooms_map@[x] == zmb[x]);
                        assert(zidx(zs, x) != jj);
                    }
                }
                [[L: advance/loop/step/channels_keep_their_capacity_and_identity]]
                assert forall|x: u32| dom.contains(x) implies (#[trigger] zooms_map@[x]).capacity() == zm0[x].capacity() && zooms_map@[x].cid() == zm0[x].cid() by {
                    if x != zs[jj].resolution { assert(zooms_map@[x] == zmb[x]); }
                }
                jj = jj + 1;
            }
//@end

// =====================================================================================
// (c) the tail: indexes, zoom directory, maximum
// =====================================================================================
/// tokio JoinHandle of one level task (a): ghost `result()` = what the task returned; `cid()` = which level file
#[verifier::external_body]
pub struct LevelHandle { _p: u8 }
impl LevelHandle {
    pub uninterp spec fn cid(&self) -> int;
    pub uninterp spec fn result(&self) -> Result<(LevelFile, Vec<SecIter>, usize), ProcessDataError>;
}
/// `runtime.block_on(handle)`: Result<T, JoinError>; `.unwrap()` panics on a panicked task (not modelled)
#[verifier::external_body]
pub struct Joined { _p: u8 }
impl Joined {
    pub uninterp spec fn of(&self) -> LevelHandle;
    #[verifier::external_body]
    pub fn unwrap(self) -> (r: Result<(LevelFile, Vec<SecIter>, usize), ProcessDataError>) ensures r == self.of().result() { unimplemented!() }
}
#[verifier::external_body]
pub struct Runtime { _p: u8 }
impl Runtime {
    #[verifier::external_body]
    pub fn block_on(&self, h: LevelHandle) -> (r: Joined) ensures r.of() == h { unimplemented!() }
}
/// vec::IntoIter / Zip / Rev seen through the sequence of items still to come (ASSUMED std behaviour)
#[verifier::external_body]
#[verifier::reject_recursive_types(T)]
pub struct VIter<T> { _p: core::marker::PhantomData<T> }
#[verifier::external_body]
pub fn viter<T>(v: Vec<T>) -> (r: VIter<T>) ensures r.rest() == v@ { unimplemented!() }
impl<T> VIter<T> {
    pub uninterp spec fn rest(&self) -> Seq<T>;
    #[verifier::external_body]
    pub fn zip<U>(self, other: VIter<U>) -> (r: VZip<T, U>)
        ensures r.rest().len() == (if self.rest().len() <= other.rest().len() { self.rest().len() } else { other.rest().len() }),
            forall|k: int| 0 <= k < r.rest().len() ==> (#[trigger] r.rest()[k]) == (self.rest()[k], other.rest()[k]),
    { unimplemented!() }
    #[verifier::external_body]
    pub fn rev(self) -> (r: VIter<T>) ensures r.rest() == self.rest().reverse() { unimplemented!() }
    #[verifier::external_body]
    pub fn next(&mut self) -> (r: Option<T>)
        ensures
            old(self).rest().len() == 0 ==> r.is_none() && final(self).rest() == old(self).rest(),
            old(self).rest().len() > 0 ==> r == Some(old(self).rest()[0]) && final(self).rest() == old(self).rest().drop_first(),
    { unimplemented!() }
}
#[verifier::external_body]
#[verifier::reject_recursive_types(T)]
#[verifier::reject_recursive_types(U)]
pub struct VZip<T, U> { _p: core::marker::PhantomData<(T, U)> }
impl<T, U> VZip<T, U> {
    pub uninterp spec fn rest(&self) -> Seq<(T, U)>;
    #[verifier::external_body]
    pub fn next(&mut self) -> (r: Option<(T, U)>)
        ensures
            old(self).rest().len() == 0 ==> r.is_none() && final(self).rest() == old(self).rest(),
            old(self).rest().len() > 0 ==> r == Some(old(self).rest()[0]) && final(self).rest() == old(self).rest().drop_first(),
    { unimplemented!() }
}
/// `lists.into_iter().flatten()`: the concatenated stream of the section lists (opaque; ghost `lists()`)
#[verifier::external_body]
pub struct SecStream { _p: u8 }
impl SecStream { pub uninterp spec fn lists(&self) -> Seq<SecIter>; }
#[verifier::external_body]
pub fn flatten_lists(v: Vec<SecIter>) -> (r: SecStream) ensures r.lists() == v@ { unimplemented!() }
/// `stream.map(|mut section| { section.offset = current_offset; current_offset += section.size; section })` with the
/// captured `current_offset`: the closure BODY is under contract in unit sec_offsets (`rebase_zoom_vals_first/*`,
/// `rebase_zoom_vals_later/*`: offsets are the running position starting at the captured value).  Here it is a
/// logged shim: WHICH stream and WHICH start offset.
#[verifier::external_body]
pub struct Rebased { _p: u8 }
impl Rebased { pub uninterp spec fn lists(&self) -> Seq<SecIter>; pub uninterp spec fn base(&self) -> int; }
#[verifier::external_body]
pub fn rebase_from(s: SecStream, start: u64) -> (r: Rebased) ensures r.lists() == s.lists(), r.base() == start as int { unimplemented!() }
/// get_rtreeindex / write_rtreeindex (units rt_build / rt_layout / rt_nodes own them): logged shims.  The nodes
/// remember what they were built from; write_rtreeindex appends an opaque index image -- a function of exactly the
/// arguments it was given -- at the current end of the file.
#[verifier::external_body]
pub struct IndexNodes { _p: u8 }
impl IndexNodes { pub uninterp spec fn lists(&self) -> Seq<SecIter>; pub uninterp spec fn base(&self) -> int; pub uninterp spec fn opts(&self) -> BBIWriteOptions; }
pub uninterp spec fn levels_of(lists: Seq<SecIter>, base: int, opts: BBIWriteOptions) -> usize;
pub uninterp spec fn total_of(lists: Seq<SecIter>, base: int, opts: BBIWriteOptions) -> u64;
pub uninterp spec fn idx_image(lists: Seq<SecIter>, base: int, built_with: BBIWriteOptions, levels: usize, count: u64, written_with: BBIWriteOptions) -> Seq<u8>;
#[verifier::external_body]
pub fn get_rtreeindex(sections_stream: Rebased, options: &BBIWriteOptions) -> (r: (IndexNodes, usize, u64))
    ensures r.0.lists() == sections_stream.lists(), r.0.base() == sections_stream.base(), r.0.opts() == *options,
        r.1 == levels_of(sections_stream.lists(), sections_stream.base(), *options),
        r.2 == total_of(sections_stream.lists(), sections_stream.base(), *options),
{ unimplemented!() }
#[verifier::external_body]
pub fn write_rtreeindex(file: &mut OutFile, nodes: IndexNodes, levels: usize, section_count: u64, options: &BBIWriteOptions) -> (r: Result<(), IoErr>)
    ensures r is Ok ==> final(file).bytes() == old(file).bytes() + idx_image(nodes.lists(), nodes.base(), nodes.opts(), levels, section_count, *options),
{ unimplemented!() }

/// the index of a level whose own section lists are `lists`, rebased to start at `base`
pub open spec fn level_index(lists: Seq<SecIter>, base: int, o: BBIWriteOptions) -> Seq<u8> {
    idx_image(lists, base, o, levels_of(lists, base, o), total_of(lists, base, o), o)
}
pub open spec fn lists_of(h: LevelHandle) -> Seq<SecIter> { h.result()->Ok_0.1@ }
/// file contents after the first n levels: [level0 data][level0 index] .. [level n-1 data][level n-1 index]
pub open spec fn body(base: Seq<u8>, hs: Seq<LevelHandle>, fs: Seq<(u32, StageBuf<OutFile>)>, n: int, o: BBIWriteOptions) -> Seq<u8>
    decreases n
{
    if n <= 0 { base } else {
        let b = body(base, hs, fs, n - 1, o);
        b + fs[n - 1].1.staged() + level_index(lists_of(hs[n - 1]), b.len() as int, o)
    }
}
/// the directory entry of level k: its size, where its data really starts, where its index really starts
pub open spec fn entry_ok(e: ZoomHeader, base: Seq<u8>, hs: Seq<LevelHandle>, fs: Seq<(u32, StageBuf<OutFile>)>, k: int, o: BBIWriteOptions) -> bool {
    &&& e.reduction_level == fs[k].0
    &&& e.data_offset as int == body(base, hs, fs, k, o).len()
    &&& e.index_offset as int == body(base, hs, fs, k, o).len() + fs[k].1.staged().len()
    &&& e.index_tree_offset is None
}
pub open spec fn lv_max(hs: Seq<LevelHandle>, n: int) -> int
    decreases n
{ if n <= 0 { 0 } else { imax(lv_max(hs, n - 1), hs[n - 1].result()->Ok_0.2 as int) } }
pub open spec fn lv_all_ok(hs: Seq<LevelHandle>, n: int) -> bool { forall|k: int| 0 <= k < n ==> (#[trigger] hs[k]).result() is Ok }

// Carve-out: everything from `let mut zoom_entries` to the end of write_zoom_vals.  `file` is a moved-out variable at
// that point (it went into `first.1.switch(file)`): it is declared without a value and first assigned by the code
// (`file = first_data.1.await_real_file();`).
#[verifier::loop_isolation(false)]
//@extract fn bigtools/src/bbi/bbiwrite.rs write_zoom_vals
//@rule R16
//@presub /\A.*?\n(    let mut zoom_entries = Vec::with_capacity\(zooms\.len\(\)\);.*)\n\}\s*\Z/ => fn zoom_tail(zooms: Vec<LevelHandle>, zoom_files: Vec<(u32, StageBuf<OutFile>)>, first_zoom_data_offset: u64, mut max_uncompressed_buf_size: usize, runtime: &Runtime, options: BBIWriteOptions) -> Result<(OutFile, Vec<ZoomHeader>, usize), BBIProcessError> {\n    let mut file: OutFile;\n\1\n} min=1 count=1
//@sub /(\w+(?:\.\d+)?)\.into_iter\(\)\.flatten\(\)/ => flatten_lists(\1) min=0
//@sub /\b(zooms|zoom_files)\.into_iter\(\)/ => viter(\1) min=0
//@sub /zip\.next\(\)\.expect\("[^"]*"\)/ => first_level(zip.next()) min=0
//@sub /while let Some\(zoom\) = zip\.next\(\) \{/ => loop { let zoom = match zip.next() { Some(x) => x, None => break }; min=0
//@sub /\bdrop\(/ => vdrop( min=0
//@sub /let sections_iter = (\w+)\.map\(\|mut section\| \{.*?\n\s*\}\);/ => let sections_iter = rebase_from(\1, current_offset); min=0
//@sub /\.await_real_file\(\)/ => .await_real_file(Ghost(done__)) min=0
//@sub /\.expect_closed_write\(&mut file\)/ => .expect_closed_write(&mut file, Ghost(done__)) min=0
//@ret r
//@sig
    requires
        [[L: tail/pre_one_task_handle_and_one_staging_file_per_level_at_least_one]]
        zooms@.len() == zoom_files@.len(), zooms@.len() >= 1,
        forall|k: int| 0 <= k < zooms@.len() ==> (#[trigger] zoom_files@[k]).1.cid() == zooms@[k].cid(),
        [[L: tail/pre_first_level_was_switched_to_the_file_at_first_zoom_data_offset_the_others_never]]
        zoom_files@[0].1.dest() matches Some(f0) && f0.bytes().len() == first_zoom_data_offset as int,
        forall|k: int| 1 <= k < zoom_files@.len() ==> (#[trigger] zoom_files@[k]).1.dest() is None,
    ensures
        [[L: tail/error_of_any_level_task_propagates]]
        r is Ok ==> lv_all_ok(zooms@, zooms@.len() as int),
        [[L: tail/file_is_level_data_then_level_index_for_every_level_in_order_each_index_built_from_that_levels_own_list_rebased_to_its_data_offset]]
        r matches Ok(t) ==> t.0.bytes() == body(zoom_files@[0].1.dest().unwrap().bytes(), zooms@, zoom_files@, zooms@.len() as int, options),
        [[L: tail/one_directory_entry_per_level_in_level_order_with_the_real_data_and_index_positions]]
        r matches Ok(t) ==> t.1@.len() == zooms@.len() && forall|k: int| 0 <= k < zooms@.len() ==>
            entry_ok(#[trigger] t.1@[k], zoom_files@[0].1.dest().unwrap().bytes(), zooms@, zoom_files@, k, options),
        [[L: tail/advertised_buffer_is_the_maximum_over_all_levels_including_the_first]]
        r matches Ok(t) ==> t.2 as int == imax(max_uncompressed_buf_size as int, lv_max(zooms@, zooms@.len() as int)),
//@open
    let ghost hs = zooms@;
    let ghost fs = zoom_files@;
    let ghost nl = hs.len() as int;
    let ghost base = zoom_files@[0].1.dest().unwrap().bytes();
    let ghost mx0 = max_uncompressed_buf_size as int;
    let ghost o = options;
    let ghost mut i: int = 1;
    let ghost mut done__: Set<int> = Set::empty();
    let ghost mut zipped: Seq<(LevelHandle, (u32, StageBuf<OutFile>))> = Seq::empty();
//@at /let \(first_zoom_fut, first_data\) = / before
    proof {
        zipped = zip.rest();
        [[L: tail/every_level_task_is_paired_with_its_own_staging_file_in_level_order]]
        assert(zipped.len() == nl && forall|k: int| 0 <= k < nl ==> (#[trigger] zipped[k]) == (hs[k], fs[k]));
    }
//@at /let first_zoom = runtime\.block_on/ before
    let ghost h0__ = first_zoom_fut.cid();
//@at /let first_zoom = runtime\.block_on/ after
    proof { done__ = done__.insert(h0__); }
//@at /zoom_entries\.push\(ZoomHeader \{/ nth=1 before
    proof {
        assert(body(base, hs, fs, 0, o) == base);
        assert(lv_max(hs, 0) == 0);
        [[L: tail/first_level/file_is_the_first_levels_data_then_its_index]]
        assert(file.bytes() =~= body(base, hs, fs, 1, o));
        [[L: tail/first_level/maximum_includes_the_first_level]]
        assert(max_uncompressed_buf_size as int == imax(mx0, lv_max(hs, 1)));
    }
//@loop 1
        invariant
            [[L: tail/loop/progress]]
            1 <= i <= nl, zip.rest() == zipped.subrange(i, nl),
            [[L: tail/loop/levels_so_far]]
            lv_all_ok(hs, i),
            file.bytes() == body(base, hs, fs, i, o),
            zoom_entries@.len() == i,
            forall|k: int| 0 <= k < i ==> entry_ok(#[trigger] zoom_entries@[k], base, hs, fs, k, o),
            max_uncompressed_buf_size as int == imax(mx0, lv_max(hs, i)),
        decreases
            [[L: tail/loop/termination]]
            nl - i,
//@at /let zoom = match zip\.next\(\)/ after
        proof {
            if i < nl {
                assert(zipped.subrange(i, nl)[0] == zipped[i]);
                assert(zipped.subrange(i, nl).drop_first() =~= zipped.subrange(i + 1, nl));
                assert(zipped[i] == (hs[i], fs[i]));
            }
        }
//@at /runtime\.block_on\(zoom_fut\)/ before
        let ghost hi__ = zoom_fut.cid();
//@at /runtime\.block_on\(zoom_fut\)/ after
        proof { done__ = done__.insert(hi__); }
//@loopend 1
        proof {
            [[L: tail/loop/step/file_got_this_levels_data_then_its_index]]
            assert(file.bytes() =~= body(base, hs, fs, i + 1, o));
            i = i + 1;
        }
//@end

// =====================================================================================
// (d) construction of the levels, spawning of the level tasks, and the hand-off capacity
// =====================================================================================
/// HashMap<String, u32> (chrom name -> id, result of the first pass): only its size is read here
#[verifier::external_body]
pub struct StrMap { _p: u8 }
impl StrMap {
    pub uninterp spec fn count(&self) -> nat;
    #[verifier::external_body]
    pub fn len(&self) -> (r: usize) ensures r as nat == self.count() { unimplemented!() }
}
/// TempFileBuffer::new(inmemory) (tfb `fresh_pair`, ASSUMED): consumer and producer half of ONE fresh staging file
#[verifier::external_body]
pub fn level_staging_new(inmemory: bool) -> (r: (StageBuf<OutFile>, LevelFile))
    ensures r.0.dest() is None, r.0.cid() == r.1.cid(),
{ unimplemented!() }
pub open spec fn strictly_increasing(s: Seq<u32>) -> bool { forall|i: int, j: int| 0 <= i < j < s.len() ==> s[i] < s[j] }
/// level k: receiver triple, staging file and sender all keyed by zooms[k]; the triple's writer and the staging
/// file are the two halves of one file; the triple's receiver and the map's sender are the two ends of one channel
/// whose capacity is `cap` and that is still empty
pub open spec fn level_built(rc: (u32, Mailbox<ZMsg>, LevelFile), f: (u32, StageBuf<OutFile>), m: Map<u32, ZSender<ZMsg>>, size: u32) -> bool {
    &&& rc.0 == size && f.0 == size && m.dom().contains(size)
    &&& f.1.cid() == rc.2.cid() && f.1.dest() is None
    &&& m[size].cid() == rc.1.cid()
}
pub open spec fn chan_fresh(m: Map<u32, ZSender<ZMsg>>, size: u32, cap: int) -> bool {
    m.dom().contains(size) && m[size].capacity() == cap && m[size].sent().len() == 0
}

// Carve-out: from `let mut zoom_receivers = ..` to the closing brace of the construction loop.
#[verifier::loop_isolation(false)]
//@extract fn bigtools/src/bbi/bbiwrite.rs write_zoom_vals
//@rule R16
//@presub /\A.*?\n(    let mut zoom_receivers = Vec::with_capacity\(zooms\.len\(\)\);.*?\n    \})\n\s*let first_zoom_data_offset.*\Z/ => fn build_levels(zooms: &Vec<u32>, options: &BBIWriteOptions, chrom_ids: &StrMap) -> (Vec<(u32, Mailbox<ZMsg>, LevelFile)>, Vec<(u32, StageBuf<OutFile>)>, SMap) {\n\1\n    (zoom_receivers, zoom_files, zooms_map)\n} min=1 count=1
//@sub /BTreeMap<u32, ZoomSender<_, _>> = BTreeMap::new\(\)/ => SMap = SMap::new() min=1
//@sub /for size in zooms\.iter\(\)\.copied\(\) \{/ => let mut j__: usize = 0;\n    while j__ < zooms.len() {\n        let size = zooms[j__]; j__ = j__ + 1; min=0
//@sub /TempFileBuffer::new\(/ => level_staging_new( min=0
//@sub /futures_mpsc::channel\(/ => channel( min=0
//@ret r
//@sig
    requires
        [[L: build/pre_levels_strictly_increasing]]
        strictly_increasing(zooms@),
    ensures
        [[L: build/one_receiver_triple_one_staging_file_and_one_sender_per_level_in_level_order_keyed_by_the_same_size]]
        r.0@.len() == zooms@.len() && r.1@.len() == zooms@.len(),
        forall|k: int| 0 <= k < zooms@.len() ==> level_built(#[trigger] r.0@[k], r.1@[k], r.2@, zooms@[k]),
        [[L: build/the_map_has_exactly_the_levels]]
        forall|x: u32| r.2@.dom().contains(x) <==> zooms@.contains(x),
        [[L: build/capacity_of_every_level_channel_is_the_number_of_chromosome_ids]]
        forall|x: u32| r.2@.dom().contains(x) ==> (#[trigger] r.2@[x]).capacity() == chrom_ids.count() as int && r.2@[x].sent().len() == 0,
//@loop 1
        invariant
            [[L: build/loop/levels_so_far_in_order]]
            j__ <= zooms@.len(), zoom_receivers@.len() == j__, zoom_files@.len() == j__,
            forall|k: int| 0 <= k < j__ ==> level_built(#[trigger] zoom_receivers@[k], zoom_files@[k], zooms_map@, zooms@[k]),
            [[L: build/loop/capacity_of_every_level_channel_so_far_is_the_number_of_chromosome_ids]]
            forall|k: int| 0 <= k < j__ ==> chan_fresh(zooms_map@, #[trigger] zooms@[k], chrom_ids.count() as int),
            [[L: build/loop/map_has_exactly_the_levels_so_far]]
            forall|x: u32| zooms_map@.dom().contains(x) <==> (exists|k: int| 0 <= k < j__ && zooms@[k] == x),
        decreases
            [[L: build/loop/termination]]
            zooms@.len() - j__,
//@at /^\s*\(zoom_receivers, zoom_files, zooms_map\)\s*$/ before
    proof {
        [[L: build/step/the_map_has_exactly_the_levels]]
        assert forall|x: u32| zooms_map@.dom().contains(x) <==> zooms@.contains(x) by {
            if zooms@.contains(x) { let k = choose|k: int| 0 <= k < zooms@.len() && zooms@[k] == x; }
        }
        [[L: build/step/capacity_of_every_level_channel_is_the_number_of_chromosome_ids]]
        assert forall|x: u32| zooms_map@.dom().contains(x) implies (#[trigger] zooms_map@[x]).capacity() == chrom_ids.count() as int && zooms_map@[x].sent().len() == 0 by {
            let k = choose|k: int| 0 <= k < zooms@.len() && zooms@[k] == x;
            assert(chan_fresh(zooms_map@, zooms@[k], chrom_ids.count() as int));
        }
    }
//@end

/// `runtime.spawn(async move { .. })` of the level task (a) with the captured triple: the handle's `cid()` is the
/// staging file of the triple's writer, `task_input()` the triple (what (a) is a function of)
pub uninterp spec fn task_input(h: LevelHandle) -> (u32, Mailbox<ZMsg>, LevelFile);
impl Runtime {
    #[verifier::external_body]
    pub fn spawn_level(&self, rcv: (u32, Mailbox<ZMsg>, LevelFile)) -> (h: LevelHandle)
        ensures h.cid() == rcv.2.cid(), task_input(h) == rcv,
    { unimplemented!() }
}
// Carve-out: `let mut zooms = Vec::with_capacity(..); for rcv in zoom_receivers { .. zooms.push(handle); }`; the task
// body (under contract as `level_task`) is replaced by the logged `spawn_level(rcv)`.
#[verifier::loop_isolation(false)]
//@extract fn bigtools/src/bbi/bbiwrite.rs write_zoom_vals
//@rule R16
//@presub /\A.*?\n(    let mut zooms = Vec::with_capacity\(zoom_receivers\.len\(\)\);\s*for rcv in zoom_receivers \{.*?\n    \})\n\s*vals_iter\.process_to_bbi.*\Z/ => fn spawn_levels(zoom_receivers: Vec<(u32, Mailbox<ZMsg>, LevelFile)>, runtime: &Runtime) -> Vec<LevelHandle> {\n\1\n    zooms\n} min=1 count=1
//@presub /let mut sections = vec!\[\];\s*let handle = runtime\.spawn\(async move \{.*?\n        \}\);/ => let handle = runtime.spawn_level(rcv); min=1 count=1
//@sub /for rcv in zoom_receivers \{/ => let mut src__ = zoom_receivers;\n    while src__.len() > 0 {\n        let rcv = src__.remove(0); min=0
//@ret r
//@sig
    ensures
        [[L: spawn/one_task_per_level_in_level_order_each_with_its_own_triple]]
        r@.len() == zoom_receivers@.len(),
        forall|k: int| 0 <= k < r@.len() ==> task_input(#[trigger] r@[k]) == zoom_receivers@[k] && r@[k].cid() == zoom_receivers@[k].2.cid(),
//@open
    let ghost all = zoom_receivers@;
//@loop 1
        invariant
            [[L: spawn/loop/triples_consumed_front_to_back_one_handle_each]]
            zooms@.len() + src__@.len() == all.len(), src__@ == all.subrange(zooms@.len() as int, all.len() as int),
            forall|k: int| 0 <= k < zooms@.len() ==> task_input(#[trigger] zooms@[k]) == all[k] && zooms@[k].cid() == all[k].2.cid(),
        decreases
            [[L: spawn/loop/termination]]
            src__@.len(),
//@at /let rcv = src__\.remove\(0\);/ before
        proof {
            let a = zooms@.len() as int;
            assert(all.subrange(a, all.len() as int)[0] == all[a]);
            assert(all.subrange(a, all.len() as int).remove(0) =~= all.subrange(a + 1, all.len() as int));
        }
//@end

/// (a)-(d) fit together: what `build_levels` + `spawn_levels` hand to the tail is what the tail requires
fn driver_pairing(zooms: &Vec<u32>, options: &BBIWriteOptions, chrom_ids: &StrMap, runtime: &Runtime) -> (r: (Vec<LevelHandle>, Vec<(u32, StageBuf<OutFile>)>))
    requires strictly_increasing(zooms@),
    ensures
        [[L: pairing/tail_precondition_one_task_handle_and_one_staging_file_per_level_is_established]]
        r.0@.len() == r.1@.len() && r.0@.len() == zooms@.len(),
        forall|k: int| 0 <= k < r.0@.len() ==> (#[trigger] r.1@[k]).1.cid() == r.0@[k].cid() && r.1@[k].0 == zooms@[k] && r.1@[k].1.dest() is None,
{
    let (zoom_receivers, zoom_files, zooms_map) = build_levels(zooms, options, chrom_ids);
    let handles = spawn_levels(zoom_receivers, runtime);
    (handles, zoom_files)
}

/// C13 hand-off: the levels are built, then `advance` runs once per chromosome run -- at most `chrom_ids.len()` runs:
/// since c035b89 the first pass refuses a chromosome that starts a second run, so #runs == #ids for EVERY sort type
/// (unit chrom_ids `driver_chromosome_table/table/one_run_per_chromosome_id`); still assumed: the second pass sees the
/// same chromosome runs as the first (same `make_vals`) -- and NOTHING is ever drained: no
/// `try_send(..).unwrap()` can fail.  Nothing is re-implemented: the driver calls the extracted `build_levels` and
/// `advance_zoom_vals`.
fn driver_handoff(zooms: &Vec<u32>, options: &BBIWriteOptions, chrom_ids: &StrMap, procs: Vec<ProcZ>) -> (r: SMap)
    requires
        strictly_increasing(zooms@),
        procs@.len() <= chrom_ids.count(),
        // every finished chromosome hands back zoom infos that carry exactly the levels (chrom_ids zoom_pass/…)
        forall|k: int| 0 <= k < procs@.len() ==> infos_pre((#[trigger] procs@[k]).out().0@, zooms@.to_set()),
    ensures
        [[L: handoff/every_level_holds_one_message_per_chromosome_run]]
        forall|x: u32| zooms@.contains(x) ==> r@.dom().contains(x) && (#[trigger] r@[x]).sent().len() == procs@.len(),
{
    let (zoom_receivers, zoom_files, zooms_map) = build_levels(zooms, options, chrom_ids);
    let mut zooms_map = zooms_map;
    let mut procs = procs;
    let ghost all = procs@;
    let ghost dom = zooms_map@.dom();
    let ghost cap = chrom_ids.count() as int;
    proof { assert(dom =~= zooms@.to_set()); }
    while procs.len() > 0
        invariant
            procs@.len() <= all.len(), all.len() <= cap,
            procs@ == all.subrange(all.len() - procs@.len(), all.len() as int),
            zooms_map@.dom() == dom, dom == zooms@.to_set(),
            forall|k: int| 0 <= k < all.len() ==> infos_pre((#[trigger] all[k]).out().0@, dom),
            forall|x: u32| dom.contains(x) ==> (#[trigger] zooms_map@[x]).capacity() == cap && zooms_map@[x].sent().len() == all.len() - procs@.len(),
        decreases
            [[L: handoff/termination]]
            procs@.len(),
    {
        let ghost done = all.len() - procs@.len();
        proof {
            assert(all.subrange(done, all.len() as int)[0] == all[done]);
            assert(all.subrange(done, all.len() as int).remove(0) =~= all.subrange(done + 1, all.len() as int));
        }
        let p = procs.remove(0);
        [[L: handoff/channel_holds_one_message_per_chromosome_without_draining]]
        assert(forall|x: u32| dom.contains(x) ==> (#[trigger] zooms_map@[x]).sent().len() < zooms_map@[x].capacity());
        advance_zoom_vals(p, &mut zooms_map);
    }
    zooms_map
}

} // verus!
fn main() {}
