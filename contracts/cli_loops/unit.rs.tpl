//@unit cli_loops
//@serves C17
//@backend verus
// bigwigvaluesoverbed `write`, bigwigaverageoverbed (single-threaded loop, `process_chunk`, threaded dispatch):
// the SURROUNDINGS of the pieces that units vob / avg_rows / avg_names / stats / bedparse / chunks / fview put
// under contract.  Every function is cut WHOLE; only the text those units carve out (or the callee they verify)
// is replaced by a call of a shim that carries that unit's contract (labels cited at each shim).
//   C17: "... There is one output row per input row in input order with the requested name column, identical
//         for any number of threads, and the values-over-bed tool reports the per-base values of each region."
// See NOTES.md for what is real text, what is a shim, and what stays undecided.
use vstd::prelude::*;
use std::collections::VecDeque;
// `format!` / `format_args!` are kept verbatim: these macros SHADOW std's, rustc splits the arguments (device of
// unit avg_rows): the text is an uninterpreted function of the format LITERAL and the argument TUPLE.
#[allow(unused_macros)]
macro_rules! format {
    ($f:literal $(, $a:expr)* $(,)?) => { fmt_text($f, ($($a,)*)) };
}
#[allow(unused_macros)]
macro_rules! format_args {
    ($f:literal $(, $a:expr)* $(,)?) => { fmt_text($f, ($($a,)*)) };
}
verus! {

// =====================================================================================
// opaque stand-ins (R11)
// =====================================================================================
/// every piece of text (`String` / `&str`): a BED line, a field, a name, a delimiter, a formatted row
#[verifier::external_body] pub struct Text { _p: u8 }
/// std::io::Error
#[verifier::external_body] pub struct IoErr { _p: u8 }
#[verifier::external_body] pub struct BedValueErr { _p: u8 }
#[verifier::external_body] pub struct ErrText { _p: u8 }
#[verifier::external_body] pub struct CirTreeSearchError { _p: u8 }

/// the text `format!(LIT, args..)` / `format_args!(LIT, args..)` produces: uninterpreted function of the literal
/// and of the argument tuple (arity, order and types are part of the tuple)
pub uninterp spec fn text_spec<T>(fmt: &str, args: T) -> Text;
#[verifier::external_body]
pub fn fmt_text<T>(fmt: &'static str, args: T) -> (r: Text) ensures r == text_spec(fmt, args), { unimplemented!() }
/// `line.trim()`
pub uninterp spec fn trim_of(t: Text) -> Text;
/// the k-th piece of `t.splitn(5, '\t')` for k = 0..3 (a whole tab-separated field)
pub uninterp spec fn field(t: Text, k: int) -> Text;
/// the number `s.parse::<u32>()` yields
pub uninterp spec fn num_of(s: Text) -> u32;
/// `f32::to_string`
pub uninterp spec fn f32_text(v: f32) -> Text;
/// `pieces.join(delim)`
pub uninterp spec fn joined(pieces: Seq<Text>, delim: Text) -> Text;

#[verifier::external_body] pub struct Split { _p: u8 }
#[verifier::external_body] pub struct OptField { _p: u8 }
#[verifier::external_body] #[verifier::accept_recursive_types(T)] pub struct ParseRes<T> { _p: core::marker::PhantomData<T> }
impl Text {
    #[verifier::external_body] pub fn trim(&self) -> (r: &Text) ensures *r == trim_of(*self), { unimplemented!() }
    #[verifier::external_body]
    pub fn splitn(&self, n: usize, sep: char) -> (r: Split) ensures r.line() == *self, r.k() == 0, r.n() == n, r.sep() == sep, { unimplemented!() }
    #[verifier::external_body] pub fn parse<T>(&self) -> (r: ParseRes<T>) ensures r.src() == *self, { unimplemented!() }
    #[verifier::external_body] pub fn to_owned(&self) -> (r: Text) ensures r == *self, { unimplemented!() }
    #[verifier::external_body] pub fn to_string(&self) -> (r: Text) ensures r == *self, { unimplemented!() }
    #[verifier::external_body] pub fn as_str(&self) -> (r: &Text) ensures *r == *self, { unimplemented!() }
    #[verifier::external_body] pub fn as_bytes(&self) -> (r: &Text) ensures *r == *self, { unimplemented!() }
    // plausible foreign calls: nothing promised
    #[verifier::external_body] pub fn trim_end(&self) -> &Text { unimplemented!() }
    #[verifier::external_body] pub fn split(&self, sep: char) -> Split { unimplemented!() }
    #[verifier::external_body] pub fn split_whitespace(&self) -> Split { unimplemented!() }
    #[verifier::external_body] pub fn is_empty(&self) -> bool { unimplemented!() }
    #[verifier::external_body] pub fn len(&self) -> usize { unimplemented!() }
}
impl Clone for Text {
    #[verifier::external_body] fn clone(&self) -> (r: Text) ensures r == *self, { unimplemented!() }
}
impl Split {
    pub uninterp spec fn line(&self) -> Text;
    pub uninterp spec fn k(&self) -> int;
    pub uninterp spec fn n(&self) -> int;
    pub uninterp spec fn sep(&self) -> char;
    #[verifier::external_body]
    pub fn next(&mut self) -> (r: OptField)
        ensures r.line() == old(self).line(), r.k() == old(self).k(), r.real() == (old(self).k() + 1 < old(self).n() && old(self).sep() == '\t'),
            final(self).line() == old(self).line(), final(self).k() == old(self).k() + 1, final(self).n() == old(self).n(), final(self).sep() == old(self).sep(),
    { unimplemented!() }
    #[verifier::external_body] pub fn nth(&mut self, n: usize) -> OptField { unimplemented!() }
    #[verifier::external_body] pub fn last(self) -> OptField { unimplemented!() }
}
/// `Option<&str>` out of the split.  A missing field makes `expect` / `unwrap` PANIC (no precondition here: a panic
/// returns nothing)
impl OptField {
    pub uninterp spec fn line(&self) -> Text;
    pub uninterp spec fn k(&self) -> int;
    /// a whole tab-separated field (not the unsplit remainder that `splitn` returns last)
    pub uninterp spec fn real(&self) -> bool;
    #[verifier::external_body]
    pub fn expect(self, msg: &str) -> (r: &'static Text) ensures self.real() ==> *r == field(self.line(), self.k()), { unimplemented!() }
    #[verifier::external_body]
    pub fn unwrap(self) -> (r: &'static Text) ensures self.real() ==> *r == field(self.line(), self.k()), { unimplemented!() }
    #[verifier::external_body] pub fn is_some(&self) -> bool { unimplemented!() }
    #[verifier::external_body] pub fn is_none(&self) -> bool { unimplemented!() }
    #[verifier::external_body] pub fn unwrap_or(self, d: &'static Text) -> &'static Text { unimplemented!() }
}
impl<T> ParseRes<T> { pub uninterp spec fn src(&self) -> Text; }
impl ParseRes<u32> {
    /// a field that is not a u32 makes `unwrap` PANIC (not modelled)
    #[verifier::external_body] pub fn unwrap(self) -> (r: u32) ensures r == num_of(self.src()), { unimplemented!() }
    #[verifier::external_body] pub fn unwrap_or(self, d: u32) -> u32 { unimplemented!() }
}
/// `std::mem::replace` (not supported by Verus; same semantics, verified)
pub fn replace_val<T>(dest: &mut T, src: T) -> (r: T)
    ensures r == *old(dest), *final(dest) == src,
{
    let mut s = src;
    core::mem::swap(dest, &mut s);
    s
}
/// `vals.into_iter().map(|v| v.to_string()).collect()`
pub open spec fn texts_of(v: Seq<f32>) -> Seq<Text> { Seq::new(v.len(), |i: int| f32_text(v[i])) }
#[verifier::external_body]
pub fn strings_of(vals: Vec<f32>) -> (r: Vec<Text>) ensures r@ == texts_of(vals@), { unimplemented!() }
/// `&pieces[..].join(delim)`
#[verifier::external_body]
pub fn join_texts(pieces: &Vec<Text>, delim: &Text) -> (r: Text) ensures r == joined(pieces@, *delim), { unimplemented!() }

//@extract struct bigtools/src/bbi.rs Value
//@rule R8
//@end
//@extract enum bigtools/src/bbi/bbiread.rs BBIReadError
//@rule R8
//@sub /[ \t]*#\[error\([^\n]*\)\]\n/ => "" min=5
//@sub /#\[from\] io::Error/ => IoErr
//@sub /#\[from\] BedValueError/ => BedValueErr
//@sub /String/ => ErrText min=2
//@end
impl vstd::std_specs::convert::FromSpecImpl<IoErr> for BBIReadError {
    open spec fn obeys_from_spec() -> bool { true }
    open spec fn from_spec(e: IoErr) -> BBIReadError { BBIReadError::IoError(e) }
}
impl From<IoErr> for BBIReadError { fn from(e: IoErr) -> (r: BBIReadError) { BBIReadError::IoError(e) } }

// =====================================================================================
// the BED input: path -> file -> line reader
// =====================================================================================
/// position of the first byte after the line that contains byte p (definition of unit chunks, `nls`)
#[verifier::opaque]
pub open spec fn nls(c: Seq<u8>, p: int) -> int
    decreases c.len() - p
{
    if p < 0 || p >= c.len() { c.len() as int }
    else if c[p] == 10u8 { p + 1 }
    else { nls(c, p + 1) }
}
pub open spec fn is_line_start(c: Seq<u8>, p: int) -> bool { p == 0 || (0 < p <= c.len() && c[p - 1] == 10u8) }
/// a legal place to cut (unit chunks, `is_cut`): a line start or EOF
pub open spec fn is_cut(c: Seq<u8>, p: int) -> bool { is_line_start(c, p) || p == c.len() }
/// what the line reader makes of the bytes of ONE line: the text without trailing whitespace (bedparse
/// `read/reader/line_is_that_line_alone_without_trailing_whitespace`) or an error (invalid UTF-8).
/// ASSUMED deterministic in the bytes: genuine device errors (EIO) are outside the model.
pub uninterp spec fn line_outcome(bytes: Seq<u8>) -> Result<Text, IoErr>;
/// the lines a `StreamingLineReader` yields when it reads the byte range [a, b) of c from a on, b a cut
#[verifier::opaque]
pub open spec fn lines_in(c: Seq<u8>, a: int, b: int) -> Seq<Result<Text, IoErr>>
    decreases b - a
{
    if a < 0 || a >= b || b > c.len() { Seq::empty() }
    else if nls(c, a) <= a { Seq::empty() }   // (never: nls(c, a) > a for a < |c|; keeps the definition total)
    else if nls(c, a) >= b { seq![line_outcome(c.subrange(a, b))] }   // the last line of the range (cut short when b is not a cut)
    else { seq![line_outcome(c.subrange(a, nls(c, a)))] + lines_in(c, nls(c, a), b) }
}
/// THE line sequence L of a BED file
pub open spec fn file_lines(c: Seq<u8>) -> Seq<Result<Text, IoErr>> { lines_in(c, 0, c.len() as int) }

/// a path (`&Path` / `String`) naming the BED file.  ASSUMED: the file's content does not change while the tool
/// runs (it is opened several times: names detection, chunking, once per chunk)
#[verifier::external_body] pub struct BedPath { _p: u8 }
impl BedPath {
    pub uninterp spec fn content(&self) -> Seq<u8>;
    #[verifier::external_body] pub fn to_string(&self) -> (r: BedPath) ensures r.content() == self.content(), { unimplemented!() }
}
/// `std::fs::File` opened on the BED file (read side)
#[verifier::external_body] pub struct BedFile { _p: u8 }
impl BedFile { pub uninterp spec fn content(&self) -> Seq<u8>; }
pub trait PathLike { spec fn pcontent(&self) -> Seq<u8>; }
impl PathLike for BedPath { open spec fn pcontent(&self) -> Seq<u8> { self.content() } }
impl PathLike for &BedPath { open spec fn pcontent(&self) -> Seq<u8> { self.content() } }
pub struct File {}
impl File {
    #[verifier::external_body]
    pub fn open<P: PathLike>(p: P) -> (r: Result<BedFile, IoErr>) ensures r matches Ok(f) ==> f.content() == p.pcontent(), { unimplemented!() }
    /// `File::open(p).unwrap()`: PANICS when the file cannot be opened (not modelled: a panic returns nothing)
    #[verifier::external_body]
    pub fn open_unwrap(p: &BedPath) -> (f: BedFile) ensures f.content() == p.content(), { unimplemented!() }
}
/// `BufReader::new(file)`: buffering is transparent
pub struct BufReader {}
impl BufReader {
    pub fn new<F>(f: F) -> (r: F) ensures r == f, { f }
}
/// anything a `StreamingLineReader` can sit on: the lines it will yield
pub trait LineSource { spec fn src_lines(&self) -> Seq<Result<Text, IoErr>>; }
impl LineSource for BedFile { open spec fn src_lines(&self) -> Seq<Result<Text, IoErr>> { file_lines(self.content()) } }
/// `StreamingLineReader<BufReader<..>>` (unit bedparse: `new/starts_at_the_first_line`, `read/reader/none_iff_end_of_file`,
/// `read/reader/exactly_one_line_consumed`, `read/reader/line_is_that_line_alone_without_trailing_whitespace`,
/// `read/reader/io_error_is_passed_on`): a finite list of lines (or read errors) and a cursor
#[verifier::external_body] pub struct Lines { _p: u8 }
impl Lines {
    pub uninterp spec fn all(&self) -> Seq<Result<Text, IoErr>>;
    pub uninterp spec fn pos(&self) -> nat;
    #[verifier::external_body]
    pub fn read(&mut self) -> (r: Option<Result<&Text, IoErr>>)
        ensures
            final(self).all() == old(self).all(),
            old(self).pos() < old(self).all().len() ==> r is Some && final(self).pos() == old(self).pos() + 1
                && (r->Some_0 matches Ok(t) ==> old(self).all()[old(self).pos() as int] == Ok::<Text, IoErr>(*t))
                && (r->Some_0 matches Err(e) ==> old(self).all()[old(self).pos() as int] == Err::<Text, IoErr>(e)),
            old(self).pos() >= old(self).all().len() ==> r is None && final(self).pos() == old(self).pos(),
    { unimplemented!() }
}
pub struct StreamingLineReader {}
impl StreamingLineReader {
    #[verifier::external_body]
    pub fn new<F: LineSource>(f: F) -> (r: Lines) ensures r.all() == f.src_lines(), r.pos() == 0, { unimplemented!() }
}

// =====================================================================================
// the output
// =====================================================================================
/// the output `File` behind a `BufWriter` / a chunk's temp `File`.
/// `lines()`: every piece accepted so far, in order.  `broken()`: a write has failed (after that nothing is known
/// about the text: partial writes).  ASSUMED (as unit conv_out): a write that returns Ok has taken the whole piece;
/// the implicit flush when the BufWriter is dropped succeeds.
#[verifier::external_body] pub struct Out { _p: u8 }
impl Out {
    pub uninterp spec fn lines(&self) -> Seq<Text>;
    pub uninterp spec fn broken(&self) -> bool;
    /// read/write cursor, in pieces (a temp file is written, rewound and copied)
    pub uninterp spec fn rpos(&self) -> nat;
    #[verifier::external_body]
    pub fn write_fmt(&mut self, t: Text) -> (r: Result<(), IoErr>)
        ensures
            r is Ok ==> final(self).lines() == old(self).lines().push(t) && final(self).broken() == old(self).broken(),
            r is Err ==> final(self).broken(),
    { unimplemented!() }
    #[verifier::external_body]
    pub fn write_all(&mut self, t: &Text) -> (r: Result<(), IoErr>)
        ensures
            r is Ok ==> final(self).lines() == old(self).lines().push(*t) && final(self).broken() == old(self).broken(),
            r is Err ==> final(self).broken(),
    { unimplemented!() }
    #[verifier::external_body]
    pub fn flush(&mut self) -> (r: Result<(), IoErr>)
        ensures final(self).lines() == old(self).lines(), r is Ok ==> final(self).broken() == old(self).broken(), r is Err ==> final(self).broken(),
    { unimplemented!() }
}
/// `BufWriter::new(out)`: the same destination (buffering is not modelled)
pub struct BufWriter {}
impl BufWriter {
    #[verifier::external_body]
    pub fn new(f: &mut Out) -> (w: &mut Out)
        ensures *w == *old(f), *final(f) == *final(w),
    { unimplemented!() }
}

// =====================================================================================
// the bigWig reader
// =====================================================================================
#[verifier::external_body] pub struct FileId { _p: u8 }
/// THE range-query result collected into a Vec: what `get_interval(name, s, e)?.collect::<Result<Vec<_>,_>>()` gives
/// on file f -- Err (unknown chromosome, read error in the index or in a block) or the values.  ASSUMED deterministic
/// in (file, name, s, e); content: units query_glue, bw_values, value_iter, rt_search (C03).
pub uninterp spec fn query(f: FileId, name: Text, s: u32, e: u32) -> Result<Seq<Value>, BBIReadError>;
/// the bigWig has a chromosome of that name
pub uninterp spec fn has_chrom(f: FileId, name: Text) -> bool;
/// C03 answer shape (definition of units stats / vob): inside [s, e), ascending, non-overlapping
pub open spec fn clipped_ordered(v: Seq<Value>, s: u32, e: u32) -> bool {
    &&& forall|i: int| 0 <= i < v.len() ==> s <= (#[trigger] v[i]).start && v[i].start <= v[i].end && v[i].end <= e
    &&& forall|i: int| 0 <= i < v.len() - 1 ==> (#[trigger] v[i]).end <= v[i + 1].start
}
pub ghost struct Query { pub name: Text, pub start: u32, pub end: u32 }
#[verifier::external_body] pub struct Reader { _p: u8 }
#[verifier::external_body] pub struct Answer { _p: u8 }
impl Answer {
    pub uninterp spec fn file(&self) -> FileId;
    pub uninterp spec fn q(&self) -> Query;
    /// `.collect::<Result<Vec<_>, _>>()`: the whole answer or the first item error; shape = the ASSUMED query contract
    /// of units stats (`get_interval_vec`) and vob (`pre_query_contract`)
    #[verifier::external_body]
    pub fn collect_vec(self) -> (r: Result<Vec<Value>, BBIReadError>)
        ensures
            r matches Ok(v) ==> query(self.file(), self.q().name, self.q().start, self.q().end) == Ok::<Seq<Value>, BBIReadError>(v@),
            r matches Ok(v) ==> (self.q().start <= self.q().end ==> clipped_ordered(v@, self.q().start, self.q().end)),
            r is Err ==> query(self.file(), self.q().name, self.q().start, self.q().end) is Err,
    { unimplemented!() }
}
impl Reader {
    pub uninterp spec fn file(&self) -> FileId;
    /// ghost log: the range queries made through this handle, in order
    pub uninterp spec fn queries(&self) -> Seq<Query>;
    /// unknown chromosome => Err(InvalidChromosome) (unit query_glue `unknown_chromosome_*`)
    #[verifier::external_body]
    pub fn get_interval(&mut self, chrom_name: &Text, start: u32, end: u32) -> (r: Result<Answer, BBIReadError>)
        ensures
            final(self).file() == old(self).file(),
            final(self).queries() == old(self).queries().push(Query { name: *chrom_name, start, end }),
            r matches Ok(a) ==> a.file() == old(self).file() && a.q() == (Query { name: *chrom_name, start, end }) && has_chrom(old(self).file(), *chrom_name),
            r is Err ==> query(old(self).file(), *chrom_name, start, end) is Err,
    { unimplemented!() }
}

// =====================================================================================
// (1) bigwigvaluesoverbed::write
// =====================================================================================
//@extract struct bigtools/src/utils/cli/bigwigvaluesoverbed.rs Options
//@rule R8
//@sub /^struct Options/ => pub struct Options min=1
//@sub /delimiter: String/ => pub delimiter: Text min=1
//@sub /withnames: bool/ => pub withnames: bool min=1
//@end

/// base p lies inside value x (unit vob)
pub open spec fn inside(x: Value, p: int) -> bool { x.start <= p < x.end }
pub open spec fn uncovered(v: Seq<Value>, n: int, p: int) -> bool {
    forall|j: int| 0 <= j < n ==> !inside(#[trigger] v[j], p)
}
/// THE per-base values of a region (C17): one number per base of [s, e); the value of the stored value that
/// contains the base, 0 where there is none
pub open spec fn per_base(v: Seq<Value>, s: u32, e: u32) -> Seq<f32> {
    Seq::new((e - s) as nat, |q: int|
        if exists|j: int| 0 <= j < v.len() && inside(#[trigger] v[j], s + q) { v[choose|j: int| 0 <= j < v.len() && inside(#[trigger] v[j], s + q)].value } else { 0.0f32 })
}
/// The carve-out of unit vob (`fill_region`: from `let size = end - start;` to the end of the `for val in interval`
/// nest) with exactly unit vob's contract: `write/pre_region_not_inverted`, `write/pre_query_contract`,
/// `write/one_number_per_base`, `write/covered_bases_hold_their_value`,
/// `write/uncovered_bases_are_zero_whatever_the_buffer_held`.
#[verifier::external_body]
pub fn fill_region(interval: Vec<Value>, start: u32, end: u32) -> (r: Vec<f32>)
    requires
        [[L: vob/fill_pre_region_not_inverted]]
        start <= end,
        [[L: vob/fill_pre_query_contract]]
        clipped_ordered(interval@, start, end),
    ensures
        r@.len() == end - start,
        forall|q: int, j: int| 0 <= q < r@.len() && 0 <= j < interval@.len() && inside(#[trigger] interval@[j], start + q)
            ==> #[trigger] r@[q] == interval@[j].value,
        forall|q: int| 0 <= q < r@.len() && uncovered(interval@, interval@.len() as int, start + q)
            ==> #[trigger] r@[q] == 0.0f32,
{ unimplemented!() }
/// the three clauses of unit vob determine the result: it IS per_base (verified)
pub fn fill_region_pb(interval: Vec<Value>, start: u32, end: u32) -> (r: Vec<f32>)
    requires start <= end, clipped_ordered(interval@, start, end),
    ensures
        [[L: vob/fill_contract_determines_the_per_base_values]]
        r@ == per_base(interval@, start, end),
{
    let ghost v = interval@;
    let r = fill_region(interval, start, end);
    proof {
        assert forall|q: int| 0 <= q < r@.len() implies #[trigger] r@[q] == per_base(v, start, end)[q] by {
            if exists|j: int| 0 <= j < v.len() && inside(#[trigger] v[j], start + q) {
                let j0 = choose|j: int| 0 <= j < v.len() && inside(#[trigger] v[j], start + q);
                assert(inside(v[j0], start + q));
            } else {
                assert(uncovered(v, v.len() as int, start + q));
            }
        }
        assert(r@ =~= per_base(v, start, end));
    }
    r
}
/// the detection "are the names of the first 10 lines pairwise different" (a heuristic outside C17; the block
/// `let reader = BufReader::new(File::open(bedinpath)?); .. lines.len() == 10` is replaced by this call): some
/// function of the file, or an I/O error
pub uninterp spec fn first_names_distinct(c: Seq<u8>) -> bool;
/// reading the first lines for that detection fails (ASSUMED deterministic in the file)
pub uninterp spec fn names_probe_fails(c: Seq<u8>) -> bool;
#[verifier::external_body]
pub fn first_names_unique(p: &BedPath) -> (r: Result<bool, IoErr>)
    ensures r matches Ok(b) ==> b == first_names_distinct(p.content()), r is Err <==> names_probe_fails(p.content()),
{ unimplemented!() }
/// the names detection (only run with --names) did not fail
pub open spec fn probe_ok(o: Options, c: Seq<u8>) -> bool { !o.withnames || !names_probe_fails(c) }

// ---------------- the documented output of the values-over-bed tool (C17) ----------------
pub open spec fn l_chrom(t: Text) -> Text { field(trim_of(t), 0) }
pub open spec fn l_start(t: Text) -> u32 { num_of(field(trim_of(t), 1)) }
pub open spec fn l_end(t: Text) -> u32 { num_of(field(trim_of(t), 2)) }
pub open spec fn l_name(t: Text) -> Text { field(trim_of(t), 3) }
/// the ONE query made for a line: its own chromosome, start and end
pub open spec fn l_query(t: Text) -> Query { Query { name: l_chrom(t), start: l_start(t), end: l_end(t) } }
pub open spec fn l_answer(f: FileId, t: Text) -> Result<Seq<Value>, BBIReadError> { query(f, l_chrom(t), l_start(t), l_end(t)) }
/// the values column(s): the per-base values of the region, each as text, joined by the delimiter
pub open spec fn l_vals(f: FileId, t: Text, delim: Text) -> Text {
    joined(texts_of(per_base(l_answer(f, t)->Ok_0, l_start(t), l_end(t))), delim)
}
/// the name column: the line's 4th field when names are taken as unique, else `chrom:start-end`
pub open spec fn l_uname(t: Text, unique: bool) -> Text {
    if unique { l_name(t) } else { text_spec("{}:{}-{}", (&l_chrom(t), l_start(t), l_end(t))) }
}
/// the row of one region
pub open spec fn vob_row(f: FileId, t: Text, o: Options, unique: bool) -> Text {
    if o.withnames { text_spec("{}{}{}\n", (l_uname(t, unique), &o.delimiter, &l_vals(f, t, o.delimiter))) }
    else { text_spec("{}\n", (&l_vals(f, t, o.delimiter),)) }
}
/// a line that yields a row: it was read and its query was answered
pub open spec fn region_ok(f: FileId, l: Result<Text, IoErr>) -> bool {
    l matches Ok(t) && l_answer(f, t) is Ok
}
/// index of the first line from i on that does NOT yield a row (|ls| if there is none)
pub open spec fn vob_first_bad(f: FileId, ls: Seq<Result<Text, IoErr>>, i: int) -> int
    decreases ls.len() - i
{
    if i < 0 || i >= ls.len() { ls.len() as int } else if !region_ok(f, ls[i]) { i } else { vob_first_bad(f, ls, i + 1) }
}
/// rows / queries of the first n lines, in input order
pub open spec fn vob_rows(f: FileId, ls: Seq<Result<Text, IoErr>>, o: Options, unique: bool, n: int) -> Seq<Text>
    decreases n
{ if n <= 0 { Seq::empty() } else { vob_rows(f, ls, o, unique, n - 1).push(vob_row(f, ls[n - 1]->Ok_0, o, unique)) } }
pub open spec fn vob_queries(ls: Seq<Result<Text, IoErr>>, n: int) -> Seq<Query>
    decreases n
{ if n <= 0 { Seq::empty() } else { vob_queries(ls, n - 1).push(l_query(ls[n - 1]->Ok_0)) } }
/// the regions of the input are not inverted (NOT checked by the tool: unit vob "Suspected defect", DESIGN §11.3)
pub open spec fn no_inverted_region(ls: Seq<Result<Text, IoErr>>) -> bool {
    forall|k: int| 0 <= k < ls.len() ==> ((#[trigger] ls[k]) matches Ok(t) ==> l_start(t) <= l_end(t))
}

#[verifier::loop_isolation(false)]
#[verifier::exec_allows_no_decreases_clause]
//@extract fn bigtools/src/utils/cli/bigwigvaluesoverbed.rs write
//@rule R16
//@rule R5
//@rule R15
//@as vob
//@presub /let reader = BufReader::new\(File::open\(bedinpath\)\?\);.*?lines\.len\(\) == 10/ => first_names_unique(bedinpath)? min=1 count=1
//@presub /\n([ \t]*)let size = [^;\n]*;.*?\bfor \w+ in (\w+) \{.*?\n[ \t]*(let vals_strings\b)/ => \n\1let vals: Vec<f32> = fill_region_pb(\2, start, end);\n\1\3 min=1 count=1
//@sub /fn write<R: BBIFileRead>/ => fn write min=1
//@sub /bedinpath: &Path/ => bedinpath: &BedPath min=1
//@sub /mut bigwigin: BigWigRead<R>/ => bigwigin: &mut Reader min=1
//@sub /out: File,/ => out: &mut Out, min=1
//@sub /File::open\((\w+)\)\.unwrap\(\)/ => File::open_unwrap(\1) min=0
//@sub /while let Some\((\w+)\) = (\w+)\.read\(\) \{/ => loop { let \1 = match \2.read() { Some(x__) => x__, None => break }; min=0
//@sub /\.collect::<Result<Vec<_>, _>>\(\)/ => .collect_vec() min=0
//@sub /: Vec<String> = (\w+)\.into_iter\(\)\.map\(\|(\w+)\| \2\.to_string\(\)\)\.collect\(\)/ => : Vec<Text> = strings_of(\1) min=0
//@sub /&(\w+)\[\.\.\]\.join\(([^()]*)\)/ => &join_texts(&\1, \2) min=0
//@sub /\bString\b/ => Text min=0
//@sub /(?:std|core)::mem::replace\(/ => replace_val( min=0
//@ret r
//@sig
    requires
        [[L: pre_no_inverted_region]]
        no_inverted_region(file_lines(bedinpath.content())),
    ensures
        [[L: reader_serves_the_same_file]]
        final(bigwigin).file() == old(bigwigin).file(),
        [[L: failing_names_detection_is_returned_nothing_written]]
        !probe_ok(options, bedinpath.content()) ==> r is Err && final(out).lines() == old(out).lines(),
        [[L: rows_are_the_rows_of_the_lines_before_the_first_failing_line_in_input_order]]
        probe_ok(options, bedinpath.content()) && !final(out).broken() ==> final(out).lines() == old(out).lines()
            + vob_rows(old(bigwigin).file(), file_lines(bedinpath.content()), options,
                       !options.withnames || first_names_distinct(bedinpath.content()),
                       vob_first_bad(old(bigwigin).file(), file_lines(bedinpath.content()), 0)),
        [[L: nothing_is_written_for_an_input_without_lines]]
        file_lines(bedinpath.content()).len() == 0 && !final(out).broken() ==> final(out).lines() =~= old(out).lines(),
        [[L: a_read_error_or_query_error_is_returned]]
        r is Ok ==> vob_first_bad(old(bigwigin).file(), file_lines(bedinpath.content()), 0) == file_lines(bedinpath.content()).len(),
        [[L: no_error_without_a_failing_line_or_failing_write]]
        r is Err ==> final(out).broken() || vob_first_bad(old(bigwigin).file(), file_lines(bedinpath.content()), 0) < file_lines(bedinpath.content()).len()
            || !probe_ok(options, bedinpath.content()),
        [[L: one_query_per_line_with_the_lines_own_chrom_start_end]]
        r is Ok ==> final(bigwigin).queries() == old(bigwigin).queries() + vob_queries(file_lines(bedinpath.content()), file_lines(bedinpath.content()).len() as int),
        [[L: ok_only_if_every_region_is_on_a_chromosome_of_the_bigwig]]
        r is Ok ==> forall|k: int| 0 <= k < file_lines(bedinpath.content()).len() ==> has_chrom(old(bigwigin).file(), l_chrom((#[trigger] file_lines(bedinpath.content())[k])->Ok_0)),
//@open
    let ghost f0 = bigwigin.file();
    let ghost q0 = bigwigin.queries();
    let ghost l0 = out.lines();
    let ghost ls = file_lines(bedinpath.content());
    let ghost o0 = options;
//@loop 1
        invariant
            [[L: loop/frame]]
            bigwigin.file() == f0, bedstream.all() == ls, bedstream.pos() <= ls.len(), options == o0,
            no_inverted_region(ls),
            uniquenames == (!o0.withnames || first_names_distinct(bedinpath.content())),
            [[L: loop/no_failing_line_so_far]]
            vob_first_bad(f0, ls, 0) == vob_first_bad(f0, ls, bedstream.pos() as int),
            [[L: loop/one_query_per_line_so_far]]
            bigwigin.queries() == q0 + vob_queries(ls, bedstream.pos() as int),
            [[L: loop/one_row_per_line_so_far_in_input_order]]
            !outwriter.broken() ==> outwriter.lines() == l0 + vob_rows(f0, ls, o0, uniquenames, bedstream.pos() as int),
            [[L: loop/chromosomes_known_so_far]]
            forall|k: int| 0 <= k < bedstream.pos() ==> has_chrom(f0, l_chrom((#[trigger] ls[k])->Ok_0)),
        decreases
            [[L: loop/termination]]
            ls.len() - bedstream.pos(),
//@end

// =====================================================================================
// (2) bigwigaverageoverbed: shims carrying the contracts of units bedparse / avg_names / stats / avg_rows
// =====================================================================================
//@extract struct bigtools/src/bbi.rs BedEntry
//@rule R8
//@sub /#\[derive\(Clone\)\]\n/ => "" min=0
//@sub /rest: String/ => rest: Text min=1
//@end
//@extract enum bigtools/src/utils/misc.rs Name
//@rule R8
//@end
//@extract struct bigtools/src/utils/misc.rs BigWigAverageOverBedEntry
//@rule R8
//@end
#[verifier::external_body] pub struct InvalidNameColError { _p: u8 }
/// `Box<dyn Error + Send + Sync>` (opaque; which error: lost)
#[verifier::external_body] pub struct AnyErr { _p: u8 }
impl From<IoErr> for AnyErr { #[verifier::external_body] fn from(e: IoErr) -> AnyErr { unimplemented!() } }
impl From<BBIReadError> for AnyErr { #[verifier::external_body] fn from(e: BBIReadError) -> AnyErr { unimplemented!() } }
impl From<BedValueErr> for AnyErr { #[verifier::external_body] fn from(e: BedValueErr) -> AnyErr { unimplemented!() } }
impl From<InvalidNameColError> for AnyErr { #[verifier::external_body] fn from(e: InvalidNameColError) -> AnyErr { unimplemented!() } }
// `e.into()` (target `Box<dyn Error + Send + Sync>`): inherent methods of the error shims
impl IoErr { #[verifier::external_body] pub fn into(self) -> AnyErr { unimplemented!() } }
impl BBIReadError { #[verifier::external_body] pub fn into(self) -> AnyErr { unimplemented!() } }
impl BedValueErr { #[verifier::external_body] pub fn into(self) -> AnyErr { unimplemented!() } }
impl InvalidNameColError { #[verifier::external_body] pub fn into(self) -> AnyErr { unimplemented!() } }
/// `io::Error::new(io::ErrorKind::InvalidData, "Invalid bed: A minimum of 3 columns ..")` (text dropped)
#[verifier::external_body] pub fn invalid_bed_err() -> IoErr { unimplemented!() }

// ---- unit bedparse: parse_bed, BedFileStream::next ----
/// `parse_bed(line)`: a line is accepted (3 columns, numeric start/end) or refused; chrom = column 1, entry = start,
/// end and the rest of the line (unit bedparse `parse_bed/bed/ok_iff_three_columns_and_start_end_numeric`,
/// `../chrom_is_column_1`, `../start_is_the_number_in_column_2`, `../end_is_the_number_in_column_3`,
/// `../rest_is_everything_behind_the_third_tab_verbatim`): here uninterpreted functions of the line
pub uninterp spec fn p_ok(t: Text) -> bool;
pub uninterp spec fn p_chrom(t: Text) -> Text;
pub uninterp spec fn p_entry(t: Text) -> BedEntry;
/// `r is Some`: unit bedparse `parse_bed/bed/a_line_is_never_the_end_of_input`
#[verifier::external_body]
pub fn parse_bed<'a>(s: &'a Text) -> (r: Option<Result<(&'a Text, BedEntry), BedValueErr>>)
    ensures
        r is Some,
        r->Some_0 is Ok <==> p_ok(*s),
        r matches Some(Ok(v)) ==> *v.0 == p_chrom(*s) && v.1 == p_entry(*s),
{ unimplemented!() }
/// the `parse` field of BedFileStream (a fn pointer in the repository; R11)
pub struct ParseBedFn {}
/// `BedFileStream<BedEntry, BufReader<FileView>>` (unit bedparse `next/file_bed/none_iff_file_exhausted`,
/// `next/file_bed/exactly_one_line_consumed`, `next/file_bed/item_is_the_parse_of_that_line_io_error_passed_on`)
pub struct BedFileStream { pub bed: Lines, pub parse: ParseBedFn }
impl BedFileStream {
    #[verifier::external_body]
    pub fn next(&mut self) -> (r: Option<Result<(&Text, BedEntry), BedValueErr>>)
        ensures
            final(self).bed.all() == old(self).bed.all(),
            old(self).bed.pos() >= old(self).bed.all().len() ==> r is None && final(self).bed.pos() == old(self).bed.pos(),
            old(self).bed.pos() < old(self).bed.all().len() ==> {
                let l = old(self).bed.all()[old(self).bed.pos() as int];
                &&& final(self).bed.pos() == old(self).bed.pos() + 1
                &&& r is Some
                &&& (r->Some_0 is Ok <==> (l matches Ok(t) && p_ok(t)))
                &&& (r matches Some(Ok(v)) ==> *v.0 == p_chrom(l->Ok_0) && v.1 == p_entry(l->Ok_0))
            },
    { unimplemented!() }
}

// ---- unit avg_names: name_for_bed_item ----
/// the name column (definition: unit avg_names `name_spec`); None = the line does not have that column
pub uninterp spec fn name_spec(name: Name, chrom: Text, entry: BedEntry) -> Option<Text>;
pub open spec fn name_ok(name: Name) -> bool { name matches Name::Column(c) ==> c < usize::MAX }
/// unit avg_names: `name_for_bed_item/pre_column_number_below_usize_max`,
/// `name_for_bed_item/name_is_the_requested_column_interval_or_whole_line`,
/// `name_for_bed_item/a_column_the_line_does_not_have_is_an_error`
#[verifier::external_body]
pub fn name_for_bed_item(name: Name, chrom: &Text, entry: &BedEntry) -> (r: Result<Text, InvalidNameColError>)
    requires
        [[L: names/pre_column_number_below_usize_max]]
        name_ok(name),
    ensures
        r matches Ok(t) ==> name_spec(name, *chrom, *entry) == Some(t),
        r is Err <==> name_spec(name, *chrom, *entry) is None,
{ unimplemented!() }

// ---- unit stats: stats_for_bed_item ----
/// the statistics of a region from the values of its range query (definition: unit stats
/// `stats_for_bed_item/size_is_region_length`, `../bases_is_sum_of_lengths`, `../sum_is_weighted_fold`,
/// `../mean0_is_sum_over_size`, `../mean_is_sum_over_bases`, `../min_is_fold_of_min`, `../max_is_fold_of_max`,
/// `../nan_when_nothing_covered`)
pub uninterp spec fn stats_of(v: Seq<Value>, s: u32, e: u32) -> BigWigAverageOverBedEntry;
/// the whole result, error included (ASSUMED deterministic, as `query`)
pub uninterp spec fn stats_res(f: FileId, chrom: Text, s: u32, e: u32) -> Result<BigWigAverageOverBedEntry, BBIReadError>;
/// unit stats: `stats_for_bed_item/pre` (region not inverted), `../queries_the_region`, `../error_iff_reader_error`
#[verifier::external_body]
pub fn stats_for_bed_item(chrom: &Text, entry: BedEntry, bigwig: &mut Reader) -> (r: Result<BigWigAverageOverBedEntry, BBIReadError>)
    requires
        [[L: stats/pre_region_not_inverted]]
        entry.start <= entry.end,
    ensures
        final(bigwig).file() == old(bigwig).file(),
        final(bigwig).queries() == old(bigwig).queries().push(Query { name: *chrom, start: entry.start, end: entry.end }),
        r == stats_res(old(bigwig).file(), *chrom, entry.start, entry.end),
        r is Err <==> query(old(bigwig).file(), *chrom, entry.start, entry.end) is Err,
        r matches Ok(o) ==> o == stats_of(query(old(bigwig).file(), *chrom, entry.start, entry.end)->Ok_0, entry.start, entry.end),
{ unimplemented!() }

// ---- unit avg_rows: the six carve-outs, both copies ----
pub uninterp spec fn line_spec<T>(fmt: &str, args: T) -> Text;
pub open spec fn fmt5() -> &'static str { "{}\t{}\t{:.3}\t{:.3}\t{:.3}" }
pub open spec fn fmt7() -> &'static str { "{}\t{}\t{:.3}\t{:.3}\t{:.3}\t{:.3}\t{:.3}" }
pub open spec fn row5(e: BigWigAverageOverBedEntry) -> Text { text_spec(fmt5(), (e.size, e.bases, e.sum, e.mean0, e.mean)) }
pub open spec fn row7(e: BigWigAverageOverBedEntry) -> Text { text_spec(fmt7(), (e.size, e.bases, e.sum, e.mean0, e.mean, e.min, e.max)) }
pub open spec fn stats_row(e: BigWigAverageOverBedEntry, add_min_max: bool) -> Text { if add_min_max { row7(e) } else { row5(e) } }
/// the whole line: name column, a tab, the statistics
pub open spec fn out_line(name: Text, stats: Text) -> Text { line_spec("{}\t{}", (name, stats)) }
/// what the arms of `let entry = match stats_for_bed_item(..) { .. }` make of the statistics result (ASSUMED a
/// deterministic function: the arms are a pure `match`); unit avg_rows states the two facts below about each copy
pub uninterp spec fn arm_st(res: Result<BigWigAverageOverBedEntry, BBIReadError>) -> Result<BigWigAverageOverBedEntry, AnyErr>;
pub uninterp spec fn arm_mt(res: Result<BigWigAverageOverBedEntry, BBIReadError>, size: u32) -> Result<BigWigAverageOverBedEntry, AnyErr>;
pub open spec fn shows_the_computed_stats(res: Result<BigWigAverageOverBedEntry, BBIReadError>, r: Result<BigWigAverageOverBedEntry, AnyErr>) -> bool {
    res matches Ok(s) ==> r == Ok::<BigWigAverageOverBedEntry, AnyErr>(s)
}
/// unit avg_rows: `bigwigaverageoverbed/st/row_shows_the_statistics_computed_for_the_region`,
/// `bigwigaverageoverbed/st/read_errors_other_than_unknown_chromosome_are_reported`
#[verifier::external_body]
pub fn entry_st(res: Result<BigWigAverageOverBedEntry, BBIReadError>) -> (r: Result<BigWigAverageOverBedEntry, AnyErr>)
    ensures r == arm_st(res), shows_the_computed_stats(res, r), (res matches Err(e) && !(e is InvalidChromosome)) ==> r is Err,
{ unimplemented!() }
/// unit avg_rows: `process_chunk/mt/row_shows_the_statistics_computed_for_the_region`,
/// `process_chunk/mt/read_errors_other_than_unknown_chromosome_are_reported`
#[verifier::external_body]
pub fn entry_mt(res: Result<BigWigAverageOverBedEntry, BBIReadError>, size: u32) -> (r: Result<BigWigAverageOverBedEntry, AnyErr>)
    ensures r == arm_mt(res, size), shows_the_computed_stats(res, r), (res matches Err(e) && !(e is InvalidChromosome)) ==> r is Err,
{ unimplemented!() }
/// unit avg_rows: `bigwigaverageoverbed/st/minmax_row_is_size_bases_sum_mean0_mean_min_max`, `../st/plain_row_is_size_bases_sum_mean0_mean`
#[verifier::external_body]
pub fn stats_row_st(entry: &BigWigAverageOverBedEntry, add_min_max: bool) -> (r: Text)
    ensures add_min_max ==> r == row7(*entry), !add_min_max ==> r == row5(*entry),
{ unimplemented!() }
/// unit avg_rows: `process_chunk/mt/minmax_row_is_size_bases_sum_mean0_mean_min_max`, `../mt/plain_row_is_size_bases_sum_mean0_mean`
#[verifier::external_body]
pub fn stats_row_mt(entry: &BigWigAverageOverBedEntry, add_min_max: bool) -> (r: Text)
    ensures add_min_max ==> r == row7(*entry), !add_min_max ==> r == row5(*entry),
{ unimplemented!() }
/// unit avg_rows: `bigwigaverageoverbed/st/one_line_name_tab_stats_appended` (`writeln!(&mut bedoutwriter, "{}\t{}", name, stats)?`)
#[verifier::external_body]
pub fn emit_row_st(name: Text, stats: Text, w: &mut Out) -> (r: Result<(), IoErr>)
    ensures
        r is Ok ==> final(w).lines() == old(w).lines().push(out_line(name, stats)) && final(w).broken() == old(w).broken()
            && (old(w).rpos() == old(w).lines().len() ==> final(w).rpos() == final(w).lines().len()),
        r is Err ==> final(w).broken(),
{ unimplemented!() }
/// unit avg_rows: `process_chunk/mt/one_line_name_tab_stats_appended` (`writeln!(&mut tmp, "{}\t{}", name, stats)?`)
#[verifier::external_body]
pub fn emit_row_mt(name: Text, stats: Text, w: &mut Out) -> (r: Result<(), IoErr>)
    ensures
        r is Ok ==> final(w).lines() == old(w).lines().push(out_line(name, stats)) && final(w).broken() == old(w).broken()
            && (old(w).rpos() == old(w).lines().len() ==> final(w).rpos() == final(w).lines().len()),
        r is Err ==> final(w).broken(),
{ unimplemented!() }

// ---------------- the documented rows of the average-over-bed tool (C17), per path ----------------
pub open spec fn arm(mt: bool, res: Result<BigWigAverageOverBedEntry, BBIReadError>, size: u32) -> Result<BigWigAverageOverBedEntry, AnyErr> {
    if mt { arm_mt(res, size) } else { arm_st(res) }
}
pub open spec fn a_size(t: Text) -> u32 { (p_entry(t).end - p_entry(t).start) as u32 }
/// what the row of line t is built from: the statistics of ITS OWN chromosome and entry
pub open spec fn a_entry(mt: bool, f: FileId, t: Text) -> Result<BigWigAverageOverBedEntry, AnyErr> {
    arm(mt, stats_res(f, p_chrom(t), p_entry(t).start, p_entry(t).end), a_size(t))
}
/// a line that yields a row: read, parsed, it has the name column, statistics available
pub open spec fn a_line_ok(mt: bool, f: FileId, name: Name, l: Result<Text, IoErr>) -> bool {
    l matches Ok(t) && p_ok(t) && name_spec(name, p_chrom(t), p_entry(t)) is Some && a_entry(mt, f, t) is Ok
}
pub open spec fn a_row(mt: bool, f: FileId, name: Name, amm: bool, t: Text) -> Text {
    out_line(name_spec(name, p_chrom(t), p_entry(t))->Some_0, stats_row(a_entry(mt, f, t)->Ok_0, amm))
}
pub open spec fn a_rows(mt: bool, f: FileId, name: Name, amm: bool, ls: Seq<Result<Text, IoErr>>, n: int) -> Seq<Text>
    decreases n
{ if n <= 0 { Seq::empty() } else { a_rows(mt, f, name, amm, ls, n - 1).push(a_row(mt, f, name, amm, ls[n - 1]->Ok_0)) } }
pub open spec fn a_first_bad(mt: bool, f: FileId, name: Name, ls: Seq<Result<Text, IoErr>>, i: int) -> int
    decreases ls.len() - i
{
    if i < 0 || i >= ls.len() { ls.len() as int } else if !a_line_ok(mt, f, name, ls[i]) { i } else { a_first_bad(mt, f, name, ls, i + 1) }
}
pub open spec fn a_queries(ls: Seq<Result<Text, IoErr>>, n: int) -> Seq<Query>
    decreases n
{ if n <= 0 { Seq::empty() } else { a_queries(ls, n - 1).push(Query { name: p_chrom(ls[n - 1]->Ok_0), start: p_entry(ls[n - 1]->Ok_0).start, end: p_entry(ls[n - 1]->Ok_0).end }) } }
/// no accepted line names an inverted region (NOT checked by the tool: unit stats "Suspected defect", DESIGN §11.3)
pub open spec fn no_inverted_entry(ls: Seq<Result<Text, IoErr>>) -> bool {
    forall|k: int| 0 <= k < ls.len() ==> ((#[trigger] ls[k]) matches Ok(t) ==> (p_ok(t) ==> p_entry(t).start <= p_entry(t).end))
}

// ---- unit fview: FileView::new + Read; unit chunks: split_file_into_chunks_by_size ----
pub open spec fn imin(a: int, b: int) -> int { if a <= b { a } else { b } }
/// the lines of the window [start, min(end, |c|)) of the file
pub open spec fn window_lines(c: Seq<u8>, start: u64, end: u64) -> Seq<Result<Text, IoErr>> {
    lines_in(c, start as int, imin(end as int, c.len() as int))
}
/// `FileView` over the BED file: the bytes [lo, hi) of it (unit fview `read/bytes_are_the_window_bytes_at_cursor`,
/// `read/eof_only_at_window_end`, `read/never_beyond_window`, `read/window_slice_is_file_slice`)
#[verifier::external_body] pub struct ViewFile { _p: u8 }
impl ViewFile {
    pub uninterp spec fn content(&self) -> Seq<u8>;
    pub uninterp spec fn lo(&self) -> int;
    pub uninterp spec fn hi(&self) -> int;
}
impl LineSource for ViewFile { open spec fn src_lines(&self) -> Seq<Result<Text, IoErr>> { lines_in(self.content(), self.lo(), self.hi()) } }
pub struct FileView {}
impl FileView {
    /// unit fview: `new/pre_window_inside_file` (NOT checked by FileView::new: caller obligation),
    /// `new/window_is_requested_range_clamped_to_file`, `new/cursor_at_window_start`
    #[verifier::external_body]
    pub fn new(file: BedFile, start: u64, end: u64) -> (r: Result<ViewFile, IoErr>)
        requires
            [[L: fview/pre_window_inside_file]]
            start <= end, start <= file.content().len(),
        ensures
            r matches Ok(v) ==> v.content() == file.content() && v.lo() == start && v.hi() == imin(end as int, file.content().len() as int),
    { unimplemented!() }
}
/// unit chunks: `split_file_into_chunks_by_size/nonempty`, `../first_starts_at_zero`, `../consecutive`,
/// `../last_ends_at_file_size`, `../cuts_only_at_line_starts_or_eof`, `../chunks_nonempty_unless_file_empty`,
/// `../empty_file_gives_one_empty_chunk`: "chunks partition the file at line starts in order"
#[verifier::opaque]
pub open spec fn chunks_ok(c: Seq<u8>, v: Seq<(u64, u64)>) -> bool {
    &&& v.len() >= 1
    &&& v[0].0 == 0
    &&& forall|i: int, j: int| 0 <= i && j == i + 1 && j < v.len() ==> (#[trigger] v[i]).1 == (#[trigger] v[j]).0
    &&& v.last().1 as int == c.len()
    &&& forall|i: int| 0 <= i < v.len() ==> is_cut(c, (#[trigger] v[i]).1 as int)
    &&& forall|i: int| 0 <= i < v.len() ==> (#[trigger] v[i]).0 <= v[i].1
}
/// unit chunks: `split_file_into_chunks_by_size/pre` (at least one chunk; twice the file size fits u64)
#[verifier::external_body]
pub fn split_file_into_chunks_by_size(f: BedFile, chunks: u64) -> (r: Result<Vec<(u64, u64)>, IoErr>)
    requires
        [[L: chunks/pre_at_least_one_chunk_and_file_size_fits]]
        chunks >= 1, 2 * f.content().len() <= u64::MAX,
    ensures
        r matches Ok(v) ==> chunks_ok(f.content(), v@),
{ unimplemented!() }
pub mod tempfile {
    use super::*;
    /// a fresh, empty temp file
    #[verifier::external_body]
    pub fn tempfile() -> (r: Result<Out, IoErr>)
        ensures r matches Ok(t) ==> t.lines() == Seq::<Text>::empty() && !t.broken() && t.rpos() == 0,
    { unimplemented!() }
}

// ---------------- lemmas: lines of consecutive windows, rows of concatenated line lists ----------------
pub proof fn lemma_nls(c: Seq<u8>, p: int)
    requires 0 <= p < c.len(),
    ensures
        p < nls(c, p) <= c.len(),
        is_cut(c, nls(c, p)),
        forall|q: int| p < q < nls(c, p) ==> !is_line_start(c, q),
    decreases c.len() - p,
{
    reveal_with_fuel(nls, 2);
    if c[p] == 10u8 {
        assert(nls(c, p) == p + 1);
    } else if p + 1 < c.len() {
        lemma_nls(c, p + 1);
        assert(nls(c, p) == nls(c, p + 1));
    } else {
        assert(nls(c, p + 1) == c.len());
        assert(nls(c, p) == c.len());
    }
}
/// reading [a, b) is reading [a, m) and then [m, b) when m is a line start (or EOF): no line straddles a cut
pub proof fn lemma_lines_split(c: Seq<u8>, a: int, m: int, b: int)
    requires 0 <= a <= m <= b <= c.len(), is_cut(c, m),
    ensures
        [[L: lemma/lines_of_consecutive_windows_cut_at_a_line_start_are_the_lines_of_their_union]]
        lines_in(c, a, b) == lines_in(c, a, m) + lines_in(c, m, b),
    decreases m - a,
{
    reveal_with_fuel(lines_in, 2);
    if a == m {
        assert(lines_in(c, a, m) =~= Seq::<Result<Text, IoErr>>::empty());
        assert(lines_in(c, a, m) + lines_in(c, m, b) =~= lines_in(c, m, b));
    } else if m == b {
        assert(lines_in(c, m, b) =~= Seq::<Result<Text, IoErr>>::empty());
        assert(lines_in(c, a, m) + lines_in(c, m, b) =~= lines_in(c, a, m));
    } else {
        lemma_nls(c, a);
        let n = nls(c, a);
        assert(n <= m) by {
            if is_line_start(c, m) { if n > m { assert(a < m < n); } }
        }
        lemma_lines_split(c, n, m, b);
        let first = seq![line_outcome(c.subrange(a, n))];
        assert(lines_in(c, a, b) == first + lines_in(c, n, b));
        if n == m {
            assert(lines_in(c, n, m) =~= Seq::<Result<Text, IoErr>>::empty());
            assert(lines_in(c, a, m) == first);
            assert(first + lines_in(c, m, b) == lines_in(c, a, b));
        } else {
            assert(lines_in(c, a, m) == first + lines_in(c, n, m));
            assert(first + (lines_in(c, n, m) + lines_in(c, m, b)) =~= (first + lines_in(c, n, m)) + lines_in(c, m, b));
        }
    }
}
pub proof fn lemma_rows_prefix(mt: bool, f: FileId, name: Name, amm: bool, l1: Seq<Result<Text, IoErr>>, l2: Seq<Result<Text, IoErr>>, n: int)
    requires 0 <= n <= l1.len(), n <= l2.len(), forall|j: int| 0 <= j < n ==> l1[j] == l2[j],
    ensures a_rows(mt, f, name, amm, l1, n) == a_rows(mt, f, name, amm, l2, n),
    decreases n,
{
    if n > 0 { lemma_rows_prefix(mt, f, name, amm, l1, l2, n - 1); }
}
/// rows of a concatenation = concatenation of the rows, in order
pub proof fn lemma_rows_concat(mt: bool, f: FileId, name: Name, amm: bool, l1: Seq<Result<Text, IoErr>>, l2: Seq<Result<Text, IoErr>>, n2: int)
    requires 0 <= n2 <= l2.len(),
    ensures
        [[L: lemma/rows_of_concatenated_line_lists_are_the_concatenated_rows]]
        a_rows(mt, f, name, amm, l1 + l2, l1.len() + n2) == a_rows(mt, f, name, amm, l1, l1.len() as int) + a_rows(mt, f, name, amm, l2, n2),
    decreases n2,
{
    if n2 == 0 {
        lemma_rows_prefix(mt, f, name, amm, l1 + l2, l1, l1.len() as int);
        assert(a_rows(mt, f, name, amm, l1, l1.len() as int) + a_rows(mt, f, name, amm, l2, 0) =~= a_rows(mt, f, name, amm, l1, l1.len() as int));
    } else {
        lemma_rows_concat(mt, f, name, amm, l1, l2, n2 - 1);
        assert((l1 + l2)[l1.len() + n2 - 1] == l2[n2 - 1]);
        assert(a_rows(mt, f, name, amm, l1, l1.len() as int) + a_rows(mt, f, name, amm, l2, n2 - 1).push(a_row(mt, f, name, amm, l2[n2 - 1]->Ok_0))
            =~= (a_rows(mt, f, name, amm, l1, l1.len() as int) + a_rows(mt, f, name, amm, l2, n2 - 1)).push(a_row(mt, f, name, amm, l2[n2 - 1]->Ok_0)));
    }
}
/// every one of the first n lines yields a row
pub open spec fn a_all_ok(mt: bool, f: FileId, name: Name, ls: Seq<Result<Text, IoErr>>, n: int) -> bool {
    forall|j: int| 0 <= j < n ==> a_line_ok(mt, f, name, #[trigger] ls[j])
}
pub proof fn lemma_first_bad(mt: bool, f: FileId, name: Name, ls: Seq<Result<Text, IoErr>>, i: int)
    requires 0 <= i <= ls.len(),
    ensures
        i <= a_first_bad(mt, f, name, ls, i) <= ls.len(),
        forall|j: int| i <= j < a_first_bad(mt, f, name, ls, i) ==> a_line_ok(mt, f, name, #[trigger] ls[j]),
        a_first_bad(mt, f, name, ls, i) < ls.len() ==> !a_line_ok(mt, f, name, ls[a_first_bad(mt, f, name, ls, i)]),
    decreases ls.len() - i,
{
    if i < ls.len() && a_line_ok(mt, f, name, ls[i]) { lemma_first_bad(mt, f, name, ls, i + 1); }
}
/// up to where the first k chunks reach
pub open spec fn upto(v: Seq<(u64, u64)>, k: int) -> int { if k <= 0 { 0 } else { v[k - 1].1 as int } }
/// one more chunk, appended IN CHUNK ORDER: lines, rows and "all lines yield a row" extend to the union
pub proof fn lemma_chunk_step(mt: bool, f: FileId, name: Name, amm: bool, c: Seq<u8>, v: Seq<(u64, u64)>, k: int)
    requires chunks_ok(c, v), 0 <= k < v.len(),
    ensures
        0 <= upto(v, k) == v[k].0 <= v[k].1 == upto(v, k + 1) <= c.len(),
        window_lines(c, v[k].0, v[k].1) == lines_in(c, v[k].0 as int, v[k].1 as int),
        lines_in(c, 0, upto(v, k + 1)) == lines_in(c, 0, upto(v, k)) + window_lines(c, v[k].0, v[k].1),
        [[L: lemma/rows_of_the_first_k_chunks_then_the_rows_of_chunk_k_are_the_rows_of_the_first_k_plus_1_chunks]]
        a_rows(mt, f, name, amm, lines_in(c, 0, upto(v, k + 1)), lines_in(c, 0, upto(v, k + 1)).len() as int)
            == a_rows(mt, f, name, amm, lines_in(c, 0, upto(v, k)), lines_in(c, 0, upto(v, k)).len() as int)
                + a_rows(mt, f, name, amm, window_lines(c, v[k].0, v[k].1), window_lines(c, v[k].0, v[k].1).len() as int),
        a_all_ok(mt, f, name, lines_in(c, 0, upto(v, k)), lines_in(c, 0, upto(v, k)).len() as int)
            && a_all_ok(mt, f, name, window_lines(c, v[k].0, v[k].1), window_lines(c, v[k].0, v[k].1).len() as int)
            ==> a_all_ok(mt, f, name, lines_in(c, 0, upto(v, k + 1)), lines_in(c, 0, upto(v, k + 1)).len() as int),
        no_inverted_entry(lines_in(c, 0, upto(v, k + 1))) ==> no_inverted_entry(window_lines(c, v[k].0, v[k].1)),
{
    reveal(chunks_ok);
    if k > 0 { assert(v[k - 1].1 == v[k].0); }
    assert(is_cut(c, v[k].1 as int));
    if k > 0 { assert(is_cut(c, v[k - 1].1 as int)); }
    let a = upto(v, k);
    let b = v[k].1 as int;
    assert(is_cut(c, a));
    lemma_lines_split(c, 0, a, b);
    let l1 = lines_in(c, 0, a);
    let l2 = lines_in(c, a, b);
    lemma_rows_concat(mt, f, name, amm, l1, l2, l2.len() as int);
    assert forall|j: int| 0 <= j < (l1 + l2).len() implies (#[trigger] (l1 + l2)[j] == (if j < l1.len() { l1[j] } else { l2[j - l1.len()] })) by { }
    if a_all_ok(mt, f, name, l1, l1.len() as int) && a_all_ok(mt, f, name, l2, l2.len() as int) {
        assert forall|j: int| 0 <= j < (l1 + l2).len() implies a_line_ok(mt, f, name, #[trigger] (l1 + l2)[j]) by {
            if j < l1.len() { assert(a_line_ok(mt, f, name, l1[j])); } else { assert(a_line_ok(mt, f, name, l2[j - l1.len()])); }
        }
    }
    if no_inverted_entry(l1 + l2) {
        assert forall|j: int| 0 <= j < l2.len() implies ((#[trigger] l2[j]) matches Ok(t) ==> (p_ok(t) ==> p_entry(t).start <= p_entry(t).end)) by {
            assert((l1 + l2)[l1.len() + j] == l2[j]);
        }
    }
}
pub proof fn lemma_lines_empty(c: Seq<u8>, a: int)
    ensures lines_in(c, a, a) == Seq::<Result<Text, IoErr>>::empty(),
{
    reveal_with_fuel(lines_in, 1);
}
/// the lines of the first |v| chunks are the lines of the file
pub proof fn lemma_chunks_cover(c: Seq<u8>, v: Seq<(u64, u64)>)
    requires chunks_ok(c, v),
    ensures v.len() >= 1, lines_in(c, 0, upto(v, v.len() as int)) == file_lines(c),
{
    reveal(chunks_ok);
}

/// a chunk's lines are lines of the file: no inverted region in the file => none in the chunk
pub proof fn lemma_windows_not_inverted(c: Seq<u8>, v: Seq<(u64, u64)>, k: int)
    requires chunks_ok(c, v), 0 <= k < v.len(), no_inverted_entry(file_lines(c)),
    ensures no_inverted_entry(window_lines(c, v[k].0, v[k].1)),
    decreases v.len() - k,
{
    // file_lines(c) = lines_in(c, 0, upto(k+1)) + lines_in(c, upto(k+1), |c|)
    lemma_chunk_step(true, arbitrary(), arbitrary(), true, c, v, k);
    let b = upto(v, k + 1);
    assert(is_cut(c, v[k].1 as int)) by { reveal(chunks_ok); }
    lemma_lines_split(c, 0, b, c.len() as int);
    let l1 = lines_in(c, 0, b);
    let l2 = lines_in(c, b, c.len() as int);
    assert forall|j: int| 0 <= j < l1.len() implies ((#[trigger] l1[j]) matches Ok(t) ==> (p_ok(t) ==> p_entry(t).start <= p_entry(t).end)) by {
        assert((l1 + l2)[j] == l1[j]);
    }
}

// ---------------- (2b) process_chunk: the worker of one chunk ----------------
/// what process_chunk needs from its caller
pub open spec fn pc_pre(name: Name, start: u64, end: u64, c: Seq<u8>) -> bool {
    &&& start <= end && start <= c.len()
    &&& name_ok(name)
    &&& no_inverted_entry(window_lines(c, start, end))
}
/// what process_chunk returns for the window [start, end) of the BED file c
pub open spec fn pc_post(f: FileId, name: Name, amm: bool, start: u64, end: u64, c: Seq<u8>, r: Result<Out, AnyErr>) -> bool {
    r matches Ok(tmp) ==> {
        &&& !tmp.broken()
        &&& tmp.rpos() == tmp.lines().len()
        &&& tmp.lines() == a_rows(true, f, name, amm, window_lines(c, start, end), window_lines(c, start, end).len() as int)
        &&& a_all_ok(true, f, name, window_lines(c, start, end), window_lines(c, start, end).len() as int)
    }
}
#[verifier::loop_isolation(false)]
#[verifier::exec_allows_no_decreases_clause]
//@extract fn bigtools/src/utils/cli/bigwigaverageoverbed.rs process_chunk
//@rule R16
//@rule R5
//@rule R15
//@as avg_chunk
//@presub /\n([ \t]*)let entry = match (stats_for_bed_item\([^)]*\)) \{.*?\n\1\};\n/ => \n\1let entry = entry_mt(\2, size)?;\n min=1 count=1
//@presub /let stats = match add_min_max \{.*?\n([ \t]*)\};\n.*?\n([ \t]*)\}(\s*Ok\(tmp\)\s*\}\s*)\Z/ => let stats = stats_row_mt(&entry, add_min_max);\n\1emit_row_mt(name, stats, &mut tmp)?;\n\2}\3 min=1 count=1
//@sub /fn process_chunk<R: Reopen \+ BBIFileRead>/ => fn process_chunk min=1
//@sub /bedinpath: String/ => bedinpath: BedPath min=1
//@sub /inbigwig: &mut BigWigRead<R>/ => inbigwig: &mut Reader min=1
//@sub /Result<File, Box<dyn Error \+ Send \+ Sync>>/ => Result<Out, AnyErr> min=1
//@sub /parse: parse_bed\b/ => parse: ParseBedFn {} min=0
//@sub /\bString\b/ => Text min=0
//@sub /(?:std|core)::mem::replace\(/ => replace_val( min=0
//@ret r
//@sig
    requires
        [[L: pre_window_inside_file_no_inverted_region_name_column_below_usize_max]]
        pc_pre(name, start, end, bedinpath.content()),
    ensures
        [[L: reader_serves_the_same_file]]
        final(inbigwig).file() == old(inbigwig).file(),
        [[L: temp_file_holds_one_row_per_line_of_the_window_in_input_order_errors_returned]]
        pc_post(old(inbigwig).file(), name, add_min_max, start, end, bedinpath.content(), r),
        [[L: one_statistics_call_per_line_with_the_lines_own_chrom_and_entry]]
        r is Ok ==> final(inbigwig).queries() == old(inbigwig).queries()
            + a_queries(window_lines(bedinpath.content(), start, end), window_lines(bedinpath.content(), start, end).len() as int),
//@open
    let ghost f0 = inbigwig.file();
    let ghost q0 = inbigwig.queries();
    let ghost ls = window_lines(bedinpath.content(), start, end);
//@loop 1
        invariant
            [[L: loop/frame]]
            inbigwig.file() == f0, bed_stream.bed.all() == ls, bed_stream.bed.pos() <= ls.len(), no_inverted_entry(ls), name_ok(name),
            [[L: loop/every_line_so_far_yields_a_row]]
            a_all_ok(true, f0, name, ls, bed_stream.bed.pos() as int),
            [[L: loop/one_statistics_call_per_line_so_far]]
            inbigwig.queries() == q0 + a_queries(ls, bed_stream.bed.pos() as int),
            [[L: loop/one_row_per_line_so_far_in_input_order]]
            !tmp.broken() && tmp.rpos() == tmp.lines().len(),
            tmp.lines() == a_rows(true, f0, name, add_min_max, ls, bed_stream.bed.pos() as int),
        decreases
            [[L: loop/termination]]
            ls.len() - bed_stream.bed.pos(),
//@end

// ---------------- channels and threads of the chunked path, SEQUENTIALISED (R1/R2: no concurrency claim) ----------------
// Assume/guarantee per channel: every `send` must establish a predicate about the message (a `requires` of the
// shim: checked at every send site of the extracted text -- the worker closure and the helping main thread), every
// receive may assume it.  Which thread runs a job, and when, is not modelled.
/// the parameters of one run that reach `process_chunk` through captures
pub ghost struct Run { pub file: FileId, pub name: Name, pub amm: bool }
/// the job (start, end, content of the BED path) a result sender was shipped in (a result sender travels in exactly
/// one job tuple: it is moved, never cloned)
pub uninterp spec fn shipped(cid: int) -> (u64, u64, Seq<u8>);
/// result channel of ONE chunk: `crossbeam_channel::bounded(1)`; `cid` identifies the channel
#[verifier::external_body] pub struct ResTx { _p: u8 }
#[verifier::external_body] pub struct ResRx { _p: u8 }
/// what a chunk's result channel carries: `process_chunk`'s result for the job the sender was shipped in
pub open spec fn chunk_result(run: Run, job: (u64, u64, Seq<u8>), res: Result<Out, AnyErr>) -> bool {
    pc_post(run.file, run.name, run.amm, job.0, job.1, job.2, res)
}
pub enum TryRecvError { Empty, Disconnected }
#[verifier::external_body] pub struct RecvError { _p: u8 }
impl TryRecvError { #[verifier::external_body] pub fn into(self) -> AnyErr { unimplemented!() } }
impl RecvError { #[verifier::external_body] pub fn into(self) -> AnyErr { unimplemented!() } }
impl From<TryRecvError> for AnyErr { #[verifier::external_body] fn from(e: TryRecvError) -> AnyErr { unimplemented!() } }
impl From<RecvError> for AnyErr { #[verifier::external_body] fn from(e: RecvError) -> AnyErr { unimplemented!() } }
/// `Result<(), SendError<_>>` of a channel send; `.unwrap()` PANICS when the other side is gone (not modelled)
#[verifier::external_body] pub struct SendRes { _p: u8 }
impl SendRes { #[verifier::external_body] pub fn unwrap(self) { unimplemented!() } }
impl ResTx {
    pub uninterp spec fn cid(&self) -> int;
    pub uninterp spec fn run(&self) -> Run;
    #[verifier::external_body]
    pub fn send(&self, res: Result<Out, AnyErr>) -> SendRes
        requires
            [[L: channel/a_posted_result_is_process_chunks_result_for_the_jobs_own_start_end_and_path]]
            chunk_result(self.run(), shipped(self.cid()), res),
    { unimplemented!() }
}
impl ResRx {
    pub uninterp spec fn cid(&self) -> int;
    pub uninterp spec fn run(&self) -> Run;
    #[verifier::external_body]
    pub fn try_recv(&self) -> (r: Result<Result<Out, AnyErr>, TryRecvError>)
        ensures r matches Ok(res) ==> chunk_result(self.run(), shipped(self.cid()), res),
    { unimplemented!() }
    #[verifier::external_body]
    pub fn recv(&self) -> (r: Result<Result<Out, AnyErr>, RecvError>)
        ensures r matches Ok(res) ==> chunk_result(self.run(), shipped(self.cid()), res),
    { unimplemented!() }
}
/// a job message is well formed: its result sender belongs to this run and was shipped with exactly this
/// (start, end, path); the window is one `process_chunk` accepts
pub open spec fn job_wf(run: Run, m: (u64, u64, BedPath, ResTx)) -> bool {
    &&& m.3.run() == run
    &&& shipped(m.3.cid()) == (m.0, m.1, m.2.content())
    &&& pc_pre(run.name, m.0, m.1, m.2.content())
}
/// job queue: `crossbeam_channel::unbounded()`
#[verifier::external_body] pub struct JobTx { _p: u8 }
#[verifier::external_body] pub struct JobRx { _p: u8 }
impl JobTx {
    pub uninterp spec fn run(&self) -> Run;
    /// (the `ensures` DEFINES `shipped` for this sender's channel)
    #[verifier::external_body]
    pub fn send(&self, m: (u64, u64, BedPath, ResTx)) -> (r: SendRes)
        requires
            [[L: channel/a_job_carries_a_window_process_chunk_accepts_and_a_result_sender_of_this_run]]
            m.3.run() == self.run(), pc_pre(self.run().name, m.0, m.1, m.2.content()),
        ensures
            shipped(m.3.cid()) == (m.0, m.1, m.2.content()),
    { unimplemented!() }
}
impl JobRx {
    pub uninterp spec fn run(&self) -> Run;
    /// jobs not yet taken (by anyone): only its decrease is used (termination)
    pub uninterp spec fn left(&self) -> nat;
    #[verifier::external_body]
    pub fn recv(&mut self) -> (r: Result<(u64, u64, BedPath, ResTx), RecvError>)
        ensures
            final(self).run() == old(self).run(),
            r matches Ok(n) ==> job_wf(old(self).run(), n) && final(self).left() < old(self).left(),
            r is Err ==> final(self).left() == old(self).left(),
    { unimplemented!() }
    #[verifier::external_body]
    pub fn clone(&self) -> (r: JobRx) ensures r.run() == self.run(), r.left() == self.left(), { unimplemented!() }
}
pub mod crossbeam_channel {
    use super::*;
    #[verifier::external_body]
    pub fn unbounded(Ghost(run): Ghost<Run>) -> (r: (JobTx, JobRx)) ensures r.0.run() == run, r.1.run() == run, { unimplemented!() }
    #[verifier::external_body]
    pub fn bounded(cap: usize, Ghost(run): Ghost<Run>) -> (r: (ResTx, ResRx))
        ensures r.0.run() == run, r.1.run() == run, r.0.cid() == r.1.cid(),
    { unimplemented!() }
}
pub fn drop<T>(t: T) {}
impl Reader {
    /// `Reopen::reopen`: a second handle on the same file, or an I/O error
    #[verifier::external_body]
    pub fn reopen(&self) -> (r: Result<Reader, IoErr>)
        ensures r matches Ok(b) ==> b.file() == self.file() && b.queries() == Seq::<Query>::empty(),
    { unimplemented!() }
}
pub enum SeekFrom { Start(u64), End(i64), Current(i64) }
impl Out {
    /// `tmp.seek(SeekFrom::Start(0))`: rewinds; the text is untouched (other targets: nothing promised about the cursor)
    #[verifier::external_body]
    pub fn seek(&mut self, pos: SeekFrom) -> (r: Result<u64, IoErr>)
        ensures
            final(self).lines() == old(self).lines(), final(self).broken() == old(self).broken(),
            r is Ok ==> (pos matches SeekFrom::Start(n) ==> (n == 0 ==> final(self).rpos() == 0)),
    { unimplemented!() }
}
pub mod io {
    use super::*;
    /// `io::copy(&mut tmp, &mut out)`: everything from tmp's cursor to its end is appended to out
    #[verifier::external_body]
    pub fn copy(r: &mut Out, w: &mut Out) -> (res: Result<u64, IoErr>)
        ensures
            res is Ok ==> final(w).lines() == old(w).lines() + old(r).lines().skip(old(r).rpos() as int) && final(w).broken() == old(w).broken(),
            res is Err ==> final(w).broken(),
    { unimplemented!() }
}
/// The order in which `for x in V<adaptors>` visits the positions of V (device of unit zoom_outer): the loop header
/// `for (a, b) in V<adaptors> {` becomes `let ord__ = VOrder::all(V.len())<adaptors>; for ic in 0..ord__.len() { let a =
/// V[ord__.at(ic)].0; ..`.  `all(n)` = 0, 1, .., n-1 (verified); the adaptors an edit might add are accepted with NOTHING
/// promised (so `.skip(1)`, `.rev()`, `.take(k)` are judged by the invariants -- and fail -- instead of being rejected)
pub struct VOrder { pub ix: Vec<usize> }
impl VOrder {
    pub open spec fn view(&self) -> Seq<usize> { self.ix@ }
    pub fn all(n: usize) -> (r: VOrder)
        ensures r@.len() == n, forall|i: int| 0 <= i < n ==> (#[trigger] r@[i]) == i,
    {
        let mut ix: Vec<usize> = Vec::new();
        let mut i: usize = 0;
        while i < n
            invariant i <= n, ix@.len() == i, forall|t: int| 0 <= t < i ==> (#[trigger] ix@[t]) == t,
            decreases n - i,
        {
            ix.push(i);
            i = i + 1;
        }
        VOrder { ix }
    }
    pub fn len(&self) -> (r: usize) ensures r == self@.len(), { self.ix.len() }
    pub fn at(&self, j: usize) -> (r: usize) requires j < self@.len(), ensures r == self@[j as int], { self.ix[j] }
    pub fn into_iter(self) -> (r: VOrder) ensures r@ == self@, { self }
    pub fn iter(self) -> (r: VOrder) ensures r@ == self@, { self }
    #[verifier::external_body] pub fn skip(self, n: usize) -> VOrder { unimplemented!() }
    #[verifier::external_body] pub fn take(self, n: usize) -> VOrder { unimplemented!() }
    #[verifier::external_body] pub fn rev(self) -> VOrder { unimplemented!() }
    #[verifier::external_body] pub fn step_by(self, n: usize) -> VOrder { unimplemented!() }
}
/// `std::thread::spawn(do_process_chrom)` (R2-style hand-off): the thread runs `worker` (verified below with the same
/// precondition); nothing about WHEN it runs is modelled
#[verifier::external_body] pub struct JoinHandle { _p: u8 }
#[verifier::external_body]
pub fn spawn_worker(inbigwig_: Reader, chunk_data_receiver_: JobRx, name: Name, add_min_max: bool) -> JoinHandle
    requires
        [[L: spawn/a_worker_gets_a_reader_on_the_same_bigwig_the_runs_name_mode_and_min_max_flag]]
        chunk_data_receiver_.run() == (Run { file: inbigwig_.file(), name: name, amm: add_min_max }), name_ok(name),
{ unimplemented!() }

// ---------------- (2c) the worker thread: the closure `do_process_chrom`, lifted (R10) ----------------
#[verifier::loop_isolation(false)]
#[verifier::exec_allows_no_decreases_clause]
//@extract fn bigtools/src/utils/cli/bigwigaverageoverbed.rs bigwigaverageoverbed
//@rule R16
//@rule R5
//@rule R15
//@as avg_worker
//@presub /\A.*?let do_process_chrom = move \|\| \{\n(.*?)\n            \};\n\s*let join_handle = std::thread::spawn\(do_process_chrom\);.*\Z/ => fn worker(inbigwig_: Reader, chunk_data_receiver_: JobRx, name: Name, add_min_max: bool) {\n\1\n} min=1 count=1
//@sub /let chunk_data_receiver = / => let mut chunk_data_receiver = min=0
//@sub /\bString\b/ => Text min=0
//@sub /(?:std|core)::mem::replace\(/ => replace_val( min=0
//@sig
    requires
        chunk_data_receiver_.run() == (Run { file: inbigwig_.file(), name: name, amm: add_min_max }), name_ok(name),
//@loop 1
        invariant
            [[L: loop/frame]]
            chunk_data_receiver.run() == (Run { file: inbigwig.file(), name: name, amm: add_min_max }), name_ok(name),
        decreases
            [[L: loop/termination]]
            chunk_data_receiver.left(),
//@end

// ---------------- (2a) + (2d): `let parallel = nthreads > 1; if parallel { chunked path } else { single-threaded loop }` ----------------
#[verifier::loop_isolation(false)]
#[verifier::exec_allows_no_decreases_clause]
#[verifier::allow_complex_invariants]
//@extract fn bigtools/src/utils/cli/bigwigaverageoverbed.rs bigwigaverageoverbed
//@rule R16
//@rule R5
//@rule R15
//@as avg
//@presub /\A.*?\n(    let parallel = [^\n]*\n.*)\Z/ => fn avg_dispatch(bedinpath: BedPath, name: Name, add_min_max: bool, nthreads: usize, inbigwig: &mut Reader, bedoutwriter: &mut Out) -> Result<(), AnyErr> {\n\1 min=1 count=1
//@presub /\n[ \t]*fn process_chunk<.*?\n        \}\n/ => \n min=1 count=1
//@presub /let do_process_chrom = move \|\| \{\n.*?\n            \};\n\s*let join_handle = std::thread::spawn\(do_process_chrom\);/ => let join_handle = spawn_worker(inbigwig_, chunk_data_receiver_, name, add_min_max); min=1 count=1
//@presub /\n([ \t]*)let entry = match (stats_for_bed_item\([^)]*\)) \{.*?\n\1\};\n/ => \n\1let entry = entry_st(\2)?;\n min=1 count=1
//@presub /let stats = match add_min_max \{.*?\n([ \t]*)\};\n.*?\n([ \t]*)\}(\s*\}\s*Ok\(\(\)\)\s*\}\s*)\Z/ => let stats = stats_row_st(&entry, add_min_max);\n\1emit_row_st(name, stats, &mut bedoutwriter)?;\n\2}\3 min=1 count=1
//@sub /&mut (inbigwig|bedoutwriter)\b/ => &mut *\1 min=0
//@sub /: BufReader<File>/ => "" min=0
//@sub /(parse_bed\([^()]*\))\.ok_or_else\(\|\| \{.*?\n[ \t]*\}\)\?\?/ => (match \1 { Some(v__) => v__, None => return Err(invalid_bed_err().into()) })? min=0
//@sub /for \((\w+), (\w+)\) in (\w+)((?:\.\w+\([^()]*\))*) \{/ => let ord__ = VOrder::all(\3.len())\4; for ic in 0..ord__.len() { let \1 = \3[ord__.at(ic)].0; let \2 = \3[ord__.at(ic)].1; min=0
//@sub /crossbeam_channel::unbounded\(\)/ => crossbeam_channel::unbounded(Ghost(run)) min=0
//@sub /crossbeam_channel::bounded\(1\)/ => crossbeam_channel::bounded(1, Ghost(run)) min=0
//@sub /let \((\w+), (chunk_data_receiver)\) =/ => let (\1, mut \2) = min=0
//@sub /let mut chunk_data = VecDeque::/ => let mut chunk_data: VecDeque<ResRx> = VecDeque:: min=0
//@sub /\bString\b/ => Text min=0
//@sub /(?:std|core)::mem::replace\(/ => replace_val( min=0
//@ret r
//@sig
    requires
        [[L: pre_no_inverted_region]]
        no_inverted_entry(file_lines(bedinpath.content())),
        [[L: pre_column_number_below_usize_max]]
        name_ok(name),
        [[L: pre_twice_the_bed_file_size_fits_u64]]
        2 * bedinpath.content().len() <= u64::MAX,
    ensures
        [[L: reader_serves_the_same_file]]
        final(inbigwig).file() == old(inbigwig).file(),
        // (`true` / `false`: the rows as the threaded / the single-threaded copy of the row code builds them; which path runs
        //  for which -t is not part of the claim: the two texts are the same by `identical_for_any_number_of_threads`)
        [[L: one_row_per_input_line_in_input_order_for_any_number_of_threads]]
        r is Ok && !final(bedoutwriter).broken() ==>
            final(bedoutwriter).lines() == old(bedoutwriter).lines()
                + a_rows(true, old(inbigwig).file(), name, add_min_max, file_lines(bedinpath.content()), file_lines(bedinpath.content()).len() as int)
            || final(bedoutwriter).lines() == old(bedoutwriter).lines()
                + a_rows(false, old(inbigwig).file(), name, add_min_max, file_lines(bedinpath.content()), file_lines(bedinpath.content()).len() as int),
        [[L: nothing_is_written_for_an_input_without_lines]]
        file_lines(bedinpath.content()).len() == 0 && r is Ok && !final(bedoutwriter).broken() ==> final(bedoutwriter).lines() =~= old(bedoutwriter).lines(),
        [[L: an_error_on_any_line_is_returned_no_silent_truncation]]
        r is Ok ==> a_all_ok(true, old(inbigwig).file(), name, file_lines(bedinpath.content()), file_lines(bedinpath.content()).len() as int)
            || a_all_ok(false, old(inbigwig).file(), name, file_lines(bedinpath.content()), file_lines(bedinpath.content()).len() as int),
        [[L: st/rows_before_the_first_failing_line_stay_written_in_input_order]]
        nthreads <= 1 && !final(bedoutwriter).broken() ==> (r is Err && final(bedoutwriter).lines() == old(bedoutwriter).lines())
            || final(bedoutwriter).lines() == old(bedoutwriter).lines()
                + a_rows(false, old(inbigwig).file(), name, add_min_max, file_lines(bedinpath.content()),
                         a_first_bad(false, old(inbigwig).file(), name, file_lines(bedinpath.content()), 0)),
        [[L: st/one_statistics_call_per_line_with_the_lines_own_chrom_and_entry]]
        nthreads <= 1 && r is Ok ==> final(inbigwig).queries() == old(inbigwig).queries() + a_queries(file_lines(bedinpath.content()), file_lines(bedinpath.content()).len() as int),
//@open
    let ghost f0 = inbigwig.file();
    let ghost q0 = inbigwig.queries();
    let ghost l0 = bedoutwriter.lines();
    let ghost c = bedinpath.content();
    let ghost ls = file_lines(c);
    let ghost run = Run { file: f0, name: name, amm: add_min_max };
    let ghost mut k: int = 0;
//@at /let mut chunk_data\b/ before
        let ghost cv = chunks@;
        assert(chunks_ok(c, cv)); [[L: mt/chunks_partition_the_file_at_line_starts_in_order]]
//@loop 1
            invariant
                [[L: mt/jobs/frame]]
                inbigwig.file() == f0, chunks@ == cv, chunks_ok(c, cv), chunk_data_sender.run() == run, bedinpath.content() == c,
                no_inverted_entry(ls), name_ok(name), ls == file_lines(c),
                [[L: mt/jobs/every_chunk_is_visited_once_IN_CHUNK_ORDER]]
                ord__@.len() == cv.len(), forall|j: int| 0 <= j < ord__@.len() ==> (#[trigger] ord__@[j]) == j,
                [[L: mt/jobs/kth_result_channel_belongs_to_the_kth_chunk_IN_CHUNK_ORDER]]
                chunk_data@.len() == ic,
                forall|j: int| 0 <= j < ic ==> (#[trigger] chunk_data@[j]).run() == run && shipped(chunk_data@[j].cid()) == (cv[j].0, cv[j].1, c),
//@at /let \(result_sender, result_receiver\) = / before
            proof {
                lemma_chunk_step(true, f0, name, add_min_max, c, cv, ic as int);
                lemma_windows_not_inverted(c, cv, ic as int);
            }
//@at /let mut threads = / before
        let ghost cd0 = chunk_data@;
        proof { lemma_lines_empty(c, 0); }
//@loop 2
            invariant
                inbigwig.file() == f0, chunk_data_receiver.run() == run, name_ok(name), chunk_data@ == cd0,
//@loop 3
            invariant
                [[L: mt/copy/frame]]
                inbigwig.file() == f0, chunk_data_receiver.run() == run, name_ok(name), chunks_ok(c, cv), cd0.len() == cv.len(),
                forall|j: int| 0 <= j < cd0.len() ==> (#[trigger] cd0[j]).run() == run && shipped(cd0[j].cid()) == (cv[j].0, cv[j].1, c),
                [[L: mt/copy/result_channels_are_taken_IN_CHUNK_ORDER]]
                0 <= k <= cd0.len(), chunk_data@ == cd0.skip(k),
                [[L: mt/copy/output_is_the_rows_of_the_first_k_chunks_in_chunk_order]]
                !bedoutwriter.broken() ==> bedoutwriter.lines() == l0 + a_rows(true, f0, name, add_min_max, lines_in(c, 0, upto(cv, k)), lines_in(c, 0, upto(cv, k)).len() as int),
                [[L: mt/copy/every_line_of_the_first_k_chunks_yielded_a_row]]
                a_all_ok(true, f0, name, lines_in(c, 0, upto(cv, k)), lines_in(c, 0, upto(cv, k)).len() as int),
            decreases
                [[L: mt/copy/termination]]
                chunk_data@.len(),
//@at /let mut wait = false;/ before
            proof {
                assert(result_receiver == cd0[k]); [[L: mt/copy/the_result_channel_taken_is_the_one_of_chunk_k]]
                lemma_chunk_step(true, f0, name, add_min_max, c, cv, k);
            }
//@loop 4
                invariant_except_break
                    [[L: mt/wait/nothing_copied_while_waiting]]
                    !bedoutwriter.broken() ==> bedoutwriter.lines() == l0 + a_rows(true, f0, name, add_min_max, lines_in(c, 0, upto(cv, k)), lines_in(c, 0, upto(cv, k)).len() as int),
                invariant
                    [[L: mt/wait/frame]]
                    inbigwig.file() == f0, chunk_data_receiver.run() == run, name_ok(name), 0 <= k < cd0.len(), chunk_data@ == cd0.skip(k + 1),
                    result_receiver.run() == run, shipped(result_receiver.cid()) == (cv[k].0, cv[k].1, c),
                    a_all_ok(true, f0, name, lines_in(c, 0, upto(cv, k)), lines_in(c, 0, upto(cv, k)).len() as int),
                ensures
                    [[L: mt/wait/chunk_k_is_copied_whole_after_the_first_k_chunks]]
                    !bedoutwriter.broken() ==> bedoutwriter.lines() == l0 + a_rows(true, f0, name, add_min_max, lines_in(c, 0, upto(cv, k)), lines_in(c, 0, upto(cv, k)).len() as int)
                        + a_rows(true, f0, name, add_min_max, window_lines(c, cv[k].0, cv[k].1), window_lines(c, cv[k].0, cv[k].1).len() as int),
                    [[L: mt/wait/every_line_of_chunk_k_yielded_a_row]]
                    a_all_ok(true, f0, name, window_lines(c, cv[k].0, cv[k].1), window_lines(c, cv[k].0, cv[k].1).len() as int),
                decreases
                    [[L: mt/wait/termination]]
                    (if wait { 0int } else { 1int }) + chunk_data_receiver.left(),
//@loopend 3
            proof { k = k + 1; }
//@at /^    \} else \{\s*$/ before
        proof {
            assert(k == cv.len());
            lemma_chunks_cover(c, cv);
        }
//@loop 5
            invariant
                [[L: st/loop/frame]]
                inbigwig.file() == f0, bedstream.all() == ls, bedstream.pos() <= ls.len(), no_inverted_entry(ls), name_ok(name),
                [[L: st/loop/no_failing_line_so_far]]
                a_first_bad(false, f0, name, ls, 0) == a_first_bad(false, f0, name, ls, bedstream.pos() as int),
                [[L: st/loop/one_statistics_call_per_line_so_far]]
                inbigwig.queries() == q0 + a_queries(ls, bedstream.pos() as int),
                [[L: st/loop/one_row_per_line_so_far_in_input_order]]
                !bedoutwriter.broken() ==> bedoutwriter.lines() == l0 + a_rows(false, f0, name, add_min_max, ls, bedstream.pos() as int),
            decreases
                [[L: st/loop/termination]]
                ls.len() - bedstream.pos(),
//@at /^    Ok\(\(\)\)\s*$/ before
    proof {
        lemma_first_bad(false, f0, name, ls, 0);
    }
//@end

// ---------------- "identical for any number of threads" (C17): the product statement ----------------
/// avg_dispatch writes `a_rows(nthreads > 1, ..)`: the rows of ALL lines of the file in input order, built by the
/// threaded copy (`true`) or the single-threaded copy (`false`) of the row code.  Unit avg_rows shows that the two
/// copies agree on every line whose statistics are available (`stats_agree_between_threaded_and_single_threaded_path`,
/// `lines_agree_between_threaded_and_single_threaded_path`, `mt|st/row_shows_the_statistics_computed_for_the_region`):
/// that is the premise here.  Then the whole text agrees.
pub proof fn identical_for_any_number_of_threads(f: FileId, name: Name, amm: bool, ls: Seq<Result<Text, IoErr>>, n: int)
    requires
        0 <= n <= ls.len(),
        forall|k: int| 0 <= k < n ==> a_entry(true, f, (#[trigger] ls[k])->Ok_0) == a_entry(false, f, ls[k]->Ok_0),
    ensures
        [[L: same_per_line_rows_give_the_same_text_for_any_number_of_threads]]
        a_rows(true, f, name, amm, ls, n) == a_rows(false, f, name, amm, ls, n),
        [[L: same_per_line_rows_give_the_same_verdict_for_any_number_of_threads]]
        a_all_ok(true, f, name, ls, n) == a_all_ok(false, f, name, ls, n),
    decreases n,
{
    if n > 0 {
        identical_for_any_number_of_threads(f, name, amm, ls, n - 1);
        assert(a_entry(true, f, ls[n - 1]->Ok_0) == a_entry(false, f, ls[n - 1]->Ok_0));
    }
    assert forall|j: int| 0 <= j < n implies a_line_ok(true, f, name, #[trigger] ls[j]) == a_line_ok(false, f, name, ls[j]) by {
        assert(a_entry(true, f, ls[j]->Ok_0) == a_entry(false, f, ls[j]->Ok_0));
    }
}

} // verus!
fn main() {}
