// FileView::{new, read, seek} (bigtools/src/utils/file/file_view.rs).
// The property (C18): "a view onto a byte range of a file behaves exactly like that range in
// isolation under any sequence of reads and seeks".  Model of "that range in isolation":
// the byte sequence  win = content[start, end)  with a cursor  vp in [0, |win|]  (what a
// std::io::Cursor over a copy of the range would hold); read(buf) delivers win[vp, vp+n) and
// moves the cursor by n, n == 0 only for an empty buffer or at the end of the range; seek moves
// the cursor to the std position arithmetic, clamped into [0, |win|] (FileView documents clamping
// where a Cursor would run past the end / report an error).
// Narrowing preconditions: pre_cursor_known (S1: the recovery path after an I/O error recurses
// forever -- I/O errors are outside C18's quantifier) and new/pre_window_inside_file (S4); see NOTES.md.
// seek is proved for ALL offsets (S2/S3 fixed in /repo by saturating_add).
use vstd::prelude::*;
verus! {
// 64-bit target (the `as usize` / `as u64` casts between u64 and usize are value-preserving)
global size_of usize == 8;

// ---------------- shims for std (ASSUMED contracts, see NOTES.md) ----------------
/// stands for std::io::Error (opaque)
pub struct IoError { _p: u8 }

/// own copy of std::io::SeekFrom (std's enum cannot be extracted)
pub enum SeekFrom { Start(u64), End(i64), Current(i64) }

/// stands for std::fs::File opened on a regular file that nobody else modifies
#[verifier::external_body]
pub struct VFile { _p: u8 }
impl VFile {
    /// bytes of the file (never changed by seek/read)
    pub uninterp spec fn content(&self) -> Seq<u8>;
    /// OS file position of this handle
    pub uninterp spec fn pos(&self) -> int;
    /// file length
    pub open spec fn len(&self) -> int { self.content().len() as int }

    /// std::io::Seek::seek for File == lseek(2): a successful result is the new absolute
    /// position, it is what std documents for the three variants and fits off_t (i64).
    /// On Err the position is unspecified.
    #[verifier::external_body]
    fn seek(&mut self, pos: SeekFrom) -> (r: Result<u64, IoError>)
        ensures
            final(self).content() == old(self).content(),
            match r {
                Ok(q) => {
                    &&& q <= i64::MAX
                    &&& final(self).pos() == q
                    &&& match pos {
                        SeekFrom::Start(p) => q == p,
                        SeekFrom::End(d) => q == old(self).len() + d,
                        SeekFrom::Current(d) => q == old(self).pos() + d,
                    }
                },
                Err(_) => true,
            },
    { unimplemented!() }

    /// std::io::Read::read for File == read(2) on a regular file: n bytes, n <= buf.len(),
    /// n <= bytes left before EOF, they are the file's bytes at the old position, the position
    /// advances by n; n may be short, but 0 only for an empty buffer or at/after EOF.
    /// Nothing is said about buf[n..].  On Err the position is unspecified.
    #[verifier::external_body]
    fn read(&mut self, buf: &mut [u8]) -> (r: Result<usize, IoError>)
        ensures
            final(self).content() == old(self).content(),
            final(buf)@.len() == old(buf)@.len(),
            match r {
                Ok(n) => {
                    &&& n <= old(buf)@.len()
                    &&& n <= imax(0, old(self).len() - old(self).pos())
                    &&& final(self).pos() == old(self).pos() + n
                    &&& n > 0 ==> final(buf)@.subrange(0, n as int) == old(self).content().subrange(old(self).pos(), old(self).pos() + n)
                    &&& n == 0 ==> old(buf)@.len() == 0 || old(self).pos() >= old(self).len()
                },
                Err(_) => true,
            },
    { unimplemented!() }
}

/// stands for std::fs::Metadata of a regular file (only its length is modelled)
#[verifier::external_body]
pub struct VMetadata { _p: u8 }
impl VMetadata {
    pub uninterp spec fn size(&self) -> int;
    /// std::fs::Metadata::len: "the size of the file, in bytes"
    #[verifier::external_body]
    pub fn len(&self) -> (r: u64)
        ensures r == self.size(),
    { unimplemented!() }
}
impl VFile {
    /// std::fs::File::metadata == fstat(2) (0 hits on /repo; lets an edit that asks for the length instead of
    /// seeking to the end reach the verifier): takes `&self` -- neither the bytes nor the handle's POSITION
    /// change; on success the metadata's length is the file's length (st_size, an off_t: fits i64, as for
    /// `seek` above); it may fail.
    #[verifier::external_body]
    pub fn metadata(&self) -> (r: Result<VMetadata, IoError>)
        ensures r matches Ok(m) ==> m.size() == self.len() && m.size() <= i64::MAX,
    { unimplemented!() }
}

/// std's i64::saturating_add (vstd has a spec for the u64 one only): ASSUMED arithmetic contract
pub assume_specification[ i64::saturating_add ](a: i64, b: i64) -> (r: i64)
    ensures r == (if a + b > i64::MAX { i64::MAX as int } else if a + b < i64::MIN { i64::MIN as int } else { a + b });

// A plain `+` at the two offset additions of `seek` (the pre-fix forms of S2/S3, NOTES.md) is routed
// through these verified helpers by `//@sub ... min=0` so that the overflow obligation has a NAME.
// On the fixed tree (saturating_add) the subs have 0 hits and the helpers are not called.
fn pos_add_u64(a: u64, b: u64) -> (r: u64)
    requires
        
        a + b <= u64::MAX,
    ensures r == a + b,
{ a + b }
fn pos_add_i64(a: i64, b: i64) -> (r: i64)
    requires
        
        i64::MIN <= a + b <= i64::MAX,
    ensures r == a + b,
{ a + b }

// ---------------- specification vocabulary (written from the property) ----------------
pub open spec fn imax(a: int, b: int) -> int { if a >= b { a } else { b } }
pub open spec fn imin(a: int, b: int) -> int { if a <= b { a } else { b } }
pub open spec fn clamp(x: int, lo: int, hi: int) -> int { imax(lo, imin(x, hi)) }

/// where a seek puts the cursor of an isolated range of length `wlen` whose cursor is at `vp`
/// (std arithmetic: Start(k) -> k, End(d) -> wlen + d, Current(d) -> vp + d), clamped into
/// [0, wlen]; FileView additionally never goes past the end for End(d > 0).
pub open spec fn view_seek(wlen: int, vp: int, pos: SeekFrom) -> int {
    match pos {
        SeekFrom::Start(k) => imin(k as int, wlen),
        SeekFrom::End(d) => imax(0, wlen + imin(d as int, 0)),
        SeekFrom::Current(d) => clamp(vp + d, 0, wlen),
    }
}

pub struct FileView {
    file: VFile,
    start: u64,
    end: u64,
    current: Option<u64>,
}

impl FileView {
    /// data-structure invariant (DESIGN §6 C18)
    pub closed spec fn wf(&self) -> bool {
        &&& self.start <= self.end <= self.file.len()
        &&& self.file.len() <= i64::MAX
        &&& self.current matches Some(c) ==> c == self.file.pos() && self.start <= c <= self.end
    }
    /// the isolated range
    pub closed spec fn win(&self) -> Seq<u8> { self.file.content().subrange(self.start as int, self.end as int) }
    /// cursor inside the range (meaningful when `cursor_known`)
    pub closed spec fn vpos(&self) -> int { self.current.unwrap() - self.start }
    pub closed spec fn cursor_known(&self) -> bool { self.current.is_some() }
    /// cursor inside the range, 0 when unknown (absolute seeks do not look at it)
    pub closed spec fn vpos_or0(&self) -> int { if self.current.is_some() { self.current.unwrap() - self.start } else { 0 } }
    /// what never changes: the window and the file's bytes
    pub closed spec fn same_window(&self, o: &FileView) -> bool {
        self.start == o.start && self.end == o.end && self.file.content() == o.file.content()
    }
    pub closed spec fn window_of(&self, content: Seq<u8>, start: int, end: int) -> bool {
        self.file.content() == content && self.start == start && self.end == end
    }
}

impl FileView {
pub fn new(mut file: VFile, start: u64, end: u64) -> (r: Result<FileView, IoError>)
    requires
        
        // NOT checked by the code (caller obligation, see NOTES.md): a well-formed window
        start <= end, start <= file.len(),
    ensures
        
        r matches Ok(v) ==> v.wf(),
        
        r matches Ok(v) ==> v.window_of(file.content(), start as int, imin(end as int, file.len())),
        
        r matches Ok(v) ==> v.cursor_known() && v.vpos() == 0,
{
        let file_end = file.seek(SeekFrom::End(0))?;
        file.seek(SeekFrom::Start(start))?;
        let end = end.min(file_end);
        Ok(FileView {
            file,
            start,
            end,
            current: Some(start),
        })
    }
}

impl FileView {
fn read(&mut self, buf: &mut [u8]) -> (r: Result<usize, IoError>)
    requires
        
        old(self).wf(),
        
        // ASSUMPTION (suspected defect S1, NOTES.md): no I/O error since the last absolute seek.
        // Without this line the call `self.seek(Current(0))` below violates seek's own
        // `pre_cursor_known` / termination obligation: the recovery path recurses forever.
        old(self).cursor_known(),
    ensures
        
        final(self).wf(),
        
        final(self).same_window(old(self)),
        
        final(buf)@.len() == old(buf)@.len(),
        
        r matches Ok(n) ==> n <= old(buf)@.len(),
        
        r matches Ok(n) ==> old(self).vpos() + n <= old(self).win().len(),
        
        r matches Ok(n) ==> final(buf)@.subrange(0, n as int) == old(self).win().subrange(old(self).vpos(), old(self).vpos() + n),
        
        r matches Ok(n) ==> final(self).cursor_known() && final(self).vpos() == old(self).vpos() + n,
        
        r matches Ok(n) ==> (n == 0 ==> old(buf)@.len() == 0 || old(self).vpos() == old(self).win().len()),
        
        r is Err ==> !final(self).cursor_known(),
{
        let current = match self.current {
            Some(current) => current,
            None => {
                let current = self.seek(SeekFrom::Current(0))? + self.start;
                self.current = Some(current);
                current
            }
        };
        let to_read = buf.len().min((self.end - current) as usize);

        let ghost c0 = current as int;
        let ghost content0 = self.file.content();
        let buf = &mut buf[..to_read];
        match self.file.read(buf) {
            Ok(read) => {

                proof {
                    let w = old(self).win();
                    let vp = old(self).vpos();
                    assert(w.subrange(vp, vp + read) =~= content0.subrange(c0, c0 + read)); 
                }
                self.current = Some(current + read as u64);
                Ok(read)
            }
            Err(e) => {
                self.current = None;
                Err(e)
            }
        }
    }
}

impl FileView {
fn seek(&mut self, pos: SeekFrom) -> (r: Result<u64, IoError>)
    requires
        
        old(self).wf(),
        
        // ASSUMPTION (suspected defect S1, NOTES.md): a relative seek needs a known cursor, i.e. no
        // I/O error since the last absolute seek.  Without this line `termination` below fails:
        // seek(Current(d)) with current == None calls self.seek(Current(0)) with current still None.
        pos is Current ==> old(self).cursor_known(),
    ensures
        
        final(self).wf(),
        
        final(self).same_window(old(self)),
        
        r matches Ok(v) ==> v == view_seek(old(self).win().len() as int, old(self).vpos_or0(), pos),
        
        r matches Ok(v) ==> final(self).cursor_known() && final(self).vpos() == v,
        
        r is Err ==> !final(self).cursor_known(),
    decreases
        
        (if pos is Current && !old(self).cursor_known() { 1int } else { 0int }),
{
        match pos {
            SeekFrom::Start(start) => {
                let seek_from = SeekFrom::Start(self.end.min(self.start.saturating_add(start)));

                assert(seek_from == SeekFrom::Start(imin(self.end as int, self.start + start) as u64)); 
                match self.file.seek(seek_from) {
                    Ok(new_pos) => {

                        assert(self.start <= new_pos && new_pos <= self.end); 
                        assert(new_pos >= self.start && new_pos <= self.end);
                        self.current = Some(new_pos);
                        let new_pos = new_pos - self.start;
                        Ok(new_pos)
                    }
                    Err(e) => {
                        self.current = None;
                        Err(e)
                    }
                }
            }
            SeekFrom::End(end) => {
                let end = end.min(0);

                assert(i64::MIN <= (self.end as i64) + end <= i64::MAX); 
                let new_pos = (self.end as i64) + end;
                match self
                    .file
                    .seek(SeekFrom::Start(new_pos.max(self.start as i64) as u64))
                {
                    Ok(new_pos) => {

                        assert(self.start <= new_pos && new_pos <= self.end); 
                        assert(new_pos >= self.start && new_pos <= self.end);
                        self.current = Some(new_pos);
                        let new_pos = new_pos - self.start;
                        Ok(new_pos)
                    }
                    Err(e) => {
                        self.current = None;
                        Err(e)
                    }
                }
            }
            SeekFrom::Current(offset) => {
                let current = match self.current {
                    Some(current) => current,
                    None => {
                        let current = self.seek(SeekFrom::Current(0))? + self.start;
                        self.current = Some(current);
                        current
                    }
                };

                let new_pos = (current as i64).saturating_add(offset);

                assert(new_pos == imin(current + offset, i64::MAX as int)); 
                let new_pos = new_pos.min(self.end as i64).max(self.start as i64);
                match self.file.seek(SeekFrom::Start(new_pos as u64)) {
                    Ok(new_pos) => {

                        assert(self.start <= new_pos && new_pos <= self.end); 
                        assert(new_pos >= self.start && new_pos <= self.end);
                        self.current = Some(new_pos);
                        let new_pos = new_pos - self.start;
                        Ok(new_pos)
                    }
                    Err(e) => {
                        self.current = None;
                        Err(e)
                    }
                }
            }
        }
    }

// `Seek::stream_position` / `Seek::rewind` OVERRIDES.  FileView has none today (std's provided methods are, by
// definition, `self.seek(SeekFrom::Current(0))` and `self.seek(SeekFrom::Start(0)).map(|_| ())`): the blocks are
// `//@optional` -- skipped on the pinned tree -- and put an override that an edit adds under the contract the Seek
// trait documents for it: the position RELATIVE TO THE VIEW START, i.e. what `seek(SeekFrom::Current(0))` returns,
// and nothing moves.  Measure 2: above `seek`'s (0/1), so the override may call `seek` but not the other way round.

// `Tell::tell` (utils/file/tell.rs, `impl<S: Seek> Tell for S`), instantiated at S = FileView: the position of the
// isolated range, nothing moves.  R11: a call `self.stream_position()` is read as `self.seek(SeekFrom::Current(0))`
// -- that IS std's provided method, and an override in `impl Seek for FileView` is held to exactly that by the
// block above (assume/guarantee: if the override differs, `stream_position/...` fails there).
fn tell(&mut self) -> (r: Result<u64, IoError>)
    requires
        
        old(self).wf(),
        
        old(self).cursor_known(),
    ensures
        
        final(self).wf(),
        
        final(self).same_window(old(self)),
        
        r matches Ok(v) ==> v == old(self).vpos(),
        
        r is Ok ==> final(self).cursor_known() && final(self).vpos() == old(self).vpos(),
        
        r is Err ==> !final(self).cursor_known(),
    decreases
        
        3int,
{
        self.seek(SeekFrom::Current(0))
    }
}

} // verus!
fn main() {}

